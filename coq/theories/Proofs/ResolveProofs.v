(* Proofs about Model/Resolve.v (the string layer of reference handling).  Theorems: Properties/C15_resolve.v. *)
From Coq Require Import List String Ascii Bool Arith ZArith Lia.
From Coq Require DecimalString DecimalZ DecimalPos Decimal.
From OIS Require Import Model.Regex Model.Resolve.
Import ListNotations.
Open Scope string_scope.
Open Scope list_scope.

(* ================================================================================ strings and lists *)

Lemma lst_app a b : lst (a ++ b)%string = lst a ++ lst b.
Proof. unfold lst. induction a; simpl; [reflexivity | now rewrite IHa]. Qed.

Lemma lst_str t : lst (str t) = t.
Proof. apply list_ascii_of_string_of_list_ascii. Qed.

Lemma str_lst s : str (lst s) = s.
Proof. apply string_of_list_ascii_of_string. Qed.

Lemma lst_inj a b : lst a = lst b -> a = b.
Proof. intros H. rewrite <- (str_lst a), <- (str_lst b). now rewrite H. Qed.

Lemma str_inj a b : str a = str b -> a = b.
Proof. intros H. rewrite <- (lst_str a), <- (lst_str b). now rewrite H. Qed.

Lemma is_chr_true c d : is_chr c d = true <-> c = d.
Proof. unfold is_chr. apply Ascii.eqb_eq. Qed.

Lemma is_chr_refl c : is_chr c c = true.
Proof. apply is_chr_true. reflexivity. Qed.

(* [nochr d l]: the character d does not occur in l *)
Definition nochr (d : ascii) (l : txt) : bool := forallb (fun c => negb (is_chr c d)) l.

Lemma nochr_app d a b : nochr d (a ++ b) = nochr d a && nochr d b.
Proof. unfold nochr. apply forallb_app. Qed.

Lemma cut_nochr d l : nochr d l = true -> cut d l = (l, None).
Proof.
  induction l as [|c r IH]; simpl; intros H; [reflexivity|].
  apply andb_true_iff in H. destruct H as [Hc Hr].
  apply negb_true_iff in Hc. rewrite Hc, (IH Hr). reflexivity.
Qed.

Lemma cut_app d a b : nochr d a = true -> cut d (a ++ d :: b) = (a, Some b).
Proof.
  induction a as [|c r IH]; simpl; intros H.
  - now rewrite is_chr_refl.
  - apply andb_true_iff in H. destruct H as [Hc Hr].
    apply negb_true_iff in Hc. rewrite Hc, (IH Hr). reflexivity.
Qed.

Lemma cut_spec d l :
  match cut d l with
  | (a, None) => l = a /\ nochr d a = true
  | (a, Some b) => l = a ++ d :: b /\ nochr d a = true
  end.
Proof.
  induction l as [|c r IH]; simpl; [split; reflexivity|].
  destruct (is_chr c d) eqn:E.
  - apply is_chr_true in E. subst c. split; reflexivity.
  - destruct (cut d r) as [a [b|]]; destruct IH as [-> Hn]; simpl; rewrite E; simpl; split; auto.
Qed.

Lemma cut_fst_nochr d l : nochr d (fst (cut d l)) = true.
Proof. pose proof (cut_spec d l) as H. destruct (cut d l) as [a [b|]]; simpl; tauto. Qed.

(* the tail of a reference after its entity segment *)
Definition tl_of (p : option txt) : txt := match p with None => [] | Some p => dot :: p end.

Lemma cut_tl e p : nochr dot e = true -> cut dot (e ++ tl_of p) = (e, p).
Proof.
  intros H. destruct p as [p|]; simpl.
  - now apply cut_app.
  - rewrite app_nil_r. now apply cut_nochr.
Qed.

Lemma cut_rebuild d l : l = fst (cut d l) ++ match snd (cut d l) with Some b => d :: b | None => [] end.
Proof.
  pose proof (cut_spec d l) as H. destruct (cut d l) as [a [b|]]; simpl; destruct H as [-> _]; auto using app_nil_r.
Qed.

Lemma strip_nl_id l : forallb not_nl l = true -> strip_nl l = l.
Proof.
  induction l as [|c r IH]; [reflexivity|]. intros H. simpl in H. apply andb_true_iff in H. destruct H as [Hc Hr].
  simpl. destruct r as [|c' r'].
  - unfold not_nl in Hc. apply negb_true_iff in Hc. now rewrite Hc.
  - now rewrite (IH Hr).
Qed.

(* ================================================================================ characters *)

Lemma digit_cases c : is_digit c = true ->
  is_chr c dot = false /\ is_chr c colon = false /\ is_chr c nl = false /\ is_chr c brace_l = false /\ is_chr c brace_r = false.
Proof.
  destruct c as [[] [] [] [] [] [] [] []]; vm_compute; intros H; try discriminate H; repeat split.
Qed.

Lemma digits_nochr d l : (forall c, is_digit c = true -> is_chr c d = false) -> forallb is_digit l = true -> nochr d l = true.
Proof.
  intros Hd. induction l as [|c r IH]; simpl; [reflexivity|]. intros H. apply andb_true_iff in H. destruct H as [Hc Hr].
  rewrite (Hd c Hc), (IH Hr). reflexivity.
Qed.

Lemma digits_not_nl l : forallb is_digit l = true -> forallb not_nl l = true.
Proof.
  induction l as [|c r IH]; simpl; [reflexivity|]. intros H. apply andb_true_iff in H. destruct H as [Hc Hr].
  unfold not_nl at 1. destruct (digit_cases c Hc) as (_ & _ & -> & _). simpl. auto.
Qed.

(* ================================================================================ str(int) *)

Lemma uint_digits d : forallb is_digit (lst (DecimalString.NilEmpty.string_of_uint d)) = true.
Proof. induction d; simpl; auto. Qed.

Lemma dec_nonneg_digits z : (0 <= z)%Z -> forallb is_digit (lst (dec z)) = true /\ lst (dec z) <> [].
Proof.
  intros Hz. unfold dec. destruct z as [|p|p]; simpl.
  - split; [reflexivity | discriminate].
  - split; [apply uint_digits|].
    pose proof (DecimalPos.Unsigned.to_uint_nonnil p) as Hn.
    destruct (Pos.to_uint p); simpl; try discriminate. now elim Hn.
  - lia.
Qed.

Lemma dec_inj a b : dec a = dec b -> a = b.
Proof.
  unfold dec. intros H.
  assert (E : Some (Z.to_int a) = Some (Z.to_int b)).
  { rewrite <- (DecimalString.NilEmpty.isi (Z.to_int a)), <- (DecimalString.NilEmpty.isi (Z.to_int b)). now rewrite H. }
  injection E as E. rewrite <- (DecimalZ.of_to a), <- (DecimalZ.of_to b). now rewrite E.
Qed.

(* no dot, no newline in the decimal spelling of any integer, negative ones included *)
Lemma uint_nochr d u : is_digit d = false -> nochr d (lst (DecimalString.NilEmpty.string_of_uint u)) = true.
Proof.
  intros Hd. apply digits_nochr; [|apply uint_digits].
  intros c Hc. unfold is_chr. destruct (Ascii.eqb c d) eqn:E; [|reflexivity].
  apply Ascii.eqb_eq in E. subst. congruence.
Qed.

Lemma dec_nochr d z : is_digit d = false -> is_chr (ch "-") d = false -> nochr d (lst (dec z)) = true.
Proof.
  intros Hd Hm. unfold dec. destruct z as [|p|p].
  - change (negb (is_chr "0"%char d) && true = true).
    destruct (is_chr "0"%char d) eqn:E; [|reflexivity]. apply is_chr_true in E. subst. discriminate.
  - now apply uint_nochr.
  - change (negb (is_chr (ch "-") d) && nochr d (lst (DecimalString.NilEmpty.string_of_uint (Pos.to_uint p))) = true).
    rewrite Hm. simpl. now apply uint_nochr.
Qed.

Lemma dec_nodot z : nochr dot (lst (dec z)) = true.
Proof. apply dec_nochr; reflexivity. Qed.

Lemma dec_no_brace z : match lst (dec z) with c :: _ => is_chr c brace_l = false | [] => True end.
Proof.
  pose proof (dec_nochr brace_l z eq_refl eq_refl) as H.
  destruct (lst (dec z)) as [|c r]; [exact I|]. simpl in H. apply andb_true_iff in H. destruct H as [H _].
  now apply negb_true_iff in H.
Qed.

(* ================================================================================ kinds *)

Definition entity_kinds : list string := ["party"; "object_type"; "object_promise"; "action"; "checkpoint"; "thread_group"].

Lemma entity_kind_iff k : In k entity_kinds <-> (mems k ref_types = true /\ String.eqb k "schema" = false).
Proof.
  split.
  - intros H. simpl in H. repeat (destruct H as [<- | H]; [split; reflexivity|]). contradiction.
  - intros [H1 H2]. unfold mems, ref_types in H1. simpl in H1.
    repeat (apply orb_true_iff in H1; destruct H1 as [H1 | H1];
            [apply String.eqb_eq in H1; subst k; simpl; try discriminate H2; tauto|]).
    discriminate.
Qed.

Lemma entity_kind_chars k : In k entity_kinds ->
  nochr colon (lst k) = true /\ nochr dot (lst k) = true /\ mems k ref_types = true /\ String.eqb k "schema" = false.
Proof.
  intros H. simpl in H. repeat (destruct H as [<- | H]; [repeat split; reflexivity|]). contradiction.
Qed.

(* ================================================================================ segments *)

Definition idseg (k : string) (z : Z) : txt := lst k ++ colon :: lst (dec z).
Definition alseg (k a : string) : txt := lst k ++ colon :: brace_l :: lst a ++ [brace_r].
Definition qseg (f : string) : txt := alseg "schema" f.

Lemma lst_as_ref_id k z : lst (as_ref_id k z) = idseg k z.
Proof. unfold as_ref_id, idseg. now rewrite !lst_app. Qed.

Lemma lst_as_ref_alias k a : lst (as_ref_alias k a) = alseg k a.
Proof. unfold as_ref_alias, alseg. now rewrite !lst_app. Qed.

Lemma lst_prepend f r : lst (prepend_schema_id f r) = qseg f ++ dot :: lst r.
Proof.
  unfold prepend_schema_id, qseg, alseg. rewrite !lst_app.
  change (lst "schema:{") with (lst "schema" ++ [colon; brace_l]). change (lst "}.") with [brace_r; dot].
  rewrite <- !app_assoc. simpl. rewrite <- !app_assoc. reflexivity.
Qed.

Lemma lst_with_path r p : lst (with_path r p) = lst r ++ dot :: lst p.
Proof. unfold with_path. now rewrite !lst_app. Qed.

(* what a name must look like for "{name}" to be one segment matching "^{.+}$" *)
Definition name_ok (a : string) : bool :=
  nonempty (lst a) && nochr dot (lst a) && forallb not_nl (lst a).

(* ... and a file name for "schema:{file}" to denote it: split(":")[1] must be the whole of "{file}" *)
Definition file_ok (f : string) : bool := name_ok f && nochr colon (lst f).

Lemma name_ok_parts a : name_ok a = true -> lst a <> [] /\ nochr dot (lst a) = true /\ forallb not_nl (lst a) = true.
Proof.
  unfold name_ok. intros H. apply andb_true_iff in H. destruct H as [H H3]. apply andb_true_iff in H. destruct H as [H1 H2].
  repeat split; auto. intros E. rewrite E in H1. discriminate.
Qed.

Lemma forallb_rev {A} (f : A -> bool) l : forallb f (rev l) = forallb f l.
Proof.
  induction l as [|x r IH]; simpl; [reflexivity|]. rewrite forallb_app, IH. simpl. rewrite andb_true_r. apply andb_comm.
Qed.

Lemma braced_end_intro m : m <> [] -> forallb not_nl m = true -> braced_end (brace_l :: m ++ [brace_r]) = true.
Proof.
  intros Hne Hnl. unfold braced_end. rewrite strip_nl_id.
  2:{ simpl. rewrite forallb_app, Hnl. reflexivity. }
  cbv beta iota. rewrite rev_app_distr. change (rev [brace_r] ++ rev m) with (brace_r :: rev m). cbv beta iota.
  rewrite !is_chr_refl, forallb_rev, Hnl.
  destruct m as [|c r]; [now elim Hne|]. simpl. now destruct (rev r).
Qed.

Lemma braced_end_name a : name_ok a = true -> braced_end (brace_l :: lst a ++ [brace_r]) = true.
Proof. intros H. destruct (name_ok_parts a H) as (Hne & _ & Hnl). now apply braced_end_intro. Qed.

Lemma digits_end_dec z : (0 <= z)%Z -> digits_end (lst (dec z)) = true.
Proof.
  intros Hz. destruct (dec_nonneg_digits z Hz) as [Hd Hne]. unfold digits_end.
  rewrite strip_nl_id by now apply digits_not_nl. rewrite Hd.
  destruct (lst (dec z)); [now elim Hne | reflexivity].
Qed.

(* a segment "kind:X" *)
Lemma seg_cut k X : nochr colon (lst k) = true -> cut colon (lst k ++ colon :: X) = (lst k, Some X).
Proof. apply cut_app. Qed.

Lemma seg_type_seg k X : nochr colon (lst k) = true -> seg_type (lst k ++ colon :: X) = k.
Proof. intros H. unfold seg_type. rewrite (seg_cut k X H). simpl. apply str_lst. Qed.

Lemma after_colon_seg k X : nochr colon (lst k) = true -> after_colon (lst k ++ colon :: X) = X.
Proof. intros H. unfold after_colon. now rewrite (seg_cut k X H). Qed.

Lemma gref_seg k X : nochr colon (lst k) = true ->
  gref (lst k ++ colon :: X) = mems k ref_types && (braced_end X || digits_end X).
Proof. intros H. unfold gref, is_gref_seg. rewrite (seg_cut k X H). unfold str. now rewrite string_of_list_ascii_of_string. Qed.

Lemma schema_chars : nochr colon (lst "schema") = true /\ nochr dot (lst "schema") = true /\ mems "schema" ref_types = true.
Proof. repeat split; reflexivity. Qed.

Lemma unbrace_braced a : unbrace (brace_l :: a ++ [brace_r]) = a.
Proof.
  unfold unbrace. rewrite is_chr_refl, rev_app_distr. change (rev [brace_r] ++ rev a) with (brace_r :: rev a).
  cbv beta iota. rewrite is_chr_refl. apply rev_involutive.
Qed.

Lemma unbrace_plain x : match x with c :: _ => is_chr c brace_l = false | [] => True end -> unbrace x = x.
Proof. destruct x as [|c r]; [reflexivity|]. simpl. now intros ->. Qed.

Record seg_facts (k : string) (e ident : txt) : Prop := mkSegFacts {
  sf_nodot : nochr dot e = true;
  sf_gref : gref e = true;
  sf_type : seg_type e = k;
  sf_ident : unbrace (after_colon e) = ident }.

Lemma idseg_facts k z : In k entity_kinds -> (0 <= z)%Z -> seg_facts k (idseg k z) (lst (dec z)).
Proof.
  intros Hk Hz. destruct (entity_kind_chars k Hk) as (Hc & Hd & Hm & _). unfold idseg. split.
  - rewrite nochr_app, Hd. simpl. apply dec_nodot.
  - rewrite gref_seg by assumption. rewrite Hm, (digits_end_dec z Hz). apply orb_true_r.
  - now apply seg_type_seg.
  - rewrite after_colon_seg by assumption. apply unbrace_plain. apply dec_no_brace.
Qed.

Lemma alseg_facts k a : nochr colon (lst k) = true -> nochr dot (lst k) = true -> mems k ref_types = true ->
  name_ok a = true -> seg_facts k (alseg k a) (lst a).
Proof.
  intros Hc Hd Hm Ha. destruct (name_ok_parts a Ha) as (_ & Hda & _). unfold alseg. split.
  - rewrite nochr_app, Hd. simpl. rewrite nochr_app, Hda. reflexivity.
  - rewrite gref_seg by assumption. now rewrite Hm, (braced_end_name a Ha).
  - now apply seg_type_seg.
  - rewrite after_colon_seg by assumption. apply unbrace_braced.
Qed.

Lemma alseg_entity_facts k a : In k entity_kinds -> name_ok a = true -> seg_facts k (alseg k a) (lst a).
Proof. intros Hk. destruct (entity_kind_chars k Hk) as (Hc & Hd & Hm & _). now apply alseg_facts. Qed.

Lemma qseg_facts f : name_ok f = true -> seg_facts "schema" (qseg f) (lst f).
Proof. destruct schema_chars as (Hc & Hd & Hm). now apply alseg_facts. Qed.

(* ================================================================================ lexing a composed reference *)

Definition qual (q : option txt) : txt := match q with None => [] | Some q => q ++ [dot] end.

Definition qual_ok (q : option txt) : Prop :=
  match q with
  | None => True
  | Some q => nochr dot q = true /\ gref q = true /\ seg_type q = "schema"
  end.

Definition compose (q : option txt) (e : txt) (p : option txt) : txt := qual q ++ e ++ tl_of p.

Record lexed (q : option txt) (e : txt) (p : option txt) (l : txt) : Prop := mkLexed {
  lx_global : is_global_ref_t l = true;
  lx_import : is_import_t l = match q with Some _ => true | None => false end;
  lx_first : match q with Some q' => fst (cut dot l) = q' | None => True end;
  lx_trunc : truncate_t l = e ++ tl_of p;
  lx_seg : entity_seg l = e;
  lx_path : path_text l = p }.

Lemma lex_compose q e p :
  qual_ok q -> nochr dot e = true -> gref e = true -> String.eqb (seg_type e) "schema" = false ->
  lexed q e p (compose q e p).
Proof.
  intros Hq Hd Hg Hs. unfold compose. destruct q as [q|]; simpl.
  - destruct Hq as (Hqd & Hqg & Hqt).
    assert (Hc : cut dot ((q ++ [dot]) ++ e ++ tl_of p) = (q, Some (e ++ tl_of p))).
    { rewrite <- app_assoc. simpl. now apply cut_app. }
    assert (Hi : is_import_t ((q ++ [dot]) ++ e ++ tl_of p) = true).
    { unfold is_import_t. rewrite Hc, (cut_tl e p Hd). simpl. rewrite Hqg, Hg, Hqt. reflexivity. }
    assert (Ht : truncate_t ((q ++ [dot]) ++ e ++ tl_of p) = e ++ tl_of p).
    { unfold truncate_t. rewrite Hi, Hc. reflexivity. }
    split; auto.
    + unfold is_global_ref_t. now rewrite Hc.
    + now rewrite Hc.
    + unfold entity_seg. now rewrite Ht, (cut_tl e p Hd).
    + unfold path_text. now rewrite Ht, (cut_tl e p Hd).
  - assert (Hi : is_import_t (e ++ tl_of p) = false).
    { unfold is_import_t. rewrite (cut_tl e p Hd). destruct p; [|reflexivity]. now rewrite Hs, andb_false_r. }
    assert (Ht : truncate_t (e ++ tl_of p) = e ++ tl_of p).
    { unfold truncate_t. now rewrite Hi. }
    split; auto.
    + unfold is_global_ref_t. now rewrite (cut_tl e p Hd).
    + unfold entity_seg. now rewrite Ht, (cut_tl e p Hd).
    + unfold path_text. now rewrite Ht, (cut_tl e p Hd).
Qed.

(* conversely every global reference is composed of its parts *)
Definition qual_of (l : txt) : option txt := if is_import_t l then Some (fst (cut dot l)) else None.

Lemma decompose l : is_global_ref_t l = true ->
  l = compose (qual_of l) (entity_seg l) (path_text l)
  /\ qual_ok (qual_of l) /\ nochr dot (entity_seg l) = true /\ gref (entity_seg l) = true.
Proof.
  intros Hg. unfold compose, qual_of, entity_seg, path_text, truncate_t.
  destruct (is_import_t l) eqn:Hi.
  - unfold is_import_t in Hi. pose proof (cut_spec dot l) as Hs.
    destruct (cut dot l) as [q [r|]] eqn:Hc; [|discriminate]. destruct Hs as [-> Hqd]. simpl.
    apply andb_true_iff in Hi. destruct Hi as [Hi Ht]. apply andb_true_iff in Hi. destruct Hi as [Hq Hr].
    apply String.eqb_eq in Ht. repeat split; auto.
    + rewrite <- app_assoc. simpl. f_equal. f_equal. unfold tl_of. apply cut_rebuild.
    + apply cut_fst_nochr.
  - simpl. repeat split; auto.
    + unfold tl_of. apply cut_rebuild.
    + apply cut_fst_nochr.
Qed.

(* every segment "type:X" is its type, a colon and what follows *)
Lemma gref_shape e : gref e = true ->
  e = lst (seg_type e) ++ colon :: after_colon e /\ nochr colon (lst (seg_type e)) = true
  /\ mems (seg_type e) ref_types = true /\ (braced_end (after_colon e) || digits_end (after_colon e)) = true.
Proof.
  unfold gref, is_gref_seg, seg_type, after_colon. pose proof (cut_spec colon e) as Hs.
  destruct (cut colon e) as [t [x|]]; [|discriminate]. destruct Hs as [-> Ht]. intros H.
  apply andb_true_iff in H. destruct H as [Hm Hx]. simpl. rewrite lst_str. repeat split; auto.
Qed.

(* ================================================================================ the alias expression *)

Definition brace_tail (X : txt) : bool :=
  match strip_prefix [brace_l] X with Some s => tail_ok s | None => false end.

Lemma brace_tail_eq X : brace_tail X = match X with c :: s => is_chr c brace_l && tail_ok s | [] => false end.
Proof.
  unfold brace_tail. destruct X as [|c s]; [reflexivity|]. cbn [strip_prefix]. unfold is_chr.
  rewrite (Ascii.eqb_sym c brace_l). now destruct (Ascii.eqb brace_l c).
Qed.

(* for the six entity kinds only the plain alternative "kind:{" of the expression can match *)
Lemma alias_re_entity k X : In k entity_kinds -> alias_re (lst k ++ colon :: X) = brace_tail X.
Proof.
  intros H. simpl in H.
  repeat (destruct H as [<- | H];
          [match goal with |- alias_re ?l = _ => change (alias_re l) with ((brace_tail X || false) || false) end;
           now rewrite !orb_false_r|]).
  contradiction.
Qed.

Lemma tail_ok_nl_free s : forallb not_nl s = true -> tail_ok s = match s with _ :: r => existsb (fun c => is_chr c brace_r) r | [] => false end.
Proof. intros H. unfold tail_ok. rewrite (strip_nl_id s H), H. reflexivity. Qed.

Lemma existsb_app_last {A} (f : A -> bool) l x r : f x = true -> existsb f (l ++ x :: r) = true.
Proof. intros H. rewrite existsb_app. simpl. rewrite H. apply orb_true_r. Qed.

(* "{name}" followed by a path without newline is recognised as an alias *)
Lemma brace_tail_name a p : lst a <> [] -> forallb not_nl (lst a) = true -> forallb not_nl (tl_of p) = true ->
  brace_tail ((brace_l :: lst a ++ [brace_r]) ++ tl_of p) = true.
Proof.
  intros Hne Hnl Hp. rewrite brace_tail_eq. simpl.
  rewrite tail_ok_nl_free.
  2:{ rewrite <- app_assoc, forallb_app, Hnl. simpl. exact Hp. }
  destruct (lst a) as [|c r]; [now elim Hne|]. simpl. rewrite <- app_assoc. simpl.
  apply existsb_app_last. apply is_chr_refl.
Qed.

(* a decimal number is not *)
Lemma brace_tail_dec z p : brace_tail (lst (dec z) ++ tl_of p) = false.
Proof.
  rewrite brace_tail_eq. pose proof (dec_no_brace z) as H. destruct (lst (dec z)) as [|c r] eqn:E.
  - exfalso. unfold dec in E. destruct z; simpl in E; try discriminate.
    + pose proof (DecimalPos.Unsigned.to_uint_nonnil p0) as Hn. destruct (Pos.to_uint p0); simpl in E; try discriminate. now elim Hn.
  - simpl. now rewrite H.
Qed.

(* ================================================================================ searching a collection *)

Lemma find_from_sound p c i0 i e : find_from p c i0 = Some (i, e) ->
  exists j, i = i0 + j /\ nth_error c j = Some e /\ p e = true.
Proof.
  revert i0. induction c as [|x r IH]; simpl; intros i0 H; [discriminate|].
  destruct (p x) eqn:Hp.
  - injection H as <- <-. exists 0. rewrite Nat.add_0_r. auto.
  - destruct (IH _ H) as (j & -> & Hn & He). exists (S j). split; [lia | auto].
Qed.

Lemma find_from_first p c i0 j e : nth_error c j = Some e -> p e = true ->
  (forall j' e', j' < j -> nth_error c j' = Some e' -> p e' = false) -> find_from p c i0 = Some (i0 + j, e).
Proof.
  revert i0 j. induction c as [|x r IH]; intros i0 j Hn Hp Hf; [destruct j; discriminate|].
  destruct j as [|j]; simpl in *.
  - injection Hn as ->. rewrite Hp, Nat.add_0_r. reflexivity.
  - rewrite (Hf 0 x (Nat.lt_0_succ j) eq_refl). rewrite (IH (S i0) j Hn Hp).
    + f_equal. f_equal. lia.
    + intros j' e' Hj He. apply (Hf (S j') e'); [lia | exact He].
Qed.

Definition unique_key (key : ent -> option string) (c : list ent) : Prop :=
  forall i j e e' s, nth_error c i = Some e -> nth_error c j = Some e' -> key e = Some s -> key e' = Some s -> i = j.

Definition key_is (key : ent -> option string) (s : string) (e : ent) : bool :=
  match key e with Some s' => String.eqb s' s | None => false end.

Lemma find_unique key c j e s : unique_key key c -> nth_error c j = Some e -> key e = Some s ->
  find_from (key_is key s) c 0 = Some (j, e).
Proof.
  intros Hu Hn Hk. change j with (0 + j) at 1. apply find_from_first; auto.
  - unfold key_is. rewrite Hk. apply String.eqb_refl.
  - intros j' e' Hlt Hn'. unfold key_is. destruct (key e') as [s'|] eqn:Hk'; [|reflexivity].
    destruct (String.eqb s' s) eqn:E; [|reflexivity]. apply String.eqb_eq in E. subst s'.
    pose proof (Hu j' j e' e s Hn' Hn Hk' Hk). lia.
Qed.

(* ================================================================================ well-formed environments *)

Fixpoint nodup_b {A : Type} (eqb : A -> A -> bool) (l : list A) : bool :=
  match l with
  | [] => true
  | x :: r => negb (existsb (eqb x) r) && nodup_b eqb r
  end.

Definition present {A : Type} (l : list (option A)) : list A :=
  flat_map (fun o => match o with Some a => [a] | None => [] end) l.

(* ids pairwise distinct, names / aliases pairwise distinct, in one collection *)
Definition coll_distinct (k : string) (c : list ent) : bool :=
  nodup_b Z.eqb (present (map e_id c)) && nodup_b String.eqb (present (map (get_field (alias_field k)) c)).

(* ids are not negative (the reference grammar has no sign); a name is not empty and has no dot and no newline
   (patterns.alias demands more: no brace, no colon, no leading underscore) *)
Definition coll_lexical (k : string) (c : list ent) : bool :=
  forallb (fun z => (0 <=? z)%Z) (present (map e_id c)) && forallb name_ok (present (map (get_field (alias_field k)) c)).

Definition colls_all (P : string -> list ent -> bool) (cs : colls) : bool := forallb (fun kc => P (fst kc) (snd kc)) cs.
Definition env_all (P : string -> list ent -> bool) (E : env) : bool :=
  colls_all P (native E) && forallb (fun fc => colls_all P (snd fc)) (imported E).

Definition env_distinct (E : env) : bool := env_all coll_distinct E.
Definition env_lexical (E : env) : bool := env_all coll_lexical E.
Definition env_ok (E : env) : bool := env_distinct E && env_lexical E.

Lemma assoc_In {A} k (l : list (string * A)) v : assoc k l = Some v -> In (k, v) l.
Proof.
  induction l as [|[k' v'] r IH]; simpl; [discriminate|]. destruct (String.eqb k k') eqn:E.
  - intros H. injection H as ->. apply String.eqb_eq in E. subst. now left.
  - intros H. right. now apply IH.
Qed.

Lemma env_all_coll P E sid cs k c : env_all P E = true -> schemas_of E sid = Some cs -> assoc k cs = Some c -> P k c = true.
Proof.
  unfold env_all, colls_all. intros H Hs Hc. apply andb_true_iff in H. destruct H as [Hn Hi].
  apply assoc_In in Hc. destruct sid as [f|]; simpl in Hs.
  - apply assoc_In in Hs. rewrite forallb_forall in Hi. specialize (Hi _ Hs). simpl in Hi.
    rewrite forallb_forall in Hi. apply (Hi _ Hc).
  - injection Hs as <-. rewrite forallb_forall in Hn. apply (Hn _ Hc).
Qed.

Lemma In_present {A} (f : ent -> option A) c j e v : nth_error c j = Some e -> f e = Some v -> In v (present (map f c)).
Proof.
  revert j. induction c as [|x r IH]; intros j Hn Hf; [destruct j; discriminate|].
  unfold present. simpl. apply in_or_app. destruct j as [|j]; simpl in Hn.
  - injection Hn as ->. rewrite Hf. left. now left.
  - right. apply (IH j Hn Hf).
Qed.

Lemma nodup_present {A} (eqb : A -> A -> bool) (f : ent -> option A) c :
  (forall a b, eqb a b = true <-> a = b) -> nodup_b eqb (present (map f c)) = true ->
  forall i j e e' v, nth_error c i = Some e -> nth_error c j = Some e' -> f e = Some v -> f e' = Some v -> i = j.
Proof.
  intros Heq. induction c as [|x r IH]; intros Hnd i j e e' v Hi Hj He He'; [destruct i; discriminate|].
  assert (Htail : nodup_b eqb (present (map f r)) = true).
  { unfold present in *. simpl in Hnd. destruct (f x); simpl in Hnd; [|exact Hnd].
    apply andb_true_iff in Hnd. tauto. }
  assert (Hhead : forall j' e'', nth_error r j' = Some e'' -> f x = Some v -> f e'' = Some v -> False).
  { intros j' e'' Hn Hx Hv. unfold present in Hnd. simpl in Hnd. rewrite Hx in Hnd. simpl in Hnd.
    apply andb_true_iff in Hnd. destruct Hnd as [Hnd _]. apply negb_true_iff in Hnd.
    assert (Hex : existsb (eqb v) (present (map f r)) = true).
    { apply existsb_exists. exists v. split; [apply (In_present f r j' e'' v Hn Hv) | now apply Heq]. }
    unfold present in Hex. congruence. }
  destruct i as [|i], j as [|j]; simpl in Hi, Hj.
  - reflexivity.
  - injection Hi as ->. exfalso. apply (Hhead j e' Hj He He').
  - injection Hj as ->. exfalso. apply (Hhead i e Hi He' He).
  - f_equal. apply (IH Htail i j e e' v Hi Hj He He').
Qed.

Lemma Z_eqb_iff a b : Z.eqb a b = true <-> a = b.
Proof. apply Z.eqb_eq. Qed.

Lemma unique_keys k c : coll_distinct k c = true -> forall a, unique_key (ent_key a k) c.
Proof.
  unfold coll_distinct. intros H. apply andb_true_iff in H. destruct H as [Hid Hnm].
  intros a i j e e' s Hi Hj He He'. destruct a; unfold ent_key in *.
  - apply (nodup_present String.eqb (get_field (alias_field k)) c String.eqb_eq Hnm i j e e' s Hi Hj He He').
  - destruct (e_id e) as [z|] eqn:Ez; [|discriminate]. destruct (e_id e') as [z'|] eqn:Ez'; [|discriminate].
    simpl in He, He'. injection He as <-. injection He' as He'. apply dec_inj in He'. subst z'.
    apply (nodup_present Z.eqb e_id c Z_eqb_iff Hid i j e e' z Hi Hj Ez Ez').
Qed.

Lemma lexical_id k c j e z : coll_lexical k c = true -> nth_error c j = Some e -> e_id e = Some z -> (0 <= z)%Z.
Proof.
  unfold coll_lexical. intros H Hn Hz. apply andb_true_iff in H. destruct H as [H _].
  rewrite forallb_forall in H. apply Z.leb_le. apply H. apply (In_present e_id c j e z Hn Hz).
Qed.

Lemma lexical_name k c j e a : coll_lexical k c = true -> nth_error c j = Some e ->
  get_field (alias_field k) e = Some a -> name_ok a = true.
Proof.
  unfold coll_lexical. intros H Hn Ha. apply andb_true_iff in H. destruct H as [_ H].
  rewrite forallb_forall in H. apply H. apply (In_present _ c j e a Hn Ha).
Qed.

Lemma alias_re_idseg k z p : In k entity_kinds -> alias_re (idseg k z ++ tl_of p) = false.
Proof.
  intros Hk. unfold idseg. rewrite <- app_assoc.
  change ((colon :: lst (dec z)) ++ tl_of p) with (colon :: (lst (dec z) ++ tl_of p)).
  rewrite (alias_re_entity k _ Hk). apply brace_tail_dec.
Qed.

Lemma alias_re_alseg k a p : In k entity_kinds -> lst a <> [] -> forallb not_nl (lst a) = true ->
  forallb not_nl (tl_of p) = true -> alias_re (alseg k a ++ tl_of p) = true.
Proof.
  intros Hk Hne Hnl Hp. unfold alseg. rewrite <- app_assoc.
  change ((colon :: brace_l :: lst a ++ [brace_r]) ++ tl_of p) with (colon :: ((brace_l :: lst a ++ [brace_r]) ++ tl_of p)).
  rewrite (alias_re_entity k _ Hk). now apply brace_tail_name.
Qed.

(* ================================================================================ resolution of a composed reference *)

Definition found (sid : option string) (k : string) (r : option (nat * ent)) : option (eref * ent) :=
  option_map (fun ie => ((sid, k, fst ie), snd ie)) r.

Lemma resolve_ent_lexed E q e p l k ident :
  lexed q e p l -> seg_facts k e ident -> In k entity_kinds ->
  resolve_ent E l =
    match schemas_of E (schema_id_t l) with
    | None => Val None
    | Some cs => match assoc k cs with
                 | None => Val None
                 | Some c => Val (found (schema_id_t l) k (find_from (key_matches (alias_re (e ++ tl_of p)) k (str ident)) c 0))
                 end
    end.
Proof.
  intros [Hg Hi Hf Ht Hs Hp] [_ _ Hty Hid] Hk. destruct (entity_kind_chars k Hk) as (_ & _ & _ & Hns).
  unfold resolve_ent, by_alias_t, ref_id_t, ref_kind_t. rewrite Hg, Ht, Hs, Hty, Hid, Hns. reflexivity.
Qed.

Lemma schema_id_native q e p l : lexed q e p l -> q = None -> schema_id_t l = None.
Proof. intros [_ Hi _ _ _ _] ->. unfold schema_id_t. now rewrite Hi. Qed.

Lemma schema_id_qseg f e p l : lexed (Some (qseg f)) e p l -> file_ok f = true -> schema_id_t l = Some f.
Proof.
  intros [_ Hi Hf _ _ _] Hok. unfold schema_id_t. rewrite Hi, Hf.
  unfold file_ok in Hok. apply andb_true_iff in Hok. destruct Hok as [Hn Hc].
  destruct schema_chars as (Hsc & _ & _). unfold qseg, alseg. rewrite after_colon_seg by assumption.
  rewrite cut_nochr.
  2:{ simpl. rewrite nochr_app, Hc. reflexivity. }
  simpl fst. rewrite unbrace_braced. now rewrite str_lst.
Qed.

Lemma qual_ok_qseg f : name_ok f = true -> qual_ok (Some (qseg f)).
Proof. intros H. destruct (qseg_facts f H) as [Hd Hg Ht _]. simpl. auto. Qed.

(* the text of a reference: optional schema qualifier, local part, optional attribute path *)
Definition ref_text (f : option string) (loc : string) (p : option string) : string :=
  let r := match p with Some p => with_path loc p | None => loc end in
  match f with Some f => prepend_schema_id f r | None => r end.

Lemma lst_ref_text f loc p : lst (ref_text f loc p) = compose (option_map qseg f) (lst loc) (option_map lst p).
Proof.
  unfold ref_text, compose. destruct f as [f|], p as [p|]; cbn [option_map qual tl_of];
    rewrite ?lst_prepend, ?lst_with_path, ?app_nil_r, <- ?app_assoc; reflexivity.
Qed.

Definition qualifier_ok (f : option string) : bool := match f with Some f => file_ok f | None => true end.
Definition path_nl_free (p : option string) : bool := match p with Some p => forallb not_nl (lst p) | None => true end.

Lemma qual_ok_of f : qualifier_ok f = true -> qual_ok (option_map qseg f).
Proof.
  destruct f as [f|]; simpl; [|trivial]. unfold file_ok. intros H. apply andb_true_iff in H. destruct H as [H _].
  apply (qual_ok_qseg f H).
Qed.

Lemma schema_id_of f e p l : lexed (option_map qseg f) e p l -> qualifier_ok f = true -> schema_id_t l = f.
Proof.
  destruct f as [f|]; simpl; intros Hl Hq.
  - now apply (schema_id_qseg f e p l).
  - now apply (schema_id_native None e p l).
Qed.

Lemma entity_at_inv E sid k i e : entity_at E (sid, k, i) = Some e ->
  exists cs c, schemas_of E sid = Some cs /\ assoc k cs = Some c /\ nth_error c i = Some e.
Proof.
  unfold entity_at. destruct (schemas_of E sid) as [cs|] eqn:E1; [|discriminate].
  destruct (assoc k cs) as [c|] eqn:E2; [|discriminate]. intros H. exists cs, c. auto.
Qed.

(* (a) the spelling by id of a declared entity resolves to it: native or in a loaded schema, with any path *)
Lemma resolve_id_spelling E f k i e z p :
  env_ok E = true -> In k entity_kinds -> qualifier_ok f = true ->
  entity_at E (f, k, i) = Some e -> e_id e = Some z ->
  resolve E (ref_text f (as_ref_id k z) p) = Val (Some (f, k, i)).
Proof.
  intros Hok Hk Hq Hat Hz. destruct (entity_at_inv _ _ _ _ _ Hat) as (cs & c & Hs & Hc & Hn).
  unfold env_ok in Hok. apply andb_true_iff in Hok. destruct Hok as [Hdist Hlex].
  pose proof (env_all_coll _ _ _ _ _ _ Hdist Hs Hc) as Hcd. pose proof (env_all_coll _ _ _ _ _ _ Hlex Hs Hc) as Hcl.
  pose proof (lexical_id k c i e z Hcl Hn Hz) as Hz0.
  pose proof (idseg_facts k z Hk Hz0) as Hsf. destruct (entity_kind_chars k Hk) as (_ & _ & _ & Hns).
  unfold resolve, resolve_t. rewrite lst_ref_text, lst_as_ref_id.
  assert (Hl : lexed (option_map qseg f) (idseg k z) (option_map lst p) (compose (option_map qseg f) (idseg k z) (option_map lst p))).
  { apply lex_compose; [now apply qual_ok_of | apply Hsf | apply Hsf |]. now rewrite (sf_type _ _ _ Hsf). }
  rewrite (resolve_ent_lexed E _ _ _ _ k _ Hl Hsf Hk), (schema_id_of f _ _ _ Hl Hq), Hs, Hc.
  rewrite (alias_re_idseg k z _ Hk).
  change (key_matches false k (str (lst (dec z)))) with (key_is (ent_key false k) (str (lst (dec z)))).
  rewrite (find_unique (ent_key false k) c i e (str (lst (dec z)))).
  - reflexivity.
  - now apply unique_keys.
  - exact Hn.
  - unfold ent_key. rewrite Hz. simpl. now rewrite str_lst.
Qed.

(* ... and so does its spelling by alias, when the path has no newline in it *)
Lemma resolve_alias_spelling E f k i e a p :
  env_ok E = true -> In k entity_kinds -> qualifier_ok f = true -> path_nl_free p = true ->
  entity_at E (f, k, i) = Some e -> get_field (alias_field k) e = Some a ->
  resolve E (ref_text f (as_ref_alias k a) p) = Val (Some (f, k, i)).
Proof.
  intros Hok Hk Hq Hp Hat Ha. destruct (entity_at_inv _ _ _ _ _ Hat) as (cs & c & Hs & Hc & Hn).
  unfold env_ok in Hok. apply andb_true_iff in Hok. destruct Hok as [Hdist Hlex].
  pose proof (env_all_coll _ _ _ _ _ _ Hdist Hs Hc) as Hcd. pose proof (env_all_coll _ _ _ _ _ _ Hlex Hs Hc) as Hcl.
  pose proof (lexical_name k c i e a Hcl Hn Ha) as Hna.
  pose proof (alseg_entity_facts k a Hk Hna) as Hsf. destruct (name_ok_parts a Hna) as (Hne & _ & Hnl).
  unfold resolve, resolve_t. rewrite lst_ref_text, lst_as_ref_alias.
  assert (Hl : lexed (option_map qseg f) (alseg k a) (option_map lst p) (compose (option_map qseg f) (alseg k a) (option_map lst p))).
  { apply lex_compose; [now apply qual_ok_of | apply Hsf | apply Hsf |].
    rewrite (sf_type _ _ _ Hsf). now destruct (entity_kind_chars k Hk) as (_ & _ & _ & ->). }
  rewrite (resolve_ent_lexed E _ _ _ _ k _ Hl Hsf Hk), (schema_id_of f _ _ _ Hl Hq), Hs, Hc.
  rewrite (alias_re_alseg k a _ Hk Hne Hnl).
  2:{ destruct p as [p|]; simpl in *; auto. }
  change (key_matches true k (str (lst a))) with (key_is (ent_key true k) (str (lst a))).
  rewrite (find_unique (ent_key true k) c i e (str (lst a))).
  - reflexivity.
  - now apply unique_keys.
  - exact Hn.
  - unfold ent_key. rewrite Ha. now rewrite str_lst.
Qed.

(* ================================================================================ what a successful resolution says *)

Lemma resolve_ent_inv E l sid k i e : resolve_ent E l = Val (Some ((sid, k, i), e)) ->
  is_global_ref_t l = true /\ k = ref_kind_t l /\ String.eqb k "schema" = false /\ sid = schema_id_t l /\
  exists cs c, schemas_of E sid = Some cs /\ assoc k cs = Some c /\ nth_error c i = Some e /\
               key_matches (by_alias_t l) k (str (ref_id_t l)) e = true.
Proof.
  unfold resolve_ent. destruct (is_global_ref_t l); simpl; [|discriminate].
  destruct (String.eqb (ref_kind_t l) "schema") eqn:Hs.
  - destruct (schema_id_t l); discriminate.
  - destruct (schemas_of E (schema_id_t l)) as [cs|] eqn:Hcs; [|discriminate].
    destruct (assoc (ref_kind_t l) cs) as [c|] eqn:Hc; [|discriminate].
    destruct (find_from _ c 0) as [[j e']|] eqn:Hf; [|discriminate].
    simpl. intros H. injection H as <- <- <- <-.
    destruct (find_from_sound _ _ _ _ _ Hf) as (j' & -> & Hn & Hp). simpl in Hn.
    repeat split; auto. exists cs, c. auto.
Qed.

Lemma resolved_kind l : is_global_ref_t l = true -> String.eqb (ref_kind_t l) "schema" = false -> In (ref_kind_t l) entity_kinds.
Proof.
  intros Hg Hs. apply entity_kind_iff. split; [|exact Hs].
  destruct (decompose l Hg) as (_ & _ & _ & Hge). now destruct (gref_shape _ Hge) as (_ & _ & Hm & _).
Qed.

(* the qualifier is carried over as written *)
Lemma qual_import l n : (if is_import_t l then fst (cut dot l) ++ dot :: n else n) = qual (qual_of l) ++ n.
Proof. unfold qual_of. destruct (is_import_t l); simpl; [|reflexivity]. now rewrite <- app_assoc. Qed.

(* (e) the exact result of _normalize_ref on a reference that resolves: a reference already written in the target
   spelling is returned as it is, path included; otherwise the result is the qualifier as written, the kind and the
   other spelling -- WITHOUT the path *)
Lemma normalize_shape E b attr l x e : resolve_ent E l = Val (Some (x, e)) ->
  normalize_t E b attr l = Val (
    if b then match get_field attr e with
              | None => l
              | Some nm => if by_alias_t l && String.eqb (str (ref_id_t l)) nm then l
                           else qual (qual_of l) ++ alseg (ref_kind_t l) nm
              end
    else match e_id e with
         | None => l
         | Some z => if by_alias_t l then qual (qual_of l) ++ idseg (ref_kind_t l) z else l
         end).
Proof.
  intros H. destruct x as [[sid k] i]. destruct (resolve_ent_inv _ _ _ _ _ _ H) as (Hg & -> & Hs & -> & cs & c & Hcs & Hc & Hn & Hm).
  unfold normalize_t. rewrite Hg, H. simpl negb. cbv iota. destruct b.
  - destruct (get_field attr e) as [nm|]; [|reflexivity].
    destruct (by_alias_t l && String.eqb (str (ref_id_t l)) nm); [reflexivity|].
    now rewrite qual_import, lst_as_ref_alias.
  - destruct (e_id e) as [z|] eqn:Hz; [|reflexivity].
    destruct (by_alias_t l) eqn:Ha; simpl.
    + now rewrite qual_import, lst_as_ref_id.
    + unfold key_matches, ent_key in Hm. rewrite Hz in Hm. simpl in Hm. rewrite String.eqb_sym in Hm. now rewrite Hm.
Qed.

(* with the alias attribute of the kind, a reference written by alias is in the target spelling *)
Lemma normalize_shape_alias E l x e : resolve_ent E l = Val (Some (x, e)) ->
  normalize_t E true (alias_field (ref_kind_t l)) l = Val (
    match get_field (alias_field (ref_kind_t l)) e with
    | None => l
    | Some nm => if by_alias_t l then l else qual (qual_of l) ++ alseg (ref_kind_t l) nm
    end).
Proof.
  intros H. rewrite (normalize_shape E true _ l x e H).
  destruct x as [[sid k] i]. destruct (resolve_ent_inv _ _ _ _ _ _ H) as (Hg & -> & Hs & -> & cs & c & Hcs & Hc & Hn & Hm).
  destruct (get_field (alias_field (ref_kind_t l)) e) as [nm|] eqn:Hnm; [|reflexivity].
  destruct (by_alias_t l) eqn:Ha; [|reflexivity]. simpl.
  unfold key_matches, ent_key in Hm. rewrite Hnm in Hm. rewrite String.eqb_sym in Hm. now rewrite Hm.
Qed.

(* ================================================================================ the normalised reference *)

Lemma schema_id_same l e p l' : lexed (qual_of l) e p l' -> schema_id_t l' = schema_id_t l.
Proof.
  intros [_ Hi Hf _ _ _]. unfold schema_id_t, qual_of in *. destruct (is_import_t l); rewrite Hi; [|reflexivity]. now rewrite Hf.
Qed.

Lemma qual_of_same l e p l' : lexed (qual_of l) e p l' -> qual_of l' = qual_of l.
Proof.
  intros [_ Hi Hf _ _ _]. unfold qual_of in *. destruct (is_import_t l); rewrite Hi; [|reflexivity]. now rewrite Hf.
Qed.

Lemma compose_none q e : compose q e None = qual q ++ e.
Proof. unfold compose. simpl. now rewrite app_nil_r. Qed.

Section Renormal.
  Variables (E : env) (l : txt) (sid : option string) (k : string) (i : nat) (e : ent).
  Hypothesis Hok : env_ok E = true.
  Hypothesis Hres : resolve_ent E l = Val (Some ((sid, k, i), e)).

  Lemma renormal_facts : In k entity_kinds /\ qual_ok (qual_of l) /\ k = ref_kind_t l /\ sid = schema_id_t l /\
    exists cs c, schemas_of E sid = Some cs /\ assoc k cs = Some c /\ nth_error c i = Some e /\
                 coll_distinct k c = true /\ coll_lexical k c = true.
  Proof.
    destruct (resolve_ent_inv _ _ _ _ _ _ Hres) as (Hg & Hk & Hs & Hsid & cs & c & Hcs & Hc & Hn & Hm).
    unfold env_ok in Hok. apply andb_true_iff in Hok. destruct Hok as [Hdist Hlex].
    destruct (decompose l Hg) as (_ & Hq & _ & _).
    repeat split; auto.
    - subst k. now apply resolved_kind.
    - exists cs, c. repeat split; auto.
      + apply (env_all_coll _ _ _ _ _ _ Hdist Hcs Hc).
      + apply (env_all_coll _ _ _ _ _ _ Hlex Hcs Hc).
  Qed.

  Lemma renormal_id z : e_id e = Some z ->
    let l' := qual (qual_of l) ++ idseg k z in
    lexed (qual_of l) (idseg k z) None l' /\ resolve_ent E l' = Val (Some ((sid, k, i), e)).
  Proof.
    intros Hz l'. destruct renormal_facts as (Hk & Hq & Hkl & Hsid & cs & c & Hcs & Hc & Hn & Hcd & Hcl).
    pose proof (lexical_id k c i e z Hcl Hn Hz) as Hz0. pose proof (idseg_facts k z Hk Hz0) as Hsf.
    destruct (entity_kind_chars k Hk) as (_ & _ & _ & Hns).
    assert (Hl : lexed (qual_of l) (idseg k z) None l').
    { unfold l'. rewrite <- compose_none. apply lex_compose; auto; try apply Hsf. now rewrite (sf_type _ _ _ Hsf). }
    split; [exact Hl|].
    rewrite (resolve_ent_lexed E _ _ _ _ k _ Hl Hsf Hk), (schema_id_same l _ _ _ Hl), <- Hsid, Hcs, Hc.
    rewrite (alias_re_idseg k z None Hk).
    change (key_matches false k (str (lst (dec z)))) with (key_is (ent_key false k) (str (lst (dec z)))).
    rewrite (find_unique (ent_key false k) c i e (str (lst (dec z)))); auto.
    - now apply unique_keys.
    - unfold ent_key. rewrite Hz. simpl. now rewrite str_lst.
  Qed.

  Lemma renormal_alias a : get_field (alias_field k) e = Some a ->
    let l' := qual (qual_of l) ++ alseg k a in
    lexed (qual_of l) (alseg k a) None l' /\ resolve_ent E l' = Val (Some ((sid, k, i), e)).
  Proof.
    intros Ha l'. destruct renormal_facts as (Hk & Hq & Hkl & Hsid & cs & c & Hcs & Hc & Hn & Hcd & Hcl).
    pose proof (lexical_name k c i e a Hcl Hn Ha) as Hna. pose proof (alseg_entity_facts k a Hk Hna) as Hsf.
    destruct (name_ok_parts a Hna) as (Hne & _ & Hnl). destruct (entity_kind_chars k Hk) as (_ & _ & _ & Hns).
    assert (Hl : lexed (qual_of l) (alseg k a) None l').
    { unfold l'. rewrite <- compose_none. apply lex_compose; auto; try apply Hsf. now rewrite (sf_type _ _ _ Hsf). }
    split; [exact Hl|].
    rewrite (resolve_ent_lexed E _ _ _ _ k _ Hl Hsf Hk), (schema_id_same l _ _ _ Hl), <- Hsid, Hcs, Hc.
    rewrite (alias_re_alseg k a None Hk Hne Hnl eq_refl).
    change (key_matches true k (str (lst a))) with (key_is (ent_key true k) (str (lst a))).
    rewrite (find_unique (ent_key true k) c i e (str (lst a))); auto.
    - now apply unique_keys.
    - unfold ent_key. rewrite Ha. now rewrite str_lst.
  Qed.
End Renormal.

(* facts about a reference [lexed q e None l'] with a known segment *)
Lemma lexed_by_alias q e p l' : lexed q e p l' -> by_alias_t l' = alias_re (e ++ tl_of p).
Proof. intros [_ _ _ Ht _ _]. unfold by_alias_t. now rewrite Ht. Qed.

Lemma lexed_kind q e p l' k ident : lexed q e p l' -> seg_facts k e ident -> ref_kind_t l' = k /\ ref_id_t l' = ident.
Proof. intros [_ _ _ _ Hs _] [_ _ Ht Hi]. unfold ref_kind_t, ref_id_t. rewrite Hs. auto. Qed.

(* (b) *)
Lemma normalize_preserves_resolution_t E b attr l l' :
  env_ok E = true -> (b = true -> attr = alias_field (ref_kind_t l)) ->
  normalize_t E b attr l = Val l' -> resolve_ent E l' = resolve_ent E l.
Proof.
  intros Hok Hattr Hn. destruct (resolve_ent E l) as [[[x e]|]|err] eqn:Hr.
  - destruct x as [[sid k] i].
    destruct (renormal_facts E l sid k i e Hok Hr) as (Hk & _ & Hkl & _).
    destruct b.
    + rewrite (Hattr eq_refl), (normalize_shape_alias E l _ e Hr) in Hn. injection Hn as <-. rewrite <- Hkl.
      destruct (get_field (alias_field k) e) as [nm|] eqn:Hnm; [|exact Hr].
      destruct (by_alias_t l); [exact Hr|].
      apply (renormal_alias E l sid k i e Hok Hr nm Hnm).
    + rewrite (normalize_shape E false attr l _ e Hr) in Hn. injection Hn as <-. rewrite <- Hkl.
      destruct (e_id e) as [z|] eqn:Hz; [|exact Hr].
      destruct (by_alias_t l); [|exact Hr].
      apply (renormal_id E l sid k i e Hok Hr z Hz).
  - unfold normalize_t in Hn. rewrite Hr in Hn. destruct (negb (is_global_ref_t l)); injection Hn as <-; exact Hr.
  - unfold normalize_t in Hn. rewrite Hr in Hn. destruct (negb (is_global_ref_t l)); [injection Hn as <-; exact Hr | discriminate].
Qed.

Lemma normalize_idempotent_t E b attr l l' :
  env_ok E = true -> (b = true -> attr = alias_field (ref_kind_t l)) ->
  normalize_t E b attr l = Val l' -> normalize_t E b attr l' = Val l'.
Proof.
  intros Hok Hattr Hn. destruct (resolve_ent E l) as [[[x e]|]|err] eqn:Hr.
  - destruct x as [[sid k] i].
    destruct (renormal_facts E l sid k i e Hok Hr) as (Hk & _ & Hkl & _).
    destruct b.
    + rewrite (Hattr eq_refl), (normalize_shape_alias E l _ e Hr) in Hn. injection Hn as Hl'. rewrite <- Hkl in Hl'.
      rewrite (Hattr eq_refl), <- Hkl.
      destruct (get_field (alias_field k) e) as [nm|] eqn:Hnm.
      2:{ subst l'. rewrite Hkl. rewrite (normalize_shape_alias E l _ e Hr). rewrite <- Hkl, Hnm. reflexivity. }
      destruct (by_alias_t l) eqn:Ha.
      { subst l'. rewrite Hkl. rewrite (normalize_shape_alias E l _ e Hr). rewrite <- Hkl, Hnm, Ha. reflexivity. }
      destruct (renormal_alias E l sid k i e Hok Hr nm Hnm) as [Hlx Hr']. rewrite Hl' in Hlx, Hr'.
      pose proof (alseg_entity_facts k nm Hk) as Hsf.
      destruct (renormal_facts E l sid k i e Hok Hr) as (_ & _ & _ & _ & cs & c & Hcs & Hc & Hnth & _ & Hcl).
      pose proof (lexical_name k c i e nm Hcl Hnth Hnm) as Hna. specialize (Hsf Hna).
      destruct (lexed_kind _ _ _ _ _ _ Hlx Hsf) as [Hk' _].
      rewrite <- Hk' at 1. rewrite (normalize_shape_alias E l' _ e Hr'). rewrite Hk', Hnm.
      rewrite (lexed_by_alias _ _ _ _ Hlx). destruct (name_ok_parts nm Hna) as (Hne & _ & Hnl).
      now rewrite (alias_re_alseg k nm None Hk Hne Hnl eq_refl).
    + rewrite (normalize_shape E false attr l _ e Hr) in Hn. injection Hn as Hl'. rewrite <- Hkl in Hl'.
      destruct (e_id e) as [z|] eqn:Hz.
      2:{ subst l'. rewrite (normalize_shape E false attr l _ e Hr), Hz. reflexivity. }
      destruct (by_alias_t l) eqn:Ha.
      2:{ subst l'. rewrite (normalize_shape E false attr l _ e Hr), Hz, Ha. reflexivity. }
      destruct (renormal_id E l sid k i e Hok Hr z Hz) as [Hlx Hr']. rewrite Hl' in Hlx, Hr'.
      rewrite (normalize_shape E false attr l' _ e Hr'), Hz.
      rewrite (lexed_by_alias _ _ _ _ Hlx). now rewrite (alias_re_idseg k z None Hk).
  - unfold normalize_t in Hn. rewrite Hr in Hn. destruct (negb (is_global_ref_t l)); injection Hn as <-;
      unfold normalize_t; rewrite Hr; now destruct (negb (is_global_ref_t l)).
  - unfold normalize_t in Hn. rewrite Hr in Hn. destruct (negb (is_global_ref_t l)) eqn:Hg; [|discriminate].
    injection Hn as <-. unfold normalize_t. now rewrite Hg.
Qed.

(* ================================================================================ (c) path-free references *)

Lemma strip_nl_cons c x X : strip_nl (c :: x :: X) = c :: strip_nl (x :: X).
Proof. reflexivity. Qed.

(* an identifier matching "^{.+}$" is seen as an alias by the alias expression *)
Lemma braced_brace_tail ID : braced_end ID = true -> brace_tail ID = true.
Proof.
  unfold braced_end. rewrite brace_tail_eq. destruct ID as [|c [|x X]].
  - discriminate.
  - simpl. destruct (is_chr c nl); simpl; [discriminate|]. rewrite andb_false_r. discriminate.
  - rewrite strip_nl_cons. intros H. apply andb_true_iff in H. destruct H as [Hc H]. rewrite Hc. simpl.
    unfold tail_ok. set (r := strip_nl (x :: X)) in *.
    destruct (rev r) as [|e m] eqn:Hr; [discriminate|].
    apply andb_true_iff in H. destruct H as [H Hm]. apply andb_true_iff in H. destruct H as [He Hne].
    assert (Er : r = rev m ++ [e]). { rewrite <- (rev_involutive r), Hr. reflexivity. }
    rewrite Er, forallb_app, forallb_rev, Hm. simpl.
    apply is_chr_true in He. subst e. simpl.
    destruct m as [|y m']; [discriminate|]. simpl. destruct (rev m') as [|z w]; simpl.
    + reflexivity.
    + apply existsb_app_last. reflexivity.
Qed.

Lemma digits_end_first ID : digits_end ID = true -> match ID with c :: _ => is_digit c = true | [] => False end.
Proof.
  unfold digits_end. destruct ID as [|c [|x X]].
  - discriminate.
  - simpl. destruct (is_chr c nl); simpl; [discriminate|]. now rewrite andb_true_r.
  - rewrite strip_nl_cons. simpl. intros H. apply andb_true_iff in H. tauto.
Qed.

Lemma digits_end_unbrace ID : digits_end ID = true -> unbrace ID = ID.
Proof.
  intros H. apply digits_end_first in H. destruct ID as [|c r]; [reflexivity|].
  apply unbrace_plain. now destruct (digit_cases c H) as (_ & _ & _ & -> & _).
Qed.

Lemma digits_end_not_brace_tail ID : digits_end ID = true -> brace_tail ID = false.
Proof.
  intros H. apply digits_end_first in H. rewrite brace_tail_eq. destruct ID as [|c r]; [reflexivity|].
  now destruct (digit_cases c H) as (_ & _ & _ & -> & _).
Qed.

(* the identifier part of a reference that is an alias and whose alias has no newline is exactly "{alias}" *)
Lemma braced_ident ID a : braced_end ID = true -> unbrace ID = a -> forallb not_nl a = true ->
  ID = brace_l :: a ++ [brace_r].
Proof.
  intros Hb Hu Hnl. unfold braced_end in Hb. destruct ID as [|c X]; [discriminate|].
  assert (Hc : is_chr c brace_l = true).
  { destruct X as [|x X']; [simpl in Hb; destruct (is_chr c nl); simpl in Hb; [discriminate|]; apply andb_true_iff in Hb; tauto|].
    rewrite strip_nl_cons in Hb. apply andb_true_iff in Hb. tauto. }
  unfold unbrace in Hu. rewrite Hc in Hu. apply is_chr_true in Hc. subst c.
  destruct (rev X) as [|e m] eqn:Hr.
  - (* X = [] : the identifier is just the opening brace, not matched *)
    assert (X = []) by (rewrite <- (rev_involutive X), Hr; reflexivity). subst X. simpl in Hb. discriminate.
  - assert (EX : X = rev m ++ [e]) by (rewrite <- (rev_involutive X), Hr; reflexivity).
    destruct (is_chr e brace_r) eqn:He.
    + apply is_chr_true in He. subst e a. now rewrite EX.
    + (* not closed by a brace: then the whole identifier is the alias, has no newline, and does not match *)
      subst a. rewrite (strip_nl_id _ Hnl) in Hb. rewrite Hr, He in Hb. simpl in Hb. discriminate.
Qed.

Section PathFree.
  Variables (E : env) (l : txt) (sid : option string) (k : string) (i : nat) (e : ent).
  Hypothesis Hok : env_ok E = true.
  Hypothesis Hres : resolve_ent E l = Val (Some ((sid, k, i), e)).
  Hypothesis Hpf : ref_has_path_t l = false.

  Lemma path_free_text : exists ID, l = qual (qual_of l) ++ lst k ++ colon :: ID /\
    (braced_end ID || digits_end ID) = true /\ by_alias_t l = brace_tail ID /\ ref_id_t l = unbrace ID.
  Proof.
    destruct (resolve_ent_inv _ _ _ _ _ _ Hres) as (Hg & Hk & Hs & Hsid & _).
    destruct (decompose l Hg) as (Hl & Hq & Hd & Hge).
    destruct (gref_shape _ Hge) as (He & Hc & Hm & Hid).
    assert (Hp : path_text l = None). { unfold ref_has_path_t in Hpf. now destruct (path_text l). }
    assert (Hkk : seg_type (entity_seg l) = k) by (now subst k).
    assert (Hlx : lexed (qual_of l) (entity_seg l) None l).
    { rewrite Hl at 3. rewrite Hp. apply lex_compose; auto. now rewrite Hkk. }
    exists (after_colon (entity_seg l)). repeat split.
    - rewrite Hl at 1. rewrite Hp, compose_none. f_equal. rewrite He at 1. now rewrite Hkk.
    - exact Hid.
    - rewrite (lexed_by_alias _ _ _ _ Hlx). simpl. rewrite app_nil_r. rewrite He at 1. rewrite Hkk.
      apply alias_re_entity. destruct (renormal_facts E l sid k i e Hok Hres) as (Hin & _). exact Hin.
  Qed.

  (* whatever the spelling, the path-free reference normalises to the qualifier as written, the kind and the id *)
  Lemma path_free_normal_id z attr : e_id e = Some z ->
    normalize_t E false attr l = Val (qual (qual_of l) ++ idseg k z).
  Proof.
    intros Hz. rewrite (normalize_shape E false attr l _ e Hres), Hz.
    destruct (resolve_ent_inv _ _ _ _ _ _ Hres) as (_ & Hk & _ & _ & _ & _ & _ & _ & _ & Hm).
    rewrite <- Hk. destruct (by_alias_t l) eqn:Ha; [reflexivity|].
    destruct path_free_text as (ID & Hl & Hid & Hba & Hrid).
    unfold key_matches, ent_key in Hm. rewrite Hz in Hm. simpl in Hm. apply String.eqb_eq in Hm.
    rewrite Hrid in Hm. rewrite Ha in Hba.
    apply orb_true_iff in Hid. destruct Hid as [Hb|Hdg].
    - rewrite (braced_brace_tail ID Hb) in Hba. discriminate.
    - rewrite (digits_end_unbrace ID Hdg) in Hm. f_equal. rewrite Hl at 1. unfold idseg. f_equal. f_equal. f_equal.
      rewrite <- (lst_str ID), <- Hm. reflexivity.
  Qed.

  (* an entity without id can only have been found by its alias, and the text is then determined *)
  Lemma path_free_no_id : e_id e = None ->
    exists a, get_field (alias_field k) e = Some a /\ l = qual (qual_of l) ++ alseg k a.
  Proof.
    intros Hz. destruct (resolve_ent_inv _ _ _ _ _ _ Hres) as (_ & Hk & _ & _ & _ & _ & _ & _ & _ & Hm).
    destruct (renormal_facts E l sid k i e Hok Hres) as (_ & _ & _ & _ & cs & c & Hcs & Hc & Hnth & _ & Hcl).
    destruct path_free_text as (ID & Hl & Hid & Hba & Hrid).
    unfold key_matches, ent_key in Hm. destruct (by_alias_t l) eqn:Ha.
    2:{ rewrite Hz in Hm. discriminate. }
    destruct (get_field (alias_field k) e) as [a|] eqn:Hf; [|discriminate].
    apply String.eqb_eq in Hm. exists a. split; [reflexivity|].
    pose proof (lexical_name k c i e a Hcl Hnth Hf) as Hna. destruct (name_ok_parts a Hna) as (_ & _ & Hnl).
    apply orb_true_iff in Hid. destruct Hid as [Hb|Hdg].
    - rewrite Hl at 1. unfold alseg. f_equal. f_equal. f_equal.
      apply braced_ident; auto. rewrite <- Hrid. rewrite <- (lst_str (ref_id_t l)), <- Hm. reflexivity.
    - rewrite (digits_end_not_brace_tail ID Hdg) in Hba. discriminate.
  Qed.
End PathFree.

Lemma resolve_ent_same_entity E l1 l2 x e1 e2 :
  resolve_ent E l1 = Val (Some (x, e1)) -> resolve_ent E l2 = Val (Some (x, e2)) -> e1 = e2.
Proof.
  destruct x as [[sid k] i]. intros H1 H2.
  destruct (resolve_ent_inv _ _ _ _ _ _ H1) as (_ & _ & _ & _ & cs & c & Hcs & Hc & Hn & _).
  destruct (resolve_ent_inv _ _ _ _ _ _ H2) as (_ & _ & _ & _ & cs' & c' & Hcs' & Hc' & Hn' & _).
  rewrite Hcs in Hcs'. injection Hcs' as <-. rewrite Hc in Hc'. injection Hc' as <-. congruence.
Qed.

Lemma unique_field_iff_t E attr l1 l2 x1 e1 x2 e2 :
  env_ok E = true -> ref_has_path_t l1 = false -> ref_has_path_t l2 = false ->
  resolve_ent E l1 = Val (Some (x1, e1)) -> resolve_ent E l2 = Val (Some (x2, e2)) -> qual_of l1 = qual_of l2 ->
  (normalize_t E false attr l1 = normalize_t E false attr l2 <-> x1 = x2).
Proof.
  intros Hok Hp1 Hp2 H1 H2 Hq. split.
  - intros Hn.
    destruct (normalize_t E false attr l1) as [n1|] eqn:Hn1.
    2:{ rewrite (normalize_shape E false attr l1 _ _ H1) in Hn1. discriminate. }
    symmetry in Hn.
    pose proof (normalize_preserves_resolution_t E false attr l1 n1 Hok (fun H => False_ind _ (Bool.diff_false_true H)) Hn1) as P1.
    pose proof (normalize_preserves_resolution_t E false attr l2 n1 Hok (fun H => False_ind _ (Bool.diff_false_true H)) Hn) as P2.
    rewrite P1, H1 in P2. rewrite H2 in P2. congruence.
  - intros <-. pose proof (resolve_ent_same_entity E l1 l2 x1 e1 e2 H1 H2) as <-.
    destruct x1 as [[sid k] i]. destruct (e_id e1) as [z|] eqn:Hz.
    + rewrite (path_free_normal_id E l1 sid k i e1 Hok H1 Hp1 z attr Hz).
      rewrite (path_free_normal_id E l2 sid k i e1 Hok H2 Hp2 z attr Hz). now rewrite Hq.
    + destruct (path_free_no_id E l1 sid k i e1 Hok H1 Hp1 Hz) as (a & Ha & Hl1).
      destruct (path_free_no_id E l2 sid k i e1 Hok H2 Hp2 Hz) as (a' & Ha' & Hl2).
      rewrite Ha in Ha'. injection Ha' as <-. rewrite Hq in Hl1. rewrite <- Hl2 in Hl1. now subst l2.
Qed.

(* ================================================================================ (d) references that do not resolve *)

Lemma resolve_t_none E l : resolve_t E l = Val None -> resolve_ent E l = Val None.
Proof. unfold resolve_t. destruct (resolve_ent E l) as [[xe|]|]; simpl; intros H; try discriminate; reflexivity. Qed.

Lemma resolve_t_some E l x : resolve_t E l = Val (Some x) -> exists e, resolve_ent E l = Val (Some (x, e)).
Proof.
  unfold resolve_t. destruct (resolve_ent E l) as [[[x' e]|]|]; simpl; intros H; try discriminate.
  injection H as <-. now exists e.
Qed.

Lemma resolve_t_raise E l err : resolve_t E l = Raise err -> resolve_ent E l = Raise err.
Proof. unfold resolve_t. destruct (resolve_ent E l) as [[xe|]|]; simpl; intros H; try discriminate; congruence. Qed.

Lemma unresolvable_unchanged_t E b attr l : resolve_t E l = Val None -> normalize_t E b attr l = Val l.
Proof. intros H. apply resolve_t_none in H. unfold normalize_t. rewrite H. now destruct (negb (is_global_ref_t l)). Qed.

Lemma invalid_iff_t E l : resolve_t E l = Raise InvalidRef <-> is_global_ref_t l = false.
Proof.
  unfold resolve_t, resolve_ent. destruct (is_global_ref_t l); simpl; [|tauto]. split; [|discriminate].
  destruct (String.eqb (ref_kind_t l) "schema").
  - destruct (schema_id_t l); discriminate.
  - destruct (schemas_of E (schema_id_t l)); [|discriminate]. destruct (assoc _ _); discriminate.
Qed.

Lemma invalid_unchanged_t E b attr l : is_global_ref_t l = false -> normalize_t E b attr l = Val l.
Proof. intros H. unfold normalize_t. now rewrite H. Qed.

Lemma import_is_global l : is_import_t l = true -> is_global_ref_t l = true.
Proof.
  unfold is_import_t, is_global_ref_t. destruct (cut dot l) as [s0 [r|]]; [|discriminate]. simpl.
  intros H. apply andb_true_iff in H. destruct H as [H _]. apply andb_true_iff in H. tauto.
Qed.

(* a reference qualified by a schema that is not loaded never resolves, whatever the native collections contain *)
Lemma unloaded_never_resolves_t E l f : schema_id_t l = Some f -> assoc f (imported E) = None -> resolve_t E l = Val None.
Proof.
  intros Hs Hf. assert (Hi : is_import_t l = true). { unfold schema_id_t in Hs. now destruct (is_import_t l). }
  unfold resolve_t, resolve_ent. rewrite (import_is_global l Hi), Hs. simpl.
  destruct (String.eqb (ref_kind_t l) "schema"); [reflexivity|]. now rewrite Hf.
Qed.

Lemma prepend_schema_id_parses f r : file_ok f = true -> is_global_ref r = true ->
  parse_schema_id (prepend_schema_id f r) = Some f.
Proof.
  intros Hf Hg. unfold parse_schema_id. rewrite lst_prepend.
  unfold file_ok in Hf. pose proof Hf as Hf'. apply andb_true_iff in Hf'. destruct Hf' as [Hn Hc].
  destruct (qseg_facts f Hn) as [Hqd Hqg Hqt _].
  assert (Hcut : cut dot (qseg f ++ dot :: lst r) = (qseg f, Some (lst r))) by now apply cut_app.
  assert (Hi : is_import_t (qseg f ++ dot :: lst r) = true).
  { unfold is_import_t. rewrite Hcut, Hqg, Hqt. unfold is_global_ref, is_global_ref_t in Hg. now rewrite Hg. }
  unfold schema_id_t. rewrite Hi, Hcut. cbn [fst].
  destruct schema_chars as (Hsc & _ & _). unfold qseg, alseg. rewrite after_colon_seg by assumption.
  rewrite cut_nochr.
  2:{ simpl. rewrite nochr_app, Hc. reflexivity. }
  simpl fst. rewrite unbrace_braced. now rewrite str_lst.
Qed.

(* ================================================================================ reduce_ref *)

Lemma reduce_ref_compose l : is_global_ref_t l = true -> reduce_ref_t l = compose (qual_of l) (entity_seg l) None.
Proof.
  intros Hg. unfold reduce_ref_t, compose, qual_of, entity_seg, truncate_t.
  destruct (cut dot l) as [s0 [r|]] eqn:Hc.
  - destruct (is_import_t l); simpl; rewrite ?Hc; simpl; rewrite ?app_nil_r; [now rewrite <- app_assoc | reflexivity].
  - assert (Hi : is_import_t l = false) by (unfold is_import_t; now rewrite Hc).
    rewrite Hi, Hc. simpl. now rewrite app_nil_r.
Qed.

Lemma reduce_ref_lexed l : is_global_ref_t l = true -> String.eqb (ref_kind_t l) "schema" = false ->
  lexed (qual_of l) (entity_seg l) None (reduce_ref_t l).
Proof.
  intros Hg Hs. rewrite (reduce_ref_compose l Hg). destruct (decompose l Hg) as (_ & Hq & Hd & Hge).
  now apply lex_compose.
Qed.

Lemma self_lexed l : is_global_ref_t l = true -> String.eqb (ref_kind_t l) "schema" = false ->
  lexed (qual_of l) (entity_seg l) (path_text l) l.
Proof.
  intros Hg Hs. destruct (decompose l Hg) as (Hl & Hq & Hd & Hge). rewrite Hl at 4. now apply lex_compose.
Qed.

Lemma self_seg_facts l : is_global_ref_t l = true -> seg_facts (ref_kind_t l) (entity_seg l) (ref_id_t l).
Proof. intros Hg. destruct (decompose l Hg) as (_ & _ & Hd & Hge). now split. Qed.

(* on a reference without newline the alias expression only looks at the identifier *)
Lemma brace_tail_path ID p : (braced_end ID || digits_end ID) = true -> forallb not_nl (ID ++ tl_of p) = true ->
  brace_tail (ID ++ tl_of p) = brace_tail ID.
Proof.
  intros Hid Hnl. apply orb_true_iff in Hid. destruct Hid as [Hb|Hd].
  - rewrite (braced_brace_tail ID Hb). rewrite brace_tail_eq. pose proof (braced_brace_tail ID Hb) as Ht.
    rewrite brace_tail_eq in Ht. destruct ID as [|c X]; [discriminate|]. simpl.
    apply andb_true_iff in Ht. destruct Ht as [Hc Ht]. rewrite Hc. simpl.
    simpl in Hnl. apply andb_true_iff in Hnl. destruct Hnl as [_ Hnl].
    rewrite (tail_ok_nl_free _ Hnl). rewrite forallb_app in Hnl. apply andb_true_iff in Hnl. destruct Hnl as [HX _].
    rewrite (tail_ok_nl_free _ HX) in Ht. destruct X as [|x X']; [discriminate|]. simpl.
    rewrite existsb_app, Ht. reflexivity.
  - rewrite (digits_end_not_brace_tail ID Hd). apply digits_end_first in Hd. rewrite brace_tail_eq.
    destruct ID as [|c X]; [contradiction|]. simpl. now destruct (digit_cases c Hd) as (_ & _ & _ & -> & _).
Qed.

Lemma forallb_app_r {A} (f : A -> bool) a b : forallb f (a ++ b) = true -> forallb f b = true.
Proof. rewrite forallb_app. intros H. apply andb_true_iff in H. tauto. Qed.

(* utils.reduce_ref keeps the qualifier and the entity, and only those: it resolves to the same entity *)
Lemma reduce_ref_resolves_t E l xe : forallb not_nl l = true ->
  resolve_ent E l = Val (Some xe) -> resolve_ent E (reduce_ref_t l) = Val (Some xe).
Proof.
  intros Hnl H. destruct xe as [[[sid k] i] e].
  destruct (resolve_ent_inv _ _ _ _ _ _ H) as (Hg & Hk & Hs & Hsid & _).
  rewrite Hk in Hs. pose proof (resolved_kind l Hg Hs) as Hin.
  pose proof (self_lexed l Hg Hs) as L1. pose proof (reduce_ref_lexed l Hg Hs) as L2. pose proof (self_seg_facts l Hg) as SF.
  rewrite (resolve_ent_lexed E _ _ _ _ _ _ L1 SF Hin) in H.
  rewrite (resolve_ent_lexed E _ _ _ _ _ _ L2 SF Hin), (schema_id_same l _ _ _ L2).
  rewrite <- H. simpl tl_of. rewrite app_nil_r.
  destruct (decompose l Hg) as (Hl & _ & _ & Hge). destruct (gref_shape _ Hge) as (He & _ & _ & Hid).
  replace (alias_re (entity_seg l ++ tl_of (path_text l))) with (alias_re (entity_seg l)); [reflexivity|].
  rewrite He at 1 2. rewrite <- app_assoc.
  change ((colon :: after_colon (entity_seg l)) ++ tl_of (path_text l)) with (colon :: (after_colon (entity_seg l) ++ tl_of (path_text l))).
  fold (ref_kind_t l). rewrite !(alias_re_entity _ _ Hin). symmetry. apply brace_tail_path; auto.
  rewrite Hl in Hnl. unfold compose in Hnl. apply forallb_app_r in Hnl. rewrite He in Hnl at 1.
  rewrite <- app_assoc in Hnl. apply forallb_app_r in Hnl. simpl in Hnl. exact Hnl.
Qed.

Lemma reduce_ref_no_path_t l : is_global_ref_t l = true -> String.eqb (ref_kind_t l) "schema" = false ->
  ref_has_path_t (reduce_ref_t l) = false /\ qual_of (reduce_ref_t l) = qual_of l /\ schema_id_t (reduce_ref_t l) = schema_id_t l.
Proof.
  intros Hg Hs. pose proof (reduce_ref_lexed l Hg Hs) as L. repeat split.
  - unfold ref_has_path_t. now rewrite (lx_path _ _ _ _ L).
  - apply (qual_of_same l _ _ _ L).
  - apply (schema_id_same l _ _ _ L).
Qed.

(* ================================================================================ the statements, on strings *)

Definition ref_kind (r : string) : string := ref_kind_t (lst r).
Definition by_alias (r : string) : bool := by_alias_t (lst r).
(* the schema qualifier as it is written, e.g. "schema:{lib}" *)
Definition qualifier_text (r : string) : option string := option_map str (qual_of (lst r)).
Definition requalify (q : option string) (loc : string) : string :=
  match q with Some q => (q ++ "." ++ loc)%string | None => loc end.
Definition nl_free (r : string) : bool := forallb not_nl (lst r).

Lemma str_app a b : str (a ++ b) = (str a ++ str b)%string.
Proof. unfold str. induction a; simpl; [reflexivity | now rewrite IHa]. Qed.

Lemma str_requalify l X : str (qual (qual_of l) ++ X) = requalify (option_map str (qual_of l)) (str X).
Proof.
  unfold requalify. destruct (qual_of l) as [q|]; simpl; [|reflexivity].
  rewrite <- app_assoc, !str_app. reflexivity.
Qed.

Lemma resolve_some_ent E r x : resolve E r = Val (Some x) ->
  exists e, resolve_ent E (lst r) = Val (Some (x, e)) /\ entity_at E x = Some e.
Proof.
  intros H. destruct (resolve_t_some _ _ _ H) as [e He]. exists e. split; [exact He|].
  destruct x as [[sid k] i]. destruct (resolve_ent_inv _ _ _ _ _ _ He) as (_ & _ & _ & _ & cs & c & Hcs & Hc & Hn & _).
  unfold entity_at. now rewrite Hcs, Hc.
Qed.

(* ---- (a) *)
Lemma spellings_agree E f k i e z a p p' :
  env_ok E = true -> In k entity_kinds -> qualifier_ok f = true -> path_nl_free p' = true ->
  entity_at E (f, k, i) = Some e -> e_id e = Some z -> get_field (alias_field k) e = Some a ->
  resolve E (ref_text f (as_ref_id k z) p) = Val (Some (f, k, i)) /\
  resolve E (ref_text f (as_ref_alias k a) p') = Val (Some (f, k, i)).
Proof.
  intros. split; [eapply resolve_id_spelling | eapply resolve_alias_spelling]; eauto.
Qed.

(* resolution by alias never consults ids and vice versa: when the NAME of the entity at position j is the decimal
   spelling of the ID of the entity at position i, the alias spelling denotes j and the id spelling denotes i *)
Lemma numeric_alias_not_confused E f k i j e e' z p p' :
  env_ok E = true -> In k entity_kinds -> qualifier_ok f = true -> path_nl_free p' = true ->
  entity_at E (f, k, i) = Some e -> e_id e = Some z ->
  entity_at E (f, k, j) = Some e' -> get_field (alias_field k) e' = Some (dec z) ->
  resolve E (ref_text f (as_ref_id k z) p) = Val (Some (f, k, i)) /\
  resolve E (ref_text f (as_ref_alias k (dec z)) p') = Val (Some (f, k, j)).
Proof.
  intros. split; [eapply resolve_id_spelling | eapply resolve_alias_spelling]; eauto.
Qed.

(* ---- (b) *)
Lemma normalize_preserves_resolution E b attr r r' :
  env_ok E = true -> (b = true -> attr = alias_field (ref_kind r)) ->
  normalize_attr E b attr r = Val r' -> resolve E r' = resolve E r.
Proof.
  unfold normalize_attr, resolve, resolve_t. intros Hok Ha Hn.
  destruct (normalize_t E b attr (lst r)) as [l'|] eqn:Hl; [|discriminate]. injection Hn as <-.
  rewrite lst_str. now rewrite (normalize_preserves_resolution_t E b attr (lst r) l' Hok Ha Hl).
Qed.

Lemma normalize_idempotent E b attr r r' :
  env_ok E = true -> (b = true -> attr = alias_field (ref_kind r)) ->
  normalize_attr E b attr r = Val r' -> normalize_attr E b attr r' = Val r'.
Proof.
  unfold normalize_attr. intros Hok Ha Hn.
  destruct (normalize_t E b attr (lst r)) as [l'|] eqn:Hl; [|discriminate]. injection Hn as <-.
  rewrite lst_str. now rewrite (normalize_idempotent_t E b attr (lst r) l' Hok Ha Hl).
Qed.

(* ---- (c) *)
Lemma unique_field_iff E r1 r2 x1 x2 :
  env_ok E = true -> ref_has_path r1 = false -> ref_has_path r2 = false ->
  resolve E r1 = Val (Some x1) -> resolve E r2 = Val (Some x2) -> qualifier_text r1 = qualifier_text r2 ->
  (normalize E false r1 = normalize E false r2 <-> x1 = x2).
Proof.
  intros Hok Hp1 Hp2 H1 H2 Hq.
  destruct (resolve_t_some _ _ _ H1) as [e1 He1]. destruct (resolve_t_some _ _ _ H2) as [e2 He2].
  assert (Hq' : qual_of (lst r1) = qual_of (lst r2)).
  { unfold qualifier_text in Hq. destruct (qual_of (lst r1)), (qual_of (lst r2)); simpl in Hq; try discriminate; [|reflexivity].
    injection Hq as Hq. f_equal. now apply str_inj. }
  rewrite <- (unique_field_iff_t E FName (lst r1) (lst r2) x1 e1 x2 e2 Hok Hp1 Hp2 He1 He2 Hq').
  unfold normalize, normalize_attr.
  rewrite (normalize_shape E false FName _ _ _ He1), (normalize_shape E false FName _ _ _ He2). simpl.
  split; intros H; [injection H as H; apply str_inj in H; now rewrite H | injection H as H; now rewrite H].
Qed.

(* ---- (d) *)
Lemma unresolvable_unchanged E b attr r : resolve E r = Val None -> normalize_attr E b attr r = Val r.
Proof. intros H. unfold normalize_attr. rewrite (unresolvable_unchanged_t E b attr _ H). simpl. now rewrite str_lst. Qed.

Lemma invalid_iff E r : resolve E r = Raise InvalidRef <-> is_global_ref r = false.
Proof. apply invalid_iff_t. Qed.

Lemma invalid_unchanged E b attr r : is_global_ref r = false -> normalize_attr E b attr r = Val r.
Proof. intros H. unfold normalize_attr. rewrite (invalid_unchanged_t E b attr _ H). simpl. now rewrite str_lst. Qed.

Lemma unloaded_never_resolves E r f : parse_schema_id r = Some f -> assoc f (imported E) = None ->
  resolve E r = Val None /\ forall b attr, normalize_attr E b attr r = Val r.
Proof.
  intros Hs Hf. pose proof (unloaded_never_resolves_t E (lst r) f Hs Hf) as H. split; [exact H|].
  intros b attr. now apply unresolvable_unchanged.
Qed.

Lemma unloaded_prepended_never_resolves E f r : file_ok f = true -> is_global_ref r = true ->
  assoc f (imported E) = None -> resolve E (prepend_schema_id f r) = Val None.
Proof. intros Hf Hg Ha. apply (unloaded_never_resolves E _ f); auto. now apply prepend_schema_id_parses. Qed.

(* ---- (e) *)
Lemma normalize_exact E r x e : resolve E r = Val (Some x) -> entity_at E x = Some e ->
  normalize_attr E false FName r =
    Val (match e_id e with
         | Some z => if by_alias r then requalify (qualifier_text r) (as_ref_id (ref_kind r) z) else r
         | None => r
         end)
  /\ normalize_attr E true (alias_field (ref_kind r)) r =
    Val (match get_field (alias_field (ref_kind r)) e with
         | Some a => if by_alias r then r else requalify (qualifier_text r) (as_ref_alias (ref_kind r) a)
         | None => r
         end).
Proof.
  intros H Hat. destruct (resolve_some_ent E r x H) as (e' & He & Hat'). rewrite Hat in Hat'. injection Hat' as <-.
  unfold normalize_attr, by_alias, qualifier_text, ref_kind. split.
  - rewrite (normalize_shape E false FName _ _ _ He). simpl. f_equal.
    destruct (e_id e); [|apply str_lst]. destruct (by_alias_t (lst r)); [|apply str_lst].
    rewrite str_requalify. now rewrite <- lst_as_ref_id, str_lst.
  - rewrite (normalize_shape_alias E _ _ _ He). simpl. f_equal.
    destruct (get_field _ e); [|apply str_lst]. destruct (by_alias_t (lst r)); [apply str_lst|].
    rewrite str_requalify. now rewrite <- lst_as_ref_alias, str_lst.
Qed.

(* when the spelling changes the result has no path; when it does not, the reference is returned as it is *)
Lemma normalize_drops_path E r x e z : env_ok E = true -> resolve E r = Val (Some x) -> entity_at E x = Some e ->
  e_id e = Some z -> by_alias r = true ->
  exists r', normalize E false r = Val r' /\ ref_has_path r' = false /\ resolve E r' = Val (Some x).
Proof.
  intros Hok H Hat Hz Ha. destruct (resolve_some_ent E r x H) as (e' & He & Hat'). rewrite Hat in Hat'. injection Hat' as <-.
  destruct x as [[sid k] i]. destruct (renormal_id E (lst r) sid k i e Hok He z Hz) as [Hlx Hr'].
  destruct (renormal_facts E (lst r) sid k i e Hok He) as (_ & _ & Hk & _).
  exists (str (qual (qual_of (lst r)) ++ idseg k z)). repeat split.
  - unfold normalize, normalize_attr. rewrite (normalize_shape E false FName _ _ _ He), Hz. unfold by_alias in Ha. rewrite Ha.
    simpl. now rewrite Hk.
  - unfold ref_has_path, ref_has_path_t. rewrite lst_str. now rewrite (lx_path _ _ _ _ Hlx).
  - unfold resolve, resolve_t. rewrite lst_str, Hr'. reflexivity.
Qed.

(* ---- utils.reduce_ref *)
Lemma reduce_ref_resolves E r x : nl_free r = true -> resolve E r = Val (Some x) ->
  resolve E (reduce_ref r) = Val (Some x) /\ ref_has_path (reduce_ref r) = false /\
  qualifier_text (reduce_ref r) = qualifier_text r /\ parse_schema_id (reduce_ref r) = parse_schema_id r.
Proof.
  intros Hnl H. destruct (resolve_t_some _ _ _ H) as [e He].
  destruct x as [[sid k] i]. destruct (resolve_ent_inv _ _ _ _ _ _ He) as (Hg & Hk & Hs & _). rewrite Hk in Hs.
  destruct (reduce_ref_no_path_t (lst r) Hg Hs) as (Hp & Hq & Hsid).
  unfold resolve, resolve_t, reduce_ref, ref_has_path, qualifier_text, parse_schema_id. rewrite !lst_str.
  rewrite (reduce_ref_resolves_t E (lst r) _ Hnl He), Hp, Hq, Hsid. auto.
Qed.

(* the key the validator uses for an entity reference, _normalize_ref(reduce_ref(ref)), depends on the qualifier as
   written, the kind and the id of the entity only: not on the spelling, not on the path *)
Lemma canonical_key E r x e z : env_ok E = true -> nl_free r = true -> resolve E r = Val (Some x) ->
  entity_at E x = Some e -> e_id e = Some z ->
  normalize E false (reduce_ref r) = Val (requalify (qualifier_text r) (as_ref_id (ref_kind r) z)).
Proof.
  intros Hok Hnl H Hat Hz. destruct (resolve_some_ent E r x H) as (e' & He & Hat'). rewrite Hat in Hat'. injection Hat' as <-.
  destruct x as [[sid k] i]. destruct (resolve_ent_inv _ _ _ _ _ _ He) as (Hg & Hk & Hs & _). rewrite Hk in Hs.
  destruct (reduce_ref_no_path_t (lst r) Hg Hs) as (Hp & Hq & _).
  pose proof (reduce_ref_resolves_t E (lst r) _ Hnl He) as Hr.
  unfold normalize, normalize_attr, reduce_ref. rewrite lst_str.
  rewrite (path_free_normal_id E _ sid k i e Hok Hr Hp z FName Hz). simpl. f_equal.
  rewrite Hq, str_requalify. unfold qualifier_text, ref_kind. rewrite <- Hk. now rewrite <- lst_as_ref_id, str_lst.
Qed.

(* ================================================================================ concrete environments *)

Definition example_env : env :=
  mkEnv [("party", [mkEnt (Some 0%Z) (Some "Project") None; mkEnt (Some 1%Z) (Some "0") None]);
         ("action", [mkEnt (Some 12%Z) (Some "x") None; mkEnt (Some 3%Z) (Some "12") None; mkEnt (Some 1%Z) (Some " two  words ") None]);
         ("checkpoint", [mkEnt (Some 0%Z) None (Some "cp-a"); mkEnt (Some 10%Z) None (Some "1")])]
        [("lib", [("action", [mkEnt (Some 1%Z) (Some "imp") None; mkEnt (Some 12%Z) (Some "1") None])])].

Example example_env_ok : env_ok example_env = true.
Proof. reflexivity. Qed.

Example example_confusable :
  resolve example_env "action:12" = Val (Some (None, "action", 0)) /\
  resolve example_env "action:{12}" = Val (Some (None, "action", 1)) /\
  resolve example_env "action:{x}.object_promise.name" = Val (Some (None, "action", 0)) /\
  resolve example_env "schema:{lib}.action:{1}" = Val (Some (Some "lib", "action", 1)) /\
  resolve example_env "schema:{lib}.action:1" = Val (Some (Some "lib", "action", 0)) /\
  resolve example_env "schema:{other}.action:12" = Val None /\
  normalize example_env false "action:{12}" = Val "action:3" /\
  normalize example_env true "action:3" = Val "action:{12}" /\
  normalize example_env false "schema:{lib}.action:{1}" = Val "schema:{lib}.action:12" /\
  resolve example_env "action:{12" = Raise InvalidRef.
Proof. repeat split; reflexivity. Qed.

(* the naive claim "normalisation preserves the attribute path" is false: the path is dropped exactly when the
   spelling changes *)
Lemma path_preserved_refuted :
  ~ (forall E r r', env_ok E = true -> normalize E false r = Val r' -> ref_has_path r' = ref_has_path r).
Proof.
  intros H. specialize (H example_env "action:{x}.object_promise.name" "action:12" eq_refl eq_refl). discriminate H.
Qed.

Example path_kept_when_spelling_is_kept :
  normalize example_env false "action:12.object_promise.name" = Val "action:12.object_promise.name" /\
  normalize example_env false "action:{x}.object_promise.name" = Val "action:12" /\
  normalize example_env true "action:{x}.object_promise.name" = Val "action:{x}.object_promise.name" /\
  normalize example_env true "action:12.object_promise.name" = Val "action:{x}".
Proof. repeat split; reflexivity. Qed.

(* a path segment containing a newline (patterns.dotless allows it) switches the alias expression off: the alias
   "12" is then looked up as the ID 12 -- the hypothesis [path_nl_free] of resolve_alias_spelling is needed *)
Definition newline_ref : string := ("action:{12}.a" ++ String "010"%char "b")%string.
Lemma newline_path_refuted :
  ~ (forall E f k i e a p, env_ok E = true -> In k entity_kinds -> qualifier_ok f = true ->
       entity_at E (f, k, i) = Some e -> get_field (alias_field k) e = Some a ->
       resolve E (ref_text f (as_ref_alias k a) p) = Val (Some (f, k, i))).
Proof.
  intros H.
  specialize (H example_env None "action" 1 (mkEnt (Some 3%Z) (Some "12") None) "12" (Some ("a" ++ String "010"%char "b")%string)
                eq_refl (or_intror (or_intror (or_intror (or_introl eq_refl)))) eq_refl eq_refl eq_refl).
  vm_compute in H. discriminate H.
Qed.

(* a negative id (the structural layer allows it) is normalised to a text outside the reference grammar *)
Definition negative_env : env := mkEnv [("thread_group", [mkEnt (Some (-1)%Z) (Some "neg") None])] [].
Lemma negative_id_refuted :
  env_distinct negative_env = true /\
  ~ (forall E r r', env_distinct E = true -> normalize E false r = Val r' -> resolve E r' = resolve E r).
Proof.
  split; [reflexivity|]. intros H.
  specialize (H negative_env "thread_group:{neg}" "thread_group:-1" eq_refl eq_refl). vm_compute in H. discriminate H.
Qed.

(* the schema qualifier is compared as written: "schema:{lib}" and "schema:{lib}:junk}" name the same loaded schema
   (parse_schema_id takes the second colon-separated piece), so do "schema:1" and "schema:{1}" for a file called "1";
   the hypothesis [qualifier_text r1 = qualifier_text r2] of unique_field_iff is needed *)
Lemma qualifier_spelling_refuted :
  ~ (forall E r1 r2 x1 x2, env_ok E = true -> ref_has_path r1 = false -> ref_has_path r2 = false ->
       resolve E r1 = Val (Some x1) -> resolve E r2 = Val (Some x2) ->
       (normalize E false r1 = normalize E false r2 <-> x1 = x2)).
Proof.
  intros H.
  specialize (H example_env "schema:{lib}.action:1" "schema:{lib}:junk}.action:{imp}" (Some "lib", "action", 0) (Some "lib", "action", 0)
                eq_refl eq_refl eq_refl eq_refl eq_refl).
  destruct H as [_ H]. specialize (H eq_refl). vm_compute in H. discriminate H.
Qed.

(* with the default alias_attribute_name="name" a checkpoint reference is never rewritten to its alias *)
Example default_attribute_checkpoint :
  normalize example_env true "checkpoint:0" = Val "checkpoint:0" /\
  normalize_attr example_env true FAlias "checkpoint:0" = Val "checkpoint:{cp-a}".
Proof. split; reflexivity. Qed.

(* the data of this file is the generated data of the structural layer *)
Require OIS.Gen.Specs.
Example ref_types_are_the_generated_ones : forall k, In k ref_types <-> In k OIS.Gen.Specs.ref_types.
Proof. intros k. unfold ref_types, OIS.Gen.Specs.ref_types. simpl. tauto. Qed.
