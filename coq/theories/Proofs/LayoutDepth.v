(* Proofs about the depth computation of the chart layout model (node_depths):
   on a well-formed acyclic graph it terminates with fuel S (length nodes), its keys are exactly the nodes,
   each stored depth is the length of the longest chain from an exit node, and edges strictly increase depth. *)
From Coq Require Import List Arith ZArith Bool Lia Relations.
From OIS Require Import Model.Layout Spec.LayoutSpec.
Import ListNotations.

(* ------------------------------------------------------------------ small list facts *)
Lemma memb_In : forall x l, memb x l = true <-> In x l.
Proof.
  intros x l. unfold memb. rewrite existsb_exists. split.
  - intros [y [Hy E]]. apply Nat.eqb_eq in E. subst. exact Hy.
  - intros H. exists x. split; [exact H|apply Nat.eqb_refl].
Qed.

Lemma memb_false : forall x l, memb x l = false <-> ~ In x l.
Proof.
  intros x l. rewrite <- memb_In. destruct (memb x l); split; intro H; congruence.
Qed.

Lemma in_succs : forall edges x y, In y (succs edges x) <-> In (x, y) edges.
Proof.
  intros edges x y. unfold succs. rewrite in_map_iff. split.
  - intros [[a b] [E H]]. apply filter_In in H. destruct H as [H1 H2]. simpl in *.
    apply Nat.eqb_eq in H2. subst. exact H1.
  - intros H. exists (x, y). split; [reflexivity|]. apply filter_In. split; [exact H|]. simpl. apply Nat.eqb_refl.
Qed.

(* ------------------------------------------------------------------ dget / dset *)
Lemma dget_dset : forall m k v x, dget (dset m k v) x = if Nat.eqb x k then Some v else dget m x.
Proof.
  induction m as [|[k' v'] m IH]; intros k v x; simpl.
  - destruct (Nat.eqb x k); reflexivity.
  - destruct (Nat.eqb_spec k k') as [->|Hk]; simpl.
    + destruct (Nat.eqb x k'); reflexivity.
    + rewrite IH. destruct (Nat.eqb_spec x k') as [->|Hx].
      * destruct (Nat.eqb_spec k' k); [congruence|reflexivity].
      * reflexivity.
Qed.

Lemma dset_keys_in : forall m k v x, In x (map fst (dset m k v)) <-> x = k \/ In x (map fst m).
Proof.
  induction m as [|[k' v'] m IH]; intros k v x; simpl.
  - intuition.
  - destruct (Nat.eqb_spec k k') as [->|Hk]; simpl.
    + intuition.
    + rewrite IH. intuition.
Qed.

Lemma dset_keys_nodup : forall m k v, NoDup (map fst m) -> NoDup (map fst (dset m k v)).
Proof.
  induction m as [|[k' v'] m IH]; intros k v H; simpl.
  - constructor; [intros []|constructor].
  - simpl in H. inversion H as [|? ? Hn Hd]; subst.
    destruct (Nat.eqb_spec k k') as [->|Hk]; simpl.
    + constructor; assumption.
    + constructor; [|apply IH; exact Hd].
      intro Hin. apply dset_keys_in in Hin. destruct Hin as [->|Hin]; [congruence|contradiction].
Qed.

Lemma dget_in_keys : forall m k v, dget m k = Some v -> In k (map fst m).
Proof.
  induction m as [|[k' v'] m IH]; intros k v H; simpl in *; [discriminate|].
  destruct (Nat.eqb_spec k k') as [->|Hk]; [left; reflexivity|right; eapply IH; exact H].
Qed.

Lemma in_keys_dget : forall m k, In k (map fst m) -> exists v, dget m k = Some v.
Proof.
  induction m as [|[k' v'] m IH]; intros k H; simpl in *; [contradiction|].
  destruct (Nat.eqb_spec k k') as [->|Hk]; [eauto|].
  destruct H as [H|H]; [congruence|apply IH; exact H].
Qed.

Lemma dget_In : forall m k v, dget m k = Some v -> In (k, v) m.
Proof.
  induction m as [|[k' v'] m IH]; intros k v H; simpl in *; [discriminate|].
  destruct (Nat.eqb_spec k k') as [->|Hk]; [left; congruence|right; apply IH; exact H].
Qed.

Lemma In_dget : forall m k v, NoDup (map fst m) -> In (k, v) m -> dget m k = Some v.
Proof.
  induction m as [|[k' v'] m IH]; intros k v Hnd H; simpl in *; [contradiction|].
  inversion Hnd as [|? ? Hn Hd]; subst.
  destruct H as [H|H].
  - inversion H; subst. rewrite Nat.eqb_refl. reflexivity.
  - destruct (Nat.eqb_spec k k') as [->|Hk]; [|apply IH; assumption].
    exfalso. apply Hn. apply in_map_iff. exists (k', v). split; [reflexivity|exact H].
Qed.

(* ------------------------------------------------------------------ paths *)
Section Depth.
Variable nodes : list nat.
Variable edges : list (nat * nat).
Notation Edge := (Edge edges).
Notation Path := (Path edges).
Notation Reach := (clos_trans nat Edge).

Hypothesis Hwf : WF nodes edges.
Hypothesis Hacyc : Acyclic edges.

Lemma Path_snoc : forall u w n, Path u w n -> forall v, Edge w v -> Path u v (S n).
Proof.
  intros u w n H. induction H as [u|u w0 w n E P IH]; intros v Ev.
  - eapply Path_cons; [exact Ev|apply Path_refl].
  - eapply Path_cons; [exact E|apply IH; exact Ev].
Qed.

Lemma Reach_in_nodes : forall u x, Reach u x -> In x nodes.
Proof.
  intros u x H. induction H as [u x E|u w x _ _ _ IH]; [|exact IH].
  destruct Hwf as [_ W]. apply (W _ _ E).
Qed.

(* the nodes on a path are pairwise distinct *)
Lemma Path_list : forall u v n, Path u v n ->
  exists l, length l = S n /\ NoDup l /\ forall x, In x l -> x = u \/ Reach u x.
Proof.
  intros u v n H. induction H as [u|u w v n E P IH].
  - exists [u]. split; [reflexivity|]. split; [constructor; [intros []|constructor]|].
    intros x [<-|[]]. left; reflexivity.
  - destruct IH as [l [Hl [Hnd Hall]]].
    exists (u :: l). split; [simpl; lia|]. split.
    + constructor; [|exact Hnd]. intro Hin. destruct (Hall _ Hin) as [->|R].
      * apply (Hacyc w). apply t_step. exact E.
      * apply (Hacyc u). eapply t_trans; [apply t_step; exact E|exact R].
    + intros x [<-|Hin]; [left; reflexivity|]. right.
      destruct (Hall _ Hin) as [->|R]; [apply t_step; exact E|].
      eapply t_trans; [apply t_step; exact E|exact R].
Qed.

Lemma Path_bound : forall u v n, In u nodes -> Path u v n -> n < length nodes.
Proof.
  intros u v n Hu P. destruct (Path_list _ _ _ P) as [l [Hl [Hnd Hall]]].
  assert (Hincl : incl l nodes).
  { intros x Hx. destruct (Hall _ Hx) as [->|R]; [exact Hu|eapply Reach_in_nodes; exact R]. }
  pose proof (NoDup_incl_length Hnd Hincl) as L. lia.
Qed.

Lemma Path_start_edge : forall u v n, Path u v (S n) -> In u nodes.
Proof.
  intros u v n P. inversion P as [|? w ? ? E _]; subst. destruct Hwf as [_ W]. apply (W _ _ E).
Qed.

(* exit nodes *)
Lemma exit_nodes_spec : forall v, In v (exit_nodes nodes edges) <-> IsExit nodes edges v.
Proof.
  intros v. unfold exit_nodes, IsExit. rewrite filter_In. split.
  - intros [Hv Hn]. split; [exact Hv|]. intros a Ha. apply negb_true_iff in Hn. apply memb_false in Hn.
    apply Hn. apply in_map_iff. exists (a, v). split; [reflexivity|exact Ha].
  - intros [Hv Hn]. split; [exact Hv|]. apply negb_true_iff. apply memb_false. intro Hin.
    apply in_map_iff in Hin. destruct Hin as [[a b] [E Hin]]. simpl in E. subst. apply (Hn a). exact Hin.
Qed.

(* every node is reached from some exit node (walk backwards; the walk cannot be longer than |nodes|) *)
Lemma exit_reaches : forall v, In v nodes -> exists e n, IsExit nodes edges e /\ Path e v n.
Proof.
  intros v Hv.
  assert (A : forall k, (exists e n, IsExit nodes edges e /\ Path e v n) \/ (exists u, In u nodes /\ Path u v k)).
  { induction k as [|k IH].
    - right. exists v. split; [exact Hv|apply Path_refl].
    - destruct IH as [L|[u [Hu P]]]; [left; exact L|].
      destruct (memb u (map snd edges)) eqn:M.
      + apply memb_In in M. apply in_map_iff in M. destruct M as [[a b] [E Hin]]. simpl in E. subst b.
        right. exists a. split; [destruct Hwf as [_ W]; apply (W _ _ Hin)|].
        eapply Path_cons; [exact Hin|exact P].
      + left. exists u, k. split; [|exact P]. apply exit_nodes_spec. unfold exit_nodes.
        apply filter_In. split; [exact Hu|]. rewrite M. reflexivity. }
  destruct (A (length nodes)) as [L|[u [Hu P]]]; [exact L|].
  pose proof (Path_bound _ _ _ Hu P). lia.
Qed.

(* ------------------------------------------------------------------ the label-correcting recursion *)
Notation depths_rec := (depths_rec edges).
Notation depths_loop := (depths_loop edges).

Lemma depths_rec_unfold : forall f node depth m,
  depths_rec (S f) node depth m = depths_loop f depth (succs edges node) m.
Proof. reflexivity. Qed.

Lemma depths_loop_cons : forall f depth e l m,
  depths_loop f depth (e :: l) m =
  if match dget m e with None => true | Some de => Nat.ltb de (S depth) end
  then match depths_rec f e (S depth) (dset m e (S depth)) with
       | None => None
       | Some m' => depths_loop f depth l m'
       end
  else depths_loop f depth l m.
Proof. reflexivity. Qed.

Lemma depths_loop_nil : forall f depth m, depths_loop f depth [] m = Some m.
Proof. reflexivity. Qed.

Opaque Layout.depths_rec Layout.depths_loop.

(* termination: running out of fuel exhibits a chain with fuel many edges *)
Lemma depths_rec_none : forall fuel node depth m,
  depths_rec fuel node depth m = None -> exists v, Path node v fuel.
Proof.
  induction fuel as [|f IH]; intros node depth m H.
  - exists node. apply Path_refl.
  - rewrite depths_rec_unfold in H.
    assert (L : forall l m0, incl l (succs edges node) -> depths_loop f depth l m0 = None ->
                exists e v, Edge node e /\ Path e v f).
    { induction l as [|e l IHl]; intros m0 Hin HL.
      - rewrite depths_loop_nil in HL. discriminate.
      - rewrite depths_loop_cons in HL.
        assert (He : Edge node e) by (apply in_succs; apply Hin; left; reflexivity).
        assert (Hin' : incl l (succs edges node)) by (intros x Hx; apply Hin; right; exact Hx).
        destruct (match dget m0 e with None => true | Some de => Nat.ltb de (S depth) end).
        + destruct (depths_rec f e (S depth) (dset m0 e (S depth))) as [m2|] eqn:E.
          * apply (IHl _ Hin' HL).
          * destruct (IH _ _ _ E) as [v Pv]. exists e, v. split; assumption.
        + apply (IHl _ Hin' HL). }
    destruct (L _ _ (incl_refl _) H) as [e [v [E P]]].
    exists v. eapply Path_cons; eassumption.
Qed.

Lemma depths_rec_terminates : forall node depth m, In node nodes ->
  depths_rec (S (length nodes)) node depth m <> None.
Proof.
  intros node depth m Hn H. destruct (depths_rec_none _ _ _ _ H) as [v P].
  pose proof (Path_bound _ _ _ Hn P). lia.
Qed.

(* generic invariant preservation *)
Lemma depths_rec_inv : forall (Pre : nat -> nat -> Prop) (Inv : dmap -> Prop),
  (forall n d e, Pre n d -> Edge n e -> Pre e (S d)) ->
  (forall m e d, Inv m -> Pre e d -> Inv (dset m e d)) ->
  forall fuel node depth m m',
    depths_rec fuel node depth m = Some m' -> Pre node depth -> Inv m -> Inv m'.
Proof.
  intros Pre Inv Hstep Hset.
  induction fuel as [|f IH]; intros node depth m m' H Hpre Hinv.
  - discriminate.
  - rewrite depths_rec_unfold in H.
    assert (L : forall l m0 m1, incl l (succs edges node) -> depths_loop f depth l m0 = Some m1 ->
                Inv m0 -> Inv m1).
    { induction l as [|e l IHl]; intros m0 m1 Hin HL Hi.
      - rewrite depths_loop_nil in HL. inversion HL; subst. exact Hi.
      - rewrite depths_loop_cons in HL.
        assert (He : Edge node e) by (apply in_succs; apply Hin; left; reflexivity).
        assert (Hin' : incl l (succs edges node)) by (intros x Hx; apply Hin; right; exact Hx).
        destruct (match dget m0 e with None => true | Some de => Nat.ltb de (S depth) end).
        + destruct (depths_rec f e (S depth) (dset m0 e (S depth))) as [m2|] eqn:E; [|discriminate].
          apply (IHl _ _ Hin' HL). eapply IH; [exact E|eapply Hstep; eassumption|].
          apply Hset; [exact Hi|eapply Hstep; eassumption].
        + apply (IHl _ _ Hin' HL Hi). }
    apply (L _ _ _ (incl_refl _) H Hinv).
Qed.

(* ---- relaxation post-condition (from the spike Depth.v) ---- *)
Definition le_map (m m' : dmap) :=
  forall x d, dget m x = Some d -> exists d', dget m' x = Some d' /\ d <= d'.
Definition Relaxed (m : dmap) (u : nat) :=
  forall d v, dget m u = Some d -> Edge u v -> exists d', dget m v = Some d' /\ S d <= d'.

Lemma le_refl : forall m, le_map m m.
Proof. intros m x d H; eauto. Qed.
Lemma le_trans : forall m1 m2 m3, le_map m1 m2 -> le_map m2 m3 -> le_map m1 m3.
Proof.
  intros m1 m2 m3 A B x d H. destruct (A _ _ H) as [d1 [H1 L1]]. destruct (B _ _ H1) as [d2 [H2 L2]].
  exists d2; split; auto; lia.
Qed.

Definition Post (node depth : nat) (m m' : dmap) :=
  le_map m m' /\
  (forall x, ~ Reach node x -> dget m' x = dget m x) /\
  (forall u, u <> node -> Relaxed m u -> Relaxed m' u) /\
  (dget m node = Some depth -> Relaxed m' node).

Lemma depths_rec_post : forall fuel node depth m m',
  depths_rec fuel node depth m = Some m' -> Post node depth m m'.
Proof.
  induction fuel as [|f IH]; intros node depth m m' H; [discriminate|].
  rewrite depths_rec_unfold in H.
  assert (L : forall l m0 m1, incl l (succs edges node) -> depths_loop f depth l m0 = Some m1 ->
    le_map m0 m1 /\ (forall x, ~ Reach node x -> dget m1 x = dget m0 x) /\
    (forall u, u <> node -> Relaxed m0 u -> Relaxed m1 u) /\
    (forall e, In e l -> exists de, dget m1 e = Some de /\ S depth <= de)).
  { induction l as [|e l IHl]; intros m0 m1 Hin HL.
    - rewrite depths_loop_nil in HL. inversion HL; subst. repeat split; auto using le_refl. intros e [].
    - rewrite depths_loop_cons in HL.
      assert (He : Edge node e) by (apply in_succs; apply Hin; left; reflexivity).
      assert (Hin' : incl l (succs edges node)) by (intros x Hx; apply Hin; right; exact Hx).
      destruct (match dget m0 e with None => true | Some de => Nat.ltb de (S depth) end) eqn:Go.
      + destruct (depths_rec f e (S depth) (dset m0 e (S depth))) as [m2|] eqn:E; [|discriminate].
        destruct (IH _ _ _ _ E) as [P1 [P2 [P3 P4]]].
        destruct (IHl _ _ Hin' HL) as [Q1 [Q2 [Q3 Q4]]].
        assert (U1 : le_map m0 (dset m0 e (S depth))).
        { intros x d Hx. rewrite dget_dset. destruct (Nat.eqb_spec x e) as [->|]; [|eauto].
          rewrite Hx in Go. apply Nat.ltb_lt in Go. exists (S depth); split; auto; lia. }
        split; [eauto using le_trans|]. split; [|split].
        * intros x Hx. rewrite Q2 by exact Hx. rewrite P2.
          -- rewrite dget_dset. destruct (Nat.eqb_spec x e) as [->|]; [|reflexivity].
             exfalso. apply Hx. apply t_step. exact He.
          -- intro R. apply Hx. eapply t_trans; [apply t_step; exact He|exact R].
        * intros u Hu Ru. apply Q3; [exact Hu|].
          destruct (Nat.eq_dec u e) as [->|Hne].
          -- apply P4. rewrite dget_dset. rewrite Nat.eqb_refl. reflexivity.
          -- apply P3; [exact Hne|]. intros d v Hu' Ev. rewrite dget_dset in Hu'.
             destruct (Nat.eqb_spec u e); [congruence|].
             destruct (Ru d v Hu' Ev) as [d' [Hv Lv]]. destruct (U1 _ _ Hv) as [d'' [Hv' Lv']].
             exists d''; split; auto; lia.
        * intros x [<-|Hx]; [|apply Q4; exact Hx].
          destruct (P1 e (S depth)) as [d' [Hd' Ld']]; [rewrite dget_dset; rewrite Nat.eqb_refl; reflexivity|].
          destruct (Q1 _ _ Hd') as [d'' [Hd'' Ld'']]. exists d''; split; auto; lia.
      + destruct (IHl _ _ Hin' HL) as [Q1 [Q2 [Q3 Q4]]]. repeat split; auto.
        intros x [<-|Hx]; [|apply Q4; exact Hx].
        destruct (dget m0 e) as [de|] eqn:Me; [|discriminate]. apply Nat.ltb_ge in Go.
        destruct (Q1 _ _ Me) as [d' [Hd' Ld']]. exists d'; split; auto; lia. }
  destruct (L _ _ _ (incl_refl _) H) as [A [B [C D]]].
  split; [exact A|]. split; [exact B|]. split; [exact C|].
  intros Hm d v Hd Ev. rewrite B in Hd by apply Hacyc. rewrite Hm in Hd. inversion Hd; subst.
  apply D. apply in_succs. exact Ev.
Qed.

(* ------------------------------------------------------------------ the loop over the exit nodes *)
Definition AllChain (m : dmap) := forall x d, dget m x = Some d -> ChainTo nodes edges x d.
Definition KeysOK (m : dmap) := NoDup (map fst m) /\ incl (map fst m) nodes.

Lemma depths_from_ok : forall exits m m',
  (forall e, In e exits -> IsExit nodes edges e) ->
  depths_from edges (S (length nodes)) exits m = Some m' ->
  (forall u, Relaxed m u) -> AllChain m -> KeysOK m ->
  (forall u, Relaxed m' u) /\ AllChain m' /\ KeysOK m' /\ le_map m m' /\
  (forall e, In e exits -> exists d, dget m' e = Some d).
Proof.
  induction exits as [|e es IH]; intros m m' Hex H HR HC HK; simpl in H.
  - inversion H; subst. repeat split; try assumption; try apply HK; [apply le_refl|intros e []].
  - destruct (Layout.depths_rec edges (S (length nodes)) e 0 (dset m e 0)) as [m1|] eqn:E; [|discriminate].
    assert (Hexit : IsExit nodes edges e) by (apply Hex; left; reflexivity).
    destruct Hexit as [Hen Hnoin].
    assert (Hset : dget (dset m e 0) e = Some 0) by (rewrite dget_dset, Nat.eqb_refl; reflexivity).
    destruct (depths_rec_post _ _ _ _ _ E) as [P1 [P2 [P3 P4]]].
    assert (R1 : forall u, Relaxed m1 u).
    { intros u. destruct (Nat.eq_dec u e) as [->|Hne]; [apply P4; exact Hset|].
      apply P3; [exact Hne|]. intros d v Hd Ev. rewrite dget_dset in Hd.
      destruct (Nat.eqb_spec u e); [congruence|].
      destruct (HR u d v Hd Ev) as [d' [Hv Lv]]. exists d'. split; [|exact Lv].
      rewrite dget_dset. destruct (Nat.eqb_spec v e) as [->|]; [|exact Hv].
      exfalso. apply (Hnoin u). exact Ev. }
    assert (C1 : AllChain m1).
    { apply (depths_rec_inv (ChainTo nodes edges) AllChain) with (fuel := S (length nodes)) (node := e) (depth := 0)
        (m := dset m e 0).
      - intros n d e0 [x [Hx Px]] Ee. exists x. split; [exact Hx|]. eapply Path_snoc; eassumption.
      - intros m0 e0 d0 Hi Hp x d Hd. rewrite dget_dset in Hd. destruct (Nat.eqb_spec x e0) as [->|].
        + inversion Hd; subst. exact Hp.
        + apply Hi. exact Hd.
      - exact E.
      - exists e. split; [split; assumption|apply Path_refl].
      - intros x d Hd. rewrite dget_dset in Hd. destruct (Nat.eqb_spec x e) as [->|].
        + inversion Hd; subst. exists e. split; [split; assumption|apply Path_refl].
        + apply HC. exact Hd. }
    assert (K1 : KeysOK m1).
    { apply (depths_rec_inv (fun n _ => In n nodes) KeysOK) with (fuel := S (length nodes)) (node := e) (depth := 0)
        (m := dset m e 0).
      - intros n d e0 _ Ee. destruct Hwf as [_ W]. apply (W _ _ Ee).
      - intros m0 e0 d0 [Hn Hi] Hp. split; [apply dset_keys_nodup; exact Hn|].
        intros x Hx. apply dset_keys_in in Hx. destruct Hx as [->|Hx]; [exact Hp|apply Hi; exact Hx].
      - exact E.
      - exact Hen.
      - destruct HK as [Hn Hi]. split; [apply dset_keys_nodup; exact Hn|].
        intros x Hx. apply dset_keys_in in Hx. destruct Hx as [->|Hx]; [exact Hen|apply Hi; exact Hx]. }
    destruct (IH m1 m' (fun x Hx => Hex x (or_intror Hx)) H R1 C1 K1) as [A [B [C [D F]]]].
    split; [exact A|]. split; [exact B|]. split; [exact C|]. split.
    + eapply le_trans; [|exact D]. eapply le_trans; [|exact P1].
      intros x d Hd. destruct (Nat.eq_dec x e) as [->|Hne].
      * exists 0. split; [exact Hset|].
        (* e is an exit node: its only chain is the empty one *)
        destruct (HC _ _ Hd) as [x0 [Hx0 Px]]. inversion Px as [|? w ? n0 Ee Pw]; subst; [lia|].
        exfalso.
        assert (G : forall a b k, Path a b k -> k <> 0 -> exists c, Edge c b).
        { intros a b k Pk. induction Pk as [|a w0 b k Ea Pk IHk]; intro Hk; [congruence|].
          destruct k as [|k]; [inversion Pk; subst; exists a; exact Ea|]. apply IHk. discriminate. }
        destruct (G _ _ _ Px) as [c Hc]; [discriminate|]. apply (Hnoin c). exact Hc.
      * exists d. split; [|lia]. rewrite dget_dset. destruct (Nat.eqb_spec x e); [congruence|exact Hd].
    + intros x [<-|Hx]; [|apply F; exact Hx].
      destruct (P1 _ _ Hset) as [d1 [Hd1 _]]. destruct (D _ _ Hd1) as [d2 [Hd2 _]]. exists d2. exact Hd2.
Qed.

Lemma depths_from_terminates : forall exits m,
  (forall e, In e exits -> In e nodes) ->
  depths_from edges (S (length nodes)) exits m <> None.
Proof.
  induction exits as [|e es IH]; intros m Hex; simpl; [discriminate|].
  destruct (Layout.depths_rec edges (S (length nodes)) e 0 (dset m e 0)) as [m1|] eqn:E.
  - apply IH. intros x Hx. apply Hex. right. exact Hx.
  - exfalso. eapply depths_rec_terminates; [|exact E]. apply Hex. left. reflexivity.
Qed.

(* ------------------------------------------------------------------ main results on node_depths *)
Theorem node_depths_terminates : node_depths nodes edges <> None.
Proof.
  unfold node_depths. apply depths_from_terminates.
  intros e He. apply exit_nodes_spec in He. apply He.
Qed.

Theorem node_depths_correct : forall m, node_depths nodes edges = Some m ->
  NoDup (map fst m) /\
  (forall v, In v (map fst m) <-> In v nodes) /\
  (forall v d, dget m v = Some d -> LongestPath nodes edges v d) /\
  (forall a b da, Edge a b -> dget m a = Some da -> exists db, dget m b = Some db /\ da < db).
Proof.
  intros m H. unfold node_depths in H.
  destruct (depths_from_ok (exit_nodes nodes edges) [] m) as [R [C [[Kn Ki] [_ F]]]].
  - intros e He. apply exit_nodes_spec. exact He.
  - exact H.
  - intros u d v Hd. discriminate.
  - intros x d Hd. discriminate.
  - split; [constructor|intros x []].
  - (* lower bound along any chain from an exit node *)
    assert (LB : forall u v n, Path u v n -> forall du, dget m u = Some du ->
                 exists dv, dget m v = Some dv /\ du + n <= dv).
    { intros u v n P. induction P as [u|u w v n E P IH]; intros du Hu.
      - exists du. split; [exact Hu|lia].
      - destruct (R u du w Hu E) as [dw [Hw Lw]]. destruct (IH _ Hw) as [dv [Hv Lv]].
        exists dv. split; [exact Hv|lia]. }
    assert (CH : forall v k, ChainTo nodes edges v k -> exists dv, dget m v = Some dv /\ k <= dv).
    { intros v k [e [He P]]. destruct (F e) as [de Hde]; [apply exit_nodes_spec; exact He|].
      destruct (LB _ _ _ P _ Hde) as [dv [Hv Lv]]. exists dv. split; [exact Hv|lia]. }
    split; [exact Kn|]. split; [|split].
    + intros v. split; [apply Ki|]. intros Hv.
      destruct (exit_reaches v Hv) as [e [n [He P]]].
      destruct (CH v n) as [dv [Hdv _]]; [exists e; split; assumption|].
      eapply dget_in_keys. exact Hdv.
    + intros v d Hd. split; [apply C; exact Hd|].
      intros k Hk. destruct (CH _ _ Hk) as [dv [Hv Lv]]. rewrite Hd in Hv. inversion Hv; subst. exact Lv.
    + intros a b da E Ha. destruct (R a da b Ha E) as [db [Hb Lb]]. exists db. split; [exact Hb|lia].
Qed.

End Depth.
Transparent Layout.depths_rec Layout.depths_loop.
