(* Declarative reading of the typing of paths and comparison operands (property C04), the spawn-source
   clause of C05 and the "paths follow declared attributes" clause of C01.
   [PathType] says what [walk]/[resolve_path] compute; [PromisePathType] what [promise_path_type] computes,
   including the list-lifting of objects promised in a thread group the observer cannot see; [VarType] and
   [OperandType] give the types of thread variables and comparison operands. *)
From Coq Require Import List Bool Arith Lia Relations.
From OIS Require Import Base.Types Base.PipeTypes Spec.Compare Model.Schema Model.Rules Spec.DepRel.
From OIS Require Import Gen.Tables Proofs.ConformsInv Proofs.C04Table.
Import ListNotations.

(* ================================================================== paths *)
(* [PathType s def td path td']: starting at an object whose type definition is [def] and whose type details
   are [td] (list-ness, item, object type), following [path] reaches something of type details [td'].
   Every segment names a declared attribute of the current type; an edge leads to an object of the edge's
   target type and keeps list-ness; an edge collection makes the result a list and cannot be crossed from a
   list; a field ends the path, a list-valued field cannot be reached from a list. *)
Inductive PathType (s : schema) : option otype -> tdet -> list nat -> tdet -> Prop :=
| PT_here : forall def td, PathType s def td [] td
| PT_field : forall d td seg a t it,
    find_attr d seg = Some a -> at_kind a = KField t -> field_item t = Some (false, it) ->
    PathType s (Some d) td [seg] (TD (td_list td) it None)
| PT_list_field : forall d td seg a t it,
    find_attr d seg = Some a -> at_kind a = KField t -> field_item t = Some (true, it) -> td_list td = false ->
    PathType s (Some d) td [seg] (TD true it None)
| PT_edge : forall d td seg rest a tgt td',
    find_attr d seg = Some a -> at_kind a = KEdge tgt -> r_kind tgt = RType ->
    PathType s (find_type s (r_id tgt)) (TD (td_list td) IObject (Some tgt)) rest td' ->
    PathType s (Some d) td (seg :: rest) td'
| PT_edge_collection : forall d td seg rest a tgt td',
    find_attr d seg = Some a -> at_kind a = KEdgeColl tgt -> r_kind tgt = RType -> td_list td = false ->
    PathType s (find_type s (r_id tgt)) (TD true IObject (Some tgt)) rest td' ->
    PathType s (Some d) td (seg :: rest) td'.

Lemma PathType_walk s def td path td' : PathType s def td path td' -> walk s def td path = TOk td'.
Proof.
  induction 1 as [def td | d td seg a t it Fa Ka Fi | d td seg a t it Fa Ka Fi L
                 | d td seg rest a tgt td' Fa Ka K _ IH | d td seg rest a tgt td' Fa Ka K L _ IH].
  - reflexivity.
  - cbn [walk]. rewrite Fa, Ka, Fi. reflexivity.
  - cbn [walk]. rewrite Fa, Ka, Fi, L. reflexivity.
  - cbn [walk]. rewrite Fa, Ka, (proj2 (rkind_eqb_eq _ _) K). exact IH.
  - cbn [walk]. rewrite Fa, Ka, (proj2 (rkind_eqb_eq _ _) K), L. exact IH.
Qed.

Lemma walk_PathType s : forall path def td td', walk s def td path = TOk td' -> PathType s def td path td'.
Proof.
  induction path as [|seg rest IH]; intros def td td' H.
  - cbn [walk] in H. injection H as <-. constructor.
  - cbn [walk] in H. destruct def as [d|]; [|discriminate].
    destruct (find_attr d seg) as [a|] eqn:Fa; [|discriminate].
    destruct (at_kind a) as [t|tgt|tgt] eqn:Ka.
    + destruct rest; [|discriminate]. destruct (field_item t) as [[[|] it]|] eqn:Fi; [| |discriminate].
      * destruct (td_list td) eqn:L; [discriminate|]. injection H as <-. eapply PT_list_field; eassumption.
      * injection H as <-. eapply PT_field; eassumption.
    + destruct (rkind_eqb (r_kind tgt) RType) eqn:K; [|discriminate]. apply rkind_eqb_eq in K.
      eapply PT_edge; try eassumption. apply IH. exact H.
    + destruct (rkind_eqb (r_kind tgt) RType) eqn:K; [|discriminate]. apply rkind_eqb_eq in K.
      destruct (td_list td) eqn:L; [discriminate|].
      eapply PT_edge_collection; try eassumption. apply IH. exact H.
Qed.

Lemma walk_spec s def td path td' : walk s def td path = TOk td' <-> PathType s def td path td'.
Proof. split; [apply walk_PathType | apply PathType_walk]. Qed.

(* a path attached to a reference to an object type *)
Definition RefPathType (s : schema) (tr : ref) (path : list nat) (td : tdet) : Prop :=
  exists d, find_type_ref s tr = Some d /\ PathType s (Some d) (TD false IObject (Some tr)) path td.

Lemma resolve_path_spec s tr path td : resolve_path s tr path = TOk td <-> RefPathType s tr path td.
Proof.
  unfold resolve_path, RefPathType. destruct (find_type_ref s tr) as [d|].
  - rewrite walk_spec. split; [intro H; exists d; auto | intros (d' & E & H); injection E as <-; exact H].
  - split; [discriminate | intros (d' & E & _); discriminate].
Qed.

(* the first segment of a typed path is a declared attribute; so is every later one, by the premises of
   PT_edge / PT_edge_collection *)
Lemma PathType_first_declared s d td seg rest td' :
  PathType s (Some d) td (seg :: rest) td' -> exists a, find_attr d seg = Some a /\ In a (ot_attrs d) /\ at_name a = seg.
Proof. intro H. inversion H; subst; match goal with F : find_attr _ _ = Some ?a |- _ => exists a; split; [exact F | apply find_attr_some; exact F] end. Qed.

(* a list is never crossed twice: a typed path from a list yields a list *)
Lemma PathType_keeps_list s def td path td' : PathType s def td path td' -> td_list td = true -> td_list td' = true.
Proof. induction 1; intro L; auto; try congruence. Qed.

(* ================================================================== object promises seen from a thread context *)
(* type details of the object itself (empty path) or of what a path from it reaches *)
Definition BaseType (s : schema) (tr : ref) (path : list nat) (base : tdet) : Prop :=
  match path with
  | [] => r_kind tr = RType /\ base = TD false IObject (Some tr)
  | _ :: _ => RefPathType s tr path base
  end.

(* [PromisePathType s from p path td]: object_promise:<p>.<path>, observed from thread context [from], has
   type details [td]: those of the path when the observer sees the context in which p is fulfilled, and
   their list-lifting (not allowed on a list) when it does not *)
Definition PromisePathType (s : schema) (from : option nat) (p : nat) (path : list nat) (td : tdet) : Prop :=
  exists pr f base, find_promise s p = Some pr /\ fulfiller s p = Some f /\ BaseType s (pr_type pr) path base /\
    ((ctx_sees s from (ctx_group (a_ctx f)) = true /\ td = base) \/
     (ctx_sees s from (ctx_group (a_ctx f)) = false /\ td_list base = false /\ td = TD true (td_item base) (td_obj base))).

Definition base_res (s : schema) (tr : ref) (path : list nat) : tres :=
  match path with
  | [] => if rkind_eqb (r_kind tr) RType then TOk (TD false IObject (Some tr)) else TRaise
  | _ :: _ => resolve_path s tr path
  end.
Definition lift (many : bool) (r : tres) : tres :=
  match r with
  | TOk td => if many then (if td_list td then TRaise else TOk (TD true (td_item td) (td_obj td))) else TOk td
  | TNone => TNone
  | TRaise => TRaise
  end.

Lemma promise_path_type_unfold s from p path :
  promise_path_type s from p path =
  match find_promise s p, fulfiller s p with
  | Some pr, Some f => lift (negb (ctx_sees s from (ctx_group (a_ctx f)))) (base_res s (pr_type pr) path)
  | _, _ => TNone
  end.
Proof.
  unfold promise_path_type, promise_context. destruct (find_promise s p) as [pr|]; [|reflexivity].
  destruct (fulfiller s p) as [f|]; [|reflexivity]. cbv zeta.
  assert (M : forall pctx, match pctx with
                           | None => false
                           | Some g' => negb (match from with Some g => has_access s g g' | None => false end)
                           end = negb (ctx_sees s from pctx)) by (intros [g'|]; reflexivity).
  rewrite M. destruct path as [|seg rest]; unfold base_res.
  - destruct (rkind_eqb (r_kind (pr_type pr)) RType); [|reflexivity].
    destruct (negb (ctx_sees s from (ctx_group (a_ctx f)))); reflexivity.
  - reflexivity.
Qed.

Lemma base_res_spec s tr path base : base_res s tr path = TOk base <-> BaseType s tr path base.
Proof.
  destruct path as [|seg rest]; unfold base_res, BaseType.
  - destruct (rkind_eqb (r_kind tr) RType) eqn:K.
    + apply rkind_eqb_eq in K. split; [intro H; injection H as <-; auto | intros [_ ->]; reflexivity].
    + split; [discriminate|]. intros [K' _]. apply rkind_eqb_eq in K'. congruence.
  - apply resolve_path_spec.
Qed.

Lemma lift_spec many r td : lift many r = TOk td <->
  exists base, r = TOk base /\
    ((many = false /\ td = base) \/ (many = true /\ td_list base = false /\ td = TD true (td_item base) (td_obj base))).
Proof.
  unfold lift. destruct r as [| |b]; try (split; [discriminate | intros (base & E & _); discriminate]).
  destruct many.
  - destruct (td_list b) eqn:L; split.
    + discriminate.
    + intros (base & E & [[F _]|(_ & L' & _)]); [discriminate|]. injection E as <-. congruence.
    + intro H. injection H as <-. exists b. auto.
    + intros (base & E & [[F _]|(_ & _ & ->)]); [discriminate|]. injection E as <-. reflexivity.
  - split.
    + intro H. injection H as <-. exists b. auto.
    + intros (base & E & [[_ ->]|(F & _)]); [|discriminate]. exact E.
Qed.

Lemma promise_path_type_spec s from p path td :
  promise_path_type s from p path = TOk td <-> PromisePathType s from p path td.
Proof.
  rewrite promise_path_type_unfold. unfold PromisePathType.
  destruct (find_promise s p) as [pr|]; [|split; [discriminate | intros (pr' & f' & base & E & _); discriminate]].
  destruct (fulfiller s p) as [f|]; [|split; [discriminate | intros (pr' & f' & base & _ & E & _); discriminate]].
  rewrite lift_spec. split.
  - intros (base & B & Hl). apply base_res_spec in B. exists pr, f, base. split; [reflexivity|]. split; [reflexivity|].
    split; [exact B|]. rewrite negb_false_iff, negb_true_iff in Hl. exact Hl.
  - intros (pr' & f' & base & E1 & E2 & B & Hl). injection E1 as <-. injection E2 as <-.
    exists base. split; [apply base_res_spec; exact B|]. rewrite negb_false_iff, negb_true_iff. exact Hl.
Qed.

(* ================================================================== thread variables *)
(* the variable of a thread group has the item type of the group's list-valued spawn source *)
Inductive VarType (s : schema) : nat -> tdet -> Prop :=
| VT_promise : forall g tg p path td,
    find_group s g = Some tg -> g_src tg = SpPromise p path -> r_kind p = RPromise ->
    PromisePathType s (ctx_group (g_ctx tg)) (r_id p) path td -> td_list td = true ->
    VarType s g (TD false (td_item td) (td_obj td))
| VT_variable : forall g tg g' path vt tr td,
    find_group s g = Some tg -> g_src tg = SpVar g' path -> g' <> g -> Encloses s g' g ->
    VarType s g' vt -> td_item vt = IObject -> td_obj vt = Some tr ->
    RefPathType s tr path td -> td_list td = true ->
    VarType s g (TD false (td_item td) (td_obj td)).

Lemma var_type_nolist s fuel g vt : var_type s fuel g = TOk vt -> td_list vt = false.
Proof.
  destruct fuel as [|f]; [discriminate|]. cbn [var_type]. destruct (find_group s g) as [tg|]; [|discriminate].
  intro H.
  match type of H with (match ?x with TNone => _ | TRaise => _ | TOk _ => _ end) = _ => destruct x as [| |td] end;
    try discriminate.
  destruct (td_list td); [|discriminate]. injection H as <-. reflexivity.
Qed.

Lemma VarType_nolist s g vt : VarType s g vt -> td_list vt = false.
Proof. destruct 1; reflexivity. Qed.

Lemma var_type_sound s : forall fuel g vt, var_type s fuel g = TOk vt -> VarType s g vt.
Proof.
  induction fuel as [|f IH]; intros g vt H; [discriminate|]. cbn [var_type] in H.
  destruct (find_group s g) as [tg|] eqn:F; [|discriminate].
  destruct (g_src tg) as [p path|g' path] eqn:Sr.
  - destruct (rkind_eqb (r_kind p) RPromise) eqn:K; [|discriminate]. apply rkind_eqb_eq in K.
    destruct (promise_path_type s (ctx_group (g_ctx tg)) (r_id p) path) as [| |td] eqn:P; try discriminate.
    destruct (td_list td) eqn:L; [|discriminate]. injection H as <-.
    eapply VT_promise; try eassumption. apply promise_path_type_spec. exact P.
  - destruct (negb (Nat.eqb g' g) && has_access s g g') eqn:E; [|discriminate].
    apply andb_true_iff in E. destruct E as [E1 E2]. apply negb_true_iff, Nat.eqb_neq in E1.
    apply has_access_Encloses in E2.
    destruct (var_type s f g') as [| |vt'] eqn:V; try discriminate.
    pose proof (var_type_nolist _ _ _ _ V) as NL. apply IH in V.
    destruct (td_item vt') eqn:It; destruct (td_obj vt') as [tr|] eqn:Ob;
      try (destruct path; cbv beta iota in H; [rewrite NL in H|]; discriminate).
    destruct (resolve_path s tr path) as [| |td] eqn:P; try discriminate.
    destruct (td_list td) eqn:L; [|discriminate]. injection H as <-.
    eapply VT_variable; try eassumption. apply resolve_path_spec. exact P.
Qed.

(* ================================================================== comparison operands *)
Inductive OperandType (s : schema) (cctx : option nat) : operand -> ty -> Prop :=
| OT_literal : forall l t, lit_ty l = Some t -> OperandType s cctx (OLit l) t
| OT_action : forall a path act p td,
    r_kind a = RAction -> find_action s (r_id a) = Some act -> a_promise act = Ref RPromise p ->
    PromisePathType s cctx p path td -> OperandType s cctx (OAct a path) (ty_of_tdet td)
| OT_variable : forall g cg vt,
    cctx = Some cg -> Encloses s g cg -> VarType s g vt -> OperandType s cctx (OVar g []) (ty_of_tdet vt)
| OT_variable_path : forall g cg path vt tr td,
    cctx = Some cg -> Encloses s g cg -> VarType s g vt -> path <> [] ->
    td_item vt = IObject -> td_obj vt = Some tr -> RefPathType s tr path td ->
    OperandType s cctx (OVar g path) (ty_of_tdet td).

Lemma operand_type_sound s cctx o t : operand_type s cctx o = Some t -> OperandType s cctx o t.
Proof.
  destruct o as [a path|g path|l]; unfold operand_type; intro H.
  - destruct (rkind_eqb (r_kind a) RAction) eqn:K; [|discriminate]. apply rkind_eqb_eq in K.
    destruct (find_action s (r_id a)) as [act|] eqn:F; [|discriminate].
    destruct (promise_of act) as [p|] eqn:Po; [|discriminate]. apply promise_of_some in Po.
    destruct (promise_path_type s cctx p path) as [| |td] eqn:P; try discriminate. injection H as <-.
    eapply OT_action; try eassumption. apply promise_path_type_spec. exact P.
  - destruct cctx as [cg|]; [|discriminate]. destruct (has_access s cg g) eqn:A; [|discriminate].
    apply has_access_Encloses in A.
    destruct (var_type s (fuel_of s) g) as [| |vt] eqn:V; try discriminate. apply var_type_sound in V.
    destruct path as [|seg rest].
    + injection H as <-. eapply OT_variable; [reflexivity | eassumption | eassumption].
    + destruct (td_item vt) eqn:It; try discriminate. destruct (td_obj vt) as [tr|] eqn:Ob; [|discriminate].
      destruct (resolve_path s tr (seg :: rest)) as [| |td] eqn:P; try discriminate. injection H as <-.
      eapply OT_variable_path; try eassumption; [reflexivity | discriminate | apply resolve_path_spec; exact P].
  - apply OT_literal. exact H.
Qed.

(* ================================================================== "the two operands are not the same expression" *)
Lemma list_nat_eqb_eq a : forall b, list_nat_eqb a b = true <-> a = b.
Proof.
  induction a as [|x a IH]; intros [|y b]; unfold list_nat_eqb; simpl; try (split; discriminate).
  - split; reflexivity.
  - specialize (IH b). unfold list_nat_eqb in IH. split.
    + intro H. apply andb_true_iff in H. destruct H as [H1 H2]. apply andb_true_iff in H2. destruct H2 as [H2 H3].
      apply Nat.eqb_eq in H2. subst y. f_equal. apply IH. apply andb_true_iff. split; assumption.
    + intro H. injection H as -> ->. pose proof (proj2 IH eq_refl) as H. apply andb_true_iff in H. destruct H as [H1 H2].
      rewrite H1, Nat.eqb_refl, H2. reflexivity.
Qed.

Lemma operand_eqb_eq l r : ~ (is_lit l = true /\ is_lit r = true) -> (operand_eqb l r = true <-> l = r).
Proof.
  intro NL. destruct l as [x p|x p|x], r as [y q|y q|y]; simpl; try (split; discriminate).
  - rewrite andb_true_iff, ref_eqb_eq, list_nat_eqb_eq. split; [intros [-> ->]; reflexivity | intro H; injection H; auto].
  - rewrite andb_true_iff, Nat.eqb_eq, list_nat_eqb_eq. split; [intros [-> ->]; reflexivity | intro H; injection H; auto].
  - exfalso. apply NL. simpl. auto.
Qed.

(* C04, the acceptance condition of one comparison, for any operator table *)
Lemma comparison_ok_iff cmp s ctx l o r : comparison_ok cmp s ctx l o r = true <->
  ~ (exists x y, l = OLit x /\ r = OLit y) /\ l <> r /\
  exists tl tr, operand_type s ctx l = Some tl /\ operand_type s ctx r = Some tr /\ cmp tl o tr = true.
Proof.
  rewrite comparison_ok_inv. split.
  - intros (NL & Ne & T). split; [|split; [|exact T]].
    + intros (x & y & -> & ->). apply NL. simpl. auto.
    + intro E. apply (operand_eqb_eq l r NL) in E. congruence.
  - intros (NL & Ne & T).
    assert (NL' : ~ (is_lit l = true /\ is_lit r = true)).
    { intros [L R]. apply is_lit_true in L. apply is_lit_true in R. destruct L as [x ->], R as [y ->]. apply NL. eauto. }
    split; [exact NL'|]. split; [|exact T].
    apply not_true_iff_false. intro E. apply (operand_eqb_eq l r NL') in E. contradiction.
Qed.

Lemma C04_comparison_iff_lemma s ctx l o r : comparison_ok Cmp s ctx l o r = true <->
  ~ (exists x y, l = OLit x /\ r = OLit y) /\ l <> r /\
  exists tl tr, operand_type s ctx l = Some tl /\ operand_type s ctx r = Some tr /\ Comparable tl o tr.
Proof.
  rewrite comparison_ok_iff. split; intros (A & B & tl & tr & Tl & Tr & C); (split; [exact A|]); (split; [exact B|]);
    exists tl, tr; (split; [exact Tl|]); (split; [exact Tr|]); apply Cmp_Comparable; exact C.
Qed.

(* ================================================================== accepted schemas *)
(* the observer in context [from] sees what is bound to context [target]: a thread context is seen only from
   itself or from a group nested inside it *)
Definition Sees (s : schema) (from target : option nat) : Prop :=
  forall g', target = Some g' -> exists g, from = Some g /\ Encloses s g' g.

Section Accepted.
Variables (cmp : ty -> cop -> ty -> bool) (tbl : list (ishape * ty * bool)) (s : schema).
Hypothesis Hc : conforms_with cmp tbl s = true.

Lemma ctx_sees_Sees from target : (forall g, from = Some g -> exists tg, find_group s g = Some tg) ->
  (ctx_sees s from target = true <-> Sees s from target).
Proof.
  intro D. unfold Sees, ctx_sees. destruct target as [g'|].
  - destruct from as [g|].
    + destruct (D g eq_refl) as [tg F]. rewrite (has_access_iff cmp tbl s Hc g g' tg F). split.
      * intros E g'' Eq. injection Eq as <-. exists g. auto.
      * intro H. destruct (H g' eq_refl) as (g0 & Eq & E). injection Eq as <-. exact E.
    + split; [discriminate|]. intro H. destruct (H g' eq_refl) as (g0 & Eq & _). discriminate.
  - split; [intros _ g' Eq; discriminate | reflexivity].
Qed.

Lemma checkpoint_ctx_declared cp : In cp (checkpoints s) ->
  forall g, ctx_group (cp_ctx cp) = Some g -> exists tg, find_group s g = Some tg.
Proof.
  intros Hin g Cg. apply ctx_group_some in Cg. destruct Cg as (r & Cx & K & <-).
  pose proof (ci_checkpoints _ _ _ (acc_parts cmp tbl s Hc) cp Hin) as C. apply checkpoint_ok_inv in C.
  destruct C as (_ & C & _). rewrite Cx in C. apply ref_ok_group in C. tauto.
Qed.

(* base types in an accepted schema: the promise's object type is declared, so the empty path is not special *)
Lemma BaseType_RefPathType pr p path base : find_promise s p = Some pr ->
  (BaseType s (pr_type pr) path base <-> RefPathType s (pr_type pr) path base).
Proof.
  intro F. destruct (promise_creators _ _ _ _ _ Hc F) as (t & _ & Ft & _).
  destruct path as [|seg rest]; [|reflexivity]. unfold BaseType, RefPathType. split.
  - intros [K ->]. exists t. split; [exact Ft | constructor].
  - intros (d & Fd & P). apply find_type_ref_some in Fd. inversion P; subst. tauto.
Qed.

(* C04: list-lifting of promised objects, in declarative terms *)
Lemma C04_promise_lifting_lemma : forall from p path td,
  (forall g, from = Some g -> exists tg, find_group s g = Some tg) ->
  (promise_path_type s from p path = TOk td <->
   exists pr f base, find_promise s p = Some pr /\ creators s p = [f] /\ RefPathType s (pr_type pr) path base /\
     ((Sees s from (ctx_group (a_ctx f)) /\ td = base) \/
      (~ Sees s from (ctx_group (a_ctx f)) /\ td_list base = false /\ td = TD true (td_item base) (td_obj base)))).
Proof.
  intros from p path td D. rewrite promise_path_type_spec. unfold PromisePathType. split.
  - intros (pr & f & base & Fp & Fu & B & Hl).
    destruct (promise_creators _ _ _ _ _ Hc Fp) as (_ & fq & _ & _ & Cr & Fu' & _). rewrite Fu in Fu'. injection Fu' as <-.
    exists pr, f, base. split; [exact Fp|]. split; [exact Cr|]. split; [apply (BaseType_RefPathType pr p); assumption|].
    destruct Hl as [[S E]|(S & L & E)].
    + left. split; [apply ctx_sees_Sees; assumption | exact E].
    + right. split; [|auto]. intro S'. apply (ctx_sees_Sees from _ D) in S'. congruence.
  - intros (pr & f & base & Fp & Cr & B & Hl).
    exists pr, f, base. split; [exact Fp|]. split; [unfold fulfiller; rewrite Cr; reflexivity|].
    split; [apply (BaseType_RefPathType pr p); assumption|].
    destruct Hl as [[S E]|(S & L & E)].
    + left. split; [apply ctx_sees_Sees; assumption | exact E].
    + right. split; [|auto]. apply not_true_iff_false. intro S'. apply S. apply (ctx_sees_Sees from _ D). exact S'.
Qed.

(* C04: what acceptance says about every comparison of every checkpoint *)
Lemma C04_accepted_lemma : forall cp l o r, In cp (checkpoints s) -> In (DCmp l o r) (cp_deps cp) ->
  ~ (exists x y, l = OLit x /\ r = OLit y) /\ l <> r /\ operand_eqb l r = false /\
  exists tl tr, operand_type s (ctx_group (cp_ctx cp)) l = Some tl /\ operand_type s (ctx_group (cp_ctx cp)) r = Some tr /\
                OperandType s (ctx_group (cp_ctx cp)) l tl /\ OperandType s (ctx_group (cp_ctx cp)) r tr /\
                cmp tl o tr = true.
Proof.
  intros cp l o r Hin Hd. pose proof (ci_checkpoints _ _ _ (acc_parts cmp tbl s Hc) cp Hin) as C.
  apply checkpoint_ok_inv in C. destruct C as (_ & _ & C & _). specialize (C _ Hd). apply dep_ok_cmp_inv in C.
  destruct C as (_ & _ & C & _). pose proof C as C'. apply comparison_ok_iff in C. apply comparison_ok_inv in C'.
  destruct C as (A & B & tl & tr & Tl & Tr & Cm). destruct C' as (_ & E & _).
  split; [exact A|]. split; [exact B|]. split; [exact E|]. exists tl, tr.
  repeat (split; [first [assumption | apply operand_type_sound; assumption]|]). exact Cm.
Qed.

(* C05 / SC4: the spawn source is list-valued (and, by construction of the relations, not a list of lists) *)
Lemma C05_SC4_lemma : forall g, In g (groups s) ->
  (forall p path, g_src g = SpPromise p path ->
     exists td, PromisePathType s (ctx_group (g_ctx g)) (r_id p) path td /\ td_list td = true) /\
  (forall g' path, g_src g = SpVar g' path ->
     exists vt tr td, VarType s g' vt /\ td_item vt = IObject /\ td_obj vt = Some tr /\
                      RefPathType s tr path td /\ td_list td = true).
Proof.
  intros g Hg. pose proof (ci_groups _ _ _ (acc_parts cmp tbl s Hc) g Hg) as A. apply group_ok_inv in A.
  destruct A as (_ & _ & _ & _ & _ & [vt V] & _). apply var_type_sound in V.
  pose proof (find_group_in s g (acc_unique cmp tbl s Hc) Hg) as Fg.
  split.
  - intros p path Sr. inversion V as [g0 tg p0 path0 td F Sr0 K P L|g0 tg g' path0 vt0 tr td F Sr0 N E V' It Ob P L]; subst;
      rewrite Fg in F; injection F as <-; rewrite Sr in Sr0; [injection Sr0 as <- <- | discriminate]. eauto.
  - intros g' path Sr. inversion V as [g0 tg p0 path0 td F Sr0 K P L|g0 tg g0' path0 vt0 tr td F Sr0 N E V' It Ob P L]; subst;
      rewrite Fg in F; injection F as <-; rewrite Sr in Sr0; [discriminate | injection Sr0 as <- <-]. eauto 10.
Qed.

(* C01: paths attached to references follow declared attributes *)
Definition PromisePathDeclared (p : nat) (path : list nat) : Prop :=
  exists pr td, find_promise s p = Some pr /\ RefPathType s (pr_type pr) path td.
Definition VarPathDeclared (g : nat) (path : list nat) : Prop :=
  exists vt, VarType s g vt /\
    (path = [] \/ exists tr td, td_item vt = IObject /\ td_obj vt = Some tr /\ RefPathType s tr path td).

Lemma PromisePathType_declared from p path td : PromisePathType s from p path td -> PromisePathDeclared p path.
Proof.
  intros (pr & f & base & Fp & _ & B & _). exists pr, base. split; [exact Fp|]. apply (BaseType_RefPathType pr p); assumption.
Qed.

Lemma OperandType_declared cctx o t : OperandType s cctx o t ->
  match o with
  | OAct a path => exists act p, find_action s (r_id a) = Some act /\ a_promise act = Ref RPromise p /\ PromisePathDeclared p path
  | OVar g path => VarPathDeclared g path
  | OLit _ => True
  end.
Proof.
  destruct 1.
  - exact I.
  - exists act, p. split; [assumption|]. split; [assumption|]. eapply PromisePathType_declared; eassumption.
  - exists vt. auto.
  - exists vt. split; [assumption|]. right. exists tr, td. auto.
Qed.

Lemma C01_paths_lemma :
  (forall cp l o r a path, In cp (checkpoints s) -> In (DCmp l o r) (cp_deps cp) -> l = OAct a path \/ r = OAct a path ->
     exists act p, find_action s (r_id a) = Some act /\ a_promise act = Ref RPromise p /\ PromisePathDeclared p path) /\
  (forall cp l o r g path, In cp (checkpoints s) -> In (DCmp l o r) (cp_deps cp) -> l = OVar g path \/ r = OVar g path ->
     VarPathDeclared g path) /\
  (forall g p path, In g (groups s) -> g_src g = SpPromise p path -> PromisePathDeclared (r_id p) path) /\
  (forall g g' path, In g (groups s) -> g_src g = SpVar g' path -> VarPathDeclared g' path) /\
  (forall a q path, In a (actions s) -> op_appends (a_op a) = Some (q, path) -> PromisePathDeclared (r_id q) path).
Proof.
  split; [|split; [|split; [|split]]].
  - intros cp l o r a path Hin Hd Hop. destruct (C04_accepted_lemma cp l o r Hin Hd) as (_ & _ & _ & tl & tr & _ & _ & Ol & Or & _).
    destruct Hop as [->| ->]; [exact (OperandType_declared _ _ _ Ol) | exact (OperandType_declared _ _ _ Or)].
  - intros cp l o r g path Hin Hd Hop. destruct (C04_accepted_lemma cp l o r Hin Hd) as (_ & _ & _ & tl & tr & _ & _ & Ol & Or & _).
    destruct Hop as [->| ->]; [exact (OperandType_declared _ _ _ Ol) | exact (OperandType_declared _ _ _ Or)].
  - intros g p path Hg Sr. destruct (C05_SC4_lemma g Hg) as [A _]. destruct (A _ _ Sr) as (td & P & _).
    eapply PromisePathType_declared; eassumption.
  - intros g g' path Hg Sr. destruct (C05_SC4_lemma g Hg) as [_ A]. destruct (A _ _ Sr) as (vt & tr & td & V & It & Ob & P & _).
    exists vt. split; [exact V|]. right. exists tr, td. auto.
  - intros a q path Ha Hap. destruct (C07_operations_lemma cmp tbl s Hc a Ha) as (p & pr & t & f & _ & _ & _ & _ & _ & _ & _ & Ap).
    destruct (Ap _ _ Hap) as (_ & _ & _ & pq & fq & td & _ & _ & P & _). apply promise_path_type_spec in P.
    eapply PromisePathType_declared; eassumption.
Qed.


(* ------------------------------------------------------------------ completeness of operand typing in accepted schemas *)
Lemma var_type_mono : forall f f' g vt, f <= f' -> var_type s f g = TOk vt -> var_type s f' g = TOk vt.
Proof.
  induction f as [|f IH]; intros f' g vt Le H; [discriminate|].
  destruct f' as [|f']; [lia|]. cbn [var_type] in *.
  destruct (find_group s g) as [tg|]; [|discriminate].
  destruct (g_src tg) as [p path|g' path]; [exact H|].
  destruct (negb (Nat.eqb g' g) && has_access s g g'); [|discriminate].
  destruct (var_type s f g') as [| |vt'] eqn:V; try discriminate.
  rewrite (IH f' g' vt' (le_S_n _ _ Le) V). exact H.
Qed.

Lemma VarType_var_type : forall g vt, VarType s g vt -> exists f, var_type s f g = TOk vt.
Proof.
  induction 1 as [g tg p path td F Sr K P L | g tg g' path vt tr td F Sr N E V [f IH] It Ob P L].
  - exists 1. cbn [var_type]. rewrite F, Sr, (proj2 (rkind_eqb_eq _ _) K), (proj2 (promise_path_type_spec _ _ _ _ _) P), L.
    reflexivity.
  - exists (S f). cbn [var_type]. rewrite F, Sr.
    rewrite (proj2 (Nat.eqb_neq g' g) N), (proj2 (has_access_iff cmp tbl s Hc g g' tg F) E). cbn [negb andb].
    rewrite IH. cbv beta iota. rewrite It, Ob, (proj2 (resolve_path_spec _ _ _ _) P), L. reflexivity.
Qed.

(* the fuel of the model is enough: on an accepted schema [var_type] computes exactly [VarType] *)
Lemma var_type_complete g vt : VarType s g vt -> var_type s (fuel_of s) g = TOk vt.
Proof.
  intro V. destruct (VarType_var_type g vt V) as [f Hf].
  assert (D : exists tg, find_group s g = Some tg) by (destruct V; eauto).
  destruct D as [tg F]. destruct (find_group_some _ _ _ F) as [Hin Hid].
  pose proof (ci_groups _ _ _ (acc_parts cmp tbl s Hc) tg Hin) as A. apply group_ok_inv in A.
  destruct A as (_ & _ & _ & _ & _ & [vt0 V0] & _). rewrite Hid in V0.
  pose proof (var_type_mono f (max f (fuel_of s)) g vt (Nat.le_max_l _ _) Hf) as M1.
  pose proof (var_type_mono (fuel_of s) (max f (fuel_of s)) g vt0 (Nat.le_max_r _ _) V0) as M2.
  congruence.
Qed.

Lemma var_type_spec g vt : var_type s (fuel_of s) g = TOk vt <-> VarType s g vt.
Proof. split; [apply var_type_sound | apply var_type_complete]. Qed.

Lemma operand_type_complete cctx o t : (forall cg, cctx = Some cg -> exists tg, find_group s cg = Some tg) ->
  OperandType s cctx o t -> operand_type s cctx o = Some t.
Proof.
  intros D H.
  destruct H as [l t E | a path act p td K F Ep P | g cg vt Ec E V | g cg path vt tr td Ec E V Np It Ob P]; unfold operand_type.
  - exact E.
  - rewrite (proj2 (rkind_eqb_eq _ _) K), F, (proj2 (promise_of_some _ _) Ep), (proj2 (promise_path_type_spec _ _ _ _ _) P).
    reflexivity.
  - subst cctx. destruct (D cg eq_refl) as [tg F].
    rewrite (proj2 (has_access_iff cmp tbl s Hc cg g tg F) E), (var_type_complete g vt V). reflexivity.
  - subst cctx. destruct (D cg eq_refl) as [tg F].
    rewrite (proj2 (has_access_iff cmp tbl s Hc cg g tg F) E), (var_type_complete g vt V). cbv beta iota.
    destruct path as [|seg rest]; [exfalso; apply Np; reflexivity|].
    rewrite It, Ob, (proj2 (resolve_path_spec _ _ _ _) P). reflexivity.
Qed.

Lemma operand_type_spec cctx o t : (forall cg, cctx = Some cg -> exists tg, find_group s cg = Some tg) ->
  (operand_type s cctx o = Some t <-> OperandType s cctx o t).
Proof. intro D. split; [apply operand_type_sound | apply operand_type_complete; exact D]. Qed.

(* C04, fully declarative: a comparison placed in a declared thread context (or none) of an accepted schema *)
Lemma C04_comparison_declarative_lemma ctx l o r :
  (forall cg, ctx = Some cg -> exists tg, find_group s cg = Some tg) ->
  (comparison_ok Cmp s ctx l o r = true <->
   ~ (exists x y, l = OLit x /\ r = OLit y) /\ l <> r /\
   exists tl tr, OperandType s ctx l tl /\ OperandType s ctx r tr /\ Comparable tl o tr).
Proof.
  intro D. rewrite C04_comparison_iff_lemma.
  split; intros (A & B & tl & tr & Tl & Tr & C); (split; [exact A|]); (split; [exact B|]); exists tl, tr;
    (split; [apply (operand_type_spec ctx _ _ D); exact Tl|]); (split; [apply (operand_type_spec ctx _ _ D); exact Tr | exact C]).
Qed.

End Accepted.

(* C04 for the specification's operator table, with the relational reading of "the operator is defined" *)
Lemma C04_accepted_spec_lemma tbl s : conforms tbl s = true ->
  forall cp l o r, In cp (checkpoints s) -> In (DCmp l o r) (cp_deps cp) ->
  ~ (exists x y, l = OLit x /\ r = OLit y) /\ l <> r /\ operand_eqb l r = false /\
  exists tl tr, operand_type s (ctx_group (cp_ctx cp)) l = Some tl /\ operand_type s (ctx_group (cp_ctx cp)) r = Some tr /\
                OperandType s (ctx_group (cp_ctx cp)) l tl /\ OperandType s (ctx_group (cp_ctx cp)) r tr /\
                Cmp tl o tr = true /\ Comparable tl o tr.
Proof.
  intros Hc cp l o r Hin Hd. destruct (C04_accepted_lemma Cmp tbl s Hc cp l o r Hin Hd) as (A & B & E & tl & tr & Tl & Tr & Ol & Or & C).
  split; [exact A|]. split; [exact B|]. split; [exact E|]. exists tl, tr.
  repeat (split; [assumption|]). apply Cmp_Comparable. exact C.
Qed.

(* C07: the appended-to path is typed on the target promise's own object type (no list-lifting is involved,
   the contexts being equal) and reaches a list of objects of the appending action's object type *)
Lemma C07_appends_path_lemma cmp tbl s : conforms_with cmp tbl s = true ->
  forall a q path, In a (actions s) -> op_appends (a_op a) = Some (q, path) ->
  exists p pr pq td, a_promise a = Ref RPromise p /\ find_promise s p = Some pr /\ find_promise s (r_id q) = Some pq /\
    RefPathType s (pr_type pq) path td /\ td_list td = true /\ td_item td = IObject /\ td_obj td = Some (pr_type pr).
Proof.
  intros Hc a q path Ha Hap.
  destruct (C07_operations_lemma cmp tbl s Hc a Ha) as (p & pr & t & f & Ep & Fp & _ & _ & _ & _ & _ & Ap).
  destruct (Ap _ _ Hap) as (_ & _ & _ & pq & fq & td & Fq & Cr & P & L & It & Ob & _ & Cx & _ & _).
  exists p, pr, pq, td. split; [exact Ep|]. split; [exact Fp|]. split; [exact Fq|].
  apply promise_path_type_spec in P. destruct P as (pq' & f' & base & Fq' & Fu & B & Hl).
  rewrite Fq in Fq'. injection Fq' as <-.
  destruct (promise_creators _ _ _ _ _ Hc Fq) as (_ & fq' & _ & _ & Cr' & Fu' & _ & Ifq & _).
  rewrite Cr in Cr'. injection Cr' as <-. rewrite Fu in Fu'. injection Fu' as ->.
  assert (S : ctx_sees s (ctx_group (a_ctx a)) (ctx_group (a_ctx fq)) = true).
  { rewrite Cx. destruct (ctx_group (a_ctx fq)) as [g|] eqn:Cg; [|reflexivity]. simpl.
    apply ctx_group_some in Cg. destruct Cg as (rg & Cg & K & <-).
    pose proof (ci_actions _ _ _ (acc_parts cmp tbl s Hc) fq Ifq) as A. apply action_ok_inv in A. destruct A as (_ & _ & A & _).
    rewrite Cg in A. apply ref_ok_group in A. destruct A as [_ [tg Fg]].
    apply (has_access_iff cmp tbl s Hc _ _ tg Fg). eapply E_self. exact Fg. }
  destruct Hl as [[_ ->]|(S' & _)]; [|congruence].
  split; [apply (BaseType_RefPathType cmp tbl s Hc pq (r_id q)); assumption|]. auto.
Qed.

(* ================================================================== the hypotheses are satisfiable *)
(* two object types (type 1 has an edge 4 and an edge collection 5 to type 2), five actions (2 creates promise 1
   with a default value and a default edge, 3 edits it, 4 runs in thread group 1, 5 appends to promise 1's
   collection), a gated checkpoint with a nested reference, a thread-variable comparison *)
Definition example_schema : schema :=
  Build_schema
    [Build_party 1 201]
    [Build_otype 1 101 [Build_attr 1 (KField STRING); Build_attr 2 (KField NUMERIC); Build_attr 3 (KField STRING_LIST);
                        Build_attr 4 (KEdge (Ref RType 2)); Build_attr 5 (KEdgeColl (Ref RType 2))];
     Build_otype 2 102 [Build_attr 1 (KField STRING); Build_attr 2 (KField NUMERIC)]]
    [Build_promise 1 301 (Ref RType 1) None; Build_promise 2 302 (Ref RType 2) None;
     Build_promise 3 303 (Ref RType 2) (Some (Ref RGroup 1)); Build_promise 4 304 (Ref RType 2) None]
    [Build_action 1 401 (Ref RParty 1) (Ref RPromise 2) None None
       (Build_operation (Include None) [(1, SStr)] [] None) [];
     Build_action 2 402 (Ref RParty 1) (Ref RPromise 1) None (Some (Ref RCheckpoint 1))
       (Build_operation (Include None) [(2, SInt)] [(4, Ref RPromise 2)] None) [];
     Build_action 3 403 (Ref RParty 1) (Ref RPromise 1) None (Some (Ref RCheckpoint 2))
       (Build_operation (Include (Some [1])) [] [] None) [7];
     Build_action 4 404 (Ref RParty 1) (Ref RPromise 3) (Some (Ref RGroup 1)) (Some (Ref RCheckpoint 3))
       (Build_operation (Exclude (Some [2])) [] [] None) [];
     Build_action 5 405 (Ref RParty 1) (Ref RPromise 4) None (Some (Ref RCheckpoint 5))
       (Build_operation (Include None) [] [] (Some (Ref RPromise 1, [5]))) []]
    [Build_checkpoint 1 501 None [DCmp (OAct (Ref RAction 1) [1]) EQUALS (OLit (Lit SStr 1))] None;
     Build_checkpoint 2 502 (Some G_AND)
       [DCmp (OAct (Ref RAction 2) [2]) GREATER_THAN (OLit (Lit SInt 2)); DRef (Ref RCheckpoint 1)] None;
     Build_checkpoint 3 503 None [DCmp (OVar 1 [1]) EQUALS (OLit (Lit SStr 3))] (Some (Ref RGroup 1));
     Build_checkpoint 4 504 None [DCmp (OAct (Ref RAction 2) [5; 2]) CONTAINS (OLit (Lit SInt 4))] None;
     Build_checkpoint 5 505 None [DCmp (OAct (Ref RAction 2) [4; 1]) DOES_NOT_EQUAL (OLit (Lit SStr 5))] None]
    [Build_tgroup 1 601 None (Some (Ref RCheckpoint 4)) (SpPromise (Ref RPromise 1) [5]) 7].

Example example_conforms : conforms default_value_table example_schema = true.
Proof. vm_compute. reflexivity. Qed.

(* the theorems apply: e.g. the thread variable of group 1 is an object of type 2 *)
Example example_var_type : VarType example_schema 1 (TD false IObject (Some (Ref RType 2))).
Proof. apply (var_type_sound example_schema (fuel_of example_schema)). vm_compute. reflexivity. Qed.
