(* What acceptance gives, rule by rule: inversion of [conforms_with cmp tbl s = true] into its conjuncts and
   of every rule function into facts stated with [In], [exists], [forall], [find_* = Some] and the
   declarative relations of Spec/DepRel.v.  The lemmas behind Properties/C01, C05, C06, C07 are proved here;
   those about typing (C04, and the spawn-source clause of C05) in Proofs/TypingSpec.v. *)
From Coq Require Import List Bool Arith Lia Relations.
From OIS Require Import Base.Types Base.PipeTypes Spec.Compare Model.Schema Model.Rules Spec.DepRel.
Import ListNotations.

(* ================================================================== booleans, membership, duplicates *)
Lemma mem_nat_In x l : mem_nat x l = true <-> In x l.
Proof.
  unfold mem_nat. rewrite existsb_exists. split.
  - intros (y & Hy & E). apply Nat.eqb_eq in E. subst y. exact Hy.
  - intro H. exists x. split; [exact H | apply Nat.eqb_refl].
Qed.

Lemma mem_nat_false x l : mem_nat x l = false <-> ~ In x l.
Proof. rewrite <- mem_nat_In. destruct (mem_nat x l); intuition congruence. Qed.

Lemma nodup_nat_NoDup l : nodup_nat l = true <-> NoDup l.
Proof.
  induction l as [|x r IH]; simpl.
  - split; [constructor | reflexivity].
  - rewrite andb_true_iff, negb_true_iff, mem_nat_false, IH. split.
    + intros [A B]. constructor; assumption.
    + intro H. inversion H; subst. split; assumption.
Qed.

Lemma isSome_true {A} (o : option A) : isSome o = true <-> exists x, o = Some x.
Proof. destruct o; simpl; split; try discriminate; eauto. intros [x Hx]; discriminate. Qed.

Lemma opt_nat_eqb_eq a b : opt_nat_eqb a b = true <-> a = b.
Proof.
  destruct a as [x|], b as [y|]; simpl; try (split; [discriminate | discriminate]).
  - rewrite Nat.eqb_eq. split; [intros ->; reflexivity | intro H; injection H; auto].
  - split; reflexivity.
Qed.

Lemma ref_eta r : r = Ref (r_kind r) (r_id r).
Proof. destruct r; reflexivity. Qed.

(* ================================================================== first-match lookup by a numeric key *)
Section Find.
Context {A : Type} (key : A -> nat).

Lemma find_key_some l i e : find (fun x => Nat.eqb (key x) i) l = Some e -> In e l /\ key e = i.
Proof. intro H. apply find_some in H. destruct H as [H1 H2]. apply Nat.eqb_eq in H2. split; assumption. Qed.

Lemma find_key_in l e : NoDup (map key l) -> In e l -> find (fun x => Nat.eqb (key x) (key e)) l = Some e.
Proof.
  induction l as [|x r IH]; simpl; intros ND Hin; [contradiction|].
  inversion ND as [|? ? Hnot ND']; subst.
  destruct Hin as [->|Hin].
  - rewrite Nat.eqb_refl. reflexivity.
  - destruct (Nat.eqb (key x) (key e)) eqn:E.
    + apply Nat.eqb_eq in E. exfalso. apply Hnot. rewrite E. apply in_map. exact Hin.
    + apply IH; assumption.
Qed.

Lemma key_unique l e e' : NoDup (map key l) -> In e l -> In e' l -> key e = key e' -> e = e'.
Proof.
  intros ND H1 H2 E. pose proof (find_key_in l e ND H1) as F1. pose proof (find_key_in l e' ND H2) as F2.
  rewrite E in F1. rewrite F1 in F2. injection F2; auto.
Qed.

Lemma find_key_exists l i : In i (map key l) -> exists e, find (fun x => Nat.eqb (key x) i) l = Some e.
Proof.
  intro H. apply in_map_iff in H. destruct H as (e & Hk & Hin).
  destruct (find (fun x => Nat.eqb (key x) i) l) eqn:F; [eauto|].
  exfalso. pose proof (find_none _ _ F e Hin) as N. simpl in N. rewrite Hk, Nat.eqb_refl in N. discriminate.
Qed.

(* a successful lookup under pairwise distinct keys denotes exactly one element *)
Lemma find_key_unique l i e : NoDup (map key l) -> find (fun x => Nat.eqb (key x) i) l = Some e ->
  forall e', In e' l -> key e' = i -> e' = e.
Proof.
  intros ND F e' Hin Hk. apply find_key_some in F. destruct F as [Hin0 Hk0].
  apply (key_unique l e' e ND Hin Hin0). congruence.
Qed.
End Find.

(* ================================================================== the verdict, split *)
Record conforms_parts (cmp : ty -> cop -> ty -> bool) (tbl : list (ishape * ty * bool)) (s : schema) : Prop := {
  ci_unique : unique_ids s = true;
  ci_otypes : forall t, In t (otypes s) -> otype_ok s t = true;
  ci_prefs : forall p, In p (promises s) -> promise_refs_ok s p = true;
  ci_promises : forall p, In p (promises s) -> promise_ok s p = true;
  ci_actions : forall a, In a (actions s) -> action_ok tbl s a = true;
  ci_checkpoints : forall c, In c (checkpoints s) -> checkpoint_ok cmp s c = true;
  ci_groups : forall g, In g (groups s) -> group_ok s g = true;
  ci_acyclic : has_cycle s = false
}.

Lemma conforms_inv cmp tbl s : conforms_with cmp tbl s = true <-> conforms_parts cmp tbl s.
Proof.
  unfold conforms_with. rewrite !andb_true_iff, !forallb_forall, negb_true_iff. split.
  - intros [[[[[[U T] P] A] C] G] Y]. constructor; try assumption.
    + intros p Hp. specialize (P p Hp). apply andb_true_iff in P. tauto.
    + intros p Hp. specialize (P p Hp). apply andb_true_iff in P. tauto.
  - intros [U T P1 P2 A C G Y]. repeat split; try assumption.
    intros p Hp. rewrite (P1 p Hp), (P2 p Hp). reflexivity.
Qed.

(* ------------------------------------------------------------------ unique_ids *)
Record unique_parts (s : schema) : Prop := {
  u_party_id : NoDup (map pa_id (parties s));
  u_party_name : NoDup (map pa_name (parties s));
  u_type_id : NoDup (map ot_id (otypes s));
  u_type_name : NoDup (map ot_name (otypes s));
  u_promise_id : NoDup (map pr_id (promises s));
  u_promise_name : NoDup (map pr_name (promises s));
  u_action_id : NoDup (map a_id (actions s));
  u_action_name : NoDup (map a_name (actions s));
  u_milestones : NoDup (flat_map a_milestones (actions s));
  u_checkpoint_id : NoDup (map cp_id (checkpoints s));
  u_checkpoint_alias : NoDup (map cp_alias (checkpoints s));
  u_composite : nodup_by composite_eqb (checkpoints s) = true;
  u_group_id : NoDup (map g_id (groups s));
  u_group_name : NoDup (map g_name (groups s))
}.

Lemma unique_ids_inv s : unique_ids s = true <-> unique_parts s.
Proof.
  unfold unique_ids. rewrite !andb_true_iff, !nodup_nat_NoDup. split.
  - intro H. repeat match goal with H : _ /\ _ |- _ => destruct H end. constructor; assumption.
  - intros []. repeat split; assumption.
Qed.

Lemma conforms_unique cmp tbl s : conforms_with cmp tbl s = true -> unique_parts s.
Proof. intro H. apply conforms_inv in H. apply unique_ids_inv. apply (ci_unique _ _ _ H). Qed.

Lemma conforms_ids_distinct cmp tbl s : conforms_with cmp tbl s = true ->
  NoDup (map pa_id (parties s)) /\ NoDup (map ot_id (otypes s)) /\ NoDup (map pr_id (promises s)) /\
  NoDup (map a_id (actions s)) /\ NoDup (map cp_id (checkpoints s)) /\ NoDup (map g_id (groups s)).
Proof. intro H. destruct (conforms_unique cmp tbl s H). auto 10. Qed.

(* ================================================================== references *)
Lemma ref_ok_inv s k r : ref_ok s k r = true <-> r_kind r = k /\ denotes s r = true.
Proof. unfold ref_ok. rewrite andb_true_iff, rkind_eqb_eq. tauto. Qed.

(* the reading of "r resolves to exactly one declared entity of kind k" *)
Definition Resolves (s : schema) (k : rkind) (r : ref) : Prop :=
  r_kind r = k /\
  match k with
  | RParty => exists e, find_party s (r_id r) = Some e /\ In e (parties s) /\ pa_id e = r_id r /\
                        forall e', In e' (parties s) -> pa_id e' = r_id r -> e' = e
  | RType => exists e, find_type s (r_id r) = Some e /\ In e (otypes s) /\ ot_id e = r_id r /\
                       forall e', In e' (otypes s) -> ot_id e' = r_id r -> e' = e
  | RPromise => exists e, find_promise s (r_id r) = Some e /\ In e (promises s) /\ pr_id e = r_id r /\
                          forall e', In e' (promises s) -> pr_id e' = r_id r -> e' = e
  | RAction => exists e, find_action s (r_id r) = Some e /\ In e (actions s) /\ a_id e = r_id r /\
                         forall e', In e' (actions s) -> a_id e' = r_id r -> e' = e
  | RCheckpoint => exists e, find_checkpoint s (r_id r) = Some e /\ In e (checkpoints s) /\ cp_id e = r_id r /\
                             forall e', In e' (checkpoints s) -> cp_id e' = r_id r -> e' = e
  | RGroup => exists e, find_group s (r_id r) = Some e /\ In e (groups s) /\ g_id e = r_id r /\
                        forall e', In e' (groups s) -> g_id e' = r_id r -> e' = e
  end.

Definition OResolves (s : schema) (k : rkind) (o : option ref) : Prop :=
  forall r, o = Some r -> Resolves s k r.

Lemma found_resolves {A} (key : A -> nat) (l : list A) (i : nat) (o : option A) :
  NoDup (map key l) -> o = find (fun x => Nat.eqb (key x) i) l -> isSome o = true ->
  exists e, o = Some e /\ In e l /\ key e = i /\ forall e', In e' l -> key e' = i -> e' = e.
Proof.
  intros ND -> H. apply isSome_true in H. destruct H as [e F]. exists e.
  destruct (find_key_some key l i e F) as [Hin Hk]. repeat split; try assumption.
  apply (find_key_unique key l i e ND F).
Qed.

Lemma ref_ok_Resolves s k r : unique_parts s -> ref_ok s k r = true -> Resolves s k r.
Proof.
  intros U H. apply ref_ok_inv in H. destruct H as [Hk Hd]. split; [exact Hk|].
  unfold denotes in Hd. rewrite Hk in Hd. destruct k.
  - exact (found_resolves pa_id _ _ _ (u_party_id s U) eq_refl Hd).
  - exact (found_resolves ot_id _ _ _ (u_type_id s U) eq_refl Hd).
  - exact (found_resolves pr_id _ _ _ (u_promise_id s U) eq_refl Hd).
  - exact (found_resolves a_id _ _ _ (u_action_id s U) eq_refl Hd).
  - exact (found_resolves cp_id _ _ _ (u_checkpoint_id s U) eq_refl Hd).
  - exact (found_resolves g_id _ _ _ (u_group_id s U) eq_refl Hd).
Qed.

Lemma oref_ok_OResolves s k o : unique_parts s -> oref_ok s k o = true -> OResolves s k o.
Proof. intros U H r ->. simpl in H. apply ref_ok_Resolves; assumption. Qed.

(* weaker, uniqueness-free forms used inside proofs *)
Lemma ref_ok_party s r : ref_ok s RParty r = true -> r_kind r = RParty /\ exists e, find_party s (r_id r) = Some e.
Proof. intro H. apply ref_ok_inv in H. destruct H as [K D]. unfold denotes in D. rewrite K in D. apply isSome_true in D. auto. Qed.
Lemma ref_ok_type s r : ref_ok s RType r = true -> r_kind r = RType /\ exists e, find_type s (r_id r) = Some e.
Proof. intro H. apply ref_ok_inv in H. destruct H as [K D]. unfold denotes in D. rewrite K in D. apply isSome_true in D. auto. Qed.
Lemma ref_ok_promise s r : ref_ok s RPromise r = true -> r_kind r = RPromise /\ exists e, find_promise s (r_id r) = Some e.
Proof. intro H. apply ref_ok_inv in H. destruct H as [K D]. unfold denotes in D. rewrite K in D. apply isSome_true in D. auto. Qed.
Lemma ref_ok_action s r : ref_ok s RAction r = true -> r_kind r = RAction /\ exists e, find_action s (r_id r) = Some e.
Proof. intro H. apply ref_ok_inv in H. destruct H as [K D]. unfold denotes in D. rewrite K in D. apply isSome_true in D. auto. Qed.
Lemma ref_ok_checkpoint s r : ref_ok s RCheckpoint r = true -> r_kind r = RCheckpoint /\ exists e, find_checkpoint s (r_id r) = Some e.
Proof. intro H. apply ref_ok_inv in H. destruct H as [K D]. unfold denotes in D. rewrite K in D. apply isSome_true in D. auto. Qed.
Lemma ref_ok_group s r : ref_ok s RGroup r = true -> r_kind r = RGroup /\ exists e, find_group s (r_id r) = Some e.
Proof. intro H. apply ref_ok_inv in H. destruct H as [K D]. unfold denotes in D. rewrite K in D. apply isSome_true in D. auto. Qed.

(* lookups return a declared entity with the requested id *)
Lemma find_party_some s i e : find_party s i = Some e -> In e (parties s) /\ pa_id e = i.
Proof. apply (find_key_some pa_id). Qed.
Lemma find_type_some s i e : find_type s i = Some e -> In e (otypes s) /\ ot_id e = i.
Proof. apply (find_key_some ot_id). Qed.
Lemma find_promise_some s i e : find_promise s i = Some e -> In e (promises s) /\ pr_id e = i.
Proof. apply (find_key_some pr_id). Qed.
Lemma find_action_some s i e : find_action s i = Some e -> In e (actions s) /\ a_id e = i.
Proof. apply (find_key_some a_id). Qed.
Lemma find_checkpoint_some s i e : find_checkpoint s i = Some e -> In e (checkpoints s) /\ cp_id e = i.
Proof. apply (find_key_some cp_id). Qed.
Lemma find_group_some s i e : find_group s i = Some e -> In e (groups s) /\ g_id e = i.
Proof. apply (find_key_some g_id). Qed.
Lemma find_attr_some t n a : find_attr t n = Some a -> In a (ot_attrs t) /\ at_name a = n.
Proof. apply (find_key_some at_name). Qed.

Lemma find_action_in s a : unique_parts s -> In a (actions s) -> find_action s (a_id a) = Some a.
Proof. intros U H. apply (find_key_in a_id); [apply (u_action_id s U) | exact H]. Qed.
Lemma find_group_in s g : unique_parts s -> In g (groups s) -> find_group s (g_id g) = Some g.
Proof. intros U H. apply (find_key_in g_id); [apply (u_group_id s U) | exact H]. Qed.
Lemma find_promise_in s p : unique_parts s -> In p (promises s) -> find_promise s (pr_id p) = Some p.
Proof. intros U H. apply (find_key_in pr_id); [apply (u_promise_id s U) | exact H]. Qed.
Lemma find_checkpoint_in s c : unique_parts s -> In c (checkpoints s) -> find_checkpoint s (cp_id c) = Some c.
Proof. intros U H. apply (find_key_in cp_id); [apply (u_checkpoint_id s U) | exact H]. Qed.

Lemma action_id_inj s a b : unique_parts s -> In a (actions s) -> In b (actions s) -> a_id a = a_id b -> a = b.
Proof. intros U. apply (key_unique a_id). apply (u_action_id s U). Qed.

Lemma attr_names_find t n : In n (attr_names t) <-> exists a, find_attr t n = Some a.
Proof.
  split.
  - apply (find_key_exists at_name).
  - intros [a F]. apply find_attr_some in F. destruct F as [Hin Hn]. unfold attr_names. rewrite <- Hn. apply in_map. exact Hin.
Qed.

Lemma find_type_ref_some s r t : find_type_ref s r = Some t <-> r_kind r = RType /\ find_type s (r_id r) = Some t.
Proof.
  unfold find_type_ref. destruct (rkind_eqb (r_kind r) RType) eqn:E.
  - apply rkind_eqb_eq in E. tauto.
  - split; [discriminate|]. intros [K _]. apply rkind_eqb_eq in K. congruence.
Qed.

(* ================================================================== thread scopes *)
Lemma ctx_group_some c g : ctx_group c = Some g <-> exists r, c = Some r /\ r_kind r = RGroup /\ r_id r = g.
Proof.
  unfold ctx_group. destruct c as [r|].
  - destruct (rkind_eqb (r_kind r) RGroup) eqn:E.
    + apply rkind_eqb_eq in E. split.
      * intro H. injection H as <-. eauto.
      * intros (r' & H & _ & <-). injection H as <-. reflexivity.
    + split; [discriminate|]. intros (r' & H & K & _). injection H as <-. apply rkind_eqb_eq in K. congruence.
  - split; [discriminate|]. intros (r' & H & _). discriminate.
Qed.

Lemma ctx_group_ref g : ctx_group (Some (Ref RGroup g)) = Some g.
Proof. reflexivity. Qed.

Lemma ctx_group_of_group c r : c = Some r -> r_kind r = RGroup -> ctx_group c = Some (r_id r).
Proof. intros -> K. unfold ctx_group. apply rkind_eqb_eq in K. rewrite K. reflexivity. Qed.

Lemma chain_Encloses s fuel : forall g l, chain s fuel g = Some l -> forall g', In g' l <-> Encloses s g' g.
Proof.
  induction fuel as [|f IH]; intros g l H g'; simpl in H; [discriminate|].
  destruct (find_group s g) as [tg|] eqn:F; [|discriminate].
  destruct (g_ctx tg) as [r|] eqn:C.
  - destruct (rkind_eqb (r_kind r) RGroup) eqn:K; [|discriminate].
    apply rkind_eqb_eq in K.
    destruct (chain s f (r_id r)) as [l0|] eqn:Ch; [|discriminate].
    injection H as <-. specialize (IH _ _ Ch g'). split.
    + intros [<-|Hin].
      * eapply E_self; eassumption.
      * eapply E_up; try eassumption. apply IH. exact Hin.
    + intro E. inversion E as [g0 tg0 F0|g0 tg0 r0 g0' F0 C0 K0 E0]; subst.
      * left; reflexivity.
      * right. rewrite F in F0. injection F0 as <-. rewrite C in C0. injection C0 as <-. apply IH. exact E0.
  - injection H as <-. split.
    + intros [<-|[]]. eapply E_self; eassumption.
    + intro E. inversion E as [g0 tg0 F0|g0 tg0 r0 g0' F0 C0 K0 E0]; subst.
      * left; reflexivity.
      * rewrite F in F0. injection F0 as <-. rewrite C in C0. discriminate.
Qed.

Lemma has_access_Encloses s g g' : has_access s g g' = true -> Encloses s g' g.
Proof.
  unfold has_access, scope. destruct (chain s (fuel_of s) g) as [l|] eqn:Ch; [|discriminate].
  intro H. apply mem_nat_In in H. apply (chain_Encloses s _ _ _ Ch). exact H.
Qed.

Lemma scope_Encloses s g l : scope s g = Some l -> forall g', In g' l <-> Encloses s g' g.
Proof. unfold scope. apply chain_Encloses. Qed.

Lemma Encloses_has_access s g g' l : scope s g = Some l -> Encloses s g' g -> has_access s g g' = true.
Proof.
  intros Sc E. unfold has_access. rewrite Sc. apply mem_nat_In. apply (scope_Encloses s g l Sc). exact E.
Qed.

Lemma Encloses_declared s g' g : Encloses s g' g -> exists tg', find_group s g' = Some tg'.
Proof. induction 1; eauto. Qed.

Lemma Encloses_declared_inner s g' g : Encloses s g' g -> exists tg, find_group s g = Some tg.
Proof. destruct 1; eauto. Qed.

Lemma ctx_sees_inv s from g' : ctx_sees s from (Some g') = true -> exists g, from = Some g /\ Encloses s g' g.
Proof.
  simpl. destruct from as [g|]; [|discriminate]. intro H. exists g. split; [reflexivity|]. apply has_access_Encloses. exact H.
Qed.

(* ================================================================== dependency structure (soundness of the searches) *)
Lemma own_cp_In o c : In c (own_cp o) <-> exists r, o = Some r /\ r_kind r = RCheckpoint /\ r_id r = c.
Proof.
  unfold own_cp. destruct o as [r|].
  - destruct (rkind_eqb (r_kind r) RCheckpoint) eqn:K.
    + apply rkind_eqb_eq in K. simpl. split.
      * intros [<-|[]]. eauto.
      * intros (r' & H & _ & <-). injection H as <-. left; reflexivity.
    + simpl. split; [contradiction|]. intros (r' & H & K' & _). injection H as <-. apply rkind_eqb_eq in K'. congruence.
  - simpl. split; [contradiction|]. intros (r' & H & _). discriminate.
Qed.

Lemma mentions_Mentions s fuel : forall c b, In b (mentions s fuel c) -> Mentions s c b.
Proof.
  induction fuel as [|f IH]; intros c b H; simpl in H; [contradiction|].
  destruct (find_checkpoint s c) as [cp|] eqn:F; [|contradiction].
  apply in_flat_map in H. destruct H as (d & Hd & Hb). destruct d as [l o r|r].
  - eapply M_cmp; eassumption.
  - destruct (rkind_eqb (r_kind r) RCheckpoint) eqn:K; [|contradiction].
    apply rkind_eqb_eq in K. eapply M_ref; try eassumption. apply IH. exact Hb.
Qed.

Lemma group_cps_Holds s g c : In c (group_cps s (Some g)) -> HoldsGroup s g c.
Proof.
  simpl. destruct (scope s g) as [l|] eqn:Sc; [|contradiction].
  intro H. apply in_flat_map in H. destruct H as (g' & Hg' & Hc).
  destruct (find_group s g') as [tg|] eqn:F; [|contradiction].
  apply own_cp_In in Hc. destruct Hc as (r & D & K & I).
  exists g', tg, r. repeat split; try assumption. apply (scope_Encloses s g l Sc). exact Hg'.
Qed.

Lemma action_cps_Holds s a c : In c (action_cps s a) -> HoldsAction s a c.
Proof.
  unfold action_cps. intro H. apply in_app_or in H. destruct H as [H|H].
  - left. apply own_cp_In in H. exact H.
  - right. destruct (ctx_group (a_ctx a)) as [g|] eqn:C; [|contradiction].
    apply ctx_group_some in C. destruct C as (r & Cr & K & <-).
    exists r. repeat split; try assumption. apply group_cps_Holds. exact H.
Qed.

Lemma succ_Dep s a b : In b (succ s a) -> Dep s a b.
Proof.
  unfold succ. destruct (find_action s a) as [act|] eqn:F; [|contradiction].
  intro H. apply in_flat_map in H. destruct H as (c & Hc & Hb).
  exists act, c. split; [exact F|]. split; [apply action_cps_Holds; exact Hc | eapply mentions_Mentions; exact Hb].
Qed.

Lemma union_nat_In b : forall a x, In x (union_nat a b) -> In x a \/ In x b.
Proof.
  induction b as [|y r IH]; intros a x H; simpl in H; [left; exact H|].
  destruct (mem_nat y a).
  - destruct (IH _ _ H); [left | right; right]; assumption.
  - destruct (IH _ _ H) as [H'|H']; [|right; right; exact H'].
    apply in_app_or in H'. destruct H' as [H'|[<-|[]]]; [left; exact H' | right; left; reflexivity].
Qed.

Lemma close_sound s n : forall acc x, In x (close s n acc) ->
  In x acc \/ exists y, In y acc /\ clos_trans nat (Dep s) y x.
Proof.
  induction n as [|n IH]; intros acc x H; simpl in H; [left; exact H|].
  assert (Step : forall y, In y (union_nat acc (flat_map (succ s) acc)) -> In y acc \/ exists z, In z acc /\ Dep s z y).
  { intros y Hy. apply union_nat_In in Hy. destruct Hy as [Hy|Hy]; [left; exact Hy|].
    right. apply in_flat_map in Hy. destruct Hy as (z & Hz & Hy). exists z. split; [exact Hz | apply succ_Dep; exact Hy]. }
  destruct (IH _ _ H) as [Hx|(y & Hy & Hyx)].
  - destruct (Step _ Hx) as [Hx'|(z & Hz & D)]; [left; exact Hx'|]. right. exists z. split; [exact Hz | apply t_step; exact D].
  - destruct (Step _ Hy) as [Hy'|(z & Hz & D)].
    + right. exists y. split; assumption.
    + right. exists z. split; [exact Hz|]. eapply t_trans; [apply t_step; exact D | exact Hyx].
Qed.

(* soundness of the ancestry search (the converse needs the round count; proved elsewhere) *)
Lemma is_ancestor_Anc s a b : is_ancestor s a b = true -> Anc s a b.
Proof.
  unfold is_ancestor, ancestors. intro H. apply mem_nat_In in H. apply close_sound in H.
  assert (Base : forall y, In y (union_nat [] (succ s a)) -> Dep s a y).
  { intros y Hy. apply union_nat_In in Hy. destruct Hy as [[]|Hy]. apply succ_Dep. exact Hy. }
  destruct H as [H|(y & Hy & Hyb)].
  - apply t_step. apply Base. exact H.
  - eapply t_trans; [apply t_step; apply Base; exact Hy | exact Hyb].
Qed.

(* an action is an ancestor of thread group g: a checkpoint holding g mentions it or one of its descendants *)
Definition GroupAnc (s : schema) (g b : nat) : Prop :=
  exists c m, HoldsGroup s g c /\ Mentions s c m /\ (m = b \/ Anc s m b).

Lemma group_ancestors_sound s g b : In b (group_ancestors s g) -> GroupAnc s g b.
Proof.
  unfold group_ancestors, group_eff_cps. intro H. apply close_sound in H.
  assert (Base : forall y, In y (union_nat [] (flat_map (mentions s (fuel_of s)) (group_cps s (Some g)))) ->
                           exists c, HoldsGroup s g c /\ Mentions s c y).
  { intros y Hy. apply union_nat_In in Hy. destruct Hy as [[]|Hy]. apply in_flat_map in Hy. destruct Hy as (c & Hc & Hy).
    exists c. split; [apply group_cps_Holds; exact Hc | eapply mentions_Mentions; exact Hy]. }
  destruct H as [H|(y & Hy & Hyb)].
  - destruct (Base _ H) as (c & Hc & M). exists c, b. auto.
  - destruct (Base _ Hy) as (c & Hc & M). exists c, y. auto.
Qed.

(* ================================================================== the rules, inverted *)
Lemma action_ok_inv tbl s a : action_ok tbl s a = true <->
  ref_ok s RParty (a_party a) = true /\ ref_ok s RPromise (a_promise a) = true /\
  oref_ok s RGroup (a_ctx a) = true /\ oref_ok s RCheckpoint (a_dep a) = true /\
  depends_scope_ok s (ctx_group (a_ctx a)) (a_dep a) = true /\ action_op_ok tbl s a = true.
Proof. unfold action_ok. rewrite !andb_true_iff. tauto. Qed.

Lemma checkpoint_ok_inv cmp s cp : checkpoint_ok cmp s cp = true <->
  gate_shape_ok cp = true /\ oref_ok s RGroup (cp_ctx cp) = true /\
  (forall d, In d (cp_deps cp) -> dep_ok cmp s cp d = true) /\ cp_referenced s (cp_id cp) = true.
Proof. unfold checkpoint_ok. rewrite !andb_true_iff, forallb_forall. tauto. Qed.

Lemma dep_ok_cmp_inv cmp s cp l o r : dep_ok cmp s cp (DCmp l o r) = true <->
  operand_refs_ok s l = true /\ operand_refs_ok s r = true /\
  comparison_ok cmp s (ctx_group (cp_ctx cp)) l o r = true /\
  operand_scope_ok s (ctx_group (cp_ctx cp)) l = true /\ operand_scope_ok s (ctx_group (cp_ctx cp)) r = true.
Proof. unfold dep_ok; cbv beta iota zeta. rewrite !andb_true_iff. tauto. Qed.

Lemma dep_ok_ref_inv cmp s cp c : dep_ok cmp s cp (DRef c) = true <->
  ref_ok s RCheckpoint c = true /\
  (forall c', find_checkpoint s (r_id c) = Some c' -> ctx_sees s (ctx_group (cp_ctx cp)) (ctx_group (cp_ctx c')) = true).
Proof.
  unfold dep_ok; cbv beta iota zeta. rewrite andb_true_iff.
  destruct (find_checkpoint s (r_id c)) as [c'|]; split.
  - intros [A B]. split; [exact A|]. intros c'' E. injection E as <-. exact B.
  - intros [A B]. split; [exact A | apply B; reflexivity].
  - intros [A _]. split; [exact A|]. discriminate.
  - intros [A _]. split; [exact A | reflexivity].
Qed.

Lemma is_lit_true o : is_lit o = true <-> exists x, o = OLit x.
Proof. destruct o; simpl; split; try discriminate; eauto; intros [x Hx]; discriminate. Qed.

Lemma comparison_ok_inv cmp s ctx l o r : comparison_ok cmp s ctx l o r = true <->
  ~ (is_lit l = true /\ is_lit r = true) /\ operand_eqb l r = false /\
  exists tl tr, operand_type s ctx l = Some tl /\ operand_type s ctx r = Some tr /\ cmp tl o tr = true.
Proof.
  unfold comparison_ok. rewrite !andb_true_iff, !negb_true_iff, andb_false_iff. split.
  - intros [[A B] C]. split; [|split; [exact B|]].
    + intros [L R]. destruct A; congruence.
    + destruct (operand_type s ctx l) as [tl|]; [|discriminate].
      destruct (operand_type s ctx r) as [tr|]; [|discriminate]. exists tl, tr. auto.
  - intros (A & B & tl & tr & Tl & Tr & C). rewrite Tl, Tr. split; [split; [|exact B] | exact C].
    destruct (is_lit l); [|left; reflexivity]. destruct (is_lit r); [|right; reflexivity]. exfalso; apply A; auto.
Qed.

Lemma operand_type_var_inv s cctx g path t : operand_type s cctx (OVar g path) = Some t ->
  exists cg, cctx = Some cg /\ has_access s cg g = true.
Proof.
  unfold operand_type. destruct cctx as [cg|]; [|discriminate].
  destruct (has_access s cg g) eqn:E; [|discriminate]. intros _. exists cg. auto.
Qed.

Lemma depends_scope_ok_inv s h r cp g' : depends_scope_ok s h (Some r) = true ->
  find_checkpoint s (r_id r) = Some cp -> ctx_group (cp_ctx cp) = Some g' -> exists g, h = Some g /\ Encloses s g' g.
Proof. unfold depends_scope_ok. intros H F C. rewrite F, C in H. apply ctx_sees_inv. exact H. Qed.

(* scoping on contexts written as references *)
Lemma sees_group s (from target : option ref) rc :
  ctx_sees s (ctx_group from) (ctx_group target) = true -> target = Some rc -> r_kind rc = RGroup ->
  exists rf, from = Some rf /\ r_kind rf = RGroup /\ Encloses s (r_id rc) (r_id rf).
Proof.
  intros H T K. rewrite (ctx_group_of_group _ _ T K) in H. apply ctx_sees_inv in H. destruct H as (g & Fg & E).
  apply ctx_group_some in Fg. destruct Fg as (rf & Ff & Kf & <-). exists rf. auto.
Qed.

Lemma group_used_inv s g : group_used s g = true ->
  (exists a, In a (actions s) /\ a_ctx a = Some (Ref RGroup g)) \/ (exists h, In h (groups s) /\ g_ctx h = Some (Ref RGroup g)).
Proof.
  unfold group_used. rewrite orb_true_iff, !existsb_exists. intros [(a & Ha & E)|(h & Hh & E)]; [left; exists a | right; exists h];
    (split; [assumption|]); apply opt_nat_eqb_eq in E; apply ctx_group_some in E; destruct E as (r & C & K & I);
    rewrite C, (ref_eta r), K, I; reflexivity.
Qed.

Lemma group_ok_inv s g : group_ok s g = true ->
  oref_ok s RGroup (g_ctx g) = true /\ oref_ok s RCheckpoint (g_dep g) = true /\
  depends_scope_ok s (ctx_group (g_ctx g)) (g_dep g) = true /\ group_used s (g_id g) = true /\
  (forall p path, g_src g = SpPromise p path ->
     ref_ok s RPromise p = true /\ exists f, fulfiller s (r_id p) = Some f /\ In (a_id f) (group_ancestors s (g_id g))) /\
  (exists vt, var_type s (fuel_of s) (g_id g) = TOk vt) /\
  (exists l, scope s (g_id g) = Some l /\
             forall g' h, In g' l -> g' <> g_id g -> find_group s g' = Some h -> g_var h <> g_var g).
Proof.
  unfold group_ok. rewrite !andb_true_iff. intros [[[[[[[A B] C] D] E] F] G] H].
  split; [exact A|]. split; [exact B|]. split; [exact D|]. split; [exact E|]. split; [|split].
  - intros p path Es. rewrite Es in F. apply andb_true_iff in F. destruct F as [F1 F2]. split; [exact F1|].
    destruct (fulfiller s (r_id p)) as [f|]; [|discriminate]. exists f. split; [reflexivity|]. apply mem_nat_In. exact F2.
  - destruct (var_type s (fuel_of s) (g_id g)) as [| |vt]; try discriminate. eauto.
  - destruct (scope s (g_id g)) as [l|]; [|discriminate]. exists l. split; [reflexivity|].
    intros g' h Hin Hne Fh Ev. apply negb_true_iff in H. rewrite <- not_true_iff_false in H. apply H.
    apply existsb_exists. exists g'. split; [exact Hin|]. rewrite Fh. apply andb_true_iff.
    split; [apply negb_true_iff, Nat.eqb_neq; exact Hne | apply Nat.eqb_eq; exact Ev].
Qed.

Lemma otype_ok_inv s t : otype_ok s t = true <->
  ot_attrs t <> [] /\ NoDup (attr_names t) /\ forall a, In a (ot_attrs t) -> attr_ok s a = true.
Proof.
  unfold otype_ok. rewrite !andb_true_iff, negb_true_iff, Nat.eqb_neq, nodup_nat_NoDup, forallb_forall.
  assert (L : length (ot_attrs t) <> 0 <-> ot_attrs t <> []).
  { destruct (ot_attrs t); simpl; split; intro H; congruence. }
  tauto.
Qed.

Lemma attr_ok_inv s a tgt : attr_ok s a = true -> at_kind a = KEdge tgt \/ at_kind a = KEdgeColl tgt -> ref_ok s RType tgt = true.
Proof. unfold attr_ok. intros H [K|K]; rewrite K in H; exact H. Qed.

Lemma promise_refs_ok_inv s p : promise_refs_ok s p = true <-> ref_ok s RType (pr_type p) = true /\ oref_ok s RGroup (pr_ctx p) = true.
Proof. unfold promise_refs_ok. apply andb_true_iff. Qed.

(* ------------------------------------------------------------------ lifecycle *)
Lemma promise_of_some a p : promise_of a = Some p <-> a_promise a = Ref RPromise p.
Proof.
  unfold promise_of. destruct (a_promise a) as [k i]; simpl. destruct k; simpl; split; intro H; inversion H; subst; reflexivity.
Qed.

Lemma actions_on_In s p a : In a (actions_on s p) <-> In a (actions s) /\ promise_of a = Some p.
Proof.
  unfold actions_on. rewrite filter_In. destruct (promise_of a) as [q|].
  - rewrite Nat.eqb_eq. split; intros [A B]; (split; [exact A|]); congruence.
  - split; intros [A B]; discriminate.
Qed.

Lemma actions_on_spec s p a : In a (actions_on s p) <-> In a (actions s) /\ a_promise a = Ref RPromise p.
Proof. rewrite actions_on_In, promise_of_some. reflexivity. Qed.

Lemma creators_In s p a : In a (creators s p) <->
  In a (actions_on s p) /\ forall b, In b (actions_on s p) -> a_id b <> a_id a -> is_ancestor s (a_id a) (a_id b) = false.
Proof.
  unfold creators. rewrite filter_In, negb_true_iff. split.
  - intros [Hin Hex]. split; [exact Hin|]. intros b Hb Hne.
    destruct (is_ancestor s (a_id a) (a_id b)) eqn:E; [|reflexivity].
    rewrite <- not_true_iff_false in Hex. exfalso. apply Hex. apply existsb_exists. exists b. split; [exact Hb|].
    rewrite E, andb_true_r. apply negb_true_iff, Nat.eqb_neq. exact Hne.
  - intros [Hin Hall]. split; [exact Hin|]. apply not_true_iff_false. intro E.
    apply existsb_exists in E. destruct E as (b & Hb & E). apply andb_true_iff in E. destruct E as [E1 E2].
    apply negb_true_iff, Nat.eqb_neq in E1. rewrite (Hall b Hb E1) in E2. discriminate.
Qed.

Lemma promise_ok_inv s p : promise_ok s p = true ->
  exists f, creators s (pr_id p) = [f] /\ ctx_group (pr_ctx p) = ctx_group (a_ctx f).
Proof.
  unfold promise_ok. destruct (creators s (pr_id p)) as [|f [|? ?]]; try discriminate.
  intro H. apply andb_true_iff in H. destruct H as [H _]. apply opt_nat_eqb_eq in H. exists f. auto.
Qed.

(* every declared id of a promise has exactly one fulfiller in an accepted schema *)
Lemma promise_creators cmp tbl s i pq : conforms_with cmp tbl s = true -> find_promise s i = Some pq ->
  exists t fq, find_type_ref s (pr_type pq) = Some t /\ type_of_promise s i = Some t /\
               creators s i = [fq] /\ fulfiller s i = Some fq /\ ctx_group (pr_ctx pq) = ctx_group (a_ctx fq) /\
               In fq (actions s) /\ promise_of fq = Some i.
Proof.
  intros Hc F. apply conforms_inv in Hc. destruct (find_promise_some _ _ _ F) as [Hin Hid].
  pose proof (ci_prefs _ _ _ Hc pq Hin) as R. apply promise_refs_ok_inv in R. destruct R as [R _].
  apply ref_ok_type in R. destruct R as [K [t Ft]].
  assert (Ftr : find_type_ref s (pr_type pq) = Some t) by (apply find_type_ref_some; auto).
  pose proof (ci_promises _ _ _ Hc pq Hin) as P. apply promise_ok_inv in P. destruct P as (fq & Cr & Cx). rewrite Hid in Cr.
  exists t, fq. split; [exact Ftr|]. split; [unfold type_of_promise; rewrite F; exact Ftr|].
  split; [exact Cr|]. split; [unfold fulfiller; rewrite Cr; reflexivity|]. split; [exact Cx|].
  assert (I : In fq (creators s i)) by (rewrite Cr; left; reflexivity).
  apply creators_In in I. destruct I as [I _]. apply actions_on_In in I. exact I.
Qed.

Lemma action_facts cmp tbl s a : conforms_with cmp tbl s = true -> In a (actions s) ->
  exists p pr t f, a_promise a = Ref RPromise p /\ promise_of a = Some p /\ find_promise s p = Some pr /\
    find_type_ref s (pr_type pr) = Some t /\ type_of_promise s p = Some t /\
    creators s p = [f] /\ fulfiller s p = Some f /\ ctx_group (pr_ctx pr) = ctx_group (a_ctx f) /\ In f (actions s).
Proof.
  intros Hc Ha. pose proof Hc as Hc'. apply conforms_inv in Hc'.
  pose proof (ci_actions _ _ _ Hc' a Ha) as A. apply action_ok_inv in A. destruct A as (_ & P & _).
  apply ref_ok_promise in P. destruct P as [K [pr F]].
  destruct (promise_creators _ _ _ _ _ Hc F) as (t & f & T1 & T2 & Cr & Fu & Cx & If & _).
  assert (E : a_promise a = Ref RPromise (r_id (a_promise a))) by (rewrite <- K; apply ref_eta).
  exists (r_id (a_promise a)), pr, t, f. split; [exact E|]. split; [apply promise_of_some; exact E|]. auto 10.
Qed.

(* ------------------------------------------------------------------ operations *)
Lemma action_op_ok_inv tbl s a p t f :
  action_op_ok tbl s a = true -> promise_of a = Some p -> type_of_promise s p = Some t -> fulfiller s p = Some f ->
  (forall n, In n (incl_list (op_incl (a_op a))) -> In n (attr_names t)) /\
  ((a_id f = a_id a /\
    (forall d, In d (op_defaults (a_op a)) ->
       exists at_ ft, find_attr t (fst d) = Some at_ /\ at_kind at_ = KField ft /\ default_fits tbl (snd d) ft = true) /\
    (forall e, In e (op_edges (a_op a)) ->
       exists at_ q fq, find_attr t (fst e) = Some at_ /\ at_kind at_ = KEdge (pr_type q) /\
         ref_ok s RPromise (snd e) = true /\ find_promise s (r_id (snd e)) = Some q /\
         fulfiller s (pr_id q) = Some fq /\ is_ancestor s (a_id a) (a_id fq) = true) /\
    (forall q path, op_appends (a_op a) = Some (q, path) ->
       ref_ok s RPromise q = true /\ is_dependee s (a_id a) = false /\ ~ In (last path 0) (settable s (r_id q)) /\
       exists fq td pr, fulfiller s (r_id q) = Some fq /\ guaranteed_ancestor s a (a_id fq) = true /\
         promise_path_type s (ctx_group (a_ctx a)) (r_id q) path = TOk td /\
         td_list td = true /\ td_item td = IObject /\
         find_promise s p = Some pr /\ td_obj td = Some (pr_type pr) /\
         ctx_group (a_ctx a) = ctx_group (a_ctx fq)))
   \/
   (a_id f <> a_id a /\ op_defaults (a_op a) = [] /\ op_edges (a_op a) = [] /\ op_appends (a_op a) = None /\
    is_ancestor s (a_id a) (a_id f) = true /\ ctx_group (a_ctx a) = ctx_group (a_ctx f))).
Proof.
  intros H Hp Ht Hf. unfold action_op_ok in H.
  rewrite Hp in H; cbv beta iota in H. rewrite Ht in H; cbv beta iota zeta in H. rewrite Hf in H; cbv beta iota in H.
  apply andb_true_iff in H. destruct H as [Hincl H]. split.
  { intros n Hn. rewrite forallb_forall in Hincl. apply mem_nat_In. apply Hincl. exact Hn. }
  destruct (Nat.eqb (a_id f) (a_id a)) eqn:E.
  - left. apply Nat.eqb_eq in E. split; [exact E|].
    apply andb_true_iff in H. destruct H as [H Happ]. apply andb_true_iff in H. destruct H as [Hdef Hedge].
    split; [|split].
    + intros d Hd. rewrite forallb_forall in Hdef. specialize (Hdef d Hd). cbv beta in Hdef.
      destruct (find_attr t (fst d)) as [at_|] eqn:Fa; [|discriminate].
      destruct (at_kind at_) as [ft|tgt|tgt] eqn:Ka; try discriminate.
      exists at_, ft. auto.
    + intros e He. rewrite forallb_forall in Hedge. specialize (Hedge e He). cbv beta in Hedge.
      destruct (find_attr t (fst e)) as [at_|] eqn:Fa; [|discriminate].
      destruct (at_kind at_) as [ft|tgt|tgt] eqn:Ka; try discriminate.
      apply andb_true_iff in Hedge. destruct Hedge as [R Hedge].
      destruct (find_promise s (r_id (snd e))) as [q|] eqn:Fq; [|discriminate].
      apply andb_true_iff in Hedge. destruct Hedge as [T Hedge]. apply ref_eqb_eq in T.
      destruct (fulfiller s (pr_id q)) as [fq|] eqn:Ff; [|discriminate].
      exists at_, q, fq. rewrite T. auto 10.
    + intros q path Eapp. rewrite Eapp in Happ.
      rewrite !andb_true_iff in Happ. destruct Happ as [[[[[R G] T] St] Dp] Cx].
      split; [exact R|]. split; [apply negb_true_iff; exact Dp|].
      split; [apply mem_nat_false; apply negb_true_iff; exact St|].
      destruct (fulfiller s (r_id q)) as [fq|] eqn:Ff; [|discriminate].
      destruct (promise_path_type s (ctx_group (a_ctx a)) (r_id q) path) as [| |td] eqn:P; try discriminate.
      apply andb_true_iff in T. destruct T as [T T3]. apply andb_true_iff in T. destruct T as [T1 T2].
      apply item_eqb_eq in T2.
      destruct (td_obj td) as [tr|] eqn:Ob; [|discriminate].
      destruct (find_promise s p) as [pr|] eqn:Fp; [|discriminate].
      apply ref_eqb_eq in T3. subst tr.
      unfold promise_context in Cx. rewrite Ff in Cx. apply opt_nat_eqb_eq in Cx.
      exists fq, td, pr. auto 12.
  - right. apply Nat.eqb_neq in E. split; [exact E|].
    rewrite !andb_true_iff in H. destruct H as [[M An] Cx]. apply opt_nat_eqb_eq in Cx.
    destruct (op_defaults (a_op a)); [|discriminate]. destruct (op_edges (a_op a)); [|discriminate].
    destruct (op_appends (a_op a)); [discriminate|]. auto 10.
Qed.

Lemma is_dependee_false s a : is_dependee s a = false <->
  forall cp l o r, In cp (checkpoints s) -> In (DCmp l o r) (cp_deps cp) -> ~ In a (operand_action l ++ operand_action r).
Proof.
  unfold is_dependee. rewrite <- not_true_iff_false, existsb_exists. split.
  - intros N cp l o r Hcp Hd Hin. apply N. exists cp. split; [exact Hcp|]. apply existsb_exists.
    exists (DCmp l o r). split; [exact Hd | apply mem_nat_In; exact Hin].
  - intros N (cp & Hcp & E). apply existsb_exists in E. destruct E as (d & Hd & E). destruct d as [l o r|c]; [|discriminate].
    apply mem_nat_In in E. exact (N cp l o r Hcp Hd E).
Qed.

Lemma settable_In s p n : In n (settable s p) <->
  exists t a, type_of_promise s p = Some t /\ In a (actions_on s p) /\ In n (settable_by t (a_op a)).
Proof.
  unfold settable. destruct (type_of_promise s p) as [t|].
  - rewrite in_flat_map. split.
    + intros (a & Ha & Hn). exists t, a. auto.
    + intros (t' & a & E & Ha & Hn). injection E as <-. exists a. auto.
  - simpl. split; [contradiction|]. intros (t' & a & E & _). discriminate.
Qed.

(* ================================================================== kinds of context references in accepted schemas *)
Section Accepted.
Variables (cmp : ty -> cop -> ty -> bool) (tbl : list (ishape * ty * bool)) (s : schema).
Hypothesis Hc : conforms_with cmp tbl s = true.

Lemma acc_parts : conforms_parts cmp tbl s.
Proof. apply conforms_inv. exact Hc. Qed.
Lemma acc_unique : unique_parts s.
Proof. apply (conforms_unique cmp tbl). exact Hc. Qed.

Lemma checkpoint_ctx_kind cp rc : In cp (checkpoints s) -> cp_ctx cp = Some rc -> r_kind rc = RGroup.
Proof.
  intros Hin E. pose proof (ci_checkpoints _ _ _ acc_parts cp Hin) as C. apply checkpoint_ok_inv in C.
  destruct C as (_ & C & _). rewrite E in C. apply ref_ok_group in C. tauto.
Qed.
Lemma action_ctx_kind a rc : In a (actions s) -> a_ctx a = Some rc -> r_kind rc = RGroup.
Proof.
  intros Hin E. pose proof (ci_actions _ _ _ acc_parts a Hin) as C. apply action_ok_inv in C.
  destruct C as (_ & _ & C & _). rewrite E in C. apply ref_ok_group in C. tauto.
Qed.
Lemma group_ctx_kind g rc : In g (groups s) -> g_ctx g = Some rc -> r_kind rc = RGroup.
Proof.
  intros Hin E. pose proof (ci_groups _ _ _ acc_parts g Hin) as C. apply group_ok_inv in C.
  destruct C as (C & _). rewrite E in C. apply ref_ok_group in C. tauto.
Qed.

(* in an accepted schema the scope search succeeds on every declared group, so [has_access] is [Encloses] *)
Lemma declared_scope g tg : find_group s g = Some tg -> exists l, scope s g = Some l.
Proof.
  intro F. destruct (find_group_some _ _ _ F) as [Hin Hid].
  pose proof (ci_groups _ _ _ acc_parts tg Hin) as C. apply group_ok_inv in C.
  destruct C as (_ & _ & _ & _ & _ & _ & l & Sc & _). rewrite Hid in Sc. eauto.
Qed.

Lemma has_access_iff g g' tg : find_group s g = Some tg -> (has_access s g g' = true <-> Encloses s g' g).
Proof.
  intro F. destruct (declared_scope g tg F) as [l Sc]. split; [apply has_access_Encloses | apply (Encloses_has_access s g g' l Sc)].
Qed.

Lemma group_Resolves g tg : find_group s g = Some tg -> Resolves s RGroup (Ref RGroup g).
Proof.
  intro F. apply ref_ok_Resolves; [exact acc_unique|]. unfold ref_ok, denotes; simpl. rewrite F. reflexivity.
Qed.

(* ================================================================== C01: references resolve *)
(* the reference positions of the model and the kind the specification allows at each *)
Inductive RefAt : rkind -> ref -> Prop :=
| RA_action_party : forall a, In a (actions s) -> RefAt RParty (a_party a)
| RA_action_promise : forall a, In a (actions s) -> RefAt RPromise (a_promise a)
| RA_action_context : forall a r, In a (actions s) -> a_ctx a = Some r -> RefAt RGroup r
| RA_action_depends_on : forall a r, In a (actions s) -> a_dep a = Some r -> RefAt RCheckpoint r
| RA_default_edge : forall a n q, In a (actions s) -> In (n, q) (op_edges (a_op a)) -> RefAt RPromise q
| RA_appends : forall a q path, In a (actions s) -> op_appends (a_op a) = Some (q, path) -> RefAt RPromise q
| RA_promise_type : forall p, In p (promises s) -> RefAt RType (pr_type p)
| RA_promise_context : forall p r, In p (promises s) -> pr_ctx p = Some r -> RefAt RGroup r
| RA_attribute_type : forall t a tgt, In t (otypes s) -> In a (ot_attrs t) ->
                                      at_kind a = KEdge tgt \/ at_kind a = KEdgeColl tgt -> RefAt RType tgt
| RA_checkpoint_context : forall cp r, In cp (checkpoints s) -> cp_ctx cp = Some r -> RefAt RGroup r
| RA_nested_checkpoint : forall cp c, In cp (checkpoints s) -> In (DRef c) (cp_deps cp) -> RefAt RCheckpoint c
| RA_operand_action : forall cp l o r a path, In cp (checkpoints s) -> In (DCmp l o r) (cp_deps cp) ->
                                              l = OAct a path \/ r = OAct a path -> RefAt RAction a
| RA_operand_variable : forall cp l o r g path, In cp (checkpoints s) -> In (DCmp l o r) (cp_deps cp) ->
                                                l = OVar g path \/ r = OVar g path -> RefAt RGroup (Ref RGroup g)
| RA_group_context : forall g r, In g (groups s) -> g_ctx g = Some r -> RefAt RGroup r
| RA_group_depends_on : forall g r, In g (groups s) -> g_dep g = Some r -> RefAt RCheckpoint r
| RA_spawn_promise : forall g p path, In g (groups s) -> g_src g = SpPromise p path -> RefAt RPromise p
| RA_spawn_variable : forall g g' path, In g (groups s) -> g_src g = SpVar g' path -> RefAt RGroup (Ref RGroup g').

Lemma var_type_spvar_inv f g tg g' path vt :
  var_type s (S f) g = TOk vt -> find_group s g = Some tg -> g_src tg = SpVar g' path ->
  g' <> g /\ has_access s g g' = true.
Proof.
  intros H F Sr. cbn [var_type] in H. rewrite F, Sr in H.
  destruct (negb (Nat.eqb g' g) && has_access s g g') eqn:E; [|discriminate].
  apply andb_true_iff in E. destruct E as [E1 E2]. apply negb_true_iff, Nat.eqb_neq in E1. auto.
Qed.

Lemma spawn_var_encloses g g' path : In g (groups s) -> g_src g = SpVar g' path -> g' <> g_id g /\ Encloses s g' (g_id g).
Proof.
  intros Hin Sr. pose proof (ci_groups _ _ _ acc_parts g Hin) as C. apply group_ok_inv in C.
  destruct C as (_ & _ & _ & _ & _ & [vt V] & _).
  unfold fuel_of in V. destruct (var_type_spvar_inv _ _ g g' path vt V (find_group_in s g acc_unique Hin) Sr) as [N A].
  split; [exact N | apply has_access_Encloses; exact A].
Qed.

Lemma operand_var_encloses cp l o r g path : In cp (checkpoints s) -> In (DCmp l o r) (cp_deps cp) ->
  l = OVar g path \/ r = OVar g path ->
  exists r0, cp_ctx cp = Some r0 /\ r_kind r0 = RGroup /\ Encloses s g (r_id r0).
Proof.
  intros Hin Hd Hop. pose proof (ci_checkpoints _ _ _ acc_parts cp Hin) as C. apply checkpoint_ok_inv in C.
  destruct C as (_ & _ & C & _). specialize (C _ Hd). apply dep_ok_cmp_inv in C. destruct C as (_ & _ & C & _).
  apply comparison_ok_inv in C. destruct C as (_ & _ & tl & tr & Tl & Tr & _).
  assert (V : exists t, operand_type s (ctx_group (cp_ctx cp)) (OVar g path) = Some t) by (destruct Hop as [<-|<-]; eauto).
  destruct V as [t V]. apply operand_type_var_inv in V. destruct V as (cg & Cg & A).
  apply ctx_group_some in Cg. destruct Cg as (r0 & C0 & K0 & <-). exists r0. split; [exact C0|]. split; [exact K0|].
  apply has_access_Encloses. exact A.
Qed.

Lemma C01_refs_lemma : forall k r, RefAt k r -> Resolves s k r.
Proof.
  pose proof acc_parts as P. pose proof acc_unique as U.
  intros k r H. destruct H.
  - pose proof (ci_actions _ _ _ P a H) as A. apply action_ok_inv in A. apply ref_ok_Resolves; tauto.
  - pose proof (ci_actions _ _ _ P a H) as A. apply action_ok_inv in A. apply ref_ok_Resolves; tauto.
  - pose proof (ci_actions _ _ _ P a H) as A. apply action_ok_inv in A. destruct A as (_ & _ & A & _).
    rewrite H0 in A. apply ref_ok_Resolves; assumption.
  - pose proof (ci_actions _ _ _ P a H) as A. apply action_ok_inv in A. destruct A as (_ & _ & _ & A & _).
    rewrite H0 in A. apply ref_ok_Resolves; assumption.
  - destruct (action_facts _ _ _ a Hc H) as (p & pr & t & f & _ & Po & _ & _ & Tp & _ & Fu & _).
    pose proof (ci_actions _ _ _ P a H) as A. apply action_ok_inv in A. destruct A as (_ & _ & _ & _ & _ & A).
    destruct (action_op_ok_inv _ _ _ _ _ _ A Po Tp Fu) as (_ & [(_ & _ & Ed & _)|(_ & _ & Ed & _)]).
    + destruct (Ed _ H0) as (at_ & q0 & fq & _ & _ & R & _). apply ref_ok_Resolves; assumption.
    + rewrite Ed in H0. contradiction.
  - destruct (action_facts _ _ _ a Hc H) as (p & pr & t & f & _ & Po & _ & _ & Tp & _ & Fu & _).
    pose proof (ci_actions _ _ _ P a H) as A. apply action_ok_inv in A. destruct A as (_ & _ & _ & _ & _ & A).
    destruct (action_op_ok_inv _ _ _ _ _ _ A Po Tp Fu) as (_ & [(_ & _ & _ & Ap)|(_ & _ & _ & Ap & _)]).
    + destruct (Ap _ _ H0) as (R & _). apply ref_ok_Resolves; assumption.
    + rewrite Ap in H0. discriminate.
  - pose proof (ci_prefs _ _ _ P p H) as A. apply promise_refs_ok_inv in A. apply ref_ok_Resolves; tauto.
  - pose proof (ci_prefs _ _ _ P p H) as A. apply promise_refs_ok_inv in A. destruct A as [_ A].
    rewrite H0 in A. apply ref_ok_Resolves; assumption.
  - pose proof (ci_otypes _ _ _ P t H) as A. apply otype_ok_inv in A. destruct A as (_ & _ & A).
    apply ref_ok_Resolves; [assumption|]. eapply attr_ok_inv; [apply A; eassumption | eassumption].
  - pose proof (ci_checkpoints _ _ _ P cp H) as A. apply checkpoint_ok_inv in A. destruct A as (_ & A & _).
    rewrite H0 in A. apply ref_ok_Resolves; assumption.
  - pose proof (ci_checkpoints _ _ _ P cp H) as A. apply checkpoint_ok_inv in A. destruct A as (_ & _ & A & _).
    specialize (A _ H0). apply dep_ok_ref_inv in A. apply ref_ok_Resolves; tauto.
  - pose proof (ci_checkpoints _ _ _ P cp H) as A. apply checkpoint_ok_inv in A. destruct A as (_ & _ & A & _).
    specialize (A _ H0). apply dep_ok_cmp_inv in A. destruct A as (A1 & A2 & _).
    apply ref_ok_Resolves; [assumption|]. destruct H1 as [->| ->]; assumption.
  - destruct (operand_var_encloses _ _ _ _ _ _ H H0 H1) as (r0 & _ & _ & E).
    destruct (Encloses_declared _ _ _ E) as [tg F]. eapply group_Resolves; eassumption.
  - pose proof (ci_groups _ _ _ P g H) as A. apply group_ok_inv in A. destruct A as (A & _).
    rewrite H0 in A. apply ref_ok_Resolves; assumption.
  - pose proof (ci_groups _ _ _ P g H) as A. apply group_ok_inv in A. destruct A as (_ & A & _).
    rewrite H0 in A. apply ref_ok_Resolves; assumption.
  - pose proof (ci_groups _ _ _ P g H) as A. apply group_ok_inv in A. destruct A as (_ & _ & _ & _ & A & _).
    destruct (A _ _ H0) as [R _]. apply ref_ok_Resolves; assumption.
  - destruct (spawn_var_encloses _ _ _ H H0) as [_ E].
    destruct (Encloses_declared _ _ _ E) as [tg F]. eapply group_Resolves; eassumption.
Qed.

(* ================================================================== C05: scoping (SC1 - SC3, SC5 - SC7; SC4 is in TypingSpec) *)
Lemma C05_SC1_action_lemma : forall a r cp rc, In a (actions s) -> a_dep a = Some r ->
  find_checkpoint s (r_id r) = Some cp -> cp_ctx cp = Some rc ->
  exists ra, a_ctx a = Some ra /\ r_kind ra = RGroup /\ Encloses s (r_id rc) (r_id ra).
Proof.
  intros a r cp rc Ha Hd F Cx. destruct (find_checkpoint_some _ _ _ F) as [Hcp _].
  pose proof (ci_actions _ _ _ acc_parts a Ha) as A. apply action_ok_inv in A. destruct A as (_ & _ & _ & _ & A & _).
  rewrite Hd in A. unfold depends_scope_ok in A. rewrite F in A.
  exact (sees_group s _ _ rc A Cx (checkpoint_ctx_kind cp rc Hcp Cx)).
Qed.

Lemma C05_SC1_group_lemma : forall g r cp rc, In g (groups s) -> g_dep g = Some r ->
  find_checkpoint s (r_id r) = Some cp -> cp_ctx cp = Some rc ->
  exists rg, g_ctx g = Some rg /\ r_kind rg = RGroup /\ Encloses s (r_id rc) (r_id rg).
Proof.
  intros g r cp rc Hg Hd F Cx. destruct (find_checkpoint_some _ _ _ F) as [Hcp _].
  pose proof (ci_groups _ _ _ acc_parts g Hg) as A. apply group_ok_inv in A. destruct A as (_ & _ & A & _).
  rewrite Hd in A. unfold depends_scope_ok in A. rewrite F in A.
  exact (sees_group s _ _ rc A Cx (checkpoint_ctx_kind cp rc Hcp Cx)).
Qed.

Lemma C05_SC1_checkpoint_lemma : forall cp c c' rc, In cp (checkpoints s) -> In (DRef c) (cp_deps cp) ->
  find_checkpoint s (r_id c) = Some c' -> cp_ctx c' = Some rc ->
  exists r0, cp_ctx cp = Some r0 /\ r_kind r0 = RGroup /\ Encloses s (r_id rc) (r_id r0).
Proof.
  intros cp c c' rc Hcp Hd F Cx. destruct (find_checkpoint_some _ _ _ F) as [Hc' _].
  pose proof (ci_checkpoints _ _ _ acc_parts cp Hcp) as A. apply checkpoint_ok_inv in A. destruct A as (_ & _ & A & _).
  specialize (A _ Hd). apply dep_ok_ref_inv in A. destruct A as [_ A]. specialize (A _ F).
  exact (sees_group s _ _ rc A Cx (checkpoint_ctx_kind c' rc Hc' Cx)).
Qed.

Lemma C05_SC2_lemma : forall cp l o r a path act rg, In cp (checkpoints s) -> In (DCmp l o r) (cp_deps cp) ->
  l = OAct a path \/ r = OAct a path -> find_action s (r_id a) = Some act -> a_ctx act = Some rg ->
  exists r0, cp_ctx cp = Some r0 /\ r_kind r0 = RGroup /\ Encloses s (r_id rg) (r_id r0).
Proof.
  intros cp l o r a path act rg Hcp Hd Hop F Cx. destruct (find_action_some _ _ _ F) as [Hact _].
  pose proof (ci_checkpoints _ _ _ acc_parts cp Hcp) as A. apply checkpoint_ok_inv in A. destruct A as (_ & _ & A & _).
  specialize (A _ Hd). apply dep_ok_cmp_inv in A. destruct A as (_ & _ & _ & A1 & A2).
  assert (A : operand_scope_ok s (ctx_group (cp_ctx cp)) (OAct a path) = true) by (destruct Hop as [<-|<-]; assumption).
  unfold operand_scope_ok in A. rewrite F in A.
  exact (sees_group s _ _ rg A Cx (action_ctx_kind act rg Hact Cx)).
Qed.

Definition C05_SC3_lemma := operand_var_encloses.

Lemma C05_SC5_lemma : forall g, In g (groups s) ->
  (forall p path, g_src g = SpPromise p path ->
     r_kind p = RPromise /\ exists f, creators s (r_id p) = [f] /\ GroupAnc s (g_id g) (a_id f)) /\
  (forall g' path, g_src g = SpVar g' path -> g' <> g_id g /\ Encloses s g' (g_id g)).
Proof.
  intros g Hg. split.
  - intros p path Sr. pose proof (ci_groups _ _ _ acc_parts g Hg) as A. apply group_ok_inv in A.
    destruct A as (_ & _ & _ & _ & A & _). destruct (A _ _ Sr) as (R & f & Fu & An).
    apply ref_ok_promise in R. destruct R as [K [pq Fp]]. split; [exact K|].
    destruct (promise_creators _ _ _ _ _ Hc Fp) as (t & fq & _ & _ & Cr & Fu' & _).
    rewrite Fu in Fu'. injection Fu' as <-. exists f. split; [exact Cr | apply group_ancestors_sound; exact An].
  - intros g' path Sr. exact (spawn_var_encloses g g' path Hg Sr).
Qed.

Lemma C05_SC6_lemma : forall g, In g (groups s) ->
  (exists a, In a (actions s) /\ a_ctx a = Some (Ref RGroup (g_id g))) \/
  (exists h, In h (groups s) /\ g_ctx h = Some (Ref RGroup (g_id g))).
Proof.
  intros g Hg. pose proof (ci_groups _ _ _ acc_parts g Hg) as A. apply group_ok_inv in A.
  destruct A as (_ & _ & _ & A & _). apply group_used_inv. exact A.
Qed.

Lemma C05_SC7_lemma : forall g g' h, In g (groups s) -> Encloses s g' (g_id g) -> g' <> g_id g ->
  find_group s g' = Some h -> g_var h <> g_var g.
Proof.
  intros g g' h Hg E N F. pose proof (ci_groups _ _ _ acc_parts g Hg) as A. apply group_ok_inv in A.
  destruct A as (_ & _ & _ & _ & _ & _ & l & Sc & A). apply (A g' h); try assumption.
  apply (scope_Encloses s _ l Sc). exact E.
Qed.

(* ================================================================== C06: lifecycle *)
Lemma C06_lifecycle_lemma : forall p, In p (promises s) ->
  exists f, creators s (pr_id p) = [f] /\
    ctx_group (pr_ctx p) = ctx_group (a_ctx f) /\
    (forall a, In a (actions_on s (pr_id p)) -> a_id a <> a_id f ->
       is_ancestor s (a_id a) (a_id f) = true /\ ctx_group (a_ctx a) = ctx_group (a_ctx f)) /\
    (forall b, In b (actions_on s (pr_id p)) -> a_id b <> a_id f -> is_ancestor s (a_id f) (a_id b) = false) /\
    (forall a, In a (actions_on s (pr_id p)) ->
       (forall b, In b (actions_on s (pr_id p)) -> a_id b <> a_id a -> is_ancestor s (a_id a) (a_id b) = false) -> a = f).
Proof.
  intros p Hp. pose proof (ci_promises _ _ _ acc_parts p Hp) as Pk. apply promise_ok_inv in Pk.
  destruct Pk as (f & Cr & Cx). exists f. split; [exact Cr|]. split; [exact Cx|].
  assert (If : In f (creators s (pr_id p))) by (rewrite Cr; left; reflexivity).
  split; [|split].
  - intros a Ha Hne. apply actions_on_In in Ha. destruct Ha as [Ha Po].
    destruct (action_facts _ _ _ a Hc Ha) as (p' & pr' & t & f' & _ & Po' & _ & _ & Tp & Cr' & Fu & _).
    rewrite Po in Po'. injection Po' as <-. rewrite Cr in Cr'. injection Cr' as <-.
    pose proof (ci_actions _ _ _ acc_parts a Ha) as A. apply action_ok_inv in A. destruct A as (_ & _ & _ & _ & _ & A).
    destruct (action_op_ok_inv _ _ _ _ _ _ A Po Tp Fu) as (_ & [(E & _)|(_ & _ & _ & _ & An & Cq)]).
    + exfalso. apply Hne. symmetry. exact E.
    + split; assumption.
  - apply creators_In in If. destruct If as [_ If]. exact If.
  - intros a Ha Hall. assert (Ia : In a (creators s (pr_id p))) by (apply creators_In; split; assumption).
    rewrite Cr in Ia. destruct Ia as [<-|[]]. reflexivity.
Qed.

(* ================================================================== C07: operations *)
Lemma C07_operations_lemma : forall a, In a (actions s) ->
  exists p pr t f,
    a_promise a = Ref RPromise p /\ find_promise s p = Some pr /\ find_type_ref s (pr_type pr) = Some t /\
    creators s p = [f] /\
    (forall n, In n (incl_list (op_incl (a_op a))) -> exists at_, find_attr t n = Some at_) /\
    (forall n sh, In (n, sh) (op_defaults (a_op a)) ->
       a = f /\ exists at_ ft, find_attr t n = Some at_ /\ at_kind at_ = KField ft /\ default_fits tbl sh ft = true) /\
    (forall n q, In (n, q) (op_edges (a_op a)) ->
       a = f /\ exists at_ pq fq, find_attr t n = Some at_ /\ at_kind at_ = KEdge (pr_type pq) /\
         r_kind q = RPromise /\ find_promise s (r_id q) = Some pq /\
         creators s (r_id q) = [fq] /\ is_ancestor s (a_id a) (a_id fq) = true) /\
    (forall q path, op_appends (a_op a) = Some (q, path) ->
       a = f /\ is_dependee s (a_id a) = false /\ r_kind q = RPromise /\
       exists pq fq td, find_promise s (r_id q) = Some pq /\ creators s (r_id q) = [fq] /\
         promise_path_type s (ctx_group (a_ctx a)) (r_id q) path = TOk td /\
         td_list td = true /\ td_item td = IObject /\ td_obj td = Some (pr_type pr) /\
         ~ In (last path 0) (settable s (r_id q)) /\
         ctx_group (a_ctx a) = ctx_group (a_ctx fq) /\ ctx_group (a_ctx a) = ctx_group (pr_ctx pq) /\
         guaranteed_ancestor s a (a_id fq) = true).
Proof.
  intros a Ha.
  destruct (action_facts _ _ _ a Hc Ha) as (p & pr & t & f & Ep & Po & Fp & Ft & Tp & Cr & Fu & _ & If).
  exists p, pr, t, f. split; [exact Ep|]. split; [exact Fp|]. split; [exact Ft|]. split; [exact Cr|].
  pose proof (ci_actions _ _ _ acc_parts a Ha) as A. apply action_ok_inv in A. destruct A as (_ & _ & _ & _ & _ & A).
  destruct (action_op_ok_inv _ _ _ _ _ _ A Po Tp Fu) as (Inc & Br).
  split; [intros n Hn; apply attr_names_find; apply Inc; exact Hn|].
  destruct Br as [(E & Df & Ed & Ap)|(_ & Df & Ed & Ap & _)].
  - assert (Eq : a = f) by (apply (action_id_inj s a f acc_unique Ha If); symmetry; exact E).
    split; [|split].
    + intros n sh Hd. split; [exact Eq|]. exact (Df _ Hd).
    + intros n q He. split; [exact Eq|]. destruct (Ed _ He) as (at_ & pq & fq & Fa & Ka & R & Fq & Fu' & An).
      cbn [fst snd] in *. apply ref_ok_promise in R. destruct R as [K _].
      destruct (promise_creators _ _ _ _ _ Hc Fq) as (_ & fq' & _ & _ & Cr' & Fu'' & _).
      destruct (find_promise_some _ _ _ Fq) as [_ Iq]. rewrite Iq in Fu'. rewrite Fu' in Fu''. injection Fu'' as <-.
      exists at_, pq, fq. auto 10.
    + intros q path Hap. split; [exact Eq|]. destruct (Ap _ _ Hap) as (R & Dp & St & fq & td & pr' & Fu' & Gu & Pt & L & It & Fp' & Ob & Cx).
      split; [exact Dp|]. apply ref_ok_promise in R. destruct R as [K [pq Fq]]. split; [exact K|].
      destruct (promise_creators _ _ _ _ _ Hc Fq) as (_ & fq' & _ & _ & Cr' & Fu'' & Cq & _).
      rewrite Fu' in Fu''. injection Fu'' as <-. rewrite Fp in Fp'. injection Fp' as <-.
      exists pq, fq, td. repeat (split; [assumption|]). split; [congruence | exact Gu].
  - split; [|split].
    + intros n sh Hd. rewrite Df in Hd. contradiction.
    + intros n q He. rewrite Ed in He. contradiction.
    + intros q path Hap. rewrite Ap in Hap. discriminate.
Qed.

End Accepted.
