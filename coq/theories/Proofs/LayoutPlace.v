(* Proofs about the placement phase of the chart layout model (columns, sorting, offset loop):
   given a depth map in which every edge strictly increases depth, placement terminates, gives every key of
   the map exactly one coordinate with x = - depth, coordinates are pairwise distinct, and no edge between
   two nodes at the same height runs through a node of a column strictly between them. *)
From Coq Require Import List Arith ZArith Bool Lia Permutation FinFun.
From OIS Require Import Model.Layout Spec.LayoutSpec Proofs.LayoutDepth.
Import ListNotations.
Local Open Scope Z_scope.

(* ------------------------------------------------------------------ cget / ycoord *)
Lemma cget_app : forall c1 c2 k,
  cget (c1 ++ c2) k = match cget c1 k with Some p => Some p | None => cget c2 k end.
Proof.
  induction c1 as [|[k' p] c1 IH]; intros c2 k; simpl; [reflexivity|].
  destruct (Nat.eqb k k'); [reflexivity|apply IH].
Qed.

Lemma cget_notin : forall c k, ~ In k (map fst c) -> cget c k = None.
Proof.
  induction c as [|[k' p] c IH]; intros k H; simpl in *; [reflexivity|].
  destruct (Nat.eqb_spec k k') as [->|Hk]; [exfalso; apply H; left; reflexivity|].
  apply IH. intro Hin. apply H. right. exact Hin.
Qed.

Lemma In_cget : forall c k p, NoDup (map fst c) -> In (k, p) c -> cget c k = Some p.
Proof.
  induction c as [|[k' p'] c IH]; intros k p Hnd H; simpl in *; [contradiction|].
  inversion Hnd as [|? ? Hn Hd]; subst.
  destruct H as [H|H].
  - inversion H; subst. rewrite Nat.eqb_refl. reflexivity.
  - destruct (Nat.eqb_spec k k') as [->|Hk]; [|apply IH; assumption].
    exfalso. apply Hn. apply in_map_iff. exists (k', p). split; [reflexivity|exact H].
Qed.

Lemma ycoord_In : forall c v x y, NoDup (map fst c) -> In (v, (x, y)) c -> ycoord c v = y.
Proof. intros c v x y Hnd H. unfold ycoord. rewrite (In_cget _ _ _ Hnd H). reflexivity. Qed.

Lemma in_keys_entry : forall (c : coords) v, In v (map fst c) -> exists x y, In (v, (x, y)) c.
Proof.
  intros c v H. apply in_map_iff in H. destruct H as [[v' [x y]] [E H]]. simpl in E. subst.
  exists x, y. exact H.
Qed.

Lemma entry_in_keys : forall (c : coords) v p, In (v, p) c -> In v (map fst c).
Proof. intros c v p H. apply in_map_iff. exists (v, p). split; [reflexivity|exact H]. Qed.

(* ------------------------------------------------------------------ place *)
Lemma step_val : 2 * (node_height + node_spacing) = 6.
Proof. reflexivity. Qed.

Lemma place_keys : forall d col y, map fst (place d col y) = col.
Proof. induction col as [|n col IH]; intros y; simpl; [reflexivity|]. rewrite IH. reflexivity. Qed.

Lemma place_In : forall d col y v x yy, In (v, (x, yy)) (place d col y) ->
  In v col /\ x = - Z.of_nat d /\ y <= yy.
Proof.
  induction col as [|n col IH]; intros y v x yy H; simpl in H; [contradiction|].
  destruct H as [H|H].
  - inversion H; subst. split; [left; reflexivity|]. split; [reflexivity|lia].
  - destruct (IH _ _ _ _ H) as [A [B C]]. try rewrite step_val in C.
    split; [right; exact A|]. split; [exact B|lia].
Qed.

Lemma place_inj : forall d col y v1 v2 p, In (v1, p) (place d col y) -> In (v2, p) (place d col y) -> v1 = v2.
Proof.
  induction col as [|n col IH]; intros y v1 v2 [x yy] H1 H2; simpl in H1, H2; [contradiction|].
  try rewrite step_val in H1. try rewrite step_val in H2.
  destruct H1 as [H1|H1]; destruct H2 as [H2|H2].
  - congruence.
  - inversion H1; subst. apply place_In in H2. lia.
  - inversion H2; subst. apply place_In in H1. lia.
  - eapply IH; eassumption.
Qed.

Lemma ycoord_place_shift : forall d col y k n, In n col ->
  ycoord (place d col (y + k)) n = ycoord (place d col y) n + k.
Proof.
  induction col as [|a col IH]; intros y k n Hn; [contradiction|].
  cbn [place]. unfold ycoord. cbn [cget].
  destruct (Nat.eqb_spec n a) as [->|Hne]; [reflexivity|].
  destruct Hn as [Hn|Hn]; [congruence|].
  replace (y + k + 2 * (node_height + node_spacing)) with (y + 2 * (node_height + node_spacing) + k) by lia.
  apply (IH _ _ _ Hn).
Qed.

Lemma ycoord_app_new : forall c d col y n, ~ In n (map fst c) ->
  ycoord (c ++ place d col y) n = ycoord (place d col y) n.
Proof. intros c d col y n H. unfold ycoord. rewrite cget_app. rewrite (cget_notin _ _ H). reflexivity. Qed.

Lemma ycoord_app_old : forall c d col y n, ~ In n col ->
  ycoord (c ++ place d col y) n = ycoord c n.
Proof.
  intros c d col y n H. unfold ycoord. rewrite cget_app. destruct (cget c n); [reflexivity|].
  rewrite cget_notin; [reflexivity|]. rewrite place_keys. exact H.
Qed.

(* ------------------------------------------------------------------ sorting *)
Lemma insert_by_perm : forall key x l, Permutation (x :: l) (insert_by key x l).
Proof.
  induction l as [|y l IH]; simpl; [apply Permutation_refl|].
  destruct (Z.leb (key x) (key y)); [apply Permutation_refl|].
  eapply perm_trans; [apply perm_swap|]. apply perm_skip. exact IH.
Qed.

Lemma sort_by_perm : forall key l, Permutation l (sort_by key l).
Proof.
  induction l as [|x l IH]; simpl; [apply perm_nil|].
  eapply perm_trans; [apply perm_skip; exact IH|apply insert_by_perm].
Qed.

Lemma sort_column_perm : forall edges prev c col, Permutation col (sort_column edges prev c col).
Proof.
  intros. unfold sort_column. destruct (Nat.ltb (length col) 2); [apply Permutation_refl|apply sort_by_perm].
Qed.

(* ------------------------------------------------------------------ misc list facts *)
Lemma two_distinct_length : forall (A : Type) (l : list A) x y, In x l -> In y l -> x <> y -> (2 <= length l)%nat.
Proof.
  intros A l x y Hx Hy Hne. destruct l as [|a [|b l]]; simpl in *.
  - contradiction.
  - destruct Hx as [<-|[]]. destruct Hy as [<-|[]]. congruence.
  - lia.
Qed.

Lemma NoDup_app_intro : forall (A : Type) (l1 l2 : list A),
  NoDup l1 -> NoDup l2 -> (forall x, In x l1 -> ~ In x l2) -> NoDup (l1 ++ l2).
Proof.
  induction l1 as [|a l1 IH]; intros l2 H1 H2 H; simpl; [exact H2|].
  inversion H1 as [|? ? Hn Hd]; subst. constructor.
  - intro Hin. apply in_app_or in Hin. destruct Hin as [Hin|Hin]; [contradiction|].
    apply (H a); [left; reflexivity|exact Hin].
  - apply IH; [exact Hd|exact H2|]. intros x Hx. apply H. right. exact Hx.
Qed.

Lemma flat_map_map_length : forall (A B C : Type) (f : A -> list B) (g : A -> B -> C) l,
  length (flat_map (fun a => map (g a) (f a)) l) = length (flat_map f l).
Proof.
  induction l as [|a l IH]; simpl; [reflexivity|]. rewrite !app_length, map_length, IH. reflexivity.
Qed.

(* ------------------------------------------------------------------ has_overlap *)
Lemma has_overlap_true_iff : forall edges prev col c,
  has_overlap edges prev col c = true <->
  ((2 <= length prev)%nat /\
   exists n dd cl w, In n col /\ In dd (succs edges n) /\ ~ In dd (last prev []) /\
     ycoord c dd = ycoord c n /\ In cl prev /\ ~ In dd cl /\ In w cl /\ ycoord c w = ycoord c dd).
Proof.
  intros edges prev col c. unfold has_overlap.
  destruct (Nat.ltb_spec (length prev) 2) as [Hlt|Hge].
  - split; [discriminate|]. intros [H _]. lia.
  - rewrite existsb_exists. split.
    + intros [n [Hn H1]]. apply existsb_exists in H1. destruct H1 as [dd [Hdd H2]].
      apply andb_true_iff in H2. destruct H2 as [H2 H3].
      apply andb_true_iff in H2. destruct H2 as [H2a H2b].
      apply negb_true_iff in H2a. apply memb_false in H2a. apply Z.eqb_eq in H2b.
      apply existsb_exists in H3. destruct H3 as [cl [Hcl H4]].
      apply andb_true_iff in H4. destruct H4 as [H4a H4b].
      apply negb_true_iff in H4a. apply memb_false in H4a.
      apply existsb_exists in H4b. destruct H4b as [w [Hw H5]]. apply Z.eqb_eq in H5.
      split; [exact Hge|]. exists n, dd, cl, w. repeat split; assumption.
    + intros [_ [n [dd [cl [w [Hn [Hdd [Hl [Hy [Hcl [Hdcl [Hw Hyw]]]]]]]]]]]].
      exists n. split; [exact Hn|]. apply existsb_exists. exists dd. split; [exact Hdd|].
      apply andb_true_iff. split; [apply andb_true_iff; split|].
      * apply negb_true_iff. apply memb_false. exact Hl.
      * apply Z.eqb_eq. exact Hy.
      * apply existsb_exists. exists cl. split; [exact Hcl|]. apply andb_true_iff. split.
        -- apply negb_true_iff. apply memb_false. exact Hdcl.
        -- apply existsb_exists. exists w. split; [exact Hw|]. apply Z.eqb_eq. exact Hyw.
Qed.

(* ------------------------------------------------------------------ the offset loop *)
Section OffsetLoop.
Variable edges : list (nat * nat).
Variable prev : list (list nat).
Variable col : list nat.
Variable depth : nat.
Variable c : coords.
Variable ch : Z.

Definition overlap_at (o : Z) : bool := has_overlap edges prev col (c ++ place depth col (- ch + 2 * o)).

Lemma offset_loop_none : forall fuel off, offset_loop fuel edges prev col depth c ch off = None ->
  forall k, (k < fuel)%nat -> overlap_at (off + Z.of_nat k) = true.
Proof.
  induction fuel as [|f IH]; intros off H k Hk; [lia|]. cbn [offset_loop] in H.
  fold (overlap_at off) in H. destruct (overlap_at off) eqn:E; [|discriminate].
  destruct k as [|k]; [rewrite Z.add_0_r; exact E|].
  replace (off + Z.of_nat (S k)) with ((off + node_spacing) + Z.of_nat k) by (unfold node_spacing; lia).
  apply IH; [exact H|lia].
Qed.

Lemma offset_loop_some : forall fuel off o' c', offset_loop fuel edges prev col depth c ch off = Some (o', c') ->
  c' = c ++ place depth col (- ch + 2 * o') /\ has_overlap edges prev col c' = false.
Proof.
  induction fuel as [|f IH]; intros off o' c' H; [discriminate|]. cbn [offset_loop] in H.
  fold (overlap_at off) in H. destruct (overlap_at off) eqn:E.
  - apply (IH _ _ _ H).
  - inversion H; subst. split; [reflexivity|exact E].
Qed.

(* pigeonhole: every offset at which the overlap test fires is one of finitely many values *)
Lemma offset_loop_terminates : forall bad : list Z,
  (forall o, overlap_at o = true -> In (2 * o) bad) ->
  forall fuel off, (length bad < fuel)%nat -> offset_loop fuel edges prev col depth c ch off <> None.
Proof.
  intros bad Hbad fuel off Hlen H.
  pose (xs := map (fun k => 2 * (off + Z.of_nat k)) (seq 0 fuel)).
  assert (ND : NoDup xs).
  { unfold xs. apply Injective_map_NoDup; [|apply seq_NoDup]. intros a b Hab. lia. }
  assert (IN : incl xs bad).
  { intros x Hx. unfold xs in Hx. apply in_map_iff in Hx. destruct Hx as [k [<- Hk]].
    apply in_seq in Hk. apply Hbad. eapply offset_loop_none; [exact H|lia]. }
  pose proof (NoDup_incl_length ND IN) as Len. unfold xs in Len. rewrite map_length, seq_length in Len. lia.
Qed.
End OffsetLoop.

(* ------------------------------------------------------------------ the main loop over the columns *)
Section Place.
Variable edges : list (nat * nat).
Variable m : dmap.
Notation Edge := (Edge edges).
Hypothesis Hm_nd : NoDup (map fst m).
Hypothesis Hm_edge : forall a b da, Edge a b -> dget m a = Some da ->
  exists db, dget m b = Some db /\ (da < db)%nat.

Record Inv (done : list nat) (prev : list (list nat)) (c : coords) : Prop := {
  inv_nodup : NoDup (map fst c);
  inv_keys : forall v, In v (map fst c) <-> exists cl, In cl prev /\ In v cl;
  inv_x : forall v x y, In (v, (x, y)) c ->
            exists d, dget m v = Some d /\ x = - Z.of_nat d /\ In d done;
  inv_all : forall v d, dget m v = Some d -> In d done -> In v (map fst c);
  inv_col : forall cl, In cl prev -> exists d, forall v, In v cl -> dget m v = Some d;
  inv_last : forall v d, In v (last prev []) -> dget m v = Some d -> forall d', In d' done -> (d <= d')%nat;
  inv_inj : forall v1 v2 p, In (v1, p) c -> In (v2, p) c -> v1 = v2;
  inv_noov : forall a b w xa xb xw y, Edge a b ->
            In (a, (xa, y)) c -> In (b, (xb, y)) c -> In (w, (xw, y)) c -> xb < xw < xa -> False
}.

Lemma Inv_init : Inv [] [] [].
Proof.
  constructor; simpl; try (intros; contradiction).
  - constructor.
  - intros v. split; [intros []|intros [cl [[] _]]].
Qed.

Lemma layout_step_ok : forall done prev off c d col,
  Inv done prev c ->
  (forall d', In d' done -> (d < d')%nat) ->
  (forall v, In v col <-> dget m v = Some d) ->
  NoDup col ->
  exists scol off' c',
    layout_step edges (prev, off, c) (d, col) = Some (prev ++ [scol], off', c') /\
    Inv (done ++ [d]) (prev ++ [scol]) c'.
Proof.
  intros done prev off c d col HI Hdone Hcol Hnd.
  unfold layout_step.
  set (scol := sort_column edges prev c col).
  set (ch := node_height * Z.of_nat (length col) + node_spacing * (Z.of_nat (length col) - 1)).
  set (off1 := adjust_offset (length col) (length (last prev [])) off).
  assert (Hperm : Permutation col scol) by apply sort_column_perm.
  assert (Hscol : forall v, In v scol <-> dget m v = Some d).
  { intros v. rewrite <- Hcol. split; intro H; [eapply Permutation_in; [apply Permutation_sym; exact Hperm|exact H]
                                                |eapply Permutation_in; [exact Hperm|exact H]]. }
  assert (Hsnd : NoDup scol) by (eapply Permutation_NoDup; eassumption).
  (* nodes of the column are fresh; dependencies of its nodes are not in it *)
  assert (Hfresh : forall n, In n scol -> ~ In n (map fst c)).
  { intros n Hn Hk. apply in_keys_entry in Hk. destruct Hk as [x [y Hk]].
    destruct (inv_x _ _ _ HI _ _ _ Hk) as [d' [Hd' [_ Hin]]].
    apply Hscol in Hn. rewrite Hn in Hd'. inversion Hd'; subst. specialize (Hdone _ Hin). lia. }
  assert (Hdep : forall n dd, In n scol -> In dd (succs edges n) -> ~ In dd scol).
  { intros n dd Hn Hdd Hin. apply Hscol in Hn. apply Hscol in Hin. apply in_succs in Hdd.
    destruct (Hm_edge _ _ _ Hdd Hn) as [db [Hb Lb]]. rewrite Hin in Hb. inversion Hb; subst. lia. }
  destruct (offset_loop (S (pairs_count edges scol)) edges prev scol d c ch off1) as [[off2 c']|] eqn:EL.
  2:{ exfalso.
      pose (B := fun n => ycoord (place d scol (- ch)) n).
      pose (bad := flat_map (fun n => map (fun dd => ycoord c dd - B n) (succs edges n)) scol).
      eapply (offset_loop_terminates edges prev scol d c ch bad); [| |exact EL].
      - intros o Ho. unfold overlap_at in Ho. apply has_overlap_true_iff in Ho.
        destruct Ho as [_ [n [dd [cl [w [Hn [Hdd [_ [Hy _]]]]]]]]].
        rewrite (ycoord_app_old c d scol _ dd (Hdep _ _ Hn Hdd)) in Hy.
        rewrite (ycoord_app_new c d scol _ n (Hfresh _ Hn)) in Hy.
        rewrite (ycoord_place_shift d scol (- ch) (2 * o) n Hn) in Hy.
        unfold bad. apply in_flat_map. exists n. split; [exact Hn|].
        apply in_map_iff. exists dd. split; [|exact Hdd]. unfold B. lia.
      - unfold bad. rewrite flat_map_map_length. unfold pairs_count. lia. }
  exists scol, off2, c'. split; [reflexivity|].
  destruct (offset_loop_some _ _ _ _ _ _ _ _ _ _ EL) as [Hc' Hno].
  set (new := place d scol (- ch + 2 * off2)) in *.
  assert (Hnew : forall v x y, In (v, (x, y)) new -> In v scol /\ x = - Z.of_nat d).
  { intros v x y H. apply place_In in H. tauto. }
  assert (Hsplit : forall v p, In (v, p) c' -> In (v, p) c \/ In (v, p) new).
  { intros v p H. rewrite Hc' in H. apply in_app_or in H. exact H. }
  assert (K1 : NoDup (map fst c')).
  { rewrite Hc', map_app. unfold new. rewrite place_keys.
    apply NoDup_app_intro; [apply (inv_nodup _ _ _ HI)|exact Hsnd|].
    intros x Hx Hs. apply (Hfresh _ Hs Hx). }
  assert (Hold_x : forall v x y, In (v, (x, y)) c -> x < - Z.of_nat d).
  { intros v x y H. destruct (inv_x _ _ _ HI _ _ _ H) as [d' [_ [-> Hin]]]. specialize (Hdone _ Hin). lia. }
  constructor.
  - exact K1.
  - (* keys *)
    intros v. rewrite Hc', map_app, in_app_iff. unfold new. rewrite place_keys. rewrite (inv_keys _ _ _ HI). split.
    + intros [[cl [Hcl Hv]]|Hv].
      * exists cl. split; [apply in_or_app; left; exact Hcl|exact Hv].
      * exists scol. split; [apply in_or_app; right; left; reflexivity|exact Hv].
    + intros [cl [Hcl Hv]]. apply in_app_or in Hcl. destruct Hcl as [Hcl|[<-|[]]].
      * left. exists cl. split; assumption.
      * right. exact Hv.
  - (* x *)
    intros v x y H. destruct (Hsplit _ _ H) as [H0|H0].
    + destruct (inv_x _ _ _ HI _ _ _ H0) as [d' [A [B C]]]. exists d'. split; [exact A|].
      split; [exact B|apply in_or_app; left; exact C].
    + destruct (Hnew _ _ _ H0) as [A B]. exists d. split; [apply Hscol; exact A|].
      split; [exact B|apply in_or_app; right; left; reflexivity].
  - (* all *)
    intros v d0 Hv Hd0. rewrite Hc', map_app, in_app_iff. apply in_app_or in Hd0. destruct Hd0 as [Hd0|[<-|[]]].
    + left. eapply inv_all; eassumption.
    + right. unfold new. rewrite place_keys. apply Hscol. exact Hv.
  - (* col *)
    intros cl Hcl. apply in_app_or in Hcl. destruct Hcl as [Hcl|[<-|[]]].
    + apply (inv_col _ _ _ HI _ Hcl).
    + exists d. intros v Hv. apply Hscol. exact Hv.
  - (* last *)
    intros v d0 Hv Hd0 d' Hd'. rewrite last_last in Hv. apply Hscol in Hv. rewrite Hv in Hd0.
    inversion Hd0; subst d0. apply in_app_or in Hd'. destruct Hd' as [Hd'|[<-|[]]].
    + specialize (Hdone _ Hd'). lia.
    + lia.
  - (* inj *)
    intros v1 v2 [x y] H1 H2. destruct (Hsplit _ _ H1) as [A|A]; destruct (Hsplit _ _ H2) as [B|B].
    + eapply inv_inj; eassumption.
    + pose proof (Hold_x _ _ _ A). destruct (Hnew _ _ _ B) as [_ B']. lia.
    + pose proof (Hold_x _ _ _ B). destruct (Hnew _ _ _ A) as [_ A']. lia.
    + eapply place_inj; eassumption.
  - (* no edge through a node *)
    intros a b w xa xb xw y E Ha Hb Hw Hlt.
    destruct (Hsplit _ _ Ha) as [Ha0|Ha0].
    + pose proof (Hold_x _ _ _ Ha0) as Xa.
      destruct (Hsplit _ _ Hb) as [Hb0|Hb0]; [|destruct (Hnew _ _ _ Hb0) as [_ Xb]; lia].
      destruct (Hsplit _ _ Hw) as [Hw0|Hw0]; [|destruct (Hnew _ _ _ Hw0) as [_ Xw]; lia].
      eapply (inv_noov _ _ _ HI a b w); eassumption.
    + destruct (Hnew _ _ _ Ha0) as [Has Xa].
      destruct (Hsplit _ _ Hb) as [Hb0|Hb0]; [|destruct (Hnew _ _ _ Hb0) as [_ Xb]; lia].
      destruct (Hsplit _ _ Hw) as [Hw0|Hw0]; [|destruct (Hnew _ _ _ Hw0) as [_ Xw]; lia].
      destruct (inv_x _ _ _ HI _ _ _ Hb0) as [db [Db [Xb Ib]]].
      destruct (inv_x _ _ _ HI _ _ _ Hw0) as [dw [Dw [Xw Iw]]].
      destruct (proj1 (inv_keys _ _ _ HI b) (entry_in_keys _ _ _ Hb0)) as [clb [Hclb Hbclb]].
      destruct (proj1 (inv_keys _ _ _ HI w) (entry_in_keys _ _ _ Hw0)) as [clw [Hclw Hwclw]].
      assert (Hbw : ~ In b clw).
      { intro Hin. destruct (inv_col _ _ _ HI _ Hclw) as [d0 Hd0].
        pose proof (Hd0 _ Hin) as E1. pose proof (Hd0 _ Hwclw) as E2.
        rewrite Db in E1. rewrite Dw in E2. inversion E1; inversion E2; subst. lia. }
      assert (Hlen : (2 <= length prev)%nat).
      { apply (two_distinct_length _ prev clb clw Hclb Hclw). intro Heq. subst. contradiction. }
      assert (Hbl : ~ In b (last prev [])).
      { intro Hin. pose proof (inv_last _ _ _ HI _ _ Hin Db _ Iw). lia. }
      assert (Hov : has_overlap edges prev scol c' = true).
      { apply has_overlap_true_iff. split; [exact Hlen|]. exists a, b, clw, w.
        rewrite (ycoord_In _ _ _ _ K1 Ha), (ycoord_In _ _ _ _ K1 Hb), (ycoord_In _ _ _ _ K1 Hw).
        repeat split; try assumption. apply in_succs. exact E. }
      rewrite Hno in Hov. discriminate.
Qed.

Fixpoint Desc (l : list nat) : Prop :=
  match l with
  | [] => True
  | d :: l' => (forall d', In d' l' -> (d' < d)%nat) /\ Desc l'
  end.

Lemma layout_cols_ok : forall todo done prev off c,
  Inv done prev c ->
  (forall d col, In (d, col) todo -> (forall v, In v col <-> dget m v = Some d) /\ NoDup col) ->
  Desc (map fst todo) ->
  (forall d' d, In d' done -> In d (map fst todo) -> (d < d')%nat) ->
  exists prev' off' c',
    layout_cols edges todo (prev, off, c) = Some (prev', off', c') /\ Inv (done ++ map fst todo) prev' c'.
Proof.
  induction todo as [|[d col] todo IH]; intros done prev off c HI Hcols Hdesc Hlt.
  - exists prev, off, c. split; [reflexivity|]. simpl. rewrite app_nil_r. exact HI.
  - cbn [layout_cols]. destruct (Hcols d col (or_introl eq_refl)) as [Hc Hn].
    destruct (layout_step_ok done prev off c d col HI) as [scol [off' [c' [Hs HI']]]].
    + intros d' Hd'. apply Hlt; [exact Hd'|left; reflexivity].
    + exact Hc.
    + exact Hn.
    + rewrite Hs. simpl in Hdesc. destruct Hdesc as [Hd1 Hd2].
      destruct (IH (done ++ [d]) (prev ++ [scol]) off' c' HI') as [prev' [off'' [c'' [Hl HI'']]]].
      * intros d0 col0 Hin. apply Hcols. right. exact Hin.
      * exact Hd2.
      * intros d' d0 Hd' Hd0. apply in_app_or in Hd'. destruct Hd' as [Hd'|[<-|[]]].
        -- apply Hlt; [exact Hd'|right; exact Hd0].
        -- apply Hd1. exact Hd0.
      * exists prev', off'', c''. split; [exact Hl|]. simpl. rewrite <- app_assoc in HI''. exact HI''.
Qed.

(* ------------------------------------------------------------------ the columns of m *)
Lemma column_of_In : forall v d, In v (column_of m d) <-> dget m v = Some d.
Proof.
  intros v d. unfold column_of. rewrite in_map_iff. split.
  - intros [[v' d'] [E H]]. simpl in E. subst. apply filter_In in H. destruct H as [H1 H2].
    simpl in H2. apply Nat.eqb_eq in H2. subst. apply In_dget; assumption.
  - intros H. exists (v, d). split; [reflexivity|]. apply filter_In. split; [apply dget_In; exact H|].
    simpl. apply Nat.eqb_refl.
Qed.

Lemma NoDup_keys_filter : forall (f : nat * nat -> bool) (l : dmap),
  NoDup (map fst l) -> NoDup (map fst (filter f l)).
Proof.
  induction l as [|kv l IH]; intros H; simpl; [constructor|].
  simpl in H. inversion H as [|? ? Hn Hd]; subst.
  destruct (f kv); simpl; [|apply IH; exact Hd].
  constructor; [|apply IH; exact Hd]. intro Hin. apply Hn.
  apply in_map_iff in Hin. destruct Hin as [x [E Hx]]. apply filter_In in Hx.
  apply in_map_iff. exists x. split; [exact E|apply Hx].
Qed.

Lemma max_depth_ge : forall (l : dmap) v d, In (v, d) l -> (d <= max_depth l)%nat.
Proof.
  induction l as [|[v' d'] l IH]; intros v d H; [contradiction|].
  unfold max_depth in *. simpl. destruct H as [H|H].
  - inversion H; subst. lia.
  - specialize (IH _ _ H). lia.
Qed.

Lemma columns_fst : forall (l : dmap),
  map fst (columns l) = filter (fun d => negb (is_nil (column_of l d))) (seq 0 (S (max_depth l))).
Proof.
  intros l. unfold columns. generalize (seq 0 (S (max_depth l))) as ds.
  induction ds as [|d ds IH]; [reflexivity|]. cbn [map filter snd].
  destruct (negb (is_nil (column_of l d))); cbn [map fst]; rewrite IH; reflexivity.
Qed.

Lemma columns_In : forall (l : dmap) d col, In (d, col) (columns l) -> col = column_of l d.
Proof.
  intros l d col H. unfold columns in H. apply filter_In in H. destruct H as [H _].
  apply in_map_iff in H. destruct H as [d0 [E _]]. inversion E; subst. reflexivity.
Qed.

Lemma Desc_rev_filter_seq : forall (P : nat -> bool) n, Desc (rev (filter P (seq 0 n))).
Proof.
  induction n as [|n IH]; [exact I|].
  rewrite seq_S, filter_app, rev_app_distr. cbn [filter]. destruct (P (0 + n)%nat); cbn [rev app]; [|exact IH].
  split; [|exact IH]. intros d' Hd'. apply in_rev in Hd'. apply filter_In in Hd'. destruct Hd' as [Hd' _].
  apply in_seq in Hd'. lia.
Qed.

Theorem layout_of_depths_ok : exists out,
  layout_of_depths edges m = Some out /\
  NoDup (map fst out) /\
  (forall v, In v (map fst out) <-> In v (map fst m)) /\
  (forall v x y, In (v, (x, y)) out -> exists d, dget m v = Some d /\ x = - Z.of_nat d) /\
  (forall v1 v2 p, In (v1, p) out -> In (v2, p) out -> v1 = v2) /\
  (forall a b w xa xb xw y, Edge a b ->
     In (a, (xa, y)) out -> In (b, (xb, y)) out -> In (w, (xw, y)) out -> xb < xw < xa -> False).
Proof.
  destruct (layout_cols_ok (rev (columns m)) [] [] 0 [] Inv_init) as [prev' [off' [c' [Hl HI]]]].
  - intros d col Hin. apply in_rev in Hin. apply columns_In in Hin. subst col.
    split; [intro v; apply column_of_In|]. unfold column_of. apply NoDup_keys_filter. exact Hm_nd.
  - rewrite map_rev, columns_fst. apply Desc_rev_filter_seq.
  - intros d' d [].
  - exists c'. unfold layout_of_depths. unfold coords in *. rewrite Hl. split; [reflexivity|]. simpl in HI.
    split; [apply (inv_nodup _ _ _ HI)|]. split; [|split; [|split]].
    + intros v. split.
      * intros Hv. apply in_keys_entry in Hv. destruct Hv as [x [y Hv]].
        destruct (inv_x _ _ _ HI _ _ _ Hv) as [d [Hd _]]. eapply dget_in_keys. exact Hd.
      * intros Hv. apply in_keys_dget in Hv. destruct Hv as [d Hd].
        apply (inv_all _ _ _ HI _ _ Hd). rewrite map_rev, <- in_rev, columns_fst. apply filter_In. split.
        -- apply in_seq. pose proof (max_depth_ge _ _ _ (dget_In _ _ _ Hd)). lia.
        -- destruct (column_of m d) eqn:Ec; [|reflexivity].
           exfalso. assert (Hin : In v (column_of m d)) by (apply column_of_In; exact Hd).
           rewrite Ec in Hin. exact Hin.
    + intros v x y Hv. destruct (inv_x _ _ _ HI _ _ _ Hv) as [d [Hd [Hx _]]]. exists d. split; assumption.
    + apply (inv_inj _ _ _ HI).
    + apply (inv_noov _ _ _ HI).
Qed.

End Place.
