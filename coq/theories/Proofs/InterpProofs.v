(* Proofs about the structural interpreter:
     interp_fuel_mono        more fuel never turns an accepted document into a rejected one
     interp_mono             a document accepted under S is accepted under every G with  spec_le S G
     ext_preserves           adding, anywhere in the document tree, entries under a key that is inert for the
                             specification keeps an accepted document accepted
     interp_ignores_unknown  = ext_preserves for a key no specification mentions (any values)
     interp_optional_descriptive = ext_preserves for an optional descriptive property with well-formed values
   All proofs go by induction on the fuel of [interp]; no induction principle for the nested type [spec]
   is needed. *)
From Coq Require Import List String ZArith Bool Arith Lia.
From OIS Require Import Base.Json Model.Regex Model.Interp Spec.Grammar.
Import ListNotations.
Open Scope string_scope.

(* ================================================================== list / lookup facts *)
Lemma mems_In k l : mems k l = true <-> In k l.
Proof.
  unfold mems. rewrite existsb_exists. split.
  - intros [x [H E]]. apply String.eqb_eq in E. now subst.
  - intros H. exists k. split; [exact H|apply String.eqb_refl].
Qed.

Lemma mems_false_not_In k l : mems k l = false <-> ~ In k l.
Proof.
  split; intros H.
  - intros HI. apply mems_In in HI. congruence.
  - destruct (mems k l) eqn:E; [|reflexivity]. apply mems_In in E. contradiction.
Qed.

Lemma incl_b_In a b : incl_b a b = true -> forall x, In x a -> In x b.
Proof. unfold incl_b. rewrite forallb_forall. intros H x Hx. apply mems_In. apply H. exact Hx. Qed.

Lemma incl_b_mems a b : incl_b a b = true -> forall x, mems x a = true -> mems x b = true.
Proof. intros H x Hx. apply mems_In. eapply incl_b_In; eauto. apply mems_In. exact Hx. Qed.

Lemma pats_incl_In a b : pats_incl a b = true -> forall x, In x a -> In x b.
Proof.
  unfold pats_incl. rewrite forallb_forall. intros H x Hx. specialize (H x Hx).
  apply existsb_exists in H. destruct H as [y [Hy E]]. apply pat_eqb_eq in E. now subst.
Qed.

Lemma list_eqb_string_eq a : forall b, list_eqb String.eqb a b = true -> a = b.
Proof.
  induction a as [|x r IH]; intros [|y s] H; simpl in H; try discriminate; [reflexivity|].
  apply andb_true_iff in H. destruct H as [E H]. apply String.eqb_eq in E. subst. f_equal. now apply IH.
Qed.

Lemma atom_eqb_eq a b : atom_eqb a b = true -> a = b.
Proof.
  destruct a, b; simpl; intros H; try discriminate; apply andb_true_iff in H; destruct H as [H1 H2].
  - apply list_eqb_string_eq in H1. apply Nat.eqb_eq in H2. now subst.
  - apply list_eqb_string_eq in H1. apply list_eqb_string_eq in H2. now subst.
  - apply String.eqb_eq in H1. apply String.eqb_eq in H2. now subst.
  - apply list_eqb_string_eq in H1. apply pat_eqb_eq in H2. now subst.
Qed.

Lemma list_eqb_atom_eq a : forall b, list_eqb atom_eqb a b = true -> a = b.
Proof.
  induction a as [|x r IH]; intros [|y s] H; simpl in H; try discriminate; [reflexivity|].
  apply andb_true_iff in H. destruct H as [E H]. apply atom_eqb_eq in E. subst. f_equal. now apply IH.
Qed.

Lemma cond_eqb_eq a b : cond_eqb a b = true -> a = b.
Proof.
  destruct a, b; simpl; intros H; try discriminate.
  - now apply atom_eqb_eq in H; subst.
  - now apply list_eqb_atom_eq in H; subst.
  - now apply list_eqb_atom_eq in H; subst.
Qed.

Section Lookup.
  Context {A : Type}.
  Implicit Types l : list (string * A).

  Lemma lookup_cons k k' (v : A) l :
    lookup k ((k', v) :: l) = if String.eqb k' k then Some v else lookup k l.
  Proof. unfold lookup. simpl. destruct (String.eqb k' k); reflexivity. Qed.

  Lemma lookup_In k l v : lookup k l = Some v -> In (k, v) l.
  Proof.
    induction l as [|[k' v'] r IH]; [discriminate|]. rewrite lookup_cons.
    destruct (String.eqb k' k) eqn:E.
    - intros H. inversion H; subst. apply String.eqb_eq in E. subst. now left.
    - intros H. right. now apply IH.
  Qed.

  Lemma lookup_None k l : lookup k l = None <-> ~ In k (keys_of l).
  Proof.
    induction l as [|[k' v'] r IH]; simpl.
    - split; [intros _ []|reflexivity].
    - rewrite lookup_cons. destruct (String.eqb k' k) eqn:E.
      + apply String.eqb_eq in E. subst. split; [discriminate|]. intros H. exfalso. apply H. now left.
      + apply String.eqb_neq in E. rewrite IH. split.
        * intros H [H1|H1]; [contradiction|]. contradiction.
        * intros H H1. apply H. now right.
  Qed.

  Lemma In_keys_lookup k l : In k (keys_of l) -> exists v, lookup k l = Some v.
  Proof.
    intros H. destruct (lookup k l) eqn:E; [eauto|]. apply lookup_None in E. contradiction.
  Qed.

  Lemma lookup_app k l1 l2 :
    lookup k (l1 ++ l2) = match lookup k l1 with Some v => Some v | None => lookup k l2 end.
  Proof.
    induction l1 as [|[k' v'] r IH]; [reflexivity|]. simpl app. rewrite !lookup_cons.
    destruct (String.eqb k' k); [reflexivity|exact IH].
  Qed.

  Lemma keys_of_app l1 l2 : keys_of (l1 ++ l2) = (keys_of l1 ++ keys_of l2)%list.
  Proof. unfold keys_of. apply map_app. Qed.
End Lookup.

Lemma has_key_In k kv : has_key k kv = true <-> In k (keys_of kv).
Proof.
  unfold has_key, keys_of. rewrite existsb_exists. split.
  - intros [p [Hp E]]. apply String.eqb_eq in E. subst. now apply in_map.
  - intros H. apply in_map_iff in H. destruct H as [p [E Hp]]. exists p. split; [exact Hp|]. subst. apply String.eqb_refl.
Qed.

Lemma get_lookup k (kv : list (string * json)) : get k kv = lookup k kv.
Proof. reflexivity. Qed.

(* ================================================================== fuel *)
Lemma forallb_impl {A} (f g : A -> bool) l :
  (forall x, In x l -> f x = true -> g x = true) -> forallb f l = true -> forallb g l = true.
Proof.
  intros H. rewrite !forallb_forall. intros Hf x Hx. apply H; [exact Hx|]. now apply Hf.
Qed.

Lemma existsb_impl {A} (f g : A -> bool) l :
  (forall x, In x l -> f x = true -> g x = true) -> existsb f l = true -> existsb g l = true.
Proof.
  intros H. rewrite !existsb_exists. intros [x [Hx Hf]]. exists x. split; [exact Hx|]. now apply H.
Qed.

(* obj_ok only uses [rec] positively *)
Lemma obj_ok_rec_mono {S} res (r1 r2 : S -> json -> bool) ps os fs ms cs ks kv :
  (forall s j, r1 s j = true -> r2 s j = true) ->
  obj_ok res r1 ps os fs ms cs ks kv = true -> obj_ok res r2 ps os fs ms cs ks kv = true.
Proof.
  intros H. unfold obj_ok. destruct (apply_conds kv cs ps fs) as [[ps' fs']|]; [|discriminate].
  rewrite !andb_true_iff. intros [[[[H1 H2] H3] H4] H5]. repeat split; try assumption.
  revert H5. apply forallb_impl. intros q _. destruct (lookup (fst q) ps'); [apply H|exact (fun x => x)].
Qed.

Lemma interp_fuel_S E : forall f s j, interp E f s j = true -> interp E (S f) s j = true.
Proof.
  induction f as [|f IH]; intros s j H; [discriminate|].
  destruct s; cbn [interp] in H |- *; try exact H.
  - destruct j; try discriminate. apply andb_true_iff in H. destruct H as [H1 H2].
    apply andb_true_iff. split; [exact H1|]. revert H2. apply forallb_impl. intros x _. apply IH.
  - destruct j; try discriminate. revert H. apply obj_ok_rec_mono. apply IH.
  - destruct j; try discriminate. revert H. apply forallb_impl. intros q _ H.
    apply andb_true_iff in H. destruct H as [H1 H2]. apply andb_true_iff. split; [exact H1|]. now apply IH.
  - destruct (lookup name (env_specs E)); [|discriminate]. now apply IH.
  - revert H. apply existsb_impl. intros x _. apply IH.
  - destruct j; try exact H; now apply IH.
Qed.

Theorem interp_fuel_mono E f f' s j : f <= f' -> interp E f s j = true -> interp E f' s j = true.
Proof.
  induction 1 as [|m _ IH]; [exact (fun x => x)|]. intros H. apply interp_fuel_S. now apply IH.
Qed.

(* ================================================================== monotonicity *)
Section ObjMono.
  Context {A : Type}.
  Variables reservedS reservedG : list string.
  Hypothesis Hres : forall k, mems k reservedG = true -> mems k reservedS = true.
  Variable le : A -> A -> bool.
  Variables recS recG : A -> json -> bool.
  Hypothesis Hrec : forall s g j, le s g = true -> recS s j = true -> recG g j = true.
  Variable og : list string.

  Definition inv (ps : list (string * A)) (fs : list string) (pg : list (string * A)) (fg : list string) : Prop :=
    (forall k g, lookup k pg = Some g -> exists s, lookup k ps = Some s /\ le s g = true)
    /\ (forall k, lookup k pg = None -> lookup k ps = None \/ mems k reservedG = false)
    /\ forb_le fs fg og = true.

  Lemma props_same_lookup po1 po2 :
    props_same le po1 po2 = true ->
    (forall k g, lookup k po2 = Some g -> exists s, lookup k po1 = Some s /\ le s g = true)
    /\ (forall k, lookup k po2 = None -> lookup k po1 = None).
  Proof.
    unfold props_same. rewrite andb_true_iff. intros [HK HF]. apply list_eqb_string_eq in HK. split.
    - intros k g Hl. apply lookup_In in Hl. rewrite forallb_forall in HF. specialize (HF _ Hl). cbn [fst snd] in HF.
      destruct (lookup k po1) as [s|]; [|discriminate]. eauto.
    - intros k Hl. apply lookup_None in Hl. apply lookup_None. now rewrite HK.
  Qed.

  Lemma apply_conds_rel kv : forall cs cg ps fs pg fg ps' fs',
    conds_le le og cs cg = true -> inv ps fs pg fg ->
    apply_conds kv cs ps fs = Some (ps', fs') ->
    exists pg' fg', apply_conds kv cg pg fg = Some (pg', fg') /\ inv ps' fs' pg' fg'.
  Proof.
    induction cs as [|[[c1 fo1] po1] cs IH]; intros [|[[c2 fo2] po2] cg] ps fs pg fg ps' fs' Hle Hinv Hap;
      cbn [conds_le] in Hle; try discriminate.
    - cbn [apply_conds] in Hap |- *. inversion Hap; subst. eauto.
    - apply andb_true_iff in Hle. destruct Hle as [Hc Hle]. cbn [cond_le] in Hc.
      apply andb_true_iff in Hc. destruct Hc as [Hc Hpo]. apply andb_true_iff in Hc. destruct Hc as [Hc Hfo].
      apply cond_eqb_eq in Hc. subst c2. cbn [apply_conds] in Hap |- *.
      destruct (eval_cond c1 kv) as [[|]|]; [| |discriminate].
      + eapply IH; [exact Hle| |exact Hap].
        destruct Hinv as [I1 [I2 I3]]. apply props_same_lookup in Hpo. destruct Hpo as [P1 P2].
        split; [|split].
        * intros k g. rewrite !lookup_app. destruct (lookup k po2) as [g'|] eqn:E2.
          -- intros Hg. inversion Hg; subst. destruct (P1 _ _ E2) as [s [Hs Hl]]. rewrite Hs. eauto.
          -- rewrite (P2 _ E2). apply I1.
        * intros k. rewrite !lookup_app. destruct (lookup k po2) as [g'|] eqn:E2; [discriminate|].
          rewrite (P2 _ E2). apply I2.
        * destruct fo1, fo2; try discriminate; assumption.
      + eapply IH; [exact Hle|exact Hinv|exact Hap].
  Qed.

  Lemma apply_conds_keys kv : forall (cg : list (cond * option (list string) * list (string * A))) pg fg pg' fg',
    apply_conds kv cg pg fg = Some (pg', fg') ->
    forall k, In k (keys_of pg') -> In k (all_keys pg cg).
  Proof.
    unfold all_keys.
    induction cg as [|[[c fo] po] cg IH]; intros pg fg pg' fg' Hap k Hk; cbn [apply_conds] in Hap.
    - inversion Hap; subst. cbn [flat_map]. now rewrite app_nil_r.
    - cbn [flat_map snd]. destruct (eval_cond c kv) as [[|]|]; [| |discriminate].
      + specialize (IH _ _ _ _ Hap k Hk). rewrite keys_of_app in IH.
        apply in_app_or in IH. destruct IH as [H|H].
        * apply in_app_or in H. destruct H as [H|H].
          -- apply in_or_app. right. apply in_or_app. now left.
          -- apply in_or_app. now left.
        * apply in_or_app. right. apply in_or_app. now right.
      + specialize (IH _ _ _ _ Hap k Hk). apply in_app_or in IH. destruct IH as [H|H].
        * apply in_or_app. now left.
        * apply in_or_app. right. apply in_or_app. now right.
  Qed.

  Lemma obj_ok_mono ps os fs ms cs ks pg fg mg cg kg kv :
    obj_le reservedG le ps os fs ms cs ks pg og fg mg cg kg = true ->
    obj_ok reservedS recS ps os fs ms cs ks kv = true ->
    obj_ok reservedG recG pg og fg mg cg kg kv = true.
  Proof.
    unfold obj_le. rewrite !andb_true_iff. intros [[[[[[L1 L2] L3] L4] L5] L6] L7].
    apply list_eqb_string_eq in L5. subst mg.
    unfold obj_ok. destruct (apply_conds kv cs ps fs) as [[ps' fs']|] eqn:Hap; [|discriminate].
    assert (Hinv : inv ps fs pg fg).
    { split; [|split]; [| |exact L4].
      - intros k g Hl. apply lookup_In in Hl. rewrite forallb_forall in L1. specialize (L1 _ Hl). cbn [fst snd] in L1.
        destruct (lookup k ps) as [s|]; [|discriminate]. eauto.
      - intros k Hl. destruct (lookup k ps) as [s|] eqn:Es; [|now left]. right.
        apply lookup_In in Es. rewrite forallb_forall in L2. specialize (L2 _ Es). cbn [fst] in L2.
        apply orb_true_iff in L2. destruct L2 as [L2|L2].
        + apply mems_In in L2. apply lookup_None in Hl. contradiction.
        + now apply negb_true_iff in L2. }
    destruct (apply_conds_rel _ _ _ _ _ _ _ _ _ L6 Hinv Hap) as [pg' [fg' [Hapg [I1 [I2 I3]]]]].
    rewrite Hapg. pose proof (apply_conds_keys _ _ _ _ _ _ Hapg) as Hkeys.
    unfold forb_le in I3. apply andb_true_iff in I3. destruct I3 as [I3 I4].
    rewrite !andb_true_iff. intros [[[[M R] F] C] K]. repeat split.
    - (* mutually exclusive *)
      unfold mutex_ok in M |- *. destruct (List.length (filter (fun k => has_key k kv) ms)) as [|[|n]]; try assumption.
      rewrite forallb_forall in M |- *. intros k Hk. specialize (M k Hk).
      rewrite forallb_forall in L3. specialize (L3 k (proj1 (mems_In _ _) M)).
      apply orb_true_iff in L3. destruct L3 as [L3|L3]; [exact L3|].
      apply negb_true_iff in L3. apply orb_false_iff in L3. destruct L3 as [_ L3].
      apply mems_In in Hk. congruence.
    - (* required *)
      apply forallb_forall. intros [k g] Hin. cbn [fst].
      assert (Hk : In k (keys_of pg')) by (apply in_map_iff; exists (k, g); auto).
      destruct (In_keys_lookup _ _ Hk) as [g' Hg']. destruct (I1 _ _ Hg') as [s [Hs _]].
      apply lookup_In in Hs. rewrite forallb_forall in R. specialize (R _ Hs). cbn [fst] in R.
      rewrite !orb_true_iff in R |- *. destruct R as [[[R|R]|R]|R].
      + tauto.
      + rewrite forallb_forall in L3. specialize (L3 k (proj1 (mems_In _ _) R)).
        apply orb_true_iff in L3. destruct L3 as [L3|L3]; [tauto|].
        apply negb_true_iff in L3. apply orb_false_iff in L3. destruct L3 as [L3 _].
        apply mems_false_not_In in L3. exfalso. apply L3. now apply Hkeys.
      + rewrite forallb_forall in I4. specialize (I4 k (proj1 (mems_In _ _) R)).
        apply orb_true_iff in I4. tauto.
      + tauto.
    - (* forbidden *)
      rewrite forallb_forall in F |- *. intros k Hk. apply F. eapply incl_b_In; eauto.
    - (* checks *)
      rewrite forallb_forall in C |- *. intros c Hc. rewrite forallb_forall in L7. specialize (L7 c Hc).
      apply existsb_exists in L7. destruct L7 as [c' [Hc' E]]. destruct c, c'. now apply C.
    - (* every given key *)
      revert K. apply forallb_impl. intros [k v] _. cbn [fst snd].
      destruct (lookup k pg') as [g|] eqn:Eg.
      + destruct (I1 _ _ Eg) as [s [Hs Hl]]. rewrite Hs. now apply Hrec.
      + destruct (I2 _ Eg) as [Hn|Hn].
        * rewrite Hn. intros Hr. apply negb_true_iff in Hr. apply negb_true_iff.
          destruct (mems k reservedG) eqn:E; [|reflexivity]. apply Hres in E. congruence.
        * intros _. now rewrite Hn.
  Qed.
End ObjMono.

Lemma prim_le_ok p q j : prim_le p q = true -> prim_ok p j = true -> prim_ok q j = true.
Proof.
  destruct p, q; simpl; try discriminate; intros _; destruct j; simpl; try discriminate; auto.
Qed.

Lemma ref_ok_mono rt ks kg x : incl_b ks kg = true -> ref_ok rt ks x = true -> ref_ok rt kg x = true.
Proof.
  intros H. unfold ref_ok. rewrite !orb_true_iff, !andb_true_iff.
  pose proof (incl_b_mems _ _ H) as Hm.
  intros [[[H1 H2]|[H1 H2]]|[[H1 H2] H3]].
  - left. left. split; [apply Hm; exact H1 | exact H2].
  - left. right. split; [apply Hm; exact H1 | exact H2].
  - right. split; [split; [exact H1 | apply Hm; exact H2] | exact H3].
Qed.

Theorem interp_mono ES EG fe :
  env_le fe ES EG = true ->
  forall fuel fs s g j,
    spec_le (env_reserved EG) fs s g = true ->
    interp ES fuel s j = true -> interp EG fuel g j = true.
Proof.
  unfold env_le. rewrite !andb_true_iff. intros [[HRT HRES] HENV].
  apply list_eqb_string_eq in HRT.
  induction fuel as [|f IH]; intros fs s g j Hle Hi; [discriminate|].
  destruct fs as [|fs]; [discriminate|].
  destruct s, g; cbn [spec_le] in Hle; try discriminate; cbn [interp] in Hi |- *.
  - eapply prim_le_ok; eauto.
  - destruct j; try discriminate. rewrite forallb_forall in Hi |- *. intros p Hp. apply Hi. eapply pats_incl_In; eauto.
  - destruct j; try discriminate. eapply incl_b_mems; eauto.
  - destruct j; try discriminate. rewrite <- HRT. eapply ref_ok_mono; eauto.
  - destruct j; try discriminate. apply andb_true_iff in Hle. destruct Hle as [Hn Hs].
    apply andb_true_iff in Hi. destruct Hi as [Hl Ha]. apply andb_true_iff. split.
    + apply Nat.leb_le in Hn, Hl. apply Nat.leb_le. lia.
    + revert Ha. apply forallb_impl. intros x _. eapply IH; eauto.
  - destruct j; try discriminate.
    eapply (obj_ok_mono (env_reserved ES) (env_reserved EG)); [| |exact Hle|exact Hi].
    + apply incl_b_mems. exact HRES.
    + intros s0 g0 j0. apply IH.
  - destruct j; try discriminate. apply andb_true_iff in Hle. destruct Hle as [Hp Hs].
    revert Hi. apply forallb_impl. intros q _ H. apply andb_true_iff in H. destruct H as [H1 H2].
    apply andb_true_iff. split.
    + rewrite forallb_forall in H1 |- *. intros p Hp'. apply H1. eapply pats_incl_In; eauto.
    + eapply IH; eauto.
  - apply String.eqb_eq in Hle. subst name0.
    destruct (lookup name (env_specs ES)) as [sp|] eqn:El; [|discriminate].
    apply lookup_In in El. rewrite forallb_forall in HENV. specialize (HENV _ El). cbn [fst snd] in HENV.
    destruct (lookup name (env_specs EG)) as [gp|]; [|discriminate]. eapply IH; eauto.
  - apply existsb_exists in Hi. destruct Hi as [a [Ha Hia]].
    rewrite forallb_forall in Hle. specialize (Hle a Ha). apply existsb_exists in Hle.
    destruct Hle as [y [Hy Hxy]]. apply existsb_exists. exists y. split; [exact Hy|]. eapply IH; eauto.
  - destruct j; try exact Hi; eapply IH; eauto.
Qed.

(* the form used by property C11 *)
Corollary interp_refines ES S EG G :
  refines ES S EG G = true ->
  forall fuel d, interp ES fuel S d = true -> interp EG fuel G d = true.
Proof.
  unfold refines. rewrite andb_true_iff. intros [HE HS] fuel d. eapply interp_mono; eauto.
Qed.

(* ================================================================== inert additions *)
Definition option_rel {A} (R : A -> A -> Prop) (a b : option A) : Prop :=
  match a, b with Some x, Some y => R x y | None, None => True | _, _ => False end.

Lemma has_key_app q (a b : list (string * json)) : has_key q (a ++ b) = has_key q a || has_key q b.
Proof. unfold has_key. apply existsb_app. Qed.

Lemma has_key_keys_eq q (kv kv2 : list (string * json)) :
  keys_of kv2 = keys_of kv -> has_key q kv2 = has_key q kv.
Proof. intros H. apply eq_true_iff_eq. rewrite !has_key_In, H. tauto. Qed.

Lemma get_app q (a b : list (string * json)) :
  get q (a ++ b) = match get q a with Some v => Some v | None => get q b end.
Proof. rewrite !get_lookup. apply lookup_app. Qed.

Lemma get_cons q q' v (r : list (string * json)) :
  get q ((q', v) :: r) = if String.eqb q' q then Some v else get q r.
Proof. rewrite !get_lookup. apply lookup_cons. Qed.

(* facts about apply_conds that do not depend on the document *)
Lemma apply_conds_in kv : forall (cs : list (cond * option (list string) * list (string * spec))) ps fs ps' fs',
  apply_conds kv cs ps fs = Some (ps', fs') ->
  (forall x, In x ps' -> In x (variants_of ps cs))
  /\ (forall x, In x ps -> In x ps')
  /\ (fs' = fs \/ exists c, In c cs /\ snd (fst c) = Some fs').
Proof.
  unfold variants_of.
  induction cs as [|[[c fo] po] cs IH]; intros ps fs ps' fs' H; cbn [apply_conds] in H.
  - inversion H; subst. cbn [flat_map]. rewrite app_nil_r. auto.
  - cbn [flat_map snd]. destruct (eval_cond c kv) as [[|]|]; [| |discriminate].
    + destruct (IH _ _ _ _ H) as [A [B C]]. split; [|split].
      * intros x Hx. specialize (A x Hx). apply in_app_or in A. destruct A as [A|A].
        -- apply in_app_or in A. destruct A as [A|A].
           ++ apply in_or_app. right. apply in_or_app. now left.
           ++ apply in_or_app. now left.
        -- apply in_or_app. right. apply in_or_app. now right.
      * intros x Hx. apply B. apply in_or_app. now right.
      * destruct C as [C|[c' [C1 C2]]].
        -- destruct fo as [l|]; [|now left]. right. exists (c, Some l, po). split; [now left|]. now subst.
        -- right. exists c'. split; [now right|exact C2].
    + destruct (IH _ _ _ _ H) as [A [B C]]. split; [|split].
      * intros x Hx. specialize (A x Hx). apply in_app_or in A. destruct A as [A|A].
        -- apply in_or_app. now left.
        -- apply in_or_app. right. apply in_or_app. now right.
      * exact B.
      * destruct C as [C|[c' [C1 C2]]]; [now left|]. right. exists c'. split; [now right|exact C2].
Qed.

Lemma Forall2_len {A B} {R : A -> B -> Prop} {l l'} : Forall2 R l l' -> List.length l = List.length l'.
Proof. induction 1; simpl; congruence. Qed.

Lemma interp_array_inv E f a m v : interp E f (SArray a m) v = true -> exists l, v = JArr l.
Proof. destruct f; [discriminate|]. cbn [interp]. destruct v; try discriminate. eauto. Qed.

Section ExtProofs.
  Variable E : env.
  Variable frozen : string -> bool.
  Variable k : string.
  Variable P : json -> Prop.
  Variable chk : spec -> bool.
  Variable names : list string.
  Variable n : nat.
  (* admissible values are accepted by every specification the key may have *)
  Hypothesis Hv : forall sk v, chk sk = true -> P v -> interp E n sk v = true.
  Hypothesis Hnr : mems k (env_reserved E) = false.
  Hypothesis Henv : forall name sp, lookup name (env_specs E) = Some sp ->
                                    exists fi, inert_spec names frozen k chk fi sp = true.

  Notation ext := (ext frozen k P).

  Definition kvrel (kv kv2 : list (string * json)) : Prop :=
    Forall2 (fun p p' => fst p = fst p' /\ ext (snd p) (snd p')
                         /\ (frozen (fst p) = true -> snd p = snd p')) kv kv2.
  Definition extra_ok (kv extra : list (string * json)) : Prop :=
    extra = [] \/ exists v, extra = [(k, v)] /\ has_key k kv = false /\ P v.

  Lemma Forall2_ext_refl l : Forall2 ext l l.
  Proof. induction l; constructor; [apply ext_refl|assumption]. Qed.

  Lemma kvrel_refl kv : kvrel kv kv.
  Proof. induction kv; constructor; [|assumption]. split; [reflexivity|]. split; [apply ext_refl|reflexivity]. Qed.

  Lemma ext_inv_arr l d' : ext (JArr l) d' -> exists l', d' = JArr l' /\ Forall2 ext l l'.
  Proof. inversion 1; subst; eauto using Forall2_ext_refl. Qed.

  Lemma ext_inv_obj kv d' :
    ext (JObj kv) d' -> exists kv2 extra, d' = JObj (kv2 ++ extra) /\ kvrel kv kv2 /\ extra_ok kv extra.
  Proof.
    inversion 1; subst.
    - exists kv, []. rewrite app_nil_r. split; [reflexivity|]. split; [apply kvrel_refl|now left].
    - exists kv2, extra. split; [reflexivity|]. split; assumption.
  Qed.

  Definition atomic (d : json) : Prop := match d with JArr _ | JObj _ => False | _ => True end.

  Lemma ext_atomic d d' : ext d d' -> atomic d -> d' = d.
  Proof. inversion 1; subst; simpl; intros H'; try reflexivity; contradiction. Qed.

  (* case analysis on the left document of [H : ext a b], rewriting b *)
  Ltac ext_shape H a Hx :=
    destruct a;
    [ apply ext_atomic in H; [subst|exact I]
    | apply ext_atomic in H; [subst|exact I]
    | apply ext_atomic in H; [subst|exact I]
    | apply ext_atomic in H; [subst|exact I]
    | apply ext_atomic in H; [subst|exact I]
    | apply ext_inv_arr in H; destruct H as [?l' [?Heq H]]; subst
    | apply ext_inv_obj in H; destruct H as [?kv2 [?extra [?Heq [H Hx]]]]; subst ].

  Lemma kvrel_keys kv kv2 : kvrel kv kv2 -> keys_of kv2 = keys_of kv.
  Proof. induction 1 as [|p p' r r' [H1 _] _ IH]; [reflexivity|]. simpl. now rewrite IH, H1. Qed.

  Lemma extra_no_key kv extra q : extra_ok kv extra -> q <> k -> has_key q extra = false /\ get q extra = None.
  Proof.
    intros [->|[v [-> _]]] Hq; [split; reflexivity|].
    assert (E1 : String.eqb k q = false) by (apply String.eqb_neq; congruence).
    split.
    - unfold has_key. simpl. now rewrite E1.
    - rewrite get_cons. now rewrite E1.
  Qed.

  Lemma has_key_ext kv kv2 extra q :
    kvrel kv kv2 -> extra_ok kv extra -> q <> k -> has_key q (kv2 ++ extra) = has_key q kv.
  Proof.
    intros H1 H2 Hq. rewrite has_key_app. destruct (extra_no_key _ _ _ H2 Hq) as [-> _].
    rewrite orb_false_r. apply has_key_keys_eq. now apply kvrel_keys.
  Qed.

  Lemma has_key_ext_mono kv kv2 extra q :
    kvrel kv kv2 -> has_key q kv = true -> has_key q (kv2 ++ extra) = true.
  Proof.
    intros H1 H. rewrite has_key_app. rewrite (has_key_keys_eq q kv kv2 (kvrel_keys _ _ H1)). now rewrite H.
  Qed.

  Lemma get_kvrel q kv kv2 : kvrel kv kv2 -> option_rel ext (get q kv) (get q kv2).
  Proof.
    induction 1 as [|[a v] [a' v'] r r' [H1 [H2 _]] _ IH]; [exact I|]. cbn [fst snd] in *. subst a'.
    rewrite !get_cons. destruct (String.eqb a q); [exact H2|exact IH].
  Qed.

  Lemma get_ext q kv kv2 extra :
    kvrel kv kv2 -> extra_ok kv extra -> q <> k -> option_rel ext (get q kv) (get q (kv2 ++ extra)).
  Proof.
    intros H1 H2 Hq. rewrite get_app. pose proof (get_kvrel q _ _ H1) as R.
    destruct (get q kv2); [exact R|]. destruct (extra_no_key _ _ _ H2 Hq) as [_ ->]. exact R.
  Qed.

  Lemma get_path_ext path : ~ In k path -> forall d d', ext d d' -> option_rel ext (get_path path d) (get_path path d').
  Proof.
    induction path as [|q r IH]; intros Hk d d' H; [exact H|].
    assert (Hq : q <> k) by (intros ->; apply Hk; now left).
    assert (Hr : ~ In k r) by (intros Hr; apply Hk; now right).
    ext_shape H d Hx; cbn [get_path]; try exact I.
    pose proof (get_ext q _ _ _ H Hx Hq) as R.
    destruct (get q kv) as [v|], (get q (_ ++ _)) as [v'|]; try contradiction; [|exact I].
    now apply IH.
  Qed.

  Lemma ext_of_obj kv kv2 extra : kvrel kv kv2 -> extra_ok kv extra -> ext (JObj kv) (JObj (kv2 ++ extra)).
  Proof. intros. now apply ext_obj. Qed.

  (* ---------------------------------------------------------------- conditions are unchanged *)
  Definition len_ok (a : atom) (kv : list (string * json)) : Prop :=
    match a with
    | ALenLt [p] _ => match get p kv with Some (JArr _) | None => True | Some _ => False end
    | ALenLt _ _ => False
    | _ => True
    end.

  Lemma eval_atom_ext a kv kv2 extra :
    atom_avoids k a = true -> len_ok a kv -> kvrel kv kv2 -> extra_ok kv extra ->
    eval_atom a (kv2 ++ extra) = eval_atom a kv.
  Proof.
    intros Ha Hl H1 H2. pose proof (ext_of_obj _ _ _ H1 H2) as Hobj.
    destruct a as [path m|path vals|p key|path pt]; cbn [atom_avoids] in Ha.
    - destruct path as [|p [|p' r]]; cbn [len_ok] in Hl; try contradiction.
      apply negb_true_iff in Ha. apply mems_false_not_In in Ha.
      assert (Hp : p <> k) by (intros ->; apply Ha; now left).
      pose proof (get_ext p _ _ _ H1 H2 Hp) as R.
      cbn [eval_atom get_path].
      destruct (get p kv) as [v|], (get p (kv2 ++ extra)) as [v'|]; try contradiction; [|reflexivity].
      destruct v; try contradiction. apply ext_inv_arr in R. destruct R as [l' [-> R]].
      now rewrite (Forall2_len R).
    - apply negb_true_iff in Ha. apply mems_false_not_In in Ha.
      pose proof (get_path_ext path Ha _ _ Hobj) as R. cbn [eval_atom].
      destruct (get_path path (JObj kv)) as [v|], (get_path path (JObj (kv2 ++ extra))) as [v'|]; try contradiction;
        [|reflexivity].
      ext_shape R v Hx; reflexivity.
    - apply andb_true_iff in Ha. destruct Ha as [Hp Hk]. apply negb_true_iff in Hp, Hk.
      apply String.eqb_neq in Hp, Hk.
      pose proof (get_ext p _ _ _ H1 H2 Hp) as R. cbn [eval_atom].
      destruct (get p kv) as [v|], (get p (kv2 ++ extra)) as [v'|]; try contradiction; [|reflexivity].
      ext_shape R v Hx; try reflexivity. f_equal. f_equal. now apply has_key_ext.
    - apply negb_true_iff in Ha. apply mems_false_not_In in Ha.
      pose proof (get_path_ext path Ha _ _ Hobj) as R. cbn [eval_atom].
      destruct (get_path path (JObj kv)) as [v|], (get_path path (JObj (kv2 ++ extra))) as [v'|]; try contradiction;
        [|reflexivity].
      ext_shape R v Hx; reflexivity.
  Qed.

  Definition atoms_ok (l : list atom) kv : Prop :=
    forall a, In a l -> atom_avoids k a = true /\ len_ok a kv.

  Lemma eval_any_ext l kv kv2 extra :
    atoms_ok l kv -> kvrel kv kv2 -> extra_ok kv extra -> eval_any l (kv2 ++ extra) = eval_any l kv.
  Proof.
    intros H H1 H2. induction l as [|a r IH]; [reflexivity|]. cbn [eval_any].
    destruct (H a (or_introl eq_refl)) as [Ha Hl]. rewrite (eval_atom_ext _ _ _ _ Ha Hl H1 H2).
    rewrite IH; [reflexivity|]. intros b Hb. apply H. now right.
  Qed.

  Lemma eval_all_ext l kv kv2 extra :
    atoms_ok l kv -> kvrel kv kv2 -> extra_ok kv extra -> eval_all l (kv2 ++ extra) = eval_all l kv.
  Proof.
    intros H H1 H2. induction l as [|a r IH]; [reflexivity|]. cbn [eval_all].
    destruct (H a (or_introl eq_refl)) as [Ha Hl]. rewrite (eval_atom_ext _ _ _ _ Ha Hl H1 H2).
    rewrite IH; [reflexivity|]. intros b Hb. apply H. now right.
  Qed.

  Lemma eval_cond_ext c kv kv2 extra :
    atoms_ok (cond_atoms c) kv -> kvrel kv kv2 -> extra_ok kv extra -> eval_cond c (kv2 ++ extra) = eval_cond c kv.
  Proof.
    intros H H1 H2. destruct c; cbn [eval_cond cond_atoms] in *.
    - destruct (H a (or_introl eq_refl)) as [Ha Hl]. now apply eval_atom_ext.
    - now apply eval_any_ext.
    - now apply eval_all_ext.
  Qed.

  Lemma apply_conds_ext kv kv2 extra :
    kvrel kv kv2 -> extra_ok kv extra ->
    forall (cs : list (cond * option (list string) * list (string * spec))) ps fs,
      (forall c, In c cs -> atoms_ok (cond_atoms (fst (fst c))) kv) ->
      apply_conds (kv2 ++ extra) cs ps fs = apply_conds kv cs ps fs.
  Proof.
    intros H1 H2. induction cs as [|[[c fo] po] cs IH]; intros ps fs H; [reflexivity|].
    cbn [apply_conds]. rewrite (eval_cond_ext c _ _ _ (H _ (or_introl eq_refl)) H1 H2).
    destruct (eval_cond c kv) as [[|]|]; [| |reflexivity]; apply IH; intros c' Hc'; apply H; now right.
  Qed.

  (* ---------------------------------------------------------------- the singular-dependency check *)
  Lemma ext_singleton_obj a d' :
    ext a (JArr [JObj d']) ->
    exists d kv2 extra, a = JArr [JObj d] /\ d' = (kv2 ++ extra)%list /\ kvrel d kv2 /\ extra_ok d extra.
  Proof.
    intros H. ext_shape H a Hx; try discriminate.
    match goal with Heq : JArr _ = JArr _ |- _ => inversion Heq; subst; clear Heq end.
    inversion H as [|x x' r r' Hxx Hr]; subst. inversion Hr; subst.
    ext_shape Hxx x Hx2; try discriminate.
    match goal with Heq : JObj _ = JObj _ |- _ => inversion Heq; subst; clear Heq end.
    eauto 10.
  Qed.

  Lemma singular_ext kv kv2 extra :
    negb (mems k ["dependencies"; "compare"; "checkpoint"]) = true ->
    kvrel kv kv2 -> extra_ok kv extra ->
    singular_dependency_ok kv = true -> singular_dependency_ok (kv2 ++ extra) = true.
  Proof.
    intros Hk H1 H2 Hok. apply negb_true_iff in Hk. apply mems_false_not_In in Hk.
    assert (K1 : "dependencies" <> k) by (intros <-; apply Hk; simpl; auto).
    assert (K2 : "compare" <> k) by (intros <-; apply Hk; simpl; auto).
    assert (K3 : "checkpoint" <> k) by (intros <-; apply Hk; simpl; auto).
    unfold singular_dependency_ok in *. pose proof (get_ext "dependencies" _ _ _ H1 H2 K1) as R.
    destruct (get "dependencies" (kv2 ++ extra)) as [b|]; [|reflexivity].
    destruct b as [| | | | |l|]; try reflexivity. destruct l as [|x l2]; [reflexivity|].
    destruct x as [| | | | | |d']; try (destruct l2; reflexivity). destruct l2 as [|y r]; [|reflexivity].
    destruct (get "dependencies" kv) as [a|]; [|contradiction].
    destruct (ext_singleton_obj _ _ R) as [d [d2 [ex [-> [-> [R1 R2]]]]]].
    now rewrite !(has_key_ext _ _ _ _ R1 R2) by assumption.
  Qed.

  (* ---------------------------------------------------------------- scalars *)
  Lemma forallb_ext f l l' :
    (forall x x', ext x x' -> f x = true -> f x' = true) ->
    Forall2 ext l l' -> forallb f l = true -> forallb f l' = true.
  Proof.
    intros Hf. induction 1 as [|x x' r r' Hx _ IH]; [reflexivity|]. simpl.
    rewrite !andb_true_iff. intros [A B]. split; [eapply Hf; eauto|now apply IH].
  Qed.

  Lemma atomic_test_ext (f : json -> bool) :
    (forall x, f x = true -> atomic x) -> forall x x', ext x x' -> f x = true -> f x' = true.
  Proof. intros Hf x x' H Hx. apply ext_atomic in H; [now subst|now apply Hf]. Qed.

  Lemma prim_ok_ext p j j' : ext j j' -> prim_ok p j = true -> prim_ok p j' = true.
  Proof.
    intros H. ext_shape H j Hx; try exact (fun x => x).
    destruct p; simpl; try discriminate. rewrite !orb_true_iff.
      intros [[A|A]|A]; [left; left|left; right|right]; revert A; apply forallb_ext; try assumption;
        apply atomic_test_ext; intros [] Hx'; try discriminate; exact I.
  Qed.

  (* ---------------------------------------------------------------- objects *)
  Lemma Forall2_forallb {A} (R : A -> A -> Prop) (f g : A -> bool) l l' :
    (forall x x', R x x' -> f x = true -> g x' = true) -> Forall2 R l l' -> forallb f l = true -> forallb g l' = true.
  Proof.
    intros H. induction 1 as [|x x' r r' Hx _ IH]; [reflexivity|]. simpl.
    rewrite !andb_true_iff. intros [Hx1 Hx2]. split; [eapply H; eauto|now apply IH].
  Qed.

  Lemma obj_ok_ext f fi ps os fs ms cs ks kv kv2 extra :
    (forall s d d' fi', inert_spec names frozen k chk fi' s = true ->
                        interp E f s d = true -> ext d d' -> interp E (f + n) s d' = true) ->
    inert_obj frozen k chk (inert_spec names frozen k chk fi) ps fs ms cs ks = true ->
    kvrel kv kv2 -> extra_ok kv extra ->
    obj_ok (env_reserved E) (interp E f) ps os fs ms cs ks kv = true ->
    obj_ok (env_reserved E) (interp E (f + n)) ps os fs ms cs ks (kv2 ++ extra) = true.
  Proof.
    intros IH Hin H1 H2. unfold inert_obj in Hin. rewrite !andb_true_iff in Hin.
    destruct Hin as [[[[[[N1 N2] N3] N4] N5] N6] N7].
    apply negb_true_iff in N2, N3.
    unfold obj_ok. destruct (apply_conds kv cs ps fs) as [[ps' fs']|] eqn:Hap; [|discriminate].
    rewrite !andb_true_iff. intros [[[[M R] F] C] K].
    destruct (apply_conds_in _ _ _ _ _ _ Hap) as [V1 [V2 V3]].
    (* the conditionals evaluate as before *)
    assert (Hconds : apply_conds (kv2 ++ extra) cs ps fs = Some (ps', fs')).
    { rewrite (apply_conds_ext _ _ _ H1 H2); [exact Hap|].
      intros c Hc a Ha. rewrite forallb_forall in N5. specialize (N5 c Hc).
      rewrite forallb_forall in N5. specialize (N5 a Ha). apply andb_true_iff in N5. destruct N5 as [A1 A2].
      split; [exact A1|].
      destruct a as [path m| | |]; try exact I. destruct path as [|p [|p' r]]; cbn [len_guard] in A2; try discriminate.
      cbn [len_ok]. apply andb_true_iff in A2. destruct A2 as [A2 A3]. apply mems_In in A2.
      destruct (get p kv) as [v|] eqn:Eg; [|exact I].
      assert (Hp' : In p (keys_of ps')).
      { apply in_map_iff in A2. destruct A2 as [x [Ex Hx]]. apply in_map_iff. exists x. split; [exact Ex|now apply V2]. }
      destruct (In_keys_lookup _ _ Hp') as [sp Hsp].
      pose proof (lookup_In _ _ _ Hsp) as Hsp'. apply V1 in Hsp'.
      rewrite forallb_forall in A3. specialize (A3 _ Hsp'). cbn [fst snd] in A3.
      rewrite String.eqb_refl in A3. cbn [negb orb] in A3.
      rewrite get_lookup in Eg. apply lookup_In in Eg.
      rewrite forallb_forall in K. specialize (K _ Eg). cbn [fst snd] in K. rewrite Hsp in K.
      destruct sp; try discriminate. apply interp_array_inv in K. destruct K as [l ->]. exact I. }
    rewrite Hconds. rewrite !andb_true_iff.
    (* k is not one of the forbidden names *)
    assert (Hkf : ~ In k fs').
    { destruct V3 as [->|[c [Hc Ec]]].
      - now apply mems_false_not_In.
      - rewrite forallb_forall in N4. specialize (N4 c Hc). rewrite Ec in N4.
        apply negb_true_iff in N4. now apply mems_false_not_In. }
    repeat split.
    - (* mutually exclusive *)
      unfold mutex_ok in M |- *.
      replace (filter (fun q => has_key q (kv2 ++ extra)) ms) with (filter (fun q => has_key q kv) ms); [exact M|].
      apply filter_ext_in. intros q Hq. symmetry. apply has_key_ext; try assumption.
      intros ->. apply mems_false_not_In in N2. contradiction.
    - (* required *)
      revert R. apply forallb_impl. intros p _. rewrite !orb_true_iff. intros [[[A|A]|A]|A]; auto.
      left; left; left. eapply has_key_ext_mono; eauto.
    - (* forbidden *)
      rewrite forallb_forall in F |- *. intros q Hq. rewrite (has_key_ext kv kv2 extra q H1 H2); [now apply F|].
      intros ->. contradiction.
    - (* checks *)
      rewrite forallb_forall in C |- *. intros c Hc. specialize (C c Hc). destruct c. cbn [check_ok] in *.
      destruct ks as [|c0 ks0]; [destruct Hc|]. now apply (singular_ext kv kv2 extra N6 H1 H2).
    - (* entries *)
      rewrite forallb_app. apply andb_true_iff. split.
      + revert K. eapply Forall2_forallb; [|exact H1].
        intros [q v] [q' v'] [Eq [Hext Hfr]] Hq. cbn [fst snd] in *. subst q'.
        destruct (lookup q ps') as [sp|] eqn:Esp; [|exact Hq].
        pose proof (lookup_In _ _ _ Esp) as Hsp. apply V1 in Hsp.
        rewrite forallb_forall in N1. specialize (N1 _ Hsp). cbn [fst snd] in N1.
        destruct (frozen q) eqn:Efr.
        * rewrite <- (Hfr eq_refl). eapply interp_fuel_mono; [|exact Hq]. lia.
        * cbn [orb] in N1. eapply IH; eauto.
      + destruct H2 as [->|[v [-> [_ Pv]]]]; [reflexivity|]. cbn [forallb fst snd]. rewrite andb_true_r.
        destruct (lookup k ps') as [sk|] eqn:Esk.
        * pose proof (lookup_In _ _ _ Esk) as Hsk. apply V1 in Hsk.
          rewrite forallb_forall in N7. specialize (N7 _ Hsk). cbn [fst snd] in N7.
          rewrite String.eqb_refl in N7. cbn [negb orb] in N7.
          eapply interp_fuel_mono; [|apply Hv; eassumption]. lia.
        * now rewrite Hnr.
  Qed.

  Theorem ext_preserves :
    forall fuel s d d' fi,
      inert_spec names frozen k chk fi s = true ->
      interp E fuel s d = true -> ext d d' -> interp E (fuel + n) s d' = true.
  Proof.
    induction fuel as [|f IH]; intros s d d' fi Hin Hi Hext; [discriminate|].
    destruct fi as [|fi]; [discriminate|].
    change (S f + n) with (S (f + n)).
    destruct s; cbn [inert_spec] in Hin; cbn [interp] in Hi |- *.
    - eapply prim_ok_ext; eauto.
    - destruct d; try discriminate. apply ext_atomic in Hext; [now subst|exact I].
    - destruct d; try discriminate. apply ext_atomic in Hext; [now subst|exact I].
    - destruct d; try discriminate. apply ext_atomic in Hext; [now subst|exact I].
    - destruct d; try discriminate. apply ext_inv_arr in Hext. destruct Hext as [l' [-> Hl]].
      apply andb_true_iff in Hi. destruct Hi as [A B]. apply andb_true_iff. split.
      + now rewrite <- (Forall2_len Hl).
      + revert B. eapply Forall2_forallb; [|exact Hl]. intros x x' Hx Hix. eapply IH; eauto.
    - destruct d; try discriminate. apply ext_inv_obj in Hext. destruct Hext as [kv2 [extra [-> [H1 H2]]]].
      eapply obj_ok_ext; eauto.
    - discriminate.
    - destruct (lookup name (env_specs E)) as [sp|] eqn:El; [|discriminate].
      destruct (Henv _ _ El) as [fi' Hfi']. eapply IH; eauto.
    - apply existsb_exists in Hi. destruct Hi as [a [Ha Hia]]. apply existsb_exists. exists a. split; [exact Ha|].
      rewrite forallb_forall in Hin. eapply IH; eauto.
    - destruct d; try (assert (Hr : interp E (f + n) s d' = true) by (eapply IH; eauto);
                       destruct d'; [reflexivity|exact Hr..]).
      apply ext_atomic in Hext; [now subst|exact I].
  Qed.

  (* ---------------------------------------------------------------- the converse, for a key unknown everywhere *)
  Hypothesis Hchk : forall s, chk s = false.

  Lemma ext_atomic_r d d' : ext d d' -> atomic d' -> d = d'.
  Proof. inversion 1; subst; simpl; intros H'; try reflexivity; contradiction. Qed.

  Lemma ext_inv_arr_r d l' : ext d (JArr l') -> exists l, d = JArr l /\ Forall2 ext l l'.
  Proof. inversion 1; subst; eauto using Forall2_ext_refl. Qed.

  Lemma ext_inv_obj_r d kv' :
    ext d (JObj kv') -> exists kv kv2 extra, d = JObj kv /\ kv' = (kv2 ++ extra)%list /\ kvrel kv kv2 /\ extra_ok kv extra.
  Proof.
    inversion 1; subst.
    - exists kv', kv', []. rewrite app_nil_r. repeat split; [apply kvrel_refl|now left].
    - exists kv, kv2, extra. repeat split; assumption.
  Qed.

  Lemma len_ok_rev a kv kv2 extra :
    atom_avoids k a = true -> kvrel kv kv2 -> extra_ok kv extra -> len_ok a (kv2 ++ extra) -> len_ok a kv.
  Proof.
    intros Ha H1 H2. destruct a as [path m| | |]; try exact (fun x => x).
    destruct path as [|p [|p' r]]; cbn [len_ok]; try exact (fun x => x).
    cbn [atom_avoids] in Ha. apply negb_true_iff in Ha. apply mems_false_not_In in Ha.
    assert (Hp : p <> k) by (intros ->; apply Ha; now left).
    pose proof (get_ext p _ _ _ H1 H2 Hp) as R.
    destruct (get p kv) as [v|], (get p (kv2 ++ extra)) as [v'|]; try contradiction; [|exact (fun x => x)].
    destruct v'; try contradiction. apply ext_inv_arr_r in R. destruct R as [l0 [-> _]]. exact (fun x => x).
  Qed.

  Lemma forallb_ext_rev f l l' :
    (forall x x', ext x x' -> f x' = true -> f x = true) ->
    Forall2 ext l l' -> forallb f l' = true -> forallb f l = true.
  Proof.
    intros Hf. induction 1 as [|x x' r r' Hx _ IH]; [reflexivity|]. simpl.
    rewrite !andb_true_iff. intros [Hx1 Hx2]. split; [eapply Hf; eauto|now apply IH].
  Qed.

  Lemma atomic_test_ext_rev (f : json -> bool) :
    (forall x, f x = true -> atomic x) -> forall x x', ext x x' -> f x' = true -> f x = true.
  Proof. intros Hf x x' H Hx. apply ext_atomic_r in H; [now subst|now apply Hf]. Qed.

  Lemma prim_ok_ext_rev p j j' : ext j j' -> prim_ok p j' = true -> prim_ok p j = true.
  Proof.
    intros H. ext_shape H j Hx; try exact (fun x => x).
    destruct p; simpl; try discriminate. rewrite !orb_true_iff.
    intros [[A|A]|A]; [left; left|left; right|right]; revert A; apply forallb_ext_rev; try assumption;
      apply atomic_test_ext_rev; intros [] Hx'; try discriminate; exact I.
  Qed.

  Lemma singular_ext_rev kv kv2 extra :
    negb (mems k ["dependencies"; "compare"; "checkpoint"]) = true ->
    kvrel kv kv2 -> extra_ok kv extra ->
    singular_dependency_ok (kv2 ++ extra) = true -> singular_dependency_ok kv = true.
  Proof.
    intros Hk H1 H2 Hok. apply negb_true_iff in Hk. apply mems_false_not_In in Hk.
    assert (K1 : "dependencies" <> k) by (intros <-; apply Hk; simpl; auto).
    assert (K2 : "compare" <> k) by (intros <-; apply Hk; simpl; auto).
    assert (K3 : "checkpoint" <> k) by (intros <-; apply Hk; simpl; auto).
    unfold singular_dependency_ok in *. pose proof (get_ext "dependencies" _ _ _ H1 H2 K1) as R.
    destruct (get "dependencies" kv) as [a|]; [|reflexivity].
    destruct a as [| | | | |l|]; try reflexivity. destruct l as [|x l2]; [reflexivity|].
    destruct x as [| | | | | |d]; try (destruct l2; reflexivity). destruct l2 as [|y r]; [|reflexivity].
    destruct (get "dependencies" (kv2 ++ extra)) as [b|]; [|contradiction].
    apply ext_inv_arr in R. destruct R as [l' [-> R]].
    inversion R as [|x x' r r' Hxx Hr]; subst. inversion Hr; subst.
    apply ext_inv_obj in Hxx. destruct Hxx as [d2 [ex [-> [R1 R2]]]].
    now rewrite !(has_key_ext _ _ _ _ R1 R2) in Hok by assumption.
  Qed.

  Lemma Forall2_forallb_rev {A} (R : A -> A -> Prop) (f g : A -> bool) l l' :
    (forall x x', R x x' -> g x' = true -> f x = true) -> Forall2 R l l' -> forallb g l' = true -> forallb f l = true.
  Proof.
    intros H. induction 1 as [|x x' r r' Hx _ IH]; [reflexivity|]. simpl.
    rewrite !andb_true_iff. intros [Hx1 Hx2]. split; [eapply H; eauto|now apply IH].
  Qed.

  Lemma obj_ok_ext_rev f fi ps os fs ms cs ks kv kv2 extra :
    (forall s d d' fi', inert_spec names frozen k chk fi' s = true ->
                        interp E f s d' = true -> ext d d' -> interp E f s d = true) ->
    inert_obj frozen k chk (inert_spec names frozen k chk fi) ps fs ms cs ks = true ->
    kvrel kv kv2 -> extra_ok kv extra ->
    obj_ok (env_reserved E) (interp E f) ps os fs ms cs ks (kv2 ++ extra) = true ->
    obj_ok (env_reserved E) (interp E f) ps os fs ms cs ks kv = true.
  Proof.
    intros IH Hin H1 H2. unfold inert_obj in Hin. rewrite !andb_true_iff in Hin.
    destruct Hin as [[[[[[N1 N2] N3] N4] N5] N6] N7].
    apply negb_true_iff in N2, N3.
    unfold obj_ok. destruct (apply_conds (kv2 ++ extra) cs ps fs) as [[ps' fs']|] eqn:Hap; [|discriminate].
    rewrite !andb_true_iff. intros [[[[M R] F] C] K].
    destruct (apply_conds_in _ _ _ _ _ _ Hap) as [V1 [V2 V3]].
    assert (Hconds : apply_conds kv cs ps fs = Some (ps', fs')).
    { rewrite <- (apply_conds_ext _ _ _ H1 H2); [exact Hap|].
      intros c Hc a Ha. rewrite forallb_forall in N5. specialize (N5 c Hc).
      rewrite forallb_forall in N5. specialize (N5 a Ha). apply andb_true_iff in N5. destruct N5 as [A1 A2].
      split; [exact A1|]. apply (len_ok_rev a kv kv2 extra A1 H1 H2).
      destruct a as [path m| | |]; try exact I. destruct path as [|p [|p' r]]; cbn [len_guard] in A2; try discriminate.
      cbn [len_ok]. apply andb_true_iff in A2. destruct A2 as [A2 A3]. apply mems_In in A2.
      destruct (get p (kv2 ++ extra)) as [v|] eqn:Eg; [|exact I].
      assert (Hp' : In p (keys_of ps')).
      { apply in_map_iff in A2. destruct A2 as [x [Ex Hx]]. apply in_map_iff. exists x. split; [exact Ex|now apply V2]. }
      destruct (In_keys_lookup _ _ Hp') as [sp Hsp].
      pose proof (lookup_In _ _ _ Hsp) as Hsp'. apply V1 in Hsp'.
      rewrite forallb_forall in A3. specialize (A3 _ Hsp'). cbn [fst snd] in A3.
      rewrite String.eqb_refl in A3. cbn [negb orb] in A3.
      rewrite get_lookup in Eg. apply lookup_In in Eg.
      rewrite forallb_forall in K. specialize (K _ Eg). cbn [fst snd] in K. rewrite Hsp in K.
      destruct sp; try discriminate. apply interp_array_inv in K. destruct K as [l ->]. exact I. }
    rewrite Hconds. rewrite !andb_true_iff.
    assert (Hkf : ~ In k fs').
    { destruct V3 as [->|[c [Hc Ec]]].
      - now apply mems_false_not_In.
      - rewrite forallb_forall in N4. specialize (N4 c Hc). rewrite Ec in N4.
        apply negb_true_iff in N4. now apply mems_false_not_In. }
    (* k is not a known property *)
    assert (Hkp : forall p, In p ps' -> fst p <> k).
    { intros p Hp Ek. apply V1 in Hp. rewrite forallb_forall in N7. specialize (N7 _ Hp).
      rewrite Ek, String.eqb_refl, Hchk in N7. discriminate. }
    repeat split.
    - unfold mutex_ok in M |- *.
      replace (filter (fun q => has_key q kv) ms) with (filter (fun q => has_key q (kv2 ++ extra)) ms); [exact M|].
      apply filter_ext_in. intros q Hq. apply has_key_ext; try assumption.
      intros ->. apply mems_false_not_In in N2. contradiction.
    - rewrite forallb_forall in R |- *. intros p Hp. specialize (R p Hp).
      rewrite (has_key_ext kv kv2 extra (fst p) H1 H2) in R; [exact R|]. now apply Hkp.
    - rewrite forallb_forall in F |- *. intros q Hq. rewrite <- (has_key_ext kv kv2 extra q H1 H2); [now apply F|].
      intros ->. contradiction.
    - rewrite forallb_forall in C |- *. intros c Hc. specialize (C c Hc). destruct c. cbn [check_ok] in *.
      destruct ks as [|c0 ks0]; [destruct Hc|]. now apply (singular_ext_rev kv kv2 extra N6 H1 H2).
    - rewrite forallb_app in K. apply andb_true_iff in K. destruct K as [K _].
      revert K. eapply Forall2_forallb_rev; [|exact H1].
      intros [q v] [q' v'] [Eq [Hext Hfr]] Hq. cbn [fst snd] in *. subst q'.
      destruct (lookup q ps') as [sp|] eqn:Esp; [|exact Hq].
      pose proof (lookup_In _ _ _ Esp) as Hsp. apply V1 in Hsp.
      rewrite forallb_forall in N1. specialize (N1 _ Hsp). cbn [fst snd] in N1.
      destruct (frozen q) eqn:Efr.
      + now rewrite (Hfr eq_refl).
      + cbn [orb] in N1. eapply IH; eauto.
  Qed.

  Theorem ext_reflects :
    forall fuel s d d' fi,
      inert_spec names frozen k chk fi s = true ->
      interp E fuel s d' = true -> ext d d' -> interp E fuel s d = true.
  Proof.
    induction fuel as [|f IH]; intros s d d' fi Hin Hi Hext; [discriminate|].
    destruct fi as [|fi]; [discriminate|].
    destruct s; cbn [inert_spec] in Hin; cbn [interp] in Hi |- *.
    - eapply prim_ok_ext_rev; eauto.
    - destruct d'; try discriminate. apply ext_atomic_r in Hext; [now subst|exact I].
    - destruct d'; try discriminate. apply ext_atomic_r in Hext; [now subst|exact I].
    - destruct d'; try discriminate. apply ext_atomic_r in Hext; [now subst|exact I].
    - destruct d'; try discriminate. apply ext_inv_arr_r in Hext. destruct Hext as [l0 [-> Hl]].
      apply andb_true_iff in Hi. destruct Hi as [A B]. apply andb_true_iff. split.
      + now rewrite (Forall2_len Hl).
      + revert B. eapply Forall2_forallb_rev; [|exact Hl]. intros x x' Hx Hix. eapply IH; eauto.
    - destruct d'; try discriminate. apply ext_inv_obj_r in Hext.
      destruct Hext as [kv0 [kv2 [extra [-> [-> [H1 H2]]]]]].
      eapply obj_ok_ext_rev; eauto.
    - discriminate.
    - destruct (lookup name (env_specs E)) as [sp|] eqn:El; [|discriminate].
      destruct (Henv _ _ El) as [fi' Hfi']. eapply IH; eauto.
    - apply existsb_exists in Hi. destruct Hi as [a [Ha Hia]]. apply existsb_exists. exists a. split; [exact Ha|].
      rewrite forallb_forall in Hin. eapply IH; eauto.
    - destruct d'; try (assert (Hr : interp E f s d = true) by (eapply IH; eauto);
                        destruct d; [reflexivity|exact Hr..]).
      apply ext_atomic_r in Hext; [now subst|exact I].
  Qed.
End ExtProofs.

(* ================================================================== the statements used by property C11 *)
Corollary interp_refines_contra ES S EG G :
  refines ES S EG G = true ->
  forall fuel d, interp EG fuel G d = false -> interp ES fuel S d = false.
Proof.
  intros H fuel d HG. destruct (interp ES fuel S d) eqn:HS; [|reflexivity].
  rewrite (interp_refines _ _ _ _ H _ _ HS) in HG. discriminate.
Qed.

Lemma inert_for_parts E frozen k chk root :
  inert_for E frozen k chk root = true ->
  mems k (env_reserved E) = false
  /\ (forall name sp, lookup name (env_specs E) = Some sp ->
                      exists fi, inert_spec (keys_of (env_specs E)) frozen k chk fi sp = true)
  /\ inert_spec (keys_of (env_specs E)) frozen k chk le_fuel root = true.
Proof.
  unfold inert_for. rewrite !andb_true_iff. intros [[H1 H2] H3]. split; [now apply negb_true_iff|]. split; [|exact H3].
  intros name sp Hl. apply lookup_In in Hl. rewrite forallb_forall in H2. exists le_fuel. exact (H2 _ Hl).
Qed.

(* Adding entries under a key that no specification mentions and that is not reserved - with ANY values, at any
   object nodes of the document tree other than inside a keys/values map - does not change the verdict. *)
Theorem interp_ignores_unknown E root k :
  unknown_key E root k = true ->
  forall fuel d d',
    ext map_keys k (fun _ => True) d d' -> interp E fuel root d' = interp E fuel root d.
Proof.
  intros H fuel d d' Hext. destruct (inert_for_parts _ _ _ _ _ H) as [H1 [H2 H3]].
  apply eq_true_iff_eq. split; intros Hi.
  - eapply (ext_reflects E map_keys k (fun _ => True) (fun _ => false) (keys_of (env_specs E))); eauto.
  - rewrite <- (Nat.add_0_r fuel).
    eapply (ext_preserves E map_keys k (fun _ => True) (fun _ => false) (keys_of (env_specs E)) 0); eauto.
    all: try (intros sk v Hc; discriminate).
Qed.

(* Adding an optional descriptive property whose value is well formed (accepted by [sk] with fuel n) keeps an
   accepted document accepted; n more units of fuel pay for checking the new values. *)
Theorem interp_optional_descriptive E root k sk :
  descriptive_key E root k sk = true -> env_le le_fuel E E = true ->
  forall n fuel d d',
    interp E fuel root d = true ->
    ext map_keys k (fun v => interp E n sk v = true) d d' ->
    interp E (fuel + n) root d' = true.
Proof.
  intros H HE n fuel d d' Hi Hext. destruct (inert_for_parts _ _ _ _ _ H) as [H1 [H2 H3]].
  eapply (ext_preserves E map_keys k (fun v => interp E n sk v = true)
                        (fun s => spec_le (env_reserved E) le_fuel sk s) (keys_of (env_specs E)) n); eauto.
  all: try (intros s v Hle Hv; eapply interp_mono; eauto).
Qed.

Corollary interp_optional_descriptive_all E root (l : list (string * spec)) :
  forallb (fun p => descriptive_key E root (fst p) (snd p)) l = true -> env_le le_fuel E E = true ->
  forall k sk, In (k, sk) l ->
  forall n fuel d d',
    interp E fuel root d = true ->
    ext map_keys k (fun v => interp E n sk v = true) d d' ->
    interp E (fuel + n) root d' = true.
Proof.
  intros H HE k sk Hin. rewrite forallb_forall in H. specialize (H _ Hin). cbn [fst snd] in H.
  now apply interp_optional_descriptive.
Qed.

(* ================================================================== what acceptance means, node by node
   (the contrapositives are the damage kinds of property C11: wrong JSON type, pattern violation, unknown
   enumeration value, short array, missing required / forbidden / reserved property, mutual exclusion) *)
Lemma interp_string_inv E f ps j :
  interp E f (SString ps) j = true -> exists x, j = JStr x /\ forall p, In p ps -> match_pat p x = true.
Proof.
  destruct f; [discriminate|]. cbn [interp]. destruct j; try discriminate. intros H. exists s. split; [reflexivity|].
  now apply forallb_forall.
Qed.

Lemma interp_enum_inv E f vs j : interp E f (SEnum vs) j = true -> exists x, j = JStr x /\ In x vs.
Proof.
  destruct f; [discriminate|]. cbn [interp]. destruct j; try discriminate. intros H. exists s. split; [reflexivity|].
  now apply mems_In.
Qed.

Lemma interp_ref_inv E f ks j :
  interp E f (SRef ks) j = true -> exists x, j = JStr x /\ ref_ok (env_ref_types E) ks x = true.
Proof. destruct f; [discriminate|]. cbn [interp]. destruct j; try discriminate. eauto. Qed.

Lemma interp_integer_inv E f j : interp E f (SPrim PInteger) j = true -> exists z, j = JInt z.
Proof. destruct f; [discriminate|]. cbn [interp]. destruct j; try discriminate. eauto. Qed.

Lemma interp_array_inv' E f a m j :
  interp E f (SArray a m) j = true ->
  exists l f', j = JArr l /\ f = S f' /\ m <= List.length l /\ forall x, In x l -> interp E f' a x = true.
Proof.
  destruct f; [discriminate|]. cbn [interp]. destruct j; try discriminate. intros H.
  apply andb_true_iff in H. destruct H as [H1 H2]. exists l, f. repeat split; [now apply Nat.leb_le|].
  now apply forallb_forall.
Qed.

Lemma mutex_ok_inv ms os kv :
  mutex_ok ms os kv = true ->
  (exists k, filter (fun q => has_key q kv) ms = [k])
  \/ (filter (fun q => has_key q kv) ms = [] /\ forall k, In k ms -> In k os).
Proof.
  unfold mutex_ok. destruct (filter (fun q => has_key q kv) ms) as [|k [|k' r]]; cbn [List.length].
  - intros H. right. split; [reflexivity|]. intros k Hk. rewrite forallb_forall in H. apply mems_In. now apply H.
  - intros _. left. now exists k.
  - discriminate.
Qed.

Lemma interp_object_inv E f ps os fs ms cs ks j :
  interp E f (SObject ps os fs ms cs ks) j = true ->
  exists kv f' ps' fs',
    j = JObj kv /\ f = S f' /\ apply_conds kv cs ps fs = Some (ps', fs')
    /\ mutex_ok ms os kv = true
    (* required properties are present *)
    /\ (forall k s, In (k, s) ps' -> has_key k kv = true \/ In k os \/ In k fs' \/ In k ms)
    (* forbidden properties are absent *)
    /\ (forall k, In k fs' -> has_key k kv = false)
    /\ (forall c, In c ks -> check_ok c kv = true)
    (* every entry is a valid known property, or an unknown name that is not reserved *)
    /\ (forall k v, In (k, v) kv -> match lookup k ps' with
                                    | Some s => interp E f' s v = true
                                    | None => ~ In k (env_reserved E)
                                    end).
Proof.
  destruct f; [discriminate|]. cbn [interp]. destruct j; try discriminate. unfold obj_ok.
  destruct (apply_conds kv cs ps fs) as [[ps' fs']|] eqn:Hap; [|discriminate].
  rewrite !andb_true_iff. intros [[[[M R] F] C] K]. exists kv, f, ps', fs'. repeat split; try assumption.
  - intros k s Hin. rewrite forallb_forall in R. specialize (R _ Hin). cbn [fst] in R.
    rewrite !orb_true_iff in R. rewrite <- !mems_In. tauto.
  - intros k Hk. rewrite forallb_forall in F. specialize (F _ Hk). now apply negb_true_iff.
  - now apply forallb_forall.
  - intros k v Hin. rewrite forallb_forall in K. specialize (K _ Hin). cbn [fst snd] in K.
    destruct (lookup k ps'); [exact K|]. apply negb_true_iff in K. now apply mems_false_not_In.
Qed.

Lemma singular_dependency_inv kv d :
  singular_dependency_ok kv = true -> get "dependencies" kv = Some (JArr [JObj d]) ->
  has_key "checkpoint" d = true -> has_key "compare" d = true.
Proof.
  unfold singular_dependency_ok. intros H E. rewrite E in H. intros Hc. rewrite Hc in H.
  now rewrite orb_false_r in H.
Qed.
