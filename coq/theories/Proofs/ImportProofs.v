(* Imports (property C16): what acceptance of an importing schema gives, what a connection adds to the
   dependency relation, and where the entities of an imported schema are found in the combined schema. *)
From Coq Require Import List Bool Arith Lia Relations.
From OIS Require Import Base.Types Base.PipeTypes Spec.Compare Model.Schema Model.Rules Spec.DepRel Model.Imports.
From OIS Require Import Proofs.ConformsInv Proofs.CycleProofs.
From Coq Require Import Permutation.
From OIS Require Proofs.PermProofs Proofs.RenameProofs.
From OIS Require Gen.Tables.
Import ListNotations.

(* ================================================================== 1. a bad import is rejected *)
Lemma conforms_i_with_inv cmp tbl native ims : conforms_i_with cmp tbl native ims = true ->
  bases_ok ims = true /\ (forall im, In im ims -> import_ok cmp tbl native im = true) /\
  conforms_with cmp tbl (combine native ims) = true.
Proof.
  unfold conforms_i_with. rewrite !andb_true_iff, forallb_forall. tauto.
Qed.

Lemma conn_ok_inv native im c : conn_ok native im c = true ->
  ((r_kind (cn_to c) = RAction /\ exists a, find_action (im_schema im) (r_id (cn_to c)) = Some a) \/
   (r_kind (cn_to c) = RCheckpoint /\ exists t, find_checkpoint (im_schema im) (r_id (cn_to c)) = Some t)) /\
  r_kind (cn_add c) = RCheckpoint /\ exists k, find_checkpoint native (r_id (cn_add c)) = Some k.
Proof.
  unfold conn_ok. rewrite !andb_true_iff, rkind_eqb_eq, isSome_true. intros [[H1 H2] H3].
  split; [|split; assumption].
  destruct (r_kind (cn_to c)); try discriminate; apply isSome_true in H1; [left|right]; split; auto.
Qed.

Lemma import_ok_inv cmp tbl native im : import_ok cmp tbl native im = true ->
  im_readable im = true /\ conforms_with cmp tbl (im_schema im) = true /\
  (forall c, In c (im_conns im) -> conn_ok native im c = true) /\
  nodup_by ref_eqb (map cn_to (im_conns im)) = true.
Proof. unfold import_ok. rewrite !andb_true_iff, forallb_forall. tauto. Qed.

Lemma C16_bad_import_rejected_with cmp tbl native ims : conforms_i_with cmp tbl native ims = true ->
  forall im, In im ims ->
    im_readable im = true /\ conforms_with cmp tbl (im_schema im) = true /\
    forall c, In c (im_conns im) ->
      ((r_kind (cn_to c) = RAction /\ exists a, find_action (im_schema im) (r_id (cn_to c)) = Some a) \/
       (r_kind (cn_to c) = RCheckpoint /\ exists t, find_checkpoint (im_schema im) (r_id (cn_to c)) = Some t)) /\
      r_kind (cn_add c) = RCheckpoint /\ exists k, find_checkpoint native (r_id (cn_add c)) = Some k.
Proof.
  intros H im Him. destruct (conforms_i_with_inv _ _ _ _ H) as (_ & HI & _).
  destruct (import_ok_inv _ _ _ _ (HI im Him)) as (R & C & K & _).
  split; [exact R|]. split; [exact C|]. intros c Hc. apply conn_ok_inv. apply K. exact Hc.
Qed.

Lemma C16_bad_import_rejected_lemma : forall tbl native ims, conforms_i tbl native ims = true ->
  forall im, In im ims ->
    im_readable im = true /\ conforms tbl (im_schema im) = true /\
    forall c, In c (im_conns im) ->
      ((r_kind (cn_to c) = RAction /\ exists a, find_action (im_schema im) (r_id (cn_to c)) = Some a) \/
       (r_kind (cn_to c) = RCheckpoint /\ exists t, find_checkpoint (im_schema im) (r_id (cn_to c)) = Some t)) /\
      r_kind (cn_add c) = RCheckpoint /\ exists k, find_checkpoint native (r_id (cn_add c)) = Some k.
Proof. intros tbl native ims. apply C16_bad_import_rejected_with. Qed.

(* the same for the known-finding comparison table *)
Lemma C16_bad_import_rejected_kf_lemma : forall tbl native ims, conforms_i_kf tbl native ims = true ->
  forall im, In im ims ->
    im_readable im = true /\ conforms_kf tbl (im_schema im) = true /\
    forall c, In c (im_conns im) ->
      ((r_kind (cn_to c) = RAction /\ exists a, find_action (im_schema im) (r_id (cn_to c)) = Some a) \/
       (r_kind (cn_to c) = RCheckpoint /\ exists t, find_checkpoint (im_schema im) (r_id (cn_to c)) = Some t)) /\
      r_kind (cn_add c) = RCheckpoint /\ exists k, find_checkpoint native (r_id (cn_add c)) = Some k.
Proof. intros tbl native ims. apply C16_bad_import_rejected_with. Qed.

(* two connections of one import never have the same target *)
Lemma C16_connection_targets_distinct_lemma : forall tbl native ims, conforms_i tbl native ims = true ->
  forall im, In im ims -> nodup_by ref_eqb (map cn_to (im_conns im)) = true.
Proof.
  intros tbl native ims H im Him. destruct (conforms_i_with_inv _ _ _ _ H) as (_ & HI & _).
  exact (proj2 (proj2 (proj2 (import_ok_inv _ _ _ _ (HI im Him))))).
Qed.

(* ================================================================== 4. cycles and scope violations through a connection *)
Lemma C16_cycle_through_connection_rejected_lemma : forall tbl native ims,
  conforms_i tbl native ims = true -> Acyclic (combine native ims).
Proof.
  intros tbl native ims H. destruct (conforms_i_with_inv _ _ _ _ H) as (_ & _ & C).
  eapply conforms_with_acyclic. exact C.
Qed.

(* the scope clauses of C05 hold of the combined schema: every depends_on (native, imported, or written by a
   connection), every nested checkpoint reference (including those of the stitched checkpoints) and every
   compared action *)
Definition scope_clauses (s : schema) : Prop :=
  (forall a r cp rc, In a (actions s) -> a_dep a = Some r ->
     find_checkpoint s (r_id r) = Some cp -> cp_ctx cp = Some rc ->
     exists ra, a_ctx a = Some ra /\ r_kind ra = RGroup /\ Encloses s (r_id rc) (r_id ra)) /\
  (forall g r cp rc, In g (groups s) -> g_dep g = Some r ->
     find_checkpoint s (r_id r) = Some cp -> cp_ctx cp = Some rc ->
     exists rg, g_ctx g = Some rg /\ r_kind rg = RGroup /\ Encloses s (r_id rc) (r_id rg)) /\
  (forall cp c c' rc, In cp (checkpoints s) -> In (DRef c) (cp_deps cp) ->
     find_checkpoint s (r_id c) = Some c' -> cp_ctx c' = Some rc ->
     exists r0, cp_ctx cp = Some r0 /\ r_kind r0 = RGroup /\ Encloses s (r_id rc) (r_id r0)) /\
  (forall cp l o r a path act rg, In cp (checkpoints s) -> In (DCmp l o r) (cp_deps cp) ->
     l = OAct a path \/ r = OAct a path -> find_action s (r_id a) = Some act -> a_ctx act = Some rg ->
     exists r0, cp_ctx cp = Some r0 /\ r_kind r0 = RGroup /\ Encloses s (r_id rg) (r_id r0)).

Lemma conforms_scope_clauses cmp tbl s : conforms_with cmp tbl s = true -> scope_clauses s.
Proof.
  intro H. repeat split.
  - exact (C05_SC1_action_lemma cmp tbl s H).
  - exact (C05_SC1_group_lemma cmp tbl s H).
  - exact (C05_SC1_checkpoint_lemma cmp tbl s H).
  - exact (C05_SC2_lemma cmp tbl s H).
Qed.

Lemma C16_scope_through_connection_lemma : forall tbl native ims,
  conforms_i tbl native ims = true -> scope_clauses (combine native ims).
Proof.
  intros tbl native ims H. destruct (conforms_i_with_inv _ _ _ _ H) as (_ & _ & C).
  eapply conforms_scope_clauses. exact C.
Qed.

(* ================================================================== lookups in the building blocks of [combine] *)
Lemma find_app {A} (p : A -> bool) l1 l2 :
  find p (l1 ++ l2) = match find p l1 with Some x => Some x | None => find p l2 end.
Proof. induction l1 as [|x r IH]; simpl; [reflexivity|]. destruct (p x); [reflexivity|exact IH]. Qed.

Lemma find_map_key {A} (key : A -> nat) (f : A -> A) (l : list A) i :
  (forall x, key (f x) = key x) ->
  find (fun x => Nat.eqb (key x) i) (map f l) = option_map f (find (fun x => Nat.eqb (key x) i) l).
Proof.
  intro K. induction l as [|x r IH]; simpl; [reflexivity|]. rewrite K.
  destruct (Nat.eqb (key x) i); [reflexivity|exact IH].
Qed.

Definition upd_dep (t : nat) (d : ref) (x : action) : action :=
  if Nat.eqb (a_id x) t then
    {| a_id := a_id x; a_name := a_name x; a_party := a_party x; a_promise := a_promise x; a_ctx := a_ctx x;
       a_dep := Some d; a_op := a_op x; a_milestones := a_milestones x |} else x.

Definition upd_cp (t : nat) (gate : option gate) (deps : list dep) (c : checkpoint) : checkpoint :=
  if Nat.eqb (cp_id c) t then
    {| cp_id := cp_id c; cp_alias := cp_alias c; cp_gate := gate; cp_deps := deps; cp_ctx := cp_ctx c |} else c.

Lemma upd_dep_id t d x : a_id (upd_dep t d x) = a_id x.
Proof. unfold upd_dep. destruct (Nat.eqb (a_id x) t); reflexivity. Qed.
Lemma upd_dep_ctx t d x : a_ctx (upd_dep t d x) = a_ctx x.
Proof. unfold upd_dep. destruct (Nat.eqb (a_id x) t); reflexivity. Qed.
Lemma upd_dep_other t d x : a_id x <> t -> upd_dep t d x = x.
Proof. unfold upd_dep. intro H. apply Nat.eqb_neq in H. rewrite H. reflexivity. Qed.
Lemma upd_dep_hit t d x : a_id x = t -> a_dep (upd_dep t d x) = Some d.
Proof. unfold upd_dep. intro H. apply Nat.eqb_eq in H. rewrite H. reflexivity. Qed.

Lemma upd_cp_id t g ds c : cp_id (upd_cp t g ds c) = cp_id c.
Proof. unfold upd_cp. destruct (Nat.eqb (cp_id c) t); reflexivity. Qed.
Lemma upd_cp_ctx t g ds c : cp_ctx (upd_cp t g ds c) = cp_ctx c.
Proof. unfold upd_cp. destruct (Nat.eqb (cp_id c) t); reflexivity. Qed.
Lemma upd_cp_alias t g ds c : cp_alias (upd_cp t g ds c) = cp_alias c.
Proof. unfold upd_cp. destruct (Nat.eqb (cp_id c) t); reflexivity. Qed.
Lemma upd_cp_other t g ds c : cp_id c <> t -> upd_cp t g ds c = c.
Proof. unfold upd_cp. intro H. apply Nat.eqb_neq in H. rewrite H. reflexivity. Qed.
Lemma upd_cp_hit_deps t g ds c : cp_id c = t -> cp_deps (upd_cp t g ds c) = ds.
Proof. unfold upd_cp. intro H. apply Nat.eqb_eq in H. rewrite H. reflexivity. Qed.

Lemma find_action_set_dep s t d i :
  find_action (set_action_dep s t d) i = option_map (upd_dep t d) (find_action s i).
Proof. unfold find_action. cbn [set_action_dep actions]. apply (find_map_key a_id). intro x. apply upd_dep_id. Qed.

Lemma find_checkpoint_set_dep s t d i : find_checkpoint (set_action_dep s t d) i = find_checkpoint s i.
Proof. reflexivity. Qed.

Lemma find_checkpoint_add s k i :
  find_checkpoint (add_checkpoint s k) i =
  match find_checkpoint s i with Some x => Some x | None => if Nat.eqb (cp_id k) i then Some k else None end.
Proof. unfold find_checkpoint. cbn [add_checkpoint checkpoints]. rewrite find_app. reflexivity. Qed.

Lemma find_checkpoint_set_cp s t g ds i :
  find_checkpoint (set_checkpoint s t g ds) i = option_map (upd_cp t g ds) (find_checkpoint s i).
Proof. unfold find_checkpoint. cbn [set_checkpoint checkpoints]. apply (find_map_key cp_id). intro x. apply upd_cp_id. Qed.

(* ================================================================== the relations depend on parts of the schema only *)
Lemma Encloses_groups s s' : groups s' = groups s -> forall g' g, Encloses s g' g -> Encloses s' g' g.
Proof.
  intros E g' g H. induction H as [g tg F | g tg r g' F C K _ IH].
  - eapply E_self. unfold find_group in *. rewrite E. exact F.
  - eapply E_up; [|exact C|exact K|exact IH]. unfold find_group in *. rewrite E. exact F.
Qed.

Lemma HoldsGroup_groups s s' : groups s' = groups s -> forall g c, HoldsGroup s g c -> HoldsGroup s' g c.
Proof.
  intros E g c (g' & tg & r & H1 & H2 & H3). exists g', tg, r. split; [eapply Encloses_groups; eassumption|].
  split; [|exact H3]. unfold find_group in *. rewrite E. exact H2.
Qed.

Lemma HoldsAction_groups s s' : groups s' = groups s -> forall a c, HoldsAction s a c -> HoldsAction s' a c.
Proof.
  intros E a c [H|(r & H1 & H2 & H3)]; [left; exact H|right].
  exists r. split; [exact H1|]. split; [exact H2|]. eapply HoldsGroup_groups; eassumption.
Qed.

Lemma Mentions_find_mono s s' :
  (forall i cp, find_checkpoint s i = Some cp -> find_checkpoint s' i = Some cp) ->
  forall c b, Mentions s c b -> Mentions s' c b.
Proof.
  intros E c b H. induction H as [c cp l o r b F I B | c cp r b F I K _ IH].
  - eapply M_cmp; [apply E; exact F|exact I|exact B].
  - eapply M_ref; [apply E; exact F|exact I|exact K|exact IH].
Qed.

(* ================================================================== freshness of a checkpoint id *)
Definition FreshCp (s : schema) (f : nat) : Prop :=
  find_checkpoint s f = None /\
  (forall a r, In a (actions s) -> a_dep a = Some r -> r_kind r = RCheckpoint -> r_id r <> f) /\
  (forall g r, In g (groups s) -> g_dep g = Some r -> r_kind r = RCheckpoint -> r_id r <> f) /\
  (forall cp r, In cp (checkpoints s) -> In (DRef r) (cp_deps cp) -> r_kind r = RCheckpoint -> r_id r <> f).

Lemma HoldsGroup_fresh s f g c : FreshCp s f -> HoldsGroup s g c -> c <> f.
Proof.
  intros (_ & _ & FG & _) (g' & tg & r & _ & F & D & K & <-).
  destruct (find_group_some _ _ _ F) as [I _]. exact (FG tg r I D K).
Qed.

Lemma HoldsAction_fresh s f a c : FreshCp s f -> In a (actions s) -> HoldsAction s a c -> c <> f.
Proof.
  intros Fr I [(r & D & K & <-)|(r & _ & _ & H)].
  - destruct Fr as (_ & FA & _). exact (FA a r I D K).
  - eapply HoldsGroup_fresh; eassumption.
Qed.

(* adding a checkpoint under a fresh id changes no other checkpoint's mentions *)
Lemma Mentions_add_mono s k c b : Mentions s c b -> Mentions (add_checkpoint s k) c b.
Proof. apply Mentions_find_mono. intros i cp F. rewrite find_checkpoint_add, F. reflexivity. Qed.

Lemma find_checkpoint_add_other s k i : i <> cp_id k -> find_checkpoint (add_checkpoint s k) i = find_checkpoint s i.
Proof.
  intro N. rewrite find_checkpoint_add. destruct (find_checkpoint s i); [reflexivity|].
  destruct (Nat.eqb (cp_id k) i) eqn:E; [apply Nat.eqb_eq in E; congruence|reflexivity].
Qed.

Lemma Mentions_add_inv s k : FreshCp s (cp_id k) ->
  forall c b, Mentions (add_checkpoint s k) c b -> c <> cp_id k -> Mentions s c b.
Proof.
  intros Fr c b H. induction H as [c cp l o r b F I B | c cp r b F I K _ IH]; intro N.
  - rewrite find_checkpoint_add_other in F by exact N. eapply M_cmp; eassumption.
  - rewrite find_checkpoint_add_other in F by exact N.
    eapply M_ref; [exact F|exact I|exact K|]. apply IH.
    destruct Fr as (_ & _ & _ & FC). destruct (find_checkpoint_some _ _ _ F) as [Icp _]. exact (FC cp r Icp I K).
Qed.

(* ================================================================== 3. what one connection adds *)
Lemma stitch_one_action_none base s n c a :
  r_kind (cn_to c) = RAction -> find_action s (base + r_id (cn_to c)) = Some a -> a_dep a = None ->
  stitch_one base s n c = set_action_dep s (base + r_id (cn_to c)) (cn_add c).
Proof. intros K F D. unfold stitch_one. rewrite K, F, D. reflexivity. Qed.

Definition stitched_and (fresh : nat) (add old : ref) : checkpoint :=
  {| cp_id := fresh; cp_alias := fresh; cp_gate := Some G_AND; cp_deps := [DRef add; DRef old]; cp_ctx := None |}.

Lemma stitch_one_action_some base s n c a old :
  r_kind (cn_to c) = RAction -> find_action s (base + r_id (cn_to c)) = Some a -> a_dep a = Some old ->
  stitch_one base s n c =
  set_action_dep (add_checkpoint s (stitched_and (base + STITCH + n) (cn_add c) old))
                 (base + r_id (cn_to c)) (Ref RCheckpoint (base + STITCH + n)).
Proof. intros K F D. unfold stitch_one. rewrite K, F, D. reflexivity. Qed.

Definition stitched_copy (fresh : nat) (t : checkpoint) : checkpoint :=
  {| cp_id := fresh; cp_alias := fresh; cp_gate := cp_gate t; cp_deps := cp_deps t; cp_ctx := None |}.

Lemma stitch_one_checkpoint base s n c t :
  r_kind (cn_to c) = RCheckpoint -> find_checkpoint s (base + r_id (cn_to c)) = Some t ->
  stitch_one base s n c =
  set_checkpoint (add_checkpoint s (stitched_copy (base + STITCH + n) t)) (base + r_id (cn_to c)) (Some G_AND)
                 [DRef (Ref RCheckpoint (base + STITCH + n)); DRef (cn_add c)].
Proof. intros K F. unfold stitch_one. rewrite K, F. reflexivity. Qed.

(* what [stitch_one] can be: the schema itself, or one of the three rewrites above *)
Lemma stitch_one_cases base s n c :
  stitch_one base s n c = s \/
  (exists a, r_kind (cn_to c) = RAction /\ find_action s (base + r_id (cn_to c)) = Some a /\ a_dep a = None) \/
  (exists a old, r_kind (cn_to c) = RAction /\ find_action s (base + r_id (cn_to c)) = Some a /\ a_dep a = Some old) \/
  (exists t, r_kind (cn_to c) = RCheckpoint /\ find_checkpoint s (base + r_id (cn_to c)) = Some t).
Proof.
  unfold stitch_one. destruct (r_kind (cn_to c)); auto.
  - destruct (find_action s (base + r_id (cn_to c))) as [a|]; auto.
    destruct (a_dep a) as [old|] eqn:D; [right; right; left|right; left]; eauto.
  - destruct (find_checkpoint s (base + r_id (cn_to c))) as [t|]; auto. right. right. right. eauto.
Qed.

(* ------------------------------------------------------------------ (a) the target is an action *)
(* lower bound: needs only that the stitched id is not declared yet *)
Lemma stitch_action_lower base s n c a :
  r_kind (cn_to c) = RAction -> find_action s (base + r_id (cn_to c)) = Some a ->
  find_checkpoint s (base + STITCH + n) = None ->
  forall b, Dep s (base + r_id (cn_to c)) b \/ (r_kind (cn_add c) = RCheckpoint /\ Mentions s (r_id (cn_add c)) b) ->
            Dep (stitch_one base s n c) (base + r_id (cn_to c)) b.
Proof.
  intros K F Fn b H.
  set (t := base + r_id (cn_to c)) in *. set (f := base + STITCH + n) in *.
  destruct (find_action_some _ _ _ F) as [Ia Ida].
  destruct (a_dep a) as [old|] eqn:D.
  - rewrite (stitch_one_action_some base s n c a old K F D). fold t f.
    set (k := stitched_and f (cn_add c) old). set (s1 := add_checkpoint s k).
    assert (Fk : find_checkpoint s1 f = Some k).
    { unfold s1. rewrite find_checkpoint_add, Fn. cbn. rewrite Nat.eqb_refl. reflexivity. }
    assert (Mup : forall x, Mentions s x b -> Mentions (set_action_dep s1 t (Ref RCheckpoint f)) x b).
    { intros x Mx. apply (Mentions_find_mono s1); [intros i cp Fi; exact Fi|]. apply Mentions_add_mono. exact Mx. }
    assert (FA : find_action (set_action_dep s1 t (Ref RCheckpoint f)) t = Some (upd_dep t (Ref RCheckpoint f) a)).
    { rewrite find_action_set_dep. change (find_action s1 t) with (find_action s t). rewrite F. reflexivity. }
    assert (Fk' : find_checkpoint (set_action_dep s1 t (Ref RCheckpoint f)) f = Some k) by exact Fk.
    destruct H as [(act & cc & FA0 & H & M)|[KA M]].
    + rewrite F in FA0. injection FA0 as <-.
      destruct H as [(r & Dr & Kr & <-)|(r & Cr & Kr & HG)].
      * rewrite D in Dr. injection Dr as <-.
        exists (upd_dep t (Ref RCheckpoint f) a), f. split; [exact FA|]. split.
        -- left. exists (Ref RCheckpoint f). rewrite (upd_dep_hit _ _ _ Ida). auto.
        -- eapply M_ref; [exact Fk'| |exact Kr|apply Mup; exact M]. cbn. auto.
      * exists (upd_dep t (Ref RCheckpoint f) a), cc. split; [exact FA|]. split.
        -- right. exists r. rewrite upd_dep_ctx. split; [exact Cr|]. split; [exact Kr|].
           eapply HoldsGroup_groups; [|exact HG]. reflexivity.
        -- apply Mup. exact M.
    + exists (upd_dep t (Ref RCheckpoint f) a), f. split; [exact FA|]. split.
      * left. exists (Ref RCheckpoint f). rewrite (upd_dep_hit _ _ _ Ida). auto.
      * eapply M_ref; [exact Fk'| |exact KA|apply Mup; exact M]. cbn. auto.
  - rewrite (stitch_one_action_none base s n c a K F D). fold t.
    assert (FA : find_action (set_action_dep s t (cn_add c)) t = Some (upd_dep t (cn_add c) a)).
    { rewrite find_action_set_dep, F. reflexivity. }
    assert (Mq : forall x, Mentions s x b -> Mentions (set_action_dep s t (cn_add c)) x b).
    { intro x. apply Mentions_find_mono; intros i cp Fi; exact Fi. }
    destruct H as [(act & cc & FA0 & H & M)|[KA M]].
    + rewrite F in FA0. injection FA0 as <-.
      destruct H as [(r & Dr & Kr & <-)|(r & Cr & Kr & HG)]; [congruence|].
      exists (upd_dep t (cn_add c) a), cc. split; [exact FA|]. split; [|apply Mq; exact M].
      right. exists r. rewrite upd_dep_ctx. split; [exact Cr|]. split; [exact Kr|].
      eapply HoldsGroup_groups; [|exact HG]. reflexivity.
    + exists (upd_dep t (cn_add c) a), (r_id (cn_add c)). split; [exact FA|]. split; [|apply Mq; exact M].
      left. exists (cn_add c). rewrite (upd_dep_hit _ _ _ Ida). auto.
Qed.

Lemma C16_connection_adds_action_lemma : forall base s n c a,
  r_kind (cn_to c) = RAction -> r_kind (cn_add c) = RCheckpoint ->
  find_action s (base + r_id (cn_to c)) = Some a ->
  FreshCp s (base + STITCH + n) -> r_id (cn_add c) <> base + STITCH + n ->
  forall b, Dep (stitch_one base s n c) (base + r_id (cn_to c)) b <->
            Dep s (base + r_id (cn_to c)) b \/ Mentions s (r_id (cn_add c)) b.
Proof.
  intros base s n c a K KA F Fr NA b. split.
  2:{ intro H. apply (stitch_action_lower base s n c a K F (proj1 Fr)). tauto. }
  set (t := base + r_id (cn_to c)) in *. set (f := base + STITCH + n) in *.
  destruct (find_action_some _ _ _ F) as [Ia Ida].
  destruct (a_dep a) as [old|] eqn:D.
  - (* the action had a depends_on: a fresh AND checkpoint over the added one and the old one *)
    rewrite (stitch_one_action_some base s n c a old K F D). fold t f.
    set (k := stitched_and f (cn_add c) old). set (s1 := add_checkpoint s k).
    assert (Fk : find_checkpoint s1 f = Some k).
    { unfold s1. rewrite find_checkpoint_add. destruct Fr as (-> & _). cbn. rewrite Nat.eqb_refl. reflexivity. }
    intros (act & cc & FA & H & M).
    rewrite find_action_set_dep in FA. change (find_action s1 t) with (find_action s t) in FA.
    rewrite F in FA. cbn [option_map] in FA. injection FA as <-.
    assert (M' : forall x, x <> f -> Mentions s1 x b -> Mentions s x b).
    { intros x Nx Mx. apply (Mentions_add_inv s k Fr x b); assumption. }
    assert (Mset : forall x, Mentions (set_action_dep s1 t (Ref RCheckpoint f)) x b -> Mentions s1 x b).
    { intro x. apply Mentions_find_mono. intros i cp Fi. exact Fi. }
    apply Mset in M.
    destruct H as [(r & Dr & Kr & <-)|(r & Cr & Kr & HG)].
    + rewrite (upd_dep_hit _ _ _ Ida) in Dr. injection Dr as <-. cbn [r_id] in M.
      inversion M as [c0 cp l o r b0 Fc I B | c0 cp r b0 Fc I Kr' Mr]; subst;
        rewrite Fk in Fc; injection Fc as <-; cbn [k stitched_and cp_deps] in I.
      * destruct I as [I|[I|[]]]; discriminate.
      * destruct I as [I|[I|[]]]; injection I as <-.
        -- right. apply M'; assumption.
        -- left. exists a, (r_id old). split; [exact F|]. split.
           ++ left. exists old. auto.
           ++ apply M'; [|exact Mr]. destruct Fr as (_ & FA & _). exact (FA a old Ia D Kr').
    + rewrite upd_dep_ctx in Cr.
      assert (HG' : HoldsGroup s (r_id r) cc) by (eapply HoldsGroup_groups; [|exact HG]; reflexivity).
      left. exists a, cc. split; [exact F|]. split; [right; exists r; auto|].
      apply M'; [|exact M]. eapply HoldsGroup_fresh; eassumption.
  - (* no depends_on: the added checkpoint becomes the depends_on *)
    rewrite (stitch_one_action_none base s n c a K F D). fold t.
    assert (FA : find_action (set_action_dep s t (cn_add c)) t = Some (upd_dep t (cn_add c) a)).
    { rewrite find_action_set_dep, F. reflexivity. }
    assert (Mq : forall x, Mentions (set_action_dep s t (cn_add c)) x b -> Mentions s x b).
    { intro x. apply Mentions_find_mono; intros i cp Fi; exact Fi. }
    intros (act & cc & FA0 & H & M). rewrite FA in FA0. injection FA0 as <-. apply Mq in M.
    destruct H as [(r & Dr & Kr & <-)|(r & Cr & Kr & HG)].
    + rewrite (upd_dep_hit _ _ _ Ida) in Dr. injection Dr as <-. right. exact M.
    + rewrite upd_dep_ctx in Cr. left. exists a, cc. split; [exact F|]. split; [|exact M].
      right. exists r. split; [exact Cr|]. split; [exact Kr|]. eapply HoldsGroup_groups; [|exact HG]. reflexivity.
Qed.

(* every other action keeps exactly its dependencies *)
Lemma Dep_other_gen s s' f x b :
  groups s' = groups s -> groups s = groups s' -> find_action s' x = find_action s x -> FreshCp s f ->
  (forall cc, cc <> f -> (Mentions s' cc b <-> Mentions s cc b)) ->
  (Dep s' x b <-> Dep s x b).
Proof.
  intros G G' FA Fr Mq. split; intros (act & cc & F & H & M).
  - rewrite FA in F. destruct (find_action_some _ _ _ F) as [Ia _].
    assert (H' : HoldsAction s act cc) by (eapply HoldsAction_groups; [exact G'|exact H]).
    exists act, cc. split; [exact F|]. split; [exact H'|]. apply Mq; [|exact M].
    eapply HoldsAction_fresh; eassumption.
  - destruct (find_action_some _ _ _ F) as [Ia _].
    exists act, cc. split; [rewrite FA; exact F|]. split; [eapply HoldsAction_groups; [exact G|exact H]|].
    apply Mq; [|exact M]. eapply HoldsAction_fresh; eassumption.
Qed.

Lemma find_action_set_dep_other s t d x : x <> t -> find_action (set_action_dep s t d) x = find_action s x.
Proof.
  intro N. rewrite find_action_set_dep. destruct (find_action s x) as [a|] eqn:F; [|reflexivity].
  destruct (find_action_some _ _ _ F) as [_ I]. cbn. rewrite upd_dep_other by congruence. reflexivity.
Qed.

Lemma C16_connection_other_actions_lemma : forall base s n c,
  r_kind (cn_to c) = RAction -> FreshCp s (base + STITCH + n) ->
  forall x, x <> base + r_id (cn_to c) -> forall b, Dep (stitch_one base s n c) x b <-> Dep s x b.
Proof.
  intros base s n c K Fr x N b. unfold stitch_one. rewrite K.
  destruct (find_action s (base + r_id (cn_to c))) as [a|] eqn:F; [|reflexivity].
  destruct (a_dep a) as [old|] eqn:D.
  - set (k := {| cp_id := base + STITCH + n; cp_alias := base + STITCH + n; cp_gate := Some G_AND;
                 cp_deps := [DRef (cn_add c); DRef old]; cp_ctx := None |}).
    apply (Dep_other_gen s _ (base + STITCH + n)); try reflexivity; [|exact Fr|].
    + rewrite find_action_set_dep_other by exact N. reflexivity.
    + intros cc Ncc. split.
      * intro M. apply (Mentions_add_inv s k Fr); [|exact Ncc].
        revert M. apply Mentions_find_mono. intros i cp Fi. exact Fi.
      * intro M. apply (Mentions_find_mono (add_checkpoint s k)); [intros i cp Fi; exact Fi|].
        apply Mentions_add_mono. exact M.
  - apply (Dep_other_gen s _ (base + STITCH + n)); try reflexivity; [|exact Fr|].
    + rewrite find_action_set_dep_other by exact N. reflexivity.
    + intros cc _. split; apply Mentions_find_mono; intros i cp Fi; exact Fi.
Qed.

(* ------------------------------------------------------------------ (b) the target is a checkpoint *)
Definition NestsR (s : schema) (c t : nat) : Prop := c = t \/ Nests s c t.

Lemma Nests_step_R s x cp r t : find_checkpoint s x = Some cp -> In (DRef r) (cp_deps cp) -> r_kind r = RCheckpoint ->
  NestsR s (r_id r) t -> Nests s x t.
Proof.
  intros F I K [E|N].
  - rewrite <- E. eapply N_step; eassumption.
  - eapply N_trans; [eapply N_step; eassumption|exact N].
Qed.

Section CheckpointTarget.
Variables (s : schema) (t f : nat) (tc : checkpoint) (add : ref).
Hypothesis Ftc : find_checkpoint s t = Some tc.
Hypothesis Fn : find_checkpoint s f = None.

Let nd : list dep := [DRef (Ref RCheckpoint f); DRef add].
Let s' : schema := set_checkpoint (add_checkpoint s (stitched_copy f tc)) t (Some G_AND) nd.

Lemma ct_t_ne_f : t <> f.
Proof. intro E. pose proof Fn as N. rewrite <- E, Ftc in N. discriminate. Qed.

Lemma ct_tc : In tc (checkpoints s) /\ cp_id tc = t.
Proof. apply find_checkpoint_some. exact Ftc. Qed.

Lemma ct_find_f : find_checkpoint s' f = Some (stitched_copy f tc).
Proof.
  unfold s'. rewrite find_checkpoint_set_cp, find_checkpoint_add, Fn.
  cbn [stitched_copy cp_id]. rewrite Nat.eqb_refl. cbn [option_map]. rewrite upd_cp_other; [reflexivity|].
  cbn. intro E. apply ct_t_ne_f. symmetry. exact E.
Qed.

Lemma ct_find_t : exists tc', find_checkpoint s' t = Some tc' /\ cp_deps tc' = nd.
Proof.
  exists (upd_cp t (Some G_AND) nd tc). split.
  - unfold s'. rewrite find_checkpoint_set_cp, find_checkpoint_add, Ftc. reflexivity.
  - apply upd_cp_hit_deps. apply ct_tc.
Qed.

Lemma ct_find_other i : i <> f -> i <> t -> find_checkpoint s' i = find_checkpoint s i.
Proof.
  intros N1 N2. unfold s'. rewrite find_checkpoint_set_cp, find_checkpoint_add_other by exact N1.
  destruct (find_checkpoint s i) as [cp|] eqn:F; [|reflexivity].
  destruct (find_checkpoint_some _ _ _ F) as [_ I]. cbn. rewrite upd_cp_other by congruence. reflexivity.
Qed.

Lemma ct_find_cases x cp : find_checkpoint s' x = Some cp ->
  (x = f /\ cp = stitched_copy f tc) \/ (x = t /\ cp_deps cp = nd) \/ (x <> f /\ x <> t /\ find_checkpoint s x = Some cp).
Proof.
  intro F. destruct (Nat.eq_dec x f) as [->|N1].
  - left. rewrite ct_find_f in F. injection F as <-. auto.
  - destruct (Nat.eq_dec x t) as [->|N2].
    + right. left. destruct ct_find_t as (tc' & F' & D). rewrite F' in F. injection F as <-. auto.
    + right. right. rewrite ct_find_other in F by assumption. auto.
Qed.

Lemma ct_f_to_t b : Mentions s' f b -> Mentions s' t b.
Proof.
  intro M. destruct ct_find_t as (tc' & F' & D).
  eapply (M_ref s' t tc' (Ref RCheckpoint f)); [exact F'|rewrite D; left; reflexivity|reflexivity|exact M].
Qed.

Lemma ct_ne_f x cp : find_checkpoint s x = Some cp -> x <> f.
Proof. intros F E. pose proof Fn as N. rewrite <- E, F in N. discriminate. Qed.

Lemma ct_mono x b : Mentions s x b -> Mentions s' x b.
Proof.
  intro H. induction H as [x cp l o r b F I B | x cp r b F I K _ IH].
  - destruct (Nat.eq_dec x t) as [->|N2].
    + rewrite Ftc in F. injection F as <-. apply ct_f_to_t.
      eapply M_cmp; [exact ct_find_f|exact I|exact B].
    + pose proof (ct_ne_f _ _ F) as N1.
      eapply M_cmp; [rewrite ct_find_other by assumption; exact F|exact I|exact B].
  - destruct (Nat.eq_dec x t) as [->|N2].
    + rewrite Ftc in F. injection F as <-. apply ct_f_to_t.
      eapply M_ref; [exact ct_find_f|exact I|exact K|exact IH].
    + pose proof (ct_ne_f _ _ F) as N1.
      eapply M_ref; [rewrite ct_find_other by assumption; exact F|exact I|exact K|exact IH].
Qed.

Lemma ct_add_to_t b : r_kind add = RCheckpoint -> Mentions s (r_id add) b -> Mentions s' t b.
Proof.
  intros Kadd M. destruct ct_find_t as (tc' & F' & D).
  eapply (M_ref s' t tc' add); [exact F'|rewrite D; right; left; reflexivity|exact Kadd|apply ct_mono; exact M].
Qed.

Lemma ct_nests_up b : forall x y, Nests s x y -> Mentions s' y b -> Mentions s' x b.
Proof.
  intros x y H. induction H as [x cp r F I K | x y z _ IH1 _ IH2]; intro M.
  - destruct (Nat.eq_dec x t) as [->|N2].
    + rewrite Ftc in F. injection F as <-. apply ct_f_to_t.
      eapply M_ref; [exact ct_find_f|exact I|exact K|exact M].
    + pose proof (ct_ne_f _ _ F) as N1.
      eapply M_ref; [rewrite ct_find_other by assumption; exact F|exact I|exact K|exact M].
  - apply IH1. apply IH2. exact M.
Qed.

(* upper bound: needs that nothing refers to the stitched id yet *)
Hypothesis Fr : FreshCp s f.
Hypothesis Kadd : r_kind add = RCheckpoint.
Hypothesis Nadd : r_id add <> f.

Lemma ct_upper x b : Mentions s' x b ->
  (x = f -> Mentions s t b \/ (Nests s t t /\ Mentions s (r_id add) b)) /\
  (x <> f -> Mentions s x b \/ (NestsR s x t /\ Mentions s (r_id add) b)).
Proof.
  intro H. induction H as [x cp l o r b F I B | x cp r b F I K _ IH].
  - destruct (ct_find_cases _ _ F) as [(-> & ->)|[(-> & D)|(N1 & N2 & F0)]].
    + split; [intros _|congruence]. left. eapply M_cmp; [exact Ftc|exact I|exact B].
    + rewrite D in I. destruct I as [I|[I|[]]]; discriminate.
    + split; [congruence|intros _]. left. eapply M_cmp; eassumption.
  - destruct IH as [IH1 IH2].
    destruct (ct_find_cases _ _ F) as [(-> & ->)|[(-> & D)|(N1 & N2 & F0)]].
    + split; [intros _|congruence]. cbn [stitched_copy cp_deps] in I.
      assert (Nr : r_id r <> f).
      { destruct Fr as (_ & _ & _ & FC). exact (FC tc r (proj1 ct_tc) I K). }
      destruct (IH2 Nr) as [M|[N M]].
      * left. eapply M_ref; [exact Ftc|exact I|exact K|exact M].
      * right. split; [|exact M]. eapply Nests_step_R; [exact Ftc|exact I|exact K|exact N].
    + split; [intro E; exfalso; exact (ct_t_ne_f E)|intros _].
      rewrite D in I. destruct I as [I|[I|[]]]; injection I as <-.
      * destruct (IH1 eq_refl) as [M|[N M]]; [left; exact M|right; split; [left; reflexivity|exact M]].
      * destruct (IH2 Nadd) as [M|[_ M]]; right; (split; [left; reflexivity|exact M]).
    + split; [congruence|intros _].
      assert (Nr : r_id r <> f).
      { destruct Fr as (_ & _ & _ & FC). destruct (find_checkpoint_some _ _ _ F0) as [Icp _]. exact (FC cp r Icp I K). }
      destruct (IH2 Nr) as [M|[N M]].
      * left. eapply M_ref; eassumption.
      * right. split; [|exact M]. right. eapply Nests_step_R; eassumption.
Qed.

Lemma ct_mentions x b : x <> f ->
  (Mentions s' x b <-> Mentions s x b \/ (NestsR s x t /\ Mentions s (r_id add) b)).
Proof.
  intro N. split.
  - intro M. exact (proj2 (ct_upper x b M) N).
  - intros [M|[[->|Nx] M]].
    + apply ct_mono. exact M.
    + apply ct_add_to_t; assumption.
    + eapply ct_nests_up; [exact Nx|]. apply ct_add_to_t; assumption.
Qed.

Lemma ct_dep x b :
  Dep s' x b <-> exists act cc, find_action s x = Some act /\ HoldsAction s act cc /\
                                (Mentions s cc b \/ (NestsR s cc t /\ Mentions s (r_id add) b)).
Proof.
  split.
  - intros (act & cc & F & H & M). change (find_action s' x) with (find_action s x) in F.
    destruct (find_action_some _ _ _ F) as [Ia _].
    assert (H' : HoldsAction s act cc) by (eapply HoldsAction_groups; [|exact H]; reflexivity).
    exists act, cc. split; [exact F|]. split; [exact H'|]. apply ct_mentions; [|exact M].
    eapply HoldsAction_fresh; eassumption.
  - intros (act & cc & F & H & M). destruct (find_action_some _ _ _ F) as [Ia _].
    exists act, cc. split; [exact F|]. split; [eapply HoldsAction_groups; [|exact H]; reflexivity|].
    apply ct_mentions; [|exact M]. eapply HoldsAction_fresh; eassumption.
Qed.
End CheckpointTarget.

Lemma C16_connection_checkpoints_lemma : forall base s n c tc,
  r_kind (cn_to c) = RCheckpoint -> r_kind (cn_add c) = RCheckpoint ->
  find_checkpoint s (base + r_id (cn_to c)) = Some tc ->
  FreshCp s (base + STITCH + n) -> r_id (cn_add c) <> base + STITCH + n ->
  forall x b, x <> base + STITCH + n ->
    (Mentions (stitch_one base s n c) x b <->
     Mentions s x b \/ (NestsR s x (base + r_id (cn_to c)) /\ Mentions s (r_id (cn_add c)) b)).
Proof.
  intros base s n c tc K KA F Fr NA x b N. rewrite (stitch_one_checkpoint base s n c tc K F).
  exact (ct_mentions s _ _ tc (cn_add c) F (proj1 Fr) Fr KA NA x b N).
Qed.

Lemma C16_connection_adds_checkpoint_lemma : forall base s n c tc,
  r_kind (cn_to c) = RCheckpoint -> r_kind (cn_add c) = RCheckpoint ->
  find_checkpoint s (base + r_id (cn_to c)) = Some tc ->
  FreshCp s (base + STITCH + n) -> r_id (cn_add c) <> base + STITCH + n ->
  forall b, Mentions (stitch_one base s n c) (base + r_id (cn_to c)) b <->
            Mentions s (base + r_id (cn_to c)) b \/ Mentions s (r_id (cn_add c)) b.
Proof.
  intros base s n c tc K KA F Fr NA b.
  rewrite (C16_connection_checkpoints_lemma base s n c tc K KA F Fr NA).
  - unfold NestsR. tauto.
  - intro E. destruct Fr as (Fn & _). rewrite <- E, F in Fn. discriminate.
Qed.

Lemma C16_connection_other_checkpoints_lemma : forall base s n c tc,
  r_kind (cn_to c) = RCheckpoint -> r_kind (cn_add c) = RCheckpoint ->
  find_checkpoint s (base + r_id (cn_to c)) = Some tc ->
  FreshCp s (base + STITCH + n) -> r_id (cn_add c) <> base + STITCH + n ->
  forall x b, x <> base + STITCH + n -> x <> base + r_id (cn_to c) -> ~ Nests s x (base + r_id (cn_to c)) ->
    (Mentions (stitch_one base s n c) x b <-> Mentions s x b).
Proof.
  intros base s n c tc K KA F Fr NA x b N1 N2 N3.
  rewrite (C16_connection_checkpoints_lemma base s n c tc K KA F Fr NA x b N1). unfold NestsR. tauto.
Qed.

Lemma C16_connection_checkpoint_deps_lemma : forall base s n c tc,
  r_kind (cn_to c) = RCheckpoint -> r_kind (cn_add c) = RCheckpoint ->
  find_checkpoint s (base + r_id (cn_to c)) = Some tc ->
  FreshCp s (base + STITCH + n) -> r_id (cn_add c) <> base + STITCH + n ->
  forall x b, Dep (stitch_one base s n c) x b <->
    exists act cc, find_action s x = Some act /\ HoldsAction s act cc /\
      (Mentions s cc b \/ (NestsR s cc (base + r_id (cn_to c)) /\ Mentions s (r_id (cn_add c)) b)).
Proof.
  intros base s n c tc K KA F Fr NA x b. rewrite (stitch_one_checkpoint base s n c tc K F).
  exact (ct_dep s _ _ tc (cn_add c) F (proj1 Fr) Fr KA NA x b).
Qed.

(* an action held (directly, through nesting, or through its thread groups) by the target gains the added dependencies *)
Lemma C16_connection_checkpoint_holders_lemma : forall base s n c tc,
  r_kind (cn_to c) = RCheckpoint -> r_kind (cn_add c) = RCheckpoint ->
  find_checkpoint s (base + r_id (cn_to c)) = Some tc ->
  FreshCp s (base + STITCH + n) -> r_id (cn_add c) <> base + STITCH + n ->
  forall x act cc, find_action s x = Some act -> HoldsAction s act cc -> NestsR s cc (base + r_id (cn_to c)) ->
  forall b, Dep (stitch_one base s n c) x b <-> Dep s x b \/ Mentions s (r_id (cn_add c)) b.
Proof.
  intros base s n c tc K KA F Fr NA x act cc FA H N b.
  rewrite (C16_connection_checkpoint_deps_lemma base s n c tc K KA F Fr NA). split.
  - intros (act' & cc' & FA' & H' & [M|[_ M]]); [left; exists act', cc'; auto|right; exact M].
  - intros [(act' & cc' & FA' & H' & M)|M]; [exists act', cc'; auto|exists act, cc; auto].
Qed.

(* an action none of whose checkpoints is or nests the target keeps exactly its dependencies *)
Lemma C16_connection_checkpoint_nonholders_lemma : forall base s n c tc,
  r_kind (cn_to c) = RCheckpoint -> r_kind (cn_add c) = RCheckpoint ->
  find_checkpoint s (base + r_id (cn_to c)) = Some tc ->
  FreshCp s (base + STITCH + n) -> r_id (cn_add c) <> base + STITCH + n ->
  forall x, (forall act cc, find_action s x = Some act -> HoldsAction s act cc -> ~ NestsR s cc (base + r_id (cn_to c))) ->
  forall b, Dep (stitch_one base s n c) x b <-> Dep s x b.
Proof.
  intros base s n c tc K KA F Fr NA x NH b.
  rewrite (C16_connection_checkpoint_deps_lemma base s n c tc K KA F Fr NA). split.
  - intros (act' & cc' & FA' & H' & [M|[N _]]); [exists act', cc'; auto|]. exfalso. exact (NH _ _ FA' H' N).
  - intros (act' & cc' & FA' & H' & M). exists act', cc'. auto.
Qed.

(* ================================================================== monotonicity: a connection never removes a dependency *)
Lemma stitch_one_groups base s n c : groups (stitch_one base s n c) = groups s.
Proof.
  destruct (stitch_one_cases base s n c) as [E|[(a & K & F & D)|[(a & old & K & F & D)|(t & K & F)]]].
  - rewrite E. reflexivity.
  - rewrite (stitch_one_action_none _ _ _ _ _ K F D). reflexivity.
  - rewrite (stitch_one_action_some _ _ _ _ _ _ K F D). reflexivity.
  - rewrite (stitch_one_checkpoint _ _ _ _ _ K F). reflexivity.
Qed.
Lemma stitch_one_parties base s n c : parties (stitch_one base s n c) = parties s.
Proof.
  destruct (stitch_one_cases base s n c) as [E|[(a & K & F & D)|[(a & old & K & F & D)|(t & K & F)]]].
  - rewrite E. reflexivity.
  - rewrite (stitch_one_action_none _ _ _ _ _ K F D). reflexivity.
  - rewrite (stitch_one_action_some _ _ _ _ _ _ K F D). reflexivity.
  - rewrite (stitch_one_checkpoint _ _ _ _ _ K F). reflexivity.
Qed.
Lemma stitch_one_otypes base s n c : otypes (stitch_one base s n c) = otypes s.
Proof.
  destruct (stitch_one_cases base s n c) as [E|[(a & K & F & D)|[(a & old & K & F & D)|(t & K & F)]]].
  - rewrite E. reflexivity.
  - rewrite (stitch_one_action_none _ _ _ _ _ K F D). reflexivity.
  - rewrite (stitch_one_action_some _ _ _ _ _ _ K F D). reflexivity.
  - rewrite (stitch_one_checkpoint _ _ _ _ _ K F). reflexivity.
Qed.
Lemma stitch_one_promises base s n c : promises (stitch_one base s n c) = promises s.
Proof.
  destruct (stitch_one_cases base s n c) as [E|[(a & K & F & D)|[(a & old & K & F & D)|(t & K & F)]]].
  - rewrite E. reflexivity.
  - rewrite (stitch_one_action_none _ _ _ _ _ K F D). reflexivity.
  - rewrite (stitch_one_action_some _ _ _ _ _ _ K F D). reflexivity.
  - rewrite (stitch_one_checkpoint _ _ _ _ _ K F). reflexivity.
Qed.

Lemma stitch_one_Mentions_mono base s n c : find_checkpoint s (base + STITCH + n) = None ->
  forall x b, Mentions s x b -> Mentions (stitch_one base s n c) x b.
Proof.
  intros Fn x b M.
  destruct (stitch_one_cases base s n c) as [E|[(a & K & F & D)|[(a & old & K & F & D)|(t & K & F)]]].
  - rewrite E. exact M.
  - rewrite (stitch_one_action_none _ _ _ _ _ K F D). revert M. apply Mentions_find_mono. intros i cp Fi. exact Fi.
  - rewrite (stitch_one_action_some _ _ _ _ _ _ K F D).
    apply (Mentions_find_mono (add_checkpoint s (stitched_and (base + STITCH + n) (cn_add c) old))); [intros i cp Fi; exact Fi|].
    apply Mentions_add_mono. exact M.
  - rewrite (stitch_one_checkpoint _ _ _ _ _ K F). apply ct_mono; assumption.
Qed.

Lemma stitch_one_find_action_other base s n c x :
  (r_kind (cn_to c) = RAction -> x <> base + r_id (cn_to c)) ->
  find_action (stitch_one base s n c) x = find_action s x.
Proof.
  intro N.
  destruct (stitch_one_cases base s n c) as [E|[(a & K & F & D)|[(a & old & K & F & D)|(t & K & F)]]].
  - rewrite E. reflexivity.
  - rewrite (stitch_one_action_none _ _ _ _ _ K F D). apply find_action_set_dep_other. auto.
  - rewrite (stitch_one_action_some _ _ _ _ _ _ K F D). rewrite find_action_set_dep_other by auto. reflexivity.
  - rewrite (stitch_one_checkpoint _ _ _ _ _ K F). reflexivity.
Qed.

Lemma stitch_one_Dep_mono base s n c : find_checkpoint s (base + STITCH + n) = None ->
  forall x b, Dep s x b -> Dep (stitch_one base s n c) x b.
Proof.
  intros Fn x b H.
  assert (G : forall act cc, find_action (stitch_one base s n c) x = find_action s x ->
                             find_action s x = Some act -> HoldsAction s act cc -> Mentions s cc b ->
                             Dep (stitch_one base s n c) x b).
  { intros act cc E F HA M. exists act, cc. split; [rewrite E; exact F|]. split.
    - eapply HoldsAction_groups; [|exact HA]. apply stitch_one_groups.
    - apply stitch_one_Mentions_mono; assumption. }
  destruct (rkind_eqb (r_kind (cn_to c)) RAction) eqn:K.
  - apply rkind_eqb_eq in K. destruct (Nat.eq_dec x (base + r_id (cn_to c))) as [->|N].
    + destruct H as (act & cc & F & HA & M).
      apply (stitch_action_lower base s n c act K F Fn). left. exists act, cc. auto.
    + destruct H as (act & cc & F & HA & M). apply (G act cc); try assumption.
      apply stitch_one_find_action_other. auto.
  - destruct H as (act & cc & F & HA & M). apply (G act cc); try assumption.
    apply stitch_one_find_action_other. intro K'. rewrite K' in K. discriminate.
Qed.

(* ================================================================== what [stitch_one] / [stitch_all] leave alone *)
Definition a_skel (a : action) : action :=
  {| a_id := a_id a; a_name := a_name a; a_party := a_party a; a_promise := a_promise a; a_ctx := a_ctx a;
     a_dep := None; a_op := a_op a; a_milestones := a_milestones a |}.
Definition cp_skel (c : checkpoint) : nat * nat * option ref := (cp_id c, cp_alias c, cp_ctx c).

Lemma a_skel_upd t d x : a_skel (upd_dep t d x) = a_skel x.
Proof. unfold upd_dep. destruct (Nat.eqb (a_id x) t); reflexivity. Qed.
Lemma cp_skel_upd t g ds x : cp_skel (upd_cp t g ds x) = cp_skel x.
Proof. unfold upd_cp. destruct (Nat.eqb (cp_id x) t); reflexivity. Qed.

Lemma stitch_one_find_action_skel base s n c i :
  option_map a_skel (find_action (stitch_one base s n c) i) = option_map a_skel (find_action s i).
Proof.
  destruct (stitch_one_cases base s n c) as [E|[(a & K & F & D)|[(a & old & K & F & D)|(t & K & F)]]].
  - rewrite E. reflexivity.
  - rewrite (stitch_one_action_none _ _ _ _ _ K F D), find_action_set_dep.
    destruct (find_action s i); cbn [option_map]; [rewrite a_skel_upd|]; reflexivity.
  - rewrite (stitch_one_action_some _ _ _ _ _ _ K F D), find_action_set_dep.
    change (find_action (add_checkpoint s _) i) with (find_action s i).
    destruct (find_action s i); cbn [option_map]; [rewrite a_skel_upd|]; reflexivity.
  - rewrite (stitch_one_checkpoint _ _ _ _ _ K F). reflexivity.
Qed.

Lemma stitch_one_find_checkpoint_skel base s n c i : i <> base + STITCH + n ->
  option_map cp_skel (find_checkpoint (stitch_one base s n c) i) = option_map cp_skel (find_checkpoint s i).
Proof.
  intro N.
  destruct (stitch_one_cases base s n c) as [E|[(a & K & F & D)|[(a & old & K & F & D)|(t & K & F)]]].
  - rewrite E. reflexivity.
  - rewrite (stitch_one_action_none _ _ _ _ _ K F D). reflexivity.
  - rewrite (stitch_one_action_some _ _ _ _ _ _ K F D), find_checkpoint_set_dep, find_checkpoint_add_other by exact N.
    reflexivity.
  - rewrite (stitch_one_checkpoint _ _ _ _ _ K F), find_checkpoint_set_cp, find_checkpoint_add_other by exact N.
    destruct (find_checkpoint s i); cbn [option_map]; [rewrite cp_skel_upd|]; reflexivity.
Qed.

Lemma stitch_one_find_checkpoint_other base s n c i : i <> base + STITCH + n ->
  (r_kind (cn_to c) = RCheckpoint -> i <> base + r_id (cn_to c)) ->
  find_checkpoint (stitch_one base s n c) i = find_checkpoint s i.
Proof.
  intros N N'.
  destruct (stitch_one_cases base s n c) as [E|[(a & K & F & D)|[(a & old & K & F & D)|(t & K & F)]]].
  - rewrite E. reflexivity.
  - rewrite (stitch_one_action_none _ _ _ _ _ K F D). reflexivity.
  - rewrite (stitch_one_action_some _ _ _ _ _ _ K F D), find_checkpoint_set_dep, find_checkpoint_add_other by exact N.
    reflexivity.
  - rewrite (stitch_one_checkpoint _ _ _ _ _ K F), find_checkpoint_set_cp, find_checkpoint_add_other by exact N.
    destruct (find_checkpoint s i) as [cp|] eqn:Fi; [|reflexivity].
    destruct (find_checkpoint_some _ _ _ Fi) as [_ I]. cbn [option_map]. rewrite upd_cp_other; [reflexivity|].
    rewrite I. auto.
Qed.

Lemma stitch_one_find_checkpoint_none base s n c i : i <> base + STITCH + n ->
  find_checkpoint s i = None -> find_checkpoint (stitch_one base s n c) i = None.
Proof.
  intros N F. pose proof (stitch_one_find_checkpoint_skel base s n c i N) as E. rewrite F in E.
  destruct (find_checkpoint (stitch_one base s n c) i); [discriminate|reflexivity].
Qed.

Lemma stitch_all_parties base cs : forall s n, parties (stitch_all base s n cs) = parties s.
Proof. induction cs as [|c r IH]; intros s n; cbn [stitch_all]; [reflexivity|]. rewrite IH. apply stitch_one_parties. Qed.
Lemma stitch_all_otypes base cs : forall s n, otypes (stitch_all base s n cs) = otypes s.
Proof. induction cs as [|c r IH]; intros s n; cbn [stitch_all]; [reflexivity|]. rewrite IH. apply stitch_one_otypes. Qed.
Lemma stitch_all_promises base cs : forall s n, promises (stitch_all base s n cs) = promises s.
Proof. induction cs as [|c r IH]; intros s n; cbn [stitch_all]; [reflexivity|]. rewrite IH. apply stitch_one_promises. Qed.
Lemma stitch_all_groups base cs : forall s n, groups (stitch_all base s n cs) = groups s.
Proof. induction cs as [|c r IH]; intros s n; cbn [stitch_all]; [reflexivity|]. rewrite IH. apply stitch_one_groups. Qed.

Lemma stitch_all_find_action_skel base cs : forall s n i,
  option_map a_skel (find_action (stitch_all base s n cs) i) = option_map a_skel (find_action s i).
Proof.
  induction cs as [|c r IH]; intros s n i; cbn [stitch_all]; [reflexivity|].
  rewrite IH. apply stitch_one_find_action_skel.
Qed.

Lemma stitch_all_find_checkpoint_skel base cs : forall s n i,
  (forall m, n <= m -> m < n + length cs -> i <> base + STITCH + m) ->
  option_map cp_skel (find_checkpoint (stitch_all base s n cs) i) = option_map cp_skel (find_checkpoint s i).
Proof.
  induction cs as [|c r IH]; intros s n i N; cbn [stitch_all]; [reflexivity|]. cbn [length] in N.
  rewrite IH by (intros m A B; apply N; lia). apply stitch_one_find_checkpoint_skel. apply N; lia.
Qed.

Lemma stitch_all_find_action_low base cs : forall s n i, i < base ->
  find_action (stitch_all base s n cs) i = find_action s i.
Proof.
  induction cs as [|c r IH]; intros s n i L; cbn [stitch_all]; [reflexivity|].
  rewrite IH by exact L. apply stitch_one_find_action_other. intros _. lia.
Qed.

Lemma stitch_all_find_checkpoint_low base cs : forall s n i, i < base ->
  find_checkpoint (stitch_all base s n cs) i = find_checkpoint s i.
Proof.
  induction cs as [|c r IH]; intros s n i L; cbn [stitch_all]; [reflexivity|].
  rewrite IH by exact L. apply stitch_one_find_checkpoint_other; [|intros _]; lia.
Qed.

Lemma stitch_all_Mentions_mono base cs : forall s n,
  (forall m, n <= m -> m < n + length cs -> find_checkpoint s (base + STITCH + m) = None) ->
  forall x b, Mentions s x b -> Mentions (stitch_all base s n cs) x b.
Proof.
  induction cs as [|c r IH]; intros s n Fn x b M; cbn [stitch_all]; [exact M|]. cbn [length] in Fn.
  apply IH.
  - intros m A B. apply stitch_one_find_checkpoint_none; [lia|]. apply Fn; lia.
  - apply stitch_one_Mentions_mono; [apply Fn; lia|exact M].
Qed.

Lemma stitch_all_Dep_mono base cs : forall s n,
  (forall m, n <= m -> m < n + length cs -> find_checkpoint s (base + STITCH + m) = None) ->
  forall x b, Dep s x b -> Dep (stitch_all base s n cs) x b.
Proof.
  induction cs as [|c r IH]; intros s n Fn x b M; cbn [stitch_all]; [exact M|]. cbn [length] in Fn.
  apply IH.
  - intros m A B. apply stitch_one_find_checkpoint_none; [lia|]. apply Fn; lia.
  - apply stitch_one_Dep_mono; [apply Fn; lia|exact M].
Qed.

(* the target of every connection of the list ends up depending on what the added checkpoint mentions *)
Lemma stitch_all_adds_action base cs : forall s n c,
  (forall m, n <= m -> m < n + length cs -> find_checkpoint s (base + STITCH + m) = None) ->
  In c cs -> r_kind (cn_to c) = RAction -> r_kind (cn_add c) = RCheckpoint ->
  (exists a, find_action s (base + r_id (cn_to c)) = Some a) ->
  forall b, Mentions s (r_id (cn_add c)) b -> Dep (stitch_all base s n cs) (base + r_id (cn_to c)) b.
Proof.
  induction cs as [|c0 r IH]; intros s n c Fn I K KA [a F] b M; [contradiction|]. cbn [stitch_all]. cbn [length] in Fn.
  assert (Fn' : forall m, S n <= m -> m < S n + length r ->
                          find_checkpoint (stitch_one base s n c0) (base + STITCH + m) = None).
  { intros m A B. apply stitch_one_find_checkpoint_none; [lia|]. apply Fn; lia. }
  destruct I as [->|I].
  - apply stitch_all_Dep_mono; [exact Fn'|].
    apply (stitch_action_lower base s n c a K F); [apply Fn; lia|]. right. auto.
  - apply IH; try assumption.
    + pose proof (stitch_one_find_action_skel base s n c0 (base + r_id (cn_to c))) as E. rewrite F in E.
      destruct (find_action (stitch_one base s n c0) (base + r_id (cn_to c))) as [a'|]; [eauto|discriminate].
    + apply stitch_one_Mentions_mono; [apply Fn; lia|exact M].
Qed.

Lemma stitch_all_adds_checkpoint base cs : forall s n c,
  (forall m, n <= m -> m < n + length cs -> find_checkpoint s (base + STITCH + m) = None) ->
  In c cs -> r_kind (cn_to c) = RCheckpoint -> r_kind (cn_add c) = RCheckpoint ->
  (exists t, find_checkpoint s (base + r_id (cn_to c)) = Some t) ->
  forall b, Mentions s (r_id (cn_add c)) b -> Mentions (stitch_all base s n cs) (base + r_id (cn_to c)) b.
Proof.
  induction cs as [|c0 r IH]; intros s n c Fn I K KA [t F] b M; [contradiction|]. cbn [stitch_all]. cbn [length] in Fn.
  assert (Fn' : forall m, S n <= m -> m < S n + length r ->
                          find_checkpoint (stitch_one base s n c0) (base + STITCH + m) = None).
  { intros m A B. apply stitch_one_find_checkpoint_none; [lia|]. apply Fn; lia. }
  assert (Fn0 : find_checkpoint s (base + STITCH + n) = None) by (apply Fn; lia).
  destruct I as [->|I].
  - apply stitch_all_Mentions_mono; [exact Fn'|].
    rewrite (stitch_one_checkpoint base s n c t K F). apply ct_add_to_t; assumption.
  - apply IH; try assumption.
    + assert (N : base + r_id (cn_to c) <> base + STITCH + n) by (intro E; rewrite E, Fn0 in F; discriminate).
      pose proof (stitch_one_find_checkpoint_skel base s n c0 _ N) as E. rewrite F in E.
      destruct (find_checkpoint (stitch_one base s n c0) (base + r_id (cn_to c))) as [t'|]; [eauto|discriminate].
    + apply stitch_one_Mentions_mono; [exact Fn0|exact M].
Qed.

(* ================================================================== 2a. where the entities are in the combined schema *)
Definition step (s : schema) (im : import) : schema :=
  stitch_all (im_base im) (union s (shift (im_base im) (im_schema im))) 0 (im_conns im).

Lemma combine_fold native ims : combine native ims = fold_left step ims native.
Proof. reflexivity. Qed.

(* id ranges: the block of base B is [B, B + OFF) *)
Definition GoodBase (b : nat) : Prop := exists k, b = OFF * k /\ 1 <= k.

Lemma block_ne B B' j j' : GoodBase B -> GoodBase B' -> B <> B' ->
  B <= j -> j < B + OFF -> B' <= j' -> j' < B' + OFF -> j <> j'.
Proof. intros (k & -> & Hk) (k' & -> & Hk') N. unfold OFF in *. lia. Qed.

Lemma GoodBase_ge b : GoodBase b -> OFF <= b.
Proof. intros (k & -> & Hk). unfold OFF. lia. Qed.

Lemma bases_ok_inv ims : bases_ok ims = true ->
  NoDup (map im_base ims) /\ forall im, In im ims -> GoodBase (im_base im).
Proof.
  unfold bases_ok. rewrite andb_true_iff, nodup_nat_NoDup, forallb_forall. intros [ND G]. split; [exact ND|].
  intros im I. specialize (G im I). apply andb_true_iff in G. destruct G as [G1 G2].
  apply negb_true_iff, Nat.eqb_neq in G1. apply Nat.eqb_eq in G2.
  apply Nat.mod_divides in G2; [|unfold OFF; discriminate]. destruct G2 as [k E]. exists k. split; [exact E|].
  destruct k; [rewrite Nat.mul_0_r in E; contradiction|lia].
Qed.

Definition fnd {A} (key : A -> nat) (i : nat) (l : list A) : option A := find (fun x => Nat.eqb (key x) i) l.

Section Kind.
Context {A A' : Type} (key : A -> nat) (proj : schema -> list A) (sh : nat -> A -> A) (skel : A -> A').
Hypothesis H_union : forall a b, proj (union a b) = proj a ++ proj b.
Hypothesis H_shift : forall d s, proj (shift d s) = map (sh d) (proj s).
Hypothesis H_key : forall d x, key (sh d x) = d + key x.
Hypothesis H_stitch : forall base s cs i, (forall m, m < length cs -> i <> base + STITCH + m) ->
  option_map skel (fnd key i (proj (stitch_all base s 0 cs))) = option_map skel (fnd key i (proj s)).
Hypothesis H_low : forall base s cs i, i < base ->
  fnd key i (proj (stitch_all base s 0 cs)) = fnd key i (proj s).

Lemma fnd_sh d i l : fnd key (d + i) (map (sh d) l) = option_map (sh d) (fnd key i l).
Proof.
  unfold fnd. induction l as [|x r IH]; cbn [map find]; [reflexivity|]. rewrite H_key.
  replace (Nat.eqb (d + key x) (d + i)) with (Nat.eqb (key x) i).
  - destruct (Nat.eqb (key x) i); [reflexivity|exact IH].
  - destruct (Nat.eqb_spec (key x) i), (Nat.eqb_spec (d + key x) (d + i)); try reflexivity; lia.
Qed.

Lemma fnd_sh_some d j l y : fnd key j (map (sh d) l) = Some y -> exists x, In x l /\ j = d + key x.
Proof.
  unfold fnd. intro F. apply find_some in F. destruct F as [I E]. apply Nat.eqb_eq in E.
  apply in_map_iff in I. destruct I as (x & <- & I). exists x. split; [exact I|]. rewrite <- E. apply H_key.
Qed.

Lemma fnd_union s b sch j :
  fnd key j (proj (union s (shift b sch))) =
  match fnd key j (proj s) with Some x => Some x | None => fnd key j (map (sh b) (proj sch)) end.
Proof. rewrite H_union, H_shift. unfold fnd. apply find_app. Qed.

Lemma skel_none (o : option A) : option_map skel o = None -> o = None.
Proof. destruct o; [discriminate|reflexivity]. Qed.

Lemma step_low s im i : OFF <= im_base im -> i < OFF -> fnd key i (proj (step s im)) = fnd key i (proj s).
Proof.
  intros G L. unfold step. rewrite H_low by lia. rewrite fnd_union.
  destruct (fnd key i (proj s)); [reflexivity|].
  destruct (fnd key i (map (sh (im_base im)) (proj (im_schema im)))) eqn:F; [|reflexivity].
  apply fnd_sh_some in F. destruct F as (x & _ & E). lia.
Qed.

Lemma fold_low ims : (forall im, In im ims -> OFF <= im_base im) ->
  forall s i, i < OFF -> fnd key i (proj (fold_left step ims s)) = fnd key i (proj s).
Proof.
  induction ims as [|im r IH]; intros G s i L; cbn [fold_left]; [reflexivity|].
  rewrite IH by (auto using in_cons). apply step_low; [apply G; left; reflexivity|exact L].
Qed.

Lemma step_keep s im j x : (forall m, m < length (im_conns im) -> j <> im_base im + STITCH + m) ->
  fnd key j (proj s) = Some x -> option_map skel (fnd key j (proj (step s im))) = Some (skel x).
Proof. intros N F. unfold step. rewrite H_stitch by exact N. rewrite fnd_union, F. reflexivity. Qed.

Lemma fold_keep rest : forall s j y,
  (forall im, In im rest -> forall m, m < length (im_conns im) -> j <> im_base im + STITCH + m) ->
  option_map skel (fnd key j (proj s)) = Some y ->
  option_map skel (fnd key j (proj (fold_left step rest s))) = Some y.
Proof.
  induction rest as [|im r IH]; intros s j y N F; cbn [fold_left]; [exact F|].
  apply IH; [intros im' I; apply N; right; exact I|].
  destruct (fnd key j (proj s)) as [x|] eqn:Fx; [|discriminate]. cbn in F. injection F as <-.
  apply step_keep; [apply N; left; reflexivity|exact Fx].
Qed.

Definition NoKey (s : schema) (B : nat) : Prop := forall j, B <= j -> j < B + OFF -> fnd key j (proj s) = None.
Definition GoodIm (im : import) : Prop :=
  GoodBase (im_base im) /\ (forall x, In x (proj (im_schema im)) -> key x < STITCH) /\
  length (im_conns im) <= OFF - STITCH.

Lemma step_NoKey s im B : NoKey s B -> GoodBase B -> GoodIm im -> im_base im <> B -> NoKey (step s im) B.
Proof.
  intros NK GB (Gb & Gk & Gl) NB j L1 L2. apply skel_none. unfold step. rewrite H_stitch.
  - rewrite fnd_union, (NK j L1 L2).
    destruct (fnd key j (map (sh (im_base im)) (proj (im_schema im)))) eqn:F; [|reflexivity].
    apply fnd_sh_some in F. destruct F as (x & I & E). specialize (Gk x I). exfalso.
    refine (block_ne _ _ j j Gb GB NB _ _ L1 L2 eq_refl); unfold OFF, STITCH in *; lia.
  - intros m Lm E. refine (block_ne _ _ j j Gb GB NB _ _ L1 L2 eq_refl); unfold OFF, STITCH in *; lia.
Qed.

Lemma fold_NoKey pre : forall s B, NoKey s B -> GoodBase B ->
  (forall im, In im pre -> GoodIm im /\ im_base im <> B) -> NoKey (fold_left step pre s) B.
Proof.
  induction pre as [|im r IH]; intros s B NK GB G; cbn [fold_left]; [exact NK|].
  apply IH; [|exact GB|intros im' I; apply G; right; exact I].
  destruct (G im (or_introl eq_refl)) as [G1 G2]. apply step_NoKey; assumption.
Qed.

Lemma step_found s im i x : NoKey s (im_base im) -> GoodIm im -> fnd key i (proj (im_schema im)) = Some x ->
  option_map skel (fnd key (im_base im + i) (proj (step s im))) = Some (skel (sh (im_base im) x)).
Proof.
  intros NK (Gb & Gk & Gl) F.
  assert (Li : i < STITCH).
  { unfold fnd in F. apply find_some in F. destruct F as [I E]. apply Nat.eqb_eq in E. rewrite <- E. apply Gk. exact I. }
  unfold step. rewrite H_stitch by (intros m _; lia).
  rewrite fnd_union, NK, fnd_sh, F; [reflexivity|lia|unfold OFF, STITCH in *; lia].
Qed.

Lemma fold_found pre im post native i x :
  NoKey native (im_base im) ->
  (forall im', In im' pre -> GoodIm im' /\ im_base im' <> im_base im) -> GoodIm im ->
  (forall im', In im' post -> GoodIm im' /\ im_base im' <> im_base im) ->
  fnd key i (proj (im_schema im)) = Some x ->
  option_map skel (fnd key (im_base im + i) (proj (fold_left step (pre ++ im :: post) native))) =
  Some (skel (sh (im_base im) x)).
Proof.
  intros NK Gpre Gim Gpost F. rewrite fold_left_app. cbn [fold_left].
  assert (Li : i < STITCH).
  { destruct Gim as (_ & Gk & _). unfold fnd in F. apply find_some in F. destruct F as [I E].
    apply Nat.eqb_eq in E. rewrite <- E. apply Gk. exact I. }
  apply fold_keep.
  - intros im' I m Lm. destruct (Gpost im' I) as [(Gb' & _ & Gl') NB]. destruct Gim as (Gb & _).
    refine (block_ne _ _ _ _ Gb Gb' (fun E => NB (eq_sym E)) _ _ _ _); unfold OFF, STITCH in *; lia.
  - apply step_found; [|exact Gim|exact F]. apply fold_NoKey; [exact NK|apply Gim|exact Gpre].
Qed.
End Kind.

(* ------------------------------------------------------------------ the shifted copies, entity by entity *)
Definition sh_party (d : nat) (p : party) : party := {| pa_id := d + pa_id p; pa_name := d + pa_name p |}.
Definition sh_otype (d : nat) (t : otype) : otype :=
  {| ot_id := d + ot_id t; ot_name := d + ot_name t;
     ot_attrs := map (fun a => {| at_name := at_name a; at_kind := sh_akind d (at_kind a) |}) (ot_attrs t) |}.
Definition sh_promise (d : nat) (p : promise) : promise :=
  {| pr_id := d + pr_id p; pr_name := d + pr_name p; pr_type := sh_ref d (pr_type p); pr_ctx := sh_oref d (pr_ctx p) |}.
Definition sh_action (d : nat) (a : action) : action :=
  {| a_id := d + a_id a; a_name := d + a_name a; a_party := sh_ref d (a_party a); a_promise := sh_ref d (a_promise a);
     a_ctx := sh_oref d (a_ctx a); a_dep := sh_oref d (a_dep a); a_op := sh_op d (a_op a); a_milestones := [] |}.
Definition sh_checkpoint (d : nat) (c : checkpoint) : checkpoint :=
  {| cp_id := d + cp_id c; cp_alias := d + cp_alias c; cp_gate := cp_gate c;
     cp_deps := map (sh_dep d) (cp_deps c); cp_ctx := sh_oref d (cp_ctx c) |}.
Definition sh_group (d : nat) (g : tgroup) : tgroup :=
  {| g_id := d + g_id g; g_name := d + g_name g; g_ctx := sh_oref d (g_ctx g); g_dep := sh_oref d (g_dep g);
     g_src := sh_src d (g_src g); g_var := d + g_var g |}.

Lemma shift_eq d s : shift d s =
  {| parties := map (sh_party d) (parties s); otypes := map (sh_otype d) (otypes s);
     promises := map (sh_promise d) (promises s); actions := map (sh_action d) (actions s);
     checkpoints := map (sh_checkpoint d) (checkpoints s); groups := map (sh_group d) (groups s) |}.
Proof. reflexivity. Qed.

(* ------------------------------------------------------------------ well-formed id ranges *)
Definition all_ids (s : schema) : list nat :=
  map pa_id (parties s) ++ map ot_id (otypes s) ++ map pr_id (promises s) ++ map a_id (actions s) ++
  map cp_id (checkpoints s) ++ map g_id (groups s).
Definition ids_below (B : nat) (s : schema) : bool := forallb (fun j => Nat.ltb j B) (all_ids s).

(* native ids are below OFF; imported ids are below STITCH; an import has at most OFF - STITCH connections;
   import bases are distinct positive multiples of OFF *)
Definition wf_i (native : schema) (ims : list import) : bool :=
  bases_ok ims && ids_below OFF native &&
  forallb (fun im => ids_below STITCH (im_schema im) && Nat.leb (length (im_conns im)) (OFF - STITCH)) ims.

Lemma ids_below_inv B s : ids_below B s = true ->
  (forall x, In x (parties s) -> pa_id x < B) /\ (forall x, In x (otypes s) -> ot_id x < B) /\
  (forall x, In x (promises s) -> pr_id x < B) /\ (forall x, In x (actions s) -> a_id x < B) /\
  (forall x, In x (checkpoints s) -> cp_id x < B) /\ (forall x, In x (groups s) -> g_id x < B).
Proof.
  unfold ids_below, all_ids. rewrite forallb_forall. intro H.
  assert (H' : forall j, In j (map pa_id (parties s) ++ map ot_id (otypes s) ++ map pr_id (promises s) ++
                              map a_id (actions s) ++ map cp_id (checkpoints s) ++ map g_id (groups s)) -> j < B).
  { intros j I. apply Nat.ltb_lt. apply H. exact I. }
  repeat split; intros x I; apply H'; rewrite !in_app_iff.
  - left. apply in_map. exact I.
  - right. left. apply in_map. exact I.
  - right. right. left. apply in_map. exact I.
  - right. right. right. left. apply in_map. exact I.
  - right. right. right. right. left. apply in_map. exact I.
  - right. right. right. right. right. apply in_map. exact I.
Qed.

Lemma wf_i_inv native ims : wf_i native ims = true ->
  bases_ok ims = true /\ ids_below OFF native = true /\
  forall im, In im ims -> ids_below STITCH (im_schema im) = true /\ length (im_conns im) <= OFF - STITCH.
Proof.
  unfold wf_i. rewrite !andb_true_iff, forallb_forall. intros [[B N] I]. split; [exact B|]. split; [exact N|].
  intros im Him. specialize (I im Him). apply andb_true_iff in I. destruct I as [I1 I2].
  apply Nat.leb_le in I2. auto.
Qed.

Lemma in_split_bases ims im : NoDup (map im_base ims) -> In im ims ->
  exists pre post, ims = pre ++ im :: post /\
    (forall im', In im' pre -> im_base im' <> im_base im) /\ (forall im', In im' post -> im_base im' <> im_base im).
Proof.
  intros ND I. destruct (in_split _ _ I) as (pre & post & ->). exists pre, post. split; [reflexivity|].
  rewrite map_app in ND. cbn [map] in ND. apply NoDup_remove_2 in ND. rewrite in_app_iff in ND.
  split; intros im' I' E; apply ND; [left|right]; rewrite <- E; apply in_map; exact I'.
Qed.

Lemma NoKey_below {A} (key : A -> nat) (proj : schema -> list A) s B :
  (forall x, In x (proj s) -> key x < OFF) -> GoodBase B -> NoKey key proj s B.
Proof.
  intros L G j L1 _. destruct (fnd key j (proj s)) as [x|] eqn:F; [|reflexivity].
  unfold fnd in F. apply find_some in F. destruct F as [I E]. apply Nat.eqb_eq in E.
  specialize (L x I). apply GoodBase_ge in G. lia.
Qed.

(* ------------------------------------------------------------------ the six instances *)
Lemma option_map_idf {A} (o : option A) : option_map (fun x => x) o = o.
Proof. destruct o; reflexivity. Qed.

Lemma Some_inj {A} (x y : A) : Some x = Some y -> x = y.
Proof. intro H. injection H. auto. Qed.

Section Found.
Variables (native : schema) (ims : list import) (im : import).
Hypothesis WF : wf_i native ims = true.
Hypothesis Him : In im ims.

Lemma found_setup : exists pre post, ims = pre ++ im :: post /\ GoodBase (im_base im) /\
  (forall im', In im' ims -> GoodBase (im_base im') /\ ids_below STITCH (im_schema im') = true /\
                             length (im_conns im') <= OFF - STITCH) /\
  (forall im', In im' pre -> im_base im' <> im_base im) /\ (forall im', In im' post -> im_base im' <> im_base im).
Proof.
  destruct (wf_i_inv _ _ WF) as (B & N & G). destruct (bases_ok_inv _ B) as [ND GB].
  destruct (in_split_bases ims im ND Him) as (pre & post & E & P1 & P2).
  exists pre, post. split; [exact E|]. split; [apply GB; exact Him|]. split; [|auto].
  intros im' I. destruct (G im' I). auto.
Qed.

Lemma found_gen {A A'} (key : A -> nat) (proj : schema -> list A) (sh : nat -> A -> A) (skel : A -> A') :
  (forall a b, proj (union a b) = proj a ++ proj b) ->
  (forall d s, proj (shift d s) = map (sh d) (proj s)) ->
  (forall d x, key (sh d x) = d + key x) ->
  (forall base s cs i, (forall m, m < length cs -> i <> base + STITCH + m) ->
     option_map skel (fnd key i (proj (stitch_all base s 0 cs))) = option_map skel (fnd key i (proj s))) ->
  (forall B s, ids_below B s = true -> forall x, In x (proj s) -> key x < B) ->
  forall i x, fnd key i (proj (im_schema im)) = Some x ->
  option_map skel (fnd key (im_base im + i) (proj (combine native ims))) = Some (skel (sh (im_base im) x)).
Proof.
  intros HU HS HK HT HB i x F.
  destruct found_setup as (pre & post & E & GB & G & P1 & P2).
  destruct (wf_i_inv _ _ WF) as (_ & N & _).
  assert (GI : forall im', In im' ims -> GoodIm key proj im').
  { intros im' I. destruct (G im' I) as (G1 & G2 & G3). split; [exact G1|]. split; [|exact G3]. apply HB. exact G2. }
  rewrite combine_fold, E.
  apply (fold_found key proj sh skel HU HS HK HT pre im post native i x).
  - apply NoKey_below; [apply HB; exact N|exact GB].
  - intros im' I. split; [apply GI; rewrite E; apply in_or_app; left; exact I|apply P1; exact I].
  - apply GI. exact Him.
  - intros im' I. split; [apply GI; rewrite E; apply in_or_app; right; right; exact I|apply P2; exact I].
  - exact F.
Qed.

Lemma found_party i p : find_party (im_schema im) i = Some p ->
  find_party (combine native ims) (im_base im + i) = Some (sh_party (im_base im) p).
Proof.
  intro F. rewrite <- (option_map_idf (find_party _ _)).
  apply (found_gen pa_id parties sh_party (fun x => x)); try reflexivity; [| |exact F].
  - intros base s cs j _. rewrite stitch_all_parties. reflexivity.
  - intros B s H. apply (ids_below_inv B s H).
Qed.

Lemma found_type i t : find_type (im_schema im) i = Some t ->
  find_type (combine native ims) (im_base im + i) = Some (sh_otype (im_base im) t).
Proof.
  intro F. rewrite <- (option_map_idf (find_type _ _)).
  apply (found_gen ot_id otypes sh_otype (fun x => x)); try reflexivity; [| |exact F].
  - intros base s cs j _. rewrite stitch_all_otypes. reflexivity.
  - intros B s H. apply (ids_below_inv B s H).
Qed.

Lemma found_promise i p : find_promise (im_schema im) i = Some p ->
  find_promise (combine native ims) (im_base im + i) = Some (sh_promise (im_base im) p).
Proof.
  intro F. rewrite <- (option_map_idf (find_promise _ _)).
  apply (found_gen pr_id promises sh_promise (fun x => x)); try reflexivity; [| |exact F].
  - intros base s cs j _. rewrite stitch_all_promises. reflexivity.
  - intros B s H. apply (ids_below_inv B s H).
Qed.

Lemma found_group i g : find_group (im_schema im) i = Some g ->
  find_group (combine native ims) (im_base im + i) = Some (sh_group (im_base im) g).
Proof.
  intro F. rewrite <- (option_map_idf (find_group _ _)).
  apply (found_gen g_id groups sh_group (fun x => x)); try reflexivity; [| |exact F].
  - intros base s cs j _. rewrite stitch_all_groups. reflexivity.
  - intros B s H. apply (ids_below_inv B s H).
Qed.

Lemma found_action i a : find_action (im_schema im) i = Some a ->
  exists a', find_action (combine native ims) (im_base im + i) = Some a' /\
             a_skel a' = a_skel (sh_action (im_base im) a).
Proof.
  intro F.
  assert (E : option_map a_skel (find_action (combine native ims) (im_base im + i)) =
              Some (a_skel (sh_action (im_base im) a))).
  { apply (found_gen a_id actions sh_action a_skel); try reflexivity; [| |exact F].
    - intros base s cs j _. apply stitch_all_find_action_skel.
    - intros B s H. apply (ids_below_inv B s H). }
  destruct (find_action (combine native ims) (im_base im + i)) as [a'|]; [|discriminate].
  exists a'. split; [reflexivity|]. apply Some_inj. exact E.
Qed.

Lemma found_checkpoint i c : find_checkpoint (im_schema im) i = Some c ->
  exists c', find_checkpoint (combine native ims) (im_base im + i) = Some c' /\
             cp_skel c' = cp_skel (sh_checkpoint (im_base im) c).
Proof.
  intro F.
  assert (E : option_map cp_skel (find_checkpoint (combine native ims) (im_base im + i)) =
              Some (cp_skel (sh_checkpoint (im_base im) c))).
  { apply (found_gen cp_id checkpoints sh_checkpoint cp_skel); try reflexivity; [| |exact F].
    - intros base s cs j N. apply stitch_all_find_checkpoint_skel. intros m _ L. apply N. exact L.
    - intros B s H. apply (ids_below_inv B s H). }
  destruct (find_checkpoint (combine native ims) (im_base im + i)) as [c'|]; [|discriminate].
  exists c'. split; [reflexivity|]. apply Some_inj. exact E.
Qed.
End Found.

(* native lookups are unchanged *)
Lemma native_lookups native ims : bases_ok ims = true -> forall i, i < OFF ->
  find_party (combine native ims) i = find_party native i /\
  find_type (combine native ims) i = find_type native i /\
  find_promise (combine native ims) i = find_promise native i /\
  find_action (combine native ims) i = find_action native i /\
  find_checkpoint (combine native ims) i = find_checkpoint native i /\
  find_group (combine native ims) i = find_group native i.
Proof.
  intros B i L. destruct (bases_ok_inv _ B) as [_ GB].
  assert (G : forall im, In im ims -> OFF <= im_base im) by (intros im I; apply GoodBase_ge; apply GB; exact I).
  rewrite combine_fold. repeat split.
  - apply (fold_low pa_id parties sh_party); try reflexivity; try assumption.
    intros base s cs j _. rewrite stitch_all_parties. reflexivity.
  - apply (fold_low ot_id otypes sh_otype); try reflexivity; try assumption.
    intros base s cs j _. rewrite stitch_all_otypes. reflexivity.
  - apply (fold_low pr_id promises sh_promise); try reflexivity; try assumption.
    intros base s cs j _. rewrite stitch_all_promises. reflexivity.
  - apply (fold_low a_id actions sh_action); try reflexivity; try assumption.
    intros base s cs j Lj. apply stitch_all_find_action_low. exact Lj.
  - apply (fold_low cp_id checkpoints sh_checkpoint); try reflexivity; try assumption.
    intros base s cs j Lj. apply stitch_all_find_checkpoint_low. exact Lj.
  - apply (fold_low g_id groups sh_group); try reflexivity; try assumption.
    intros base s cs j _. rewrite stitch_all_groups. reflexivity.
Qed.

(* ================================================================== 3, lifted: lower bounds on the combined schema *)
Lemma Encloses_find_mono s s' : (forall g tg, find_group s g = Some tg -> find_group s' g = Some tg) ->
  forall g' g, Encloses s g' g -> Encloses s' g' g.
Proof.
  intros E g' g H. induction H as [g tg F | g tg r g' F C K _ IH].
  - eapply E_self. apply E. exact F.
  - eapply E_up; [apply E; exact F|exact C|exact K|exact IH].
Qed.

Lemma HoldsAction_find_mono s s' : (forall g tg, find_group s g = Some tg -> find_group s' g = Some tg) ->
  forall a c, HoldsAction s a c -> HoldsAction s' a c.
Proof.
  intros E a c [H|(r & H1 & H2 & (g' & tg & r' & G1 & G2 & G3))]; [left; exact H|right].
  exists r. split; [exact H1|]. split; [exact H2|]. exists g', tg, r'.
  split; [eapply Encloses_find_mono; eassumption|]. split; [apply E; exact G2|exact G3].
Qed.

Definition Sub (s s' : schema) : Prop :=
  (forall i e, find_action s i = Some e -> find_action s' i = Some e) /\
  (forall i e, find_group s i = Some e -> find_group s' i = Some e) /\
  (forall i e, find_checkpoint s i = Some e -> find_checkpoint s' i = Some e).

Definition Mono (s s' : schema) : Prop :=
  (forall x b, Dep s x b -> Dep s' x b) /\ (forall c b, Mentions s c b -> Mentions s' c b).

Lemma Mono_refl s : Mono s s.
Proof. split; auto. Qed.
Lemma Mono_trans s1 s2 s3 : Mono s1 s2 -> Mono s2 s3 -> Mono s1 s3.
Proof. intros [A B] [C D]. split; auto. Qed.

Lemma Sub_Mono s s' : Sub s s' -> Mono s s'.
Proof.
  intros (SA & SG & SC). split.
  - intros x b (act & cc & F & H & M). exists act, cc. split; [apply SA; exact F|].
    split; [eapply HoldsAction_find_mono; eassumption|eapply Mentions_find_mono; eassumption].
  - intros c b M. eapply Mentions_find_mono; eassumption.
Qed.

Lemma union_Sub_left s t : Sub s (union s t).
Proof.
  repeat split; intros i e F.
  - unfold find_action in *. cbn [union actions]. rewrite find_app, F. reflexivity.
  - unfold find_group in *. cbn [union groups]. rewrite find_app, F. reflexivity.
  - unfold find_checkpoint in *. cbn [union checkpoints]. rewrite find_app, F. reflexivity.
Qed.

Lemma union_Sub_right s t :
  (forall i e, find_action t i = Some e -> find_action s i = None) ->
  (forall i e, find_group t i = Some e -> find_group s i = None) ->
  (forall i e, find_checkpoint t i = Some e -> find_checkpoint s i = None) ->
  Sub t (union s t).
Proof.
  intros NA NG NC. repeat split; intros i e F.
  - pose proof (NA i e F) as N. unfold find_action in *. cbn [union actions]. rewrite find_app, N. exact F.
  - pose proof (NG i e F) as N. unfold find_group in *. cbn [union groups]. rewrite find_app, N. exact F.
  - pose proof (NC i e F) as N. unfold find_checkpoint in *. cbn [union checkpoints]. rewrite find_app, N. exact F.
Qed.

(* the generic hypotheses, for the three kinds the dependency relation looks at *)
Lemma HT_actions : forall base s cs i, (forall m, m < length cs -> i <> base + STITCH + m) ->
  option_map a_skel (fnd a_id i (actions (stitch_all base s 0 cs))) = option_map a_skel (fnd a_id i (actions s)).
Proof. intros base s cs i _. apply stitch_all_find_action_skel. Qed.
Lemma HT_groups : forall base s cs i, (forall m, m < length cs -> i <> base + STITCH + m) ->
  option_map (fun x => x) (fnd g_id i (groups (stitch_all base s 0 cs))) = option_map (fun x => x) (fnd g_id i (groups s)).
Proof. intros base s cs i _. rewrite stitch_all_groups. reflexivity. Qed.
Lemma HT_checkpoints : forall base s cs i, (forall m, m < length cs -> i <> base + STITCH + m) ->
  option_map cp_skel (fnd cp_id i (checkpoints (stitch_all base s 0 cs))) = option_map cp_skel (fnd cp_id i (checkpoints s)).
Proof. intros base s cs i N. apply stitch_all_find_checkpoint_skel. intros m _ L. apply N. exact L. Qed.

Definition GoodAll (im : import) : Prop :=
  GoodBase (im_base im) /\ ids_below STITCH (im_schema im) = true /\ length (im_conns im) <= OFF - STITCH.
Definition NoKeys (s : schema) (B : nat) : Prop :=
  NoKey a_id actions s B /\ NoKey g_id groups s B /\ NoKey cp_id checkpoints s B.

Lemma GoodAll_actions im : GoodAll im -> GoodIm a_id actions im.
Proof. intros (A & B & C). split; [exact A|]. split; [apply (ids_below_inv _ _ B)|exact C]. Qed.
Lemma GoodAll_groups im : GoodAll im -> GoodIm g_id groups im.
Proof. intros (A & B & C). split; [exact A|]. split; [apply (ids_below_inv _ _ B)|exact C]. Qed.
Lemma GoodAll_checkpoints im : GoodAll im -> GoodIm cp_id checkpoints im.
Proof. intros (A & B & C). split; [exact A|]. split; [apply (ids_below_inv _ _ B)|exact C]. Qed.

Lemma step_NoKeys s im B : NoKeys s B -> GoodBase B -> GoodAll im -> im_base im <> B -> NoKeys (step s im) B.
Proof.
  intros (NA & NG & NC) GB G N. repeat split.
  - apply (step_NoKey a_id actions sh_action a_skel); try reflexivity; try assumption; [apply HT_actions|apply GoodAll_actions; exact G].
  - apply (step_NoKey g_id groups sh_group (fun x => x)); try reflexivity; try assumption; [apply HT_groups|apply GoodAll_groups; exact G].
  - apply (step_NoKey cp_id checkpoints sh_checkpoint cp_skel); try reflexivity; try assumption; [apply HT_checkpoints|apply GoodAll_checkpoints; exact G].
Qed.

Lemma fold_NoKeys pre : forall s B, NoKeys s B -> GoodBase B ->
  (forall im, In im pre -> GoodAll im /\ im_base im <> B) -> NoKeys (fold_left step pre s) B.
Proof.
  induction pre as [|im r IH]; intros s B NK GB G; cbn [fold_left]; [exact NK|].
  apply IH; [|exact GB|intros im' I; apply G; right; exact I].
  destruct (G im (or_introl eq_refl)) as [G1 G2]. apply step_NoKeys; assumption.
Qed.

Lemma NoKeys_below s B : ids_below OFF s = true -> GoodBase B -> NoKeys s B.
Proof.
  intros H G. destruct (ids_below_inv _ _ H) as (_ & _ & _ & A & C & Gr).
  repeat split; apply NoKey_below; assumption.
Qed.

(* the stitched ids of an import are free when its connections are applied *)
Lemma union_fresh s im : NoKeys s (im_base im) -> GoodAll im ->
  forall m, 0 <= m -> m < 0 + length (im_conns im) ->
  find_checkpoint (union s (shift (im_base im) (im_schema im))) (im_base im + STITCH + m) = None.
Proof.
  intros (_ & _ & NC) (GB & B & L) m _ Lm.
  change (fnd cp_id (im_base im + STITCH + m) (checkpoints (union s (shift (im_base im) (im_schema im)))) = None).
  rewrite (fnd_union cp_id checkpoints sh_checkpoint) by reflexivity.
  rewrite NC by (unfold OFF, STITCH in *; lia).
  destruct (fnd cp_id (im_base im + STITCH + m) (map (sh_checkpoint (im_base im)) (checkpoints (im_schema im)))) eqn:F; [|reflexivity].
  apply (fnd_sh_some cp_id sh_checkpoint) in F; [|reflexivity]. destruct F as (x & I & E).
  destruct (ids_below_inv _ _ B) as (_ & _ & _ & _ & C & _). specialize (C x I). lia.
Qed.

Lemma step_Mono s im : NoKeys s (im_base im) -> GoodAll im -> Mono s (step s im).
Proof.
  intros NK G. apply (Mono_trans _ (union s (shift (im_base im) (im_schema im)))).
  - apply Sub_Mono. apply union_Sub_left.
  - unfold step. split.
    + apply stitch_all_Dep_mono. apply union_fresh; assumption.
    + apply stitch_all_Mentions_mono. apply union_fresh; assumption.
Qed.

Lemma fold_Mono rest : forall s, NoDup (map im_base rest) ->
  (forall im, In im rest -> GoodAll im /\ NoKeys s (im_base im)) -> Mono s (fold_left step rest s).
Proof.
  induction rest as [|im r IH]; intros s ND G; cbn [fold_left]; [apply Mono_refl|].
  cbn [map] in ND. inversion ND as [|? ? NI ND']; subst.
  destruct (G im (or_introl eq_refl)) as [Gi NKi].
  apply (Mono_trans _ (step s im)); [apply step_Mono; assumption|].
  apply IH; [exact ND'|]. intros im' I. destruct (G im' (or_intror I)) as [Gi' NKi']. split; [exact Gi'|].
  apply step_NoKeys; [exact NKi'|apply Gi'|exact Gi|]. intro E. apply NI. rewrite E. apply in_map. exact I.
Qed.

Lemma NoDup_app_disjoint {A} (l1 l2 : list A) x : NoDup (l1 ++ l2) -> In x l1 -> In x l2 -> False.
Proof.
  induction l1 as [|y r IH]; intros ND I1 I2; [contradiction|]. cbn in ND. inversion ND as [|? ? NI ND']; subst.
  destruct I1 as [->|I1]; [apply NI; apply in_or_app; right; exact I2|exact (IH ND' I1 I2)].
Qed.

Lemma NoDup_app_l {A} (l1 l2 : list A) : NoDup (l1 ++ l2) -> NoDup l1.
Proof.
  induction l1 as [|y r IH]; intro ND; [constructor|]. cbn in ND. inversion ND as [|? ? NI ND']; subst.
  constructor; [intro I; apply NI; apply in_or_app; left; exact I|exact (IH ND')].
Qed.
Lemma NoDup_app_r {A} (l1 l2 : list A) : NoDup (l1 ++ l2) -> NoDup l2.
Proof. induction l1 as [|y r IH]; intro ND; [exact ND|]. cbn in ND. inversion ND; subst. auto. Qed.

(* the combined schema seen from one import: [acc] is what was built before it, [post] comes after *)
Lemma combine_at native ims im : wf_i native ims = true -> In im ims ->
  exists acc post,
    combine native ims = fold_left step post (step acc im) /\
    GoodAll im /\ NoKeys acc (im_base im) /\ Mono native acc /\ Mono (step acc im) (combine native ims).
Proof.
  intros WF Him. destruct (wf_i_inv _ _ WF) as (B & N & G). destruct (bases_ok_inv _ B) as [ND GB].
  assert (GA : forall im', In im' ims -> GoodAll im').
  { intros im' I. destruct (G im' I). split; [apply GB; exact I|auto]. }
  destruct (in_split _ _ Him) as (pre & post & E).
  assert (ND' := ND). rewrite E, map_app in ND'. cbn [map] in ND'.
  assert (NDpre : NoDup (map im_base pre)) by (eapply NoDup_app_l; exact ND').
  assert (NDpost' : NoDup (im_base im :: map im_base post)) by (eapply NoDup_app_r; exact ND').
  inversion NDpost' as [|? ? NIpost NDpost]; subst x l.
  assert (Ipre : forall im', In im' pre -> In im' ims) by (intros im' I; rewrite E; apply in_or_app; left; exact I).
  assert (Ipost : forall im', In im' post -> In im' ims) by (intros im' I; rewrite E; apply in_or_app; right; right; exact I).
  assert (Dpre : forall im' B', In im' pre -> In B' (im_base im :: map im_base post) -> im_base im' <> B').
  { intros im' B' I IB Eq. apply (NoDup_app_disjoint _ _ B' ND'); [rewrite <- Eq; apply in_map; exact I|exact IB]. }
  set (acc := fold_left step pre native).
  assert (NKacc : forall B', GoodBase B' -> In B' (im_base im :: map im_base post) -> NoKeys acc B').
  { intros B' GB' IB. apply fold_NoKeys; [apply NoKeys_below; assumption|exact GB'|].
    intros im' I. split; [apply GA; apply Ipre; exact I|apply Dpre; assumption]. }
  exists acc, post.
  assert (Ecomb : combine native ims = fold_left step post (step acc im)).
  { rewrite combine_fold. rewrite E at 1. rewrite fold_left_app. reflexivity. }
  split; [exact Ecomb|]. split; [apply GA; exact Him|].
  split; [apply NKacc; [apply GB; exact Him|left; reflexivity]|]. split.
  - apply fold_Mono; [exact NDpre|]. intros im' I. split; [apply GA; apply Ipre; exact I|].
    apply NoKeys_below; [exact N|apply GB; apply Ipre; exact I].
  - rewrite Ecomb. apply fold_Mono; [exact NDpost|]. intros im' I. split; [apply GA; apply Ipost; exact I|].
    apply step_NoKeys.
    + apply NKacc; [apply GB; apply Ipost; exact I|right; apply in_map; exact I].
    + apply GB. apply Ipost. exact I.
    + apply GA. exact Him.
    + intro Eq. apply NIpost. rewrite Eq. apply in_map. exact I.
Qed.

Lemma shift_found_in_block {A} (key : A -> nat) (proj : schema -> list A) (sh : nat -> A -> A) s im i e :
  (forall d x, key (sh d x) = d + key x) -> NoKey key proj s (im_base im) ->
  (forall x, In x (proj (im_schema im)) -> key x < STITCH) ->
  fnd key i (map (sh (im_base im)) (proj (im_schema im))) = Some e -> fnd key i (proj s) = None.
Proof.
  intros HK NK L F. apply (fnd_sh_some key sh HK) in F. destruct F as (x & I & ->). specialize (L x I).
  apply NK; unfold OFF, STITCH in *; lia.
Qed.

Lemma step_Mono_right s im : NoKeys s (im_base im) -> GoodAll im ->
  Mono (shift (im_base im) (im_schema im)) (step s im).
Proof.
  intros NK G. apply (Mono_trans _ (union s (shift (im_base im) (im_schema im)))).
  - apply Sub_Mono. destruct NK as (NA & NG & NC). destruct G as (_ & B & _).
    destruct (ids_below_inv _ _ B) as (_ & _ & _ & LA & LC & LG).
    apply union_Sub_right; intros i e F.
    + exact (shift_found_in_block a_id actions sh_action s im i e (fun _ _ => eq_refl) NA LA F).
    + exact (shift_found_in_block g_id groups sh_group s im i e (fun _ _ => eq_refl) NG LG F).
    + exact (shift_found_in_block cp_id checkpoints sh_checkpoint s im i e (fun _ _ => eq_refl) NC LC F).
  - unfold step. split.
    + apply stitch_all_Dep_mono. apply union_fresh; assumption.
    + apply stitch_all_Mentions_mono. apply union_fresh; assumption.
Qed.

(* nothing the native schema or an imported schema says about dependencies is lost *)
Lemma combine_keeps_native native ims : wf_i native ims = true -> Mono native (combine native ims).
Proof.
  intro WF. destruct (wf_i_inv _ _ WF) as (B & N & G). destruct (bases_ok_inv _ B) as [ND GB].
  rewrite combine_fold. apply fold_Mono; [exact ND|]. intros im I. destruct (G im I). split.
  - split; [apply GB; exact I|auto].
  - apply NoKeys_below; [exact N|apply GB; exact I].
Qed.

Lemma combine_keeps_imported native ims im : wf_i native ims = true -> In im ims ->
  Mono (shift (im_base im) (im_schema im)) (combine native ims).
Proof.
  intros WF Him. destruct (combine_at native ims im WF Him) as (acc & post & _ & G & NK & _ & M).
  eapply Mono_trans; [apply step_Mono_right; eassumption|exact M].
Qed.

Lemma combine_adds_action native ims im c : wf_i native ims = true -> In im ims -> In c (im_conns im) ->
  r_kind (cn_to c) = RAction -> r_kind (cn_add c) = RCheckpoint ->
  (exists a, find_action (im_schema im) (r_id (cn_to c)) = Some a) ->
  forall b, Mentions native (r_id (cn_add c)) b -> Dep (combine native ims) (im_base im + r_id (cn_to c)) b.
Proof.
  intros WF Him Hc K KA [a F] b M.
  destruct (combine_at native ims im WF Him) as (acc & post & _ & G & NK & M1 & M2).
  apply (proj1 M2). unfold step. apply stitch_all_adds_action; try assumption.
  - apply union_fresh; assumption.
  - change (exists a0, fnd a_id (im_base im + r_id (cn_to c)) (actions (union acc (shift (im_base im) (im_schema im)))) = Some a0).
    rewrite (fnd_union a_id actions sh_action) by reflexivity.
    destruct (fnd a_id (im_base im + r_id (cn_to c)) (actions acc)); [eauto|].
    rewrite (fnd_sh a_id sh_action) by reflexivity. change (fnd a_id (r_id (cn_to c)) (actions (im_schema im))) with (find_action (im_schema im) (r_id (cn_to c))).
    rewrite F. cbn. eauto.
  - apply (proj2 (Sub_Mono _ _ (union_Sub_left acc (shift (im_base im) (im_schema im))))). apply (proj2 M1). exact M.
Qed.

Lemma combine_adds_checkpoint native ims im c : wf_i native ims = true -> In im ims -> In c (im_conns im) ->
  r_kind (cn_to c) = RCheckpoint -> r_kind (cn_add c) = RCheckpoint ->
  (exists t, find_checkpoint (im_schema im) (r_id (cn_to c)) = Some t) ->
  forall b, Mentions native (r_id (cn_add c)) b -> Mentions (combine native ims) (im_base im + r_id (cn_to c)) b.
Proof.
  intros WF Him Hc K KA [t F] b M.
  destruct (combine_at native ims im WF Him) as (acc & post & _ & G & NK & M1 & M2).
  apply (proj2 M2). unfold step. apply stitch_all_adds_checkpoint; try assumption.
  - apply union_fresh; assumption.
  - change (exists t0, fnd cp_id (im_base im + r_id (cn_to c)) (checkpoints (union acc (shift (im_base im) (im_schema im)))) = Some t0).
    rewrite (fnd_union cp_id checkpoints sh_checkpoint) by reflexivity.
    destruct (fnd cp_id (im_base im + r_id (cn_to c)) (checkpoints acc)); [eauto|].
    rewrite (fnd_sh cp_id sh_checkpoint) by reflexivity. change (fnd cp_id (r_id (cn_to c)) (checkpoints (im_schema im))) with (find_checkpoint (im_schema im) (r_id (cn_to c))).
    rewrite F. cbn. eauto.
  - apply (proj2 (Sub_Mono _ _ (union_Sub_left acc (shift (im_base im) (im_schema im))))). apply (proj2 M1). exact M.
Qed.

(* in an accepted importing schema: the target of every connection has, in the combined schema, the dependencies of
   the added native checkpoint together with those it had in the imported schema *)
Lemma C16_connection_adds_combined_lemma : forall tbl native ims,
  wf_i native ims = true -> conforms_i tbl native ims = true ->
  forall im c, In im ims -> In c (im_conns im) ->
    (r_kind (cn_to c) = RAction ->
       forall b, Mentions native (r_id (cn_add c)) b \/ Dep (shift (im_base im) (im_schema im)) (im_base im + r_id (cn_to c)) b ->
                 Dep (combine native ims) (im_base im + r_id (cn_to c)) b) /\
    (r_kind (cn_to c) = RCheckpoint ->
       forall b, Mentions native (r_id (cn_add c)) b \/ Mentions (shift (im_base im) (im_schema im)) (im_base im + r_id (cn_to c)) b ->
                 Mentions (combine native ims) (im_base im + r_id (cn_to c)) b).
Proof.
  intros tbl native ims WF C im c Him Hc.
  destruct (C16_bad_import_rejected_lemma tbl native ims C im Him) as (_ & _ & K).
  destruct (K c Hc) as (T & KA & _).
  split; intros Kc b [M|D].
  - destruct T as [[_ E]|[K' _]]; [|congruence]. eapply combine_adds_action; eassumption.
  - apply (proj1 (combine_keeps_imported native ims im WF Him)). exact D.
  - destruct T as [[K' _]|[_ E]]; [congruence|]. eapply combine_adds_checkpoint; eassumption.
  - apply (proj2 (combine_keeps_imported native ims im WF Him)). exact D.
Qed.

Lemma C16_combined_keeps_lemma : forall native ims, wf_i native ims = true ->
  (forall x b, Dep native x b -> Dep (combine native ims) x b) /\
  (forall im, In im ims -> forall x b, Dep (shift (im_base im) (im_schema im)) x b -> Dep (combine native ims) x b).
Proof.
  intros native ims WF. split.
  - apply (combine_keeps_native native ims WF).
  - intros im Him. apply (combine_keeps_imported native ims im WF Him).
Qed.

(* ================================================================== 2b. the shifted copy of a valid schema is valid *)
(* [shift d] is a renumbering of ids (RenameProofs.Renumber), a renaming of names (RenameProofs.Names) and the
   clearing of milestones.  The first two keep the verdict (C15); clearing milestones only removes a uniqueness
   obligation.  That no rule but [unique_ids] looks at milestones is shown as PermProofs.Incl shows it for
   reordered milestones: the section below is the proof script of PermProofs.Incl.Sim, replayed for the relation
   "equal up to milestones". *)
Module ClearMs.
Import PermProofs.Incl.

Definition action_sim (a a' : action) : Prop :=
  a_id a' = a_id a /\ a_name a' = a_name a /\ a_party a' = a_party a /\ a_promise a' = a_promise a /\
  a_ctx a' = a_ctx a /\ a_dep a' = a_dep a /\ a_op a' = a_op a.
Definition incl_reordered (s s' : schema) : Prop :=
  parties s' = parties s /\ otypes s' = otypes s /\ promises s' = promises s /\ checkpoints s' = checkpoints s /\ groups s' = groups s /\
  Forall2 action_sim (actions s) (actions s').

Lemma sim_id {a a'} : action_sim a a' -> a_id a' = a_id a.
Proof. intros H; apply H. Qed.
Lemma sim_name {a a'} : action_sim a a' -> a_name a' = a_name a.
Proof. intros H; apply H. Qed.
Lemma sim_party {a a'} : action_sim a a' -> a_party a' = a_party a.
Proof. intros H; apply H. Qed.
Lemma sim_promise {a a'} : action_sim a a' -> a_promise a' = a_promise a.
Proof. intros H; apply H. Qed.
Lemma sim_ctx {a a'} : action_sim a a' -> a_ctx a' = a_ctx a.
Proof. intros H; apply H. Qed.
Lemma sim_dep {a a'} : action_sim a a' -> a_dep a' = a_dep a.
Proof. intros H; apply H. Qed.
Lemma sim_op {a a'} : action_sim a a' -> a_op a' = a_op a.
Proof. intros H; apply H. Qed.
Lemma incl_sim_refl i : incl_sim i i.
Proof. destruct i as [[l|]|[l|]]; simpl; auto. Qed.
Lemma sim_incl {a a'} : action_sim a a' -> incl_sim (op_incl (a_op a)) (op_incl (a_op a')).
Proof. intros H. rewrite (sim_op H). apply incl_sim_refl. Qed.
Lemma sim_defaults {a a'} : action_sim a a' -> op_defaults (a_op a') = op_defaults (a_op a).
Proof. intros H. rewrite (sim_op H). reflexivity. Qed.
Lemma sim_edges {a a'} : action_sim a a' -> op_edges (a_op a') = op_edges (a_op a).
Proof. intros H. rewrite (sim_op H). reflexivity. Qed.
Lemma sim_appends {a a'} : action_sim a a' -> op_appends (a_op a') = op_appends (a_op a).
Proof. intros H. rewrite (sim_op H). reflexivity. Qed.
Lemma promise_of_sim {a a'} : action_sim a a' -> promise_of a' = promise_of a.
Proof. intros H. unfold promise_of. rewrite (sim_promise H). reflexivity. Qed.

Local Arguments fuel_of : simpl never.
Local Arguments find_type : simpl never.
Local Arguments find_promise : simpl never.
Local Arguments find_action : simpl never.
Local Arguments find_checkpoint : simpl never.
Local Arguments find_group : simpl never.
Local Arguments find_party : simpl never.
Local Arguments find_attr : simpl never.
Local Arguments mem_nat : simpl never.


Section Sim.
Variables s s' : schema.
Hypothesis HR : incl_reordered s s'.

Lemma parties_eq : parties s' = parties s. Proof. apply HR. Qed.
Lemma otypes_eq : otypes s' = otypes s. Proof. apply HR. Qed.
Lemma promises_eq : promises s' = promises s. Proof. apply HR. Qed.
Lemma checkpoints_eq : checkpoints s' = checkpoints s. Proof. apply HR. Qed.
Lemma groups_eq : groups s' = groups s. Proof. apply HR. Qed.
Lemma actions_sim : Forall2 action_sim (actions s) (actions s'). Proof. apply HR. Qed.

Lemma acts_len : length (actions s') = length (actions s).
Proof. exact (F2_length _ _ _ actions_sim). Qed.

Lemma ids_eq : map a_id (actions s') = map a_id (actions s).
Proof. apply (F2_map action_sim); [exact actions_sim|]. intros a a' Ha. exact (sim_id Ha). Qed.
Lemma names_eq : map a_name (actions s') = map a_name (actions s).
Proof. apply (F2_map action_sim); [exact actions_sim|]. intros a a' Ha. exact (sim_name Ha). Qed.

Lemma fuel_of_eq : fuel_of s' = fuel_of s.
Proof. unfold fuel_of. rewrite acts_len, checkpoints_eq, groups_eq. reflexivity. Qed.

(* ------------------------------------------------------------------ lookups *)
Lemma find_party_eq i : find_party s' i = find_party s i.
Proof. unfold find_party. rewrite parties_eq. reflexivity. Qed.
Lemma find_type_eq i : find_type s' i = find_type s i.
Proof. unfold find_type. rewrite otypes_eq. reflexivity. Qed.
Lemma find_promise_eq i : find_promise s' i = find_promise s i.
Proof. unfold find_promise. rewrite promises_eq. reflexivity. Qed.
Lemma find_checkpoint_eq i : find_checkpoint s' i = find_checkpoint s i.
Proof. unfold find_checkpoint. rewrite checkpoints_eq. reflexivity. Qed.
Lemma find_group_eq i : find_group s' i = find_group s i.
Proof. unfold find_group. rewrite groups_eq. reflexivity. Qed.
Lemma find_action_sim i : orel action_sim (find_action s i) (find_action s' i).
Proof.
  unfold find_action. apply F2_find; [exact actions_sim|]. intros a a' Ha. rewrite (sim_id Ha). reflexivity.
Qed.

Lemma denotes_eq rf : denotes s' rf = denotes s rf.
Proof.
  unfold denotes. destruct (r_kind rf).
  - rewrite find_party_eq. reflexivity.
  - rewrite find_type_eq. reflexivity.
  - rewrite find_promise_eq. reflexivity.
  - destruct (find_action_sim (r_id rf)); reflexivity.
  - rewrite find_checkpoint_eq. reflexivity.
  - rewrite find_group_eq. reflexivity.
Qed.

Lemma ref_ok_eq k rf : ref_ok s' k rf = ref_ok s k rf.
Proof. unfold ref_ok. rewrite denotes_eq. reflexivity. Qed.
Lemma oref_ok_eq k o : oref_ok s' k o = oref_ok s k o.
Proof. unfold oref_ok. destruct o; [apply ref_ok_eq|reflexivity]. Qed.

(* ------------------------------------------------------------------ scopes *)
Lemma chain_eq fuel : forall g, chain s' fuel g = chain s fuel g.
Proof.
  induction fuel as [|fuel IH]; intro g; [reflexivity|].
  cbn [chain]. rewrite find_group_eq. destruct (find_group s g) as [tg|]; [|reflexivity].
  destruct (g_ctx tg) as [rf|]; [|reflexivity]. rewrite IH. reflexivity.
Qed.

Lemma scope_eq g : scope s' g = scope s g.
Proof. unfold scope. rewrite fuel_of_eq. apply chain_eq. Qed.
Lemma has_access_eq g g' : has_access s' g g' = has_access s g g'.
Proof. unfold has_access. rewrite scope_eq. reflexivity. Qed.
Lemma ctx_sees_eq a b : ctx_sees s' a b = ctx_sees s a b.
Proof. unfold ctx_sees. destruct b; [|reflexivity]. destruct a; [apply has_access_eq|reflexivity]. Qed.

Lemma group_cps_eq g : group_cps s' g = group_cps s g.
Proof.
  unfold group_cps. destruct g as [g|]; [|reflexivity]. rewrite scope_eq.
  destruct (scope s g) as [l|]; [|reflexivity]. apply flat_map_ext'. intros g'.
  rewrite find_group_eq. reflexivity.
Qed.

Lemma action_cps_sim {a a'} : action_sim a a' -> action_cps s' a' = action_cps s a.
Proof. intros Ha. unfold action_cps. rewrite (sim_dep Ha), (sim_ctx Ha), group_cps_eq. reflexivity. Qed.

Lemma mentions_eq fuel : forall c, mentions s' fuel c = mentions s fuel c.
Proof.
  induction fuel as [|fuel IH]; intro c; [reflexivity|].
  cbn [mentions]. rewrite find_checkpoint_eq. destruct (find_checkpoint s c) as [cp|]; [|reflexivity].
  apply flat_map_ext'. intros [l o rr|c0]; [reflexivity|]. rewrite IH. reflexivity.
Qed.

Lemma succ_eq a : succ s' a = succ s a.
Proof.
  unfold succ. destruct (find_action_sim a) as [|act act' Hact]; [reflexivity|].
  rewrite (action_cps_sim Hact), fuel_of_eq. apply flat_map_ext'. intros c. apply mentions_eq.
Qed.

(* ------------------------------------------------------------------ cycle search *)
Lemma explore_eq fuel : forall a v p, explore s' fuel a v p = explore s fuel a v p.
Proof.
  induction fuel as [|fuel IH]; intros a v p; [reflexivity|].
  cbn [explore]. destruct (mem_nat a p); [reflexivity|]. destruct (mem_nat a v); [reflexivity|].
  rewrite succ_eq. generalize (a :: v). generalize (succ s a).
  induction l as [|b l IHl]; intros vis; [reflexivity|].
  rewrite IH. destruct (explore s fuel b vis (a :: p)) as [[|] v0]; [reflexivity|apply IHl].
Qed.

Lemma explore_all_eq roots : forall v, explore_all s' roots v = explore_all s roots v.
Proof.
  induction roots as [|a roots IH]; intro v; [reflexivity|].
  cbn [explore_all]. rewrite acts_len, explore_eq.
  destruct (explore s (S (length (actions s))) a v []) as [[|] v0]; [reflexivity|apply IH].
Qed.

Lemma cp_nesting_cyclic_eq fuel : forall st c, cp_nesting_cyclic s' fuel st c = cp_nesting_cyclic s fuel st c.
Proof.
  induction fuel as [|fuel IH]; intros st c; [reflexivity|].
  cbn [cp_nesting_cyclic]. destruct (mem_nat c st); [reflexivity|].
  rewrite find_checkpoint_eq. destruct (find_checkpoint s c) as [cp|]; [|reflexivity].
  apply existsb_ext'. intros [l o rr|c0]; [reflexivity|]. rewrite IH. reflexivity.
Qed.

Lemma has_cycle_eq : has_cycle s' = has_cycle s.
Proof.
  unfold has_cycle. rewrite ids_eq, explore_all_eq. f_equal.
  apply (F2_existsb action_sim); [exact actions_sim|]. intros a a' Ha.
  rewrite (action_cps_sim Ha), checkpoints_eq. apply existsb_ext'. intros c. apply cp_nesting_cyclic_eq.
Qed.

(* ------------------------------------------------------------------ ancestry *)
Lemma close_eq n : forall acc, close s' n acc = close s n acc.
Proof.
  induction n as [|n IH]; intro acc; [reflexivity|].
  cbn [close]. rewrite IH. rewrite (flat_map_ext' (succ s') (succ s) acc succ_eq). reflexivity.
Qed.

Lemma ancestors_eq a : ancestors s' a = ancestors s a.
Proof. unfold ancestors. rewrite acts_len, close_eq, succ_eq. reflexivity. Qed.
Lemma is_ancestor_eq a b : is_ancestor s' a b = is_ancestor s a b.
Proof. unfold is_ancestor. rewrite ancestors_eq. reflexivity. Qed.

Lemma group_ancestors_eq g : group_ancestors s' g = group_ancestors s g.
Proof.
  unfold group_ancestors, group_eff_cps. rewrite acts_len, close_eq, group_cps_eq, fuel_of_eq.
  rewrite (flat_map_ext' (mentions s' (fuel_of s)) (mentions s (fuel_of s)) _ (mentions_eq _)). reflexivity.
Qed.

Lemma guar_cp_eq fuel : forall b c, guar_cp s' fuel b c = guar_cp s fuel b c.
Proof.
  induction fuel as [|fuel IH]; intros b c; [reflexivity|].
  cbn [guar_cp]. rewrite find_checkpoint_eq. destruct (find_checkpoint s c) as [cp|]; [|reflexivity].
  cbv zeta.
  assert (Hd : forall d,
    match d with
    | DCmp l _ r0 =>
        existsb (fun x => Nat.eqb x b || match find_action s' x with
                                         | Some act => existsb (guar_cp s' fuel b) (action_cps s' act)
                                         | None => false end) (operand_action l ++ operand_action r0)
    | DRef r0 => if rkind_eqb (r_kind r0) RCheckpoint then guar_cp s' fuel b (r_id r0) else false
    end =
    match d with
    | DCmp l _ r0 =>
        existsb (fun x => Nat.eqb x b || match find_action s x with
                                         | Some act => existsb (guar_cp s fuel b) (action_cps s act)
                                         | None => false end) (operand_action l ++ operand_action r0)
    | DRef r0 => if rkind_eqb (r_kind r0) RCheckpoint then guar_cp s fuel b (r_id r0) else false
    end).
  { intros [l o rr|c0].
    - apply existsb_ext'. intros x. f_equal.
      destruct (find_action_sim x) as [|act act' Hact]; [reflexivity|].
      rewrite (action_cps_sim Hact). apply existsb_ext'. intros y. apply IH.
    - rewrite IH. reflexivity. }
  destruct (cp_gate cp) as [[]|]; first [apply forallb_ext' | apply existsb_ext']; exact Hd.
Qed.

Lemma guaranteed_ancestor_sim {a a'} b : action_sim a a' -> guaranteed_ancestor s' a' b = guaranteed_ancestor s a b.
Proof.
  intros Ha. unfold guaranteed_ancestor. rewrite (action_cps_sim Ha), acts_len, checkpoints_eq.
  apply existsb_ext'. intros c. apply guar_cp_eq.
Qed.

(* ------------------------------------------------------------------ lifecycle *)
Lemma actions_on_sim p : Forall2 action_sim (actions_on s p) (actions_on s' p).
Proof.
  unfold actions_on. apply F2_filter; [exact actions_sim|]. intros a a' Ha. rewrite (promise_of_sim Ha). reflexivity.
Qed.

Lemma creators_sim p : Forall2 action_sim (creators s p) (creators s' p).
Proof.
  unfold creators. cbv zeta. apply F2_filter; [apply actions_on_sim|]. intros a a' Ha. f_equal.
  apply (F2_existsb action_sim); [apply actions_on_sim|]. intros b b' Hb.
  rewrite (sim_id Ha), (sim_id Hb), is_ancestor_eq. reflexivity.
Qed.

Lemma fulfiller_sim p : orel action_sim (fulfiller s p) (fulfiller s' p).
Proof. unfold fulfiller. destruct (creators_sim p); simpl; constructor. assumption. Qed.

Lemma promise_context_eq p : promise_context s' p = promise_context s p.
Proof.
  unfold promise_context. destruct (fulfiller_sim p) as [|f f' Hf]; [reflexivity|]. rewrite (sim_ctx Hf). reflexivity.
Qed.

Lemma promise_ok_eq p : promise_ok s' p = promise_ok s p.
Proof.
  unfold promise_ok. destruct (creators_sim (pr_id p)) as [|f f' l l' Hf Hl]; [reflexivity|].
  destruct Hl; [|reflexivity]. rewrite (sim_ctx Hf). reflexivity.
Qed.

Lemma promise_refs_ok_eq p : promise_refs_ok s' p = promise_refs_ok s p.
Proof. unfold promise_refs_ok. rewrite ref_ok_eq, oref_ok_eq. reflexivity. Qed.

(* ------------------------------------------------------------------ typing *)
Lemma find_type_ref_eq rf : find_type_ref s' rf = find_type_ref s rf.
Proof. unfold find_type_ref. rewrite find_type_eq. reflexivity. Qed.

Lemma walk_eq path : forall def td, walk s' def td path = walk s def td path.
Proof.
  induction path as [|seg rest IH]; intros def td; [reflexivity|].
  cbn [walk]. destruct def as [d|]; [|reflexivity].
  destruct (find_attr d seg) as [a|]; [|reflexivity].
  destruct (at_kind a) as [t|tgt|tgt]; [reflexivity| |]; rewrite find_type_eq, IH; reflexivity.
Qed.

Lemma resolve_path_eq tr path : resolve_path s' tr path = resolve_path s tr path.
Proof.
  unfold resolve_path. rewrite find_type_ref_eq. destruct (find_type_ref s tr) as [d|]; [|reflexivity].
  apply walk_eq.
Qed.

Lemma promise_path_type_eq from p path : promise_path_type s' from p path = promise_path_type s from p path.
Proof.
  unfold promise_path_type. rewrite find_promise_eq, promise_context_eq.
  destruct (find_promise s p) as [pr|]; [|reflexivity].
  destruct (promise_context s p) as [pctx|]; [|reflexivity].
  assert (Hm : match pctx with
               | Some g' => negb match from with Some g => has_access s' g g' | None => false end
               | None => false end =
               match pctx with
               | Some g' => negb match from with Some g => has_access s g g' | None => false end
               | None => false end).
  { destruct pctx; [|reflexivity]. destruct from; [|reflexivity]. rewrite has_access_eq. reflexivity. }
  rewrite Hm. destruct path as [|n path]; [reflexivity|]. rewrite resolve_path_eq. reflexivity.
Qed.

Lemma var_type_eq fuel : forall g, var_type s' fuel g = var_type s fuel g.
Proof.
  induction fuel as [|fuel IH]; intro g; [reflexivity|].
  cbn [var_type]. rewrite find_group_eq. destruct (find_group s g) as [tg|]; [|reflexivity].
  cbv zeta. destruct (g_src tg) as [p path|g' path].
  - rewrite promise_path_type_eq. reflexivity.
  - rewrite has_access_eq, IH.
    destruct (negb (Nat.eqb g' g) && has_access s g g'); [|reflexivity].
    destruct (var_type s fuel g') as [| |vt]; try reflexivity.
    destruct (td_item vt); destruct (td_obj vt); rewrite ?resolve_path_eq; reflexivity.
Qed.

Lemma operand_type_eq cctx o : operand_type s' cctx o = operand_type s cctx o.
Proof.
  unfold operand_type. destruct o as [a path|g path|l]; [| |reflexivity].
  - destruct (rkind_eqb (r_kind a) RAction); [|reflexivity].
    destruct (find_action_sim (r_id a)) as [|act act' Hact]; [reflexivity|].
    rewrite (promise_of_sim Hact). destruct (promise_of act); [|reflexivity].
    rewrite promise_path_type_eq. reflexivity.
  - destruct cctx as [cg|]; [|reflexivity]. rewrite has_access_eq, fuel_of_eq, var_type_eq.
    destruct (has_access s cg g); [|reflexivity].
    destruct (var_type s (fuel_of s) g) as [| |vt]; try reflexivity.
    destruct (td_item vt); destruct (td_obj vt); rewrite ?resolve_path_eq; reflexivity.
Qed.

(* ------------------------------------------------------------------ checkpoints *)
Lemma comparison_ok_eq cmp cctx l o rr : comparison_ok cmp s' cctx l o rr = comparison_ok cmp s cctx l o rr.
Proof. unfold comparison_ok. rewrite !operand_type_eq. reflexivity. Qed.

Lemma operand_refs_ok_eq o : operand_refs_ok s' o = operand_refs_ok s o.
Proof. destruct o; try reflexivity. apply ref_ok_eq. Qed.

Lemma operand_scope_ok_eq cctx o : operand_scope_ok s' cctx o = operand_scope_ok s cctx o.
Proof.
  destruct o as [a p|g p|l]; try reflexivity. cbn [operand_scope_ok].
  destruct (find_action_sim (r_id a)) as [|act act' Hact]; [reflexivity|]. rewrite (sim_ctx Hact). apply ctx_sees_eq.
Qed.

Lemma dep_ok_eq cmp cp d : dep_ok cmp s' cp d = dep_ok cmp s cp d.
Proof.
  unfold dep_ok. cbv zeta. destruct d as [l o rr|c].
  - rewrite !operand_refs_ok_eq, comparison_ok_eq, !operand_scope_ok_eq. reflexivity.
  - rewrite ref_ok_eq, find_checkpoint_eq. destruct (find_checkpoint s (r_id c)); [|reflexivity].
    rewrite ctx_sees_eq. reflexivity.
Qed.

Lemma cp_referenced_eq c : cp_referenced s' c = cp_referenced s c.
Proof.
  unfold cp_referenced. rewrite groups_eq, checkpoints_eq. f_equal. f_equal.
  apply (F2_existsb action_sim); [exact actions_sim|]. intros a a' Ha. rewrite (sim_dep Ha). reflexivity.
Qed.

Lemma checkpoint_ok_eq cmp cp : checkpoint_ok cmp s' cp = checkpoint_ok cmp s cp.
Proof.
  unfold checkpoint_ok. rewrite oref_ok_eq, cp_referenced_eq.
  rewrite (forallb_ext' (dep_ok cmp s' cp) (dep_ok cmp s cp) _ (dep_ok_eq cmp cp)). reflexivity.
Qed.

Lemma depends_scope_ok_eq h d : depends_scope_ok s' h d = depends_scope_ok s h d.
Proof.
  unfold depends_scope_ok. destruct d as [rf|]; [|reflexivity]. rewrite find_checkpoint_eq.
  destruct (find_checkpoint s (r_id rf)); [|reflexivity]. apply ctx_sees_eq.
Qed.

(* ------------------------------------------------------------------ operations *)
Lemma type_of_promise_eq p : type_of_promise s' p = type_of_promise s p.
Proof.
  unfold type_of_promise. rewrite find_promise_eq. destruct (find_promise s p) as [pr|]; [|reflexivity].
  apply find_type_ref_eq.
Qed.

Lemma settable_perm q : Permutation (settable s q) (settable s' q).
Proof.
  unfold settable. rewrite type_of_promise_eq. destruct (type_of_promise s q) as [t|]; [|constructor].
  apply (F2_flat_map_perm action_sim); [apply actions_on_sim|]. intros a a' Ha.
  apply settable_by_perm; [exact (sim_incl Ha) | exact (sim_defaults Ha) | exact (sim_edges Ha)].
Qed.

Lemma is_dependee_eq a : is_dependee s' a = is_dependee s a.
Proof. unfold is_dependee. rewrite checkpoints_eq. reflexivity. Qed.

Lemma action_op_ok_sim tbl {a a'} : action_sim a a' -> action_op_ok tbl s' a' = action_op_ok tbl s a.
Proof.
  intros Ha. unfold action_op_ok. rewrite (promise_of_sim Ha). destruct (promise_of a) as [p|]; [|reflexivity].
  rewrite type_of_promise_eq. destruct (type_of_promise s p) as [t|]; [|reflexivity].
  cbv zeta. rewrite (sim_defaults Ha), (sim_edges Ha), (sim_appends Ha), (sim_id Ha), (sim_ctx Ha).
  apply PermProofs.andb_congr.
  { apply PermProofs.forallb_perm. apply Permutation_sym. apply incl_list_perm. exact (sim_incl Ha). }
  intros _. destruct (fulfiller_sim p) as [|f f' Hf]; [reflexivity|].
  rewrite (sim_id Hf), (sim_ctx Hf).
  destruct (Nat.eqb (a_id f) (a_id a)).
  - (* CREATE *)
    apply (f_equal2 andb); [apply (f_equal2 andb); [reflexivity|]|].
    + apply forallb_ext'. intros [n q]. cbn [fst snd].
      destruct (find_attr t n) as [at_|]; [|reflexivity].
      destruct (at_kind at_) as [ft|tgt|tgt]; try reflexivity.
      rewrite ref_ok_eq, find_promise_eq. destruct (find_promise s (r_id q)) as [pq|]; [|reflexivity].
      destruct (fulfiller_sim (pr_id pq)) as [|fq fq' Hfq]; [reflexivity|].
      rewrite (sim_id Hfq), is_ancestor_eq. reflexivity.
    + destruct (op_appends (a_op a)) as [[q path]|]; [|reflexivity].
      rewrite ref_ok_eq, promise_path_type_eq, find_promise_eq, is_dependee_eq, promise_context_eq.
      rewrite <- (PermProofs.mem_nat_perm _ _ _ (settable_perm (r_id q))).
      destruct (fulfiller_sim (r_id q)) as [|fq fq' Hfq]; [reflexivity|].
      rewrite (sim_id Hfq), (guaranteed_ancestor_sim _ Ha). reflexivity.
  - (* EDIT *)
    rewrite is_ancestor_eq. reflexivity.
Qed.

Lemma action_ok_sim tbl {a a'} : action_sim a a' -> action_ok tbl s' a' = action_ok tbl s a.
Proof.
  intros Ha. unfold action_ok.
  rewrite (sim_party Ha), (sim_promise Ha), (sim_ctx Ha), (sim_dep Ha).
  rewrite !ref_ok_eq, !oref_ok_eq, depends_scope_ok_eq, (action_op_ok_sim tbl Ha). reflexivity.
Qed.

(* ------------------------------------------------------------------ thread groups *)
Lemma group_used_eq g : group_used s' g = group_used s g.
Proof.
  unfold group_used. rewrite groups_eq. f_equal.
  apply (F2_existsb action_sim); [exact actions_sim|]. intros a a' Ha. rewrite (sim_ctx Ha). reflexivity.
Qed.

Lemma group_ok_eq g : group_ok s' g = group_ok s g.
Proof.
  unfold group_ok.
  rewrite !oref_ok_eq, scope_eq, depends_scope_ok_eq, group_used_eq, fuel_of_eq, var_type_eq.
  f_equal; [f_equal; f_equal|].
  - destruct (g_src g) as [p path|g' path]; [|reflexivity].
    rewrite ref_ok_eq, group_ancestors_eq.
    destruct (fulfiller_sim (r_id p)) as [|f f' Hf]; [reflexivity|]. rewrite (sim_id Hf). reflexivity.
  - destruct (scope s (g_id g)) as [l|]; [|reflexivity]. f_equal. apply existsb_ext'. intros g'.
    rewrite find_group_eq. reflexivity.
Qed.

(* ------------------------------------------------------------------ object types *)
Lemma attr_ok_eq a : attr_ok s' a = attr_ok s a.
Proof. unfold attr_ok. destruct (at_kind a); try reflexivity; apply ref_ok_eq. Qed.

Lemma otype_ok_eq t : otype_ok s' t = otype_ok s t.
Proof. unfold otype_ok. rewrite (forallb_ext' (attr_ok s') (attr_ok s) _ attr_ok_eq). reflexivity. Qed.


(* ------------------------------------------------------------------ uniqueness, when the milestones of s' are distinct *)
Lemma unique_ids_cleared : nodup_nat (flat_map a_milestones (actions s')) = true ->
  unique_ids s = true -> unique_ids s' = true.
Proof.
  intros Hm. unfold unique_ids.
  rewrite parties_eq, otypes_eq, promises_eq, checkpoints_eq, groups_eq, ids_eq, names_eq, Hm.
  rewrite !andb_true_iff. intuition.
Qed.

Lemma conforms_with_cleared cmp tbl : nodup_nat (flat_map a_milestones (actions s')) = true ->
  conforms_with cmp tbl s = true -> conforms_with cmp tbl s' = true.
Proof.
  intro Hm. unfold conforms_with.
  rewrite has_cycle_eq, otypes_eq, promises_eq, checkpoints_eq, groups_eq.
  rewrite (forallb_ext' (otype_ok s') (otype_ok s) _ otype_ok_eq).
  rewrite (forallb_ext' (fun p => promise_refs_ok s' p && promise_ok s' p) (fun p => promise_refs_ok s p && promise_ok s p))
    by (intros x; rewrite promise_refs_ok_eq, promise_ok_eq; reflexivity).
  rewrite (forallb_ext' (checkpoint_ok cmp s') (checkpoint_ok cmp s) _ (checkpoint_ok_eq cmp)).
  rewrite (forallb_ext' (group_ok s') (group_ok s) _ group_ok_eq).
  rewrite (F2_forallb action_sim (action_ok tbl s) (action_ok tbl s') _ _ actions_sim (fun a a' Ha => action_ok_sim tbl Ha)).
  rewrite !andb_true_iff. intros [[[[[[U H1] H2] H3] H4] H5] H6]. repeat split; try assumption.
  apply unique_ids_cleared; assumption.
Qed.

End Sim.

Definition clr (a : action) : action :=
  {| a_id := a_id a; a_name := a_name a; a_party := a_party a; a_promise := a_promise a; a_ctx := a_ctx a;
     a_dep := a_dep a; a_op := a_op a; a_milestones := [] |}.
Definition clear_ms (s : schema) : schema :=
  {| parties := parties s; otypes := otypes s; promises := promises s; actions := map clr (actions s);
     checkpoints := checkpoints s; groups := groups s |}.

Lemma clear_ms_related s : incl_reordered s (clear_ms s).
Proof.
  repeat split. cbn [clear_ms actions]. induction (actions s) as [|a l IH]; constructor; [|exact IH].
  repeat split.
Qed.

Lemma clear_ms_milestones l : flat_map a_milestones (map clr l) = [].
Proof. induction l as [|a l IH]; [reflexivity|exact IH]. Qed.

Lemma conforms_with_clear_ms cmp tbl s : conforms_with cmp tbl s = true -> conforms_with cmp tbl (clear_ms s) = true.
Proof.
  apply (conforms_with_cleared s (clear_ms s) (clear_ms_related s)).
  cbn [clear_ms actions]. rewrite clear_ms_milestones. reflexivity.
Qed.
End ClearMs.

(* ------------------------------------------------------------------ [shift d] as renumber + rename + clear *)
Module ShiftValid.
Import RenameProofs.

Definition rho (d : nat) : rkind -> nat -> nat := fun _ i => d + i.
Definition rn (d : nat) : Names.renaming :=
  {| Names.rn_party := fun i => d + i; Names.rn_type := fun i => d + i; Names.rn_promise := fun i => d + i;
     Names.rn_action := fun i => d + i; Names.rn_alias := fun i => d + i; Names.rn_group := fun i => d + i;
     Names.rn_var := fun i => d + i; Names.rn_attr := fun i => i |}.

Lemma rho_inj d : forall k, Renumber.injective (rho d k).
Proof. intros k x y H. unfold rho in H. lia. Qed.

Lemma rn_inj d : Names.renaming_injective (rn d).
Proof. unfold Names.renaming_injective, Names.injective. cbn. repeat split; intros x y H; lia. Qed.

Lemma map_idf {A} (l : list A) : map (fun x => x) l = l.
Proof. apply map_id. Qed.

Lemma ren_keys_id d {B} (l : list (nat * B)) : Names.ren_keys (rn d) l = l.
Proof.
  unfold Names.ren_keys. cbn [rn Names.rn_attr]. rewrite <- (map_id l) at 2. apply map_ext. intros [a b]. reflexivity.
Qed.

Lemma ren_incl_id d i : Names.ren_incl (rn d) i = i.
Proof. destruct i as [[l|]|[l|]]; cbn; unfold Names.ren_path; cbn [rn Names.rn_attr]; rewrite ?map_idf; reflexivity. Qed.

Lemma op_eq d op : Names.ren_op (rn d) (Renumber.ren_operation (rho d) op) = sh_op d op.
Proof.
  unfold Names.ren_op, Renumber.ren_operation, sh_op. cbn [op_incl op_defaults op_edges op_appends].
  rewrite ren_incl_id, !ren_keys_id. f_equal.
  destruct (op_appends op) as [[q p]|]; cbn; unfold Names.ren_path; cbn [rn Names.rn_attr]; [rewrite map_idf|]; reflexivity.
Qed.

Lemma operand_eq d o : Names.ren_operand (rn d) (Renumber.ren_operand (rho d) o) = sh_operand d o.
Proof. destruct o as [a p|g p|l]; cbn; unfold Names.ren_path; cbn [rn Names.rn_attr]; rewrite ?map_idf; reflexivity. Qed.

Lemma dep_eq d x : Names.ren_dep (rn d) (Renumber.ren_dep (rho d) x) = sh_dep d x.
Proof. destruct x as [l o r|c]; cbn -[Names.ren_operand Renumber.ren_operand]; [rewrite !operand_eq|]; reflexivity. Qed.

Lemma src_eq d x : Names.ren_src (rn d) (Renumber.ren_src (rho d) x) = sh_src d x.
Proof. destruct x as [p path|g path]; cbn; unfold Names.ren_path; cbn [rn Names.rn_attr]; rewrite map_idf; reflexivity. Qed.

Lemma attr_eq d a : Names.ren_attr (rn d) (Renumber.ren_attr (rho d) a) = {| at_name := at_name a; at_kind := sh_akind d (at_kind a) |}.
Proof. destruct a as [n k]. destruct k; reflexivity. Qed.

Lemma party_eq d x : Names.ren_party (rn d) (Renumber.ren_party (rho d) x) = sh_party d x.
Proof. reflexivity. Qed.
Lemma promise_eq d x : Names.ren_promise (rn d) (Renumber.ren_promise (rho d) x) = sh_promise d x.
Proof. reflexivity. Qed.
Lemma otype_eq d x : Names.ren_otype (rn d) (Renumber.ren_otype (rho d) x) = sh_otype d x.
Proof.
  unfold sh_otype, Names.ren_otype, Renumber.ren_otype. cbn [ot_id ot_name ot_attrs rn rho Names.rn_type].
  f_equal. rewrite map_map. apply map_ext. intro a. apply attr_eq.
Qed.
Lemma action_eq d x : ClearMs.clr (Names.ren_action (rn d) (Renumber.ren_action (rho d) x)) = sh_action d x.
Proof.
  unfold sh_action, ClearMs.clr, Names.ren_action, Renumber.ren_action.
  cbn [a_id a_name a_party a_promise a_ctx a_dep a_op a_milestones rn rho Names.rn_action].
  rewrite op_eq. reflexivity.
Qed.
Lemma checkpoint_eq d x : Names.ren_checkpoint (rn d) (Renumber.ren_checkpoint (rho d) x) = sh_checkpoint d x.
Proof.
  unfold sh_checkpoint, Names.ren_checkpoint, Renumber.ren_checkpoint.
  cbn [cp_id cp_alias cp_gate cp_deps cp_ctx rn rho Names.rn_alias].
  f_equal. rewrite map_map. apply map_ext. intro y. apply dep_eq.
Qed.
Lemma group_eq d x : Names.ren_group (rn d) (Renumber.ren_group (rho d) x) = sh_group d x.
Proof.
  unfold sh_group, Names.ren_group, Renumber.ren_group.
  cbn [g_id g_name g_ctx g_dep g_src g_var rn rho Names.rn_group Names.rn_var].
  rewrite src_eq. reflexivity.
Qed.

Lemma shift_as_rename d s :
  shift d s = ClearMs.clear_ms (Names.rename_names (rn d) (Renumber.renumber (rho d) s)).
Proof.
  rewrite shift_eq. unfold ClearMs.clear_ms, Names.rename_names, Renumber.renumber.
  cbn [parties otypes promises actions checkpoints groups]. rewrite !map_map.
  f_equal; try (apply map_ext; intro x; symmetry;
                first [apply party_eq|apply otype_eq|apply promise_eq|apply action_eq|apply checkpoint_eq|apply group_eq]).
Qed.

Lemma C16_shift_valid_lemma : forall tbl d s, conforms tbl s = true -> conforms tbl (shift d s) = true.
Proof.
  intros tbl d s H. rewrite shift_as_rename. apply ClearMs.conforms_with_clear_ms.
  change (conforms tbl (Names.rename_names (rn d) (Renumber.renumber (rho d) s)) = true).
  rewrite (Names.C15_rename_names_lemma tbl _ (rn d) (rn_inj d)).
  rewrite (Renumber.C15_renumber_ids_lemma tbl s (rho d) (rho_inj d)). exact H.
Qed.

Lemma C16_shift_valid_kf_lemma : forall tbl d s, conforms_kf tbl s = true -> conforms_kf tbl (shift d s) = true.
Proof.
  intros tbl d s H. rewrite shift_as_rename. apply ClearMs.conforms_with_clear_ms.
  change (conforms_kf tbl (Names.rename_names (rn d) (Renumber.renumber (rho d) s)) = true).
  rewrite (Names.C15_rename_names_kf tbl _ (rn d) (rn_inj d)).
  unfold conforms_kf. rewrite (Renumber.conforms_with_ren (rho d) (rho_inj d) s Cmp_kf tbl). exact H.
Qed.
End ShiftValid.

(* ================================================================== 2a, assembled *)
Lemma C16_namespacing_imported_lemma : forall native ims im, wf_i native ims = true -> In im ims ->
  (forall i p, find_party (im_schema im) i = Some p ->
     find_party (combine native ims) (im_base im + i) = Some (sh_party (im_base im) p)) /\
  (forall i t, find_type (im_schema im) i = Some t ->
     find_type (combine native ims) (im_base im + i) = Some (sh_otype (im_base im) t)) /\
  (forall i p, find_promise (im_schema im) i = Some p ->
     find_promise (combine native ims) (im_base im + i) = Some (sh_promise (im_base im) p)) /\
  (forall i g, find_group (im_schema im) i = Some g ->
     find_group (combine native ims) (im_base im + i) = Some (sh_group (im_base im) g)) /\
  (* an action: everything but depends_on, which a connection may have rewritten *)
  (forall i a, find_action (im_schema im) i = Some a ->
     exists a', find_action (combine native ims) (im_base im + i) = Some a' /\
       a_id a' = im_base im + i /\ a_name a' = im_base im + a_name a /\
       a_party a' = sh_ref (im_base im) (a_party a) /\ a_promise a' = sh_ref (im_base im) (a_promise a) /\
       a_ctx a' = sh_oref (im_base im) (a_ctx a) /\ a_op a' = sh_op (im_base im) (a_op a) /\ a_milestones a' = []) /\
  (* a checkpoint: id, alias and context; gate and dependencies may have been rewritten by a connection *)
  (forall i c, find_checkpoint (im_schema im) i = Some c ->
     exists c', find_checkpoint (combine native ims) (im_base im + i) = Some c' /\
       cp_id c' = im_base im + i /\ cp_alias c' = im_base im + cp_alias c /\ cp_ctx c' = sh_oref (im_base im) (cp_ctx c)).
Proof.
  intros native ims im WF Him. repeat split.
  - intros i p. apply found_party; assumption.
  - intros i t. apply found_type; assumption.
  - intros i p. apply found_promise; assumption.
  - intros i g. apply found_group; assumption.
  - intros i a F. destruct (found_action native ims im WF Him i a F) as (a' & F' & E).
    destruct (find_action_some _ _ _ F) as [_ Ia].
    exists a'. split; [exact F'|].
    pose proof (f_equal a_id E) as E1. pose proof (f_equal a_name E) as E2. pose proof (f_equal a_party E) as E3.
    pose proof (f_equal a_promise E) as E4. pose proof (f_equal a_ctx E) as E5. pose proof (f_equal a_op E) as E6.
    pose proof (f_equal a_milestones E) as E7. cbn in E1, E2, E3, E4, E5, E6, E7. rewrite Ia in E1. auto 10.
  - intros i c F. destruct (found_checkpoint native ims im WF Him i c F) as (c' & F' & E).
    destruct (find_checkpoint_some _ _ _ F) as [_ Ic].
    exists c'. split; [exact F'|]. unfold cp_skel in E. cbn in E. injection E as E1 E2 E3. rewrite Ic in E1. auto.
Qed.

Lemma C16_namespacing_native_lemma : forall native ims, bases_ok ims = true -> forall i, i < OFF ->
  find_party (combine native ims) i = find_party native i /\
  find_type (combine native ims) i = find_type native i /\
  find_promise (combine native ims) i = find_promise native i /\
  find_action (combine native ims) i = find_action native i /\
  find_checkpoint (combine native ims) i = find_checkpoint native i /\
  find_group (combine native ims) i = find_group native i.
Proof. exact native_lookups. Qed.

(* every reference the native schema makes into an import resolves in the combined schema *)
Lemma C16_namespacing_denotes_lemma : forall native ims im, wf_i native ims = true -> In im ims ->
  forall r, denotes (im_schema im) r = true -> denotes (combine native ims) (sh_ref (im_base im) r) = true.
Proof.
  intros native ims im WF Him r. unfold denotes. cbn [sh_ref r_kind r_id].
  destruct (C16_namespacing_imported_lemma native ims im WF Him) as (P & T & Pr & G & A & C).
  destruct (r_kind r); rewrite !isSome_true; intros [x F].
  - rewrite (P _ _ F). eauto.
  - rewrite (T _ _ F). eauto.
  - rewrite (Pr _ _ F). eauto.
  - destruct (A _ _ F) as (a' & F' & _). eauto.
  - destruct (C _ _ F) as (c' & F' & _). eauto.
  - rewrite (G _ _ F). eauto.
Qed.

(* ================================================================== 3, lifted: the one-step theorems apply at every step *)
(* The exact (iff) theorems of section 3 need the stitched id to be fresh: not declared and not referred to.  In
   the model nothing stops a native schema from referring to `base + STITCH + n` (no rendering of such a
   reference exists in the implementation: the renderer only writes schema-qualified references to entities of
   the imported file).  [wf_refs] excludes that, and then every single stitching step performed by [combine]
   satisfies the freshness hypotheses. *)
Definition cp_refs (s : schema) : list nat :=
  flat_map (fun a => own_cp (a_dep a)) (actions s) ++
  flat_map (fun g => own_cp (g_dep g)) (groups s) ++
  flat_map (fun cp => flat_map (fun d => match d with DRef r => own_cp (Some r) | _ => [] end) (cp_deps cp)) (checkpoints s).

Lemma cp_refs_action s a r : In a (actions s) -> a_dep a = Some r -> r_kind r = RCheckpoint -> In (r_id r) (cp_refs s).
Proof.
  intros I D K. unfold cp_refs. apply in_or_app. left. apply in_flat_map. exists a. split; [exact I|].
  apply own_cp_In. exists r. auto.
Qed.
Lemma cp_refs_group s g r : In g (groups s) -> g_dep g = Some r -> r_kind r = RCheckpoint -> In (r_id r) (cp_refs s).
Proof.
  intros I D K. unfold cp_refs. apply in_or_app. right. apply in_or_app. left. apply in_flat_map. exists g.
  split; [exact I|]. apply own_cp_In. exists r. auto.
Qed.
Lemma cp_refs_checkpoint s cp r : In cp (checkpoints s) -> In (DRef r) (cp_deps cp) -> r_kind r = RCheckpoint ->
  In (r_id r) (cp_refs s).
Proof.
  intros I D K. unfold cp_refs. apply in_or_app. right. apply in_or_app. right. apply in_flat_map. exists cp.
  split; [exact I|]. apply in_flat_map. exists (DRef r). split; [exact D|]. apply own_cp_In. exists r. auto.
Qed.

Lemma FreshCp_of_refs s j : find_checkpoint s j = None -> ~ In j (cp_refs s) -> FreshCp s j.
Proof.
  intros F N. split; [exact F|]. repeat split.
  - intros a r I D K E. apply N. rewrite <- E. eapply cp_refs_action; eassumption.
  - intros g r I D K E. apply N. rewrite <- E. eapply cp_refs_group; eassumption.
  - intros cp r I D K E. apply N. rewrite <- E. eapply cp_refs_checkpoint; eassumption.
Qed.

Lemma FreshCp_union a b j : FreshCp a j -> FreshCp b j -> FreshCp (union a b) j.
Proof.
  intros (F1 & A1 & G1 & C1) (F2 & A2 & G2 & C2). split.
  - unfold find_checkpoint in *. cbn [union checkpoints]. rewrite find_app, F1. exact F2.
  - cbn [union actions groups checkpoints]. repeat split; intros x r I; apply in_app_or in I; destruct I as [I|I]; eauto.
Qed.

Lemma FreshCp_shift d s j :
  (forall x, In x (checkpoints s) -> d + cp_id x <> j) -> (forall i, In i (cp_refs s) -> d + i <> j) ->
  FreshCp (shift d s) j.
Proof.
  intros NI NR. rewrite shift_eq. split.
  - destruct (find_checkpoint _ j) as [y|] eqn:F; [|reflexivity]. exfalso.
    apply (fnd_sh_some cp_id sh_checkpoint (fun _ _ => eq_refl) d j (checkpoints s) y) in F.
    destruct F as (x & I & E). exact (NI x I (eq_sym E)).
  - cbn [actions groups checkpoints]. repeat split.
    + intros a' r I D K. apply in_map_iff in I. destruct I as (a & <- & I). cbn [sh_action a_dep] in D.
      destruct (a_dep a) as [r0|] eqn:D0; [|discriminate]. cbn in D. injection D as <-. cbn [sh_ref r_kind r_id] in *.
      apply NR. eapply cp_refs_action; eassumption.
    + intros g' r I D K. apply in_map_iff in I. destruct I as (g & <- & I). cbn [sh_group g_dep] in D.
      destruct (g_dep g) as [r0|] eqn:D0; [|discriminate]. cbn in D. injection D as <-. cbn [sh_ref r_kind r_id] in *.
      apply NR. eapply cp_refs_group; eassumption.
    + intros c' r I D K. apply in_map_iff in I. destruct I as (c & <- & I). cbn [sh_checkpoint cp_deps] in D.
      apply in_map_iff in D. destruct D as (d0 & E & D). destruct d0 as [l o rr|r0]; [discriminate|].
      cbn in E. injection E as <-. cbn [sh_ref r_kind r_id] in *. apply NR. eapply cp_refs_checkpoint; eassumption.
Qed.

Lemma stitch_one_FreshCp base s n c j : FreshCp s j -> j <> base + STITCH + n -> j <> r_id (cn_add c) ->
  FreshCp (stitch_one base s n c) j.
Proof.
  intros Fr N1 N2. pose proof Fr as (F & A & G & C). split.
  - apply stitch_one_find_checkpoint_none; assumption.
  - assert (UA : forall t d, (r_kind d = RCheckpoint -> r_id d <> j) ->
                 forall a r, In a (map (upd_dep t d) (actions s)) -> a_dep a = Some r -> r_kind r = RCheckpoint -> r_id r <> j).
    { intros t d Nd a r I D K. apply in_map_iff in I. destruct I as (x & <- & I). unfold upd_dep in D.
      destruct (Nat.eqb (a_id x) t); [cbn in D; injection D as <-; auto|eauto]. }
    destruct (stitch_one_cases base s n c) as [E|[(a & K & Fa & D)|[(a & old & K & Fa & D)|(t & K & Ft)]]].
    + rewrite E. auto.
    + rewrite (stitch_one_action_none _ _ _ _ _ K Fa D). cbn [set_action_dep actions groups checkpoints].
      split; [|auto]. apply UA. auto.
    + rewrite (stitch_one_action_some _ _ _ _ _ _ K Fa D).
      cbn [set_action_dep add_checkpoint actions groups checkpoints]. split; [apply UA; cbn; auto|]. split; [exact G|].
      intros cp r I Dr Kr. apply in_app_or in I. destruct I as [I|[<-|[]]]; [eauto|].
      cbn [stitched_and cp_deps] in Dr. destruct Dr as [E|[E|[]]]; injection E as <-; [auto|].
      destruct (find_action_some _ _ _ Fa) as [Ia _]. eauto.
    + rewrite (stitch_one_checkpoint _ _ _ _ _ K Ft).
      cbn [set_checkpoint add_checkpoint actions groups checkpoints]. split; [exact A|]. split; [exact G|].
      destruct (find_checkpoint_some _ _ _ Ft) as [It _].
      intros cp r I Dr Kr. apply in_map_iff in I. destruct I as (x & <- & I).
      assert (Dx : In x (checkpoints s) \/ x = stitched_copy (base + STITCH + n) t).
      { apply in_app_or in I. destruct I as [I|[<-|[]]]; auto. }
      destruct (Nat.eqb (cp_id x) (base + r_id (cn_to c))); cbn [cp_deps] in Dr.
      * destruct Dr as [E|[E|[]]]; injection E as <-; cbn; auto.
      * destruct Dx as [Ix| ->]; [eauto|]. cbn [stitched_copy cp_deps] in Dr. eauto.
Qed.

Lemma stitch_all_FreshCp base cs : forall s n j, FreshCp s j ->
  (forall m, n <= m -> m < n + length cs -> j <> base + STITCH + m) ->
  (forall c, In c cs -> j <> r_id (cn_add c)) -> FreshCp (stitch_all base s n cs) j.
Proof.
  induction cs as [|c r IH]; intros s n j Fr N1 N2; cbn [stitch_all]; [exact Fr|]. cbn [length] in N1.
  apply IH.
  - apply stitch_one_FreshCp; [exact Fr|apply N1; lia|apply N2; left; reflexivity].
  - intros m A B. apply N1; lia.
  - intros c' I. apply N2. right. exact I.
Qed.

Definition in_zone (B j : nat) : bool := Nat.leb (B + STITCH) j && Nat.ltb j (B + OFF).

(* native checkpoint references avoid the stitch zones; imported ones are below STITCH; added checkpoints are native *)
Definition wf_refs (native : schema) (ims : list import) : bool :=
  forallb (fun j => forallb (fun im => negb (in_zone (im_base im) j)) ims) (cp_refs native) &&
  forallb (fun im => forallb (fun j => Nat.ltb j STITCH) (cp_refs (im_schema im)) &&
                     forallb (fun c => Nat.ltb (r_id (cn_add c)) OFF) (im_conns im)) ims.

Lemma wf_refs_inv native ims : wf_refs native ims = true ->
  (forall j im, In j (cp_refs native) -> In im ims -> ~ (im_base im + STITCH <= j /\ j < im_base im + OFF)) /\
  (forall im, In im ims -> (forall j, In j (cp_refs (im_schema im)) -> j < STITCH) /\
                           (forall c, In c (im_conns im) -> r_id (cn_add c) < OFF)).
Proof.
  unfold wf_refs. rewrite andb_true_iff, !forallb_forall. intros [H1 H2]. split.
  - intros j im Ij Im [A B]. specialize (H1 j Ij). rewrite forallb_forall in H1. specialize (H1 im Im).
    unfold in_zone in H1. apply negb_true_iff, andb_false_iff in H1.
    destruct H1 as [H1|H1]; [apply Nat.leb_gt in H1|apply Nat.ltb_ge in H1]; lia.
  - intros im Im. specialize (H2 im Im). rewrite andb_true_iff, !forallb_forall in H2. destruct H2 as [H2 H3].
    split; [intros j I; apply Nat.ltb_lt; auto|intros c I; apply Nat.ltb_lt; auto].
Qed.

Definition GoodRefs (im : import) : Prop :=
  GoodAll im /\ (forall j, In j (cp_refs (im_schema im)) -> j < STITCH) /\
  (forall c, In c (im_conns im) -> r_id (cn_add c) < OFF).

(* j lies in the stitch zone of a base other than that of [im] *)
Lemma step_FreshCp s im B j : FreshCp s j -> GoodRefs im -> GoodBase B -> im_base im <> B ->
  B + STITCH <= j -> j < B + OFF -> FreshCp (step s im) j.
Proof.
  intros Fr ((Gb & Gi & Gl) & Gr & Ga) GB NB L1 L2. unfold step.
  destruct (ids_below_inv _ _ Gi) as (_ & _ & _ & _ & LC & _).
  apply stitch_all_FreshCp.
  - apply FreshCp_union; [exact Fr|]. apply FreshCp_shift.
    + intros x I E. specialize (LC x I).
      refine (block_ne _ _ j j Gb GB NB _ _ _ L2 eq_refl); unfold OFF, STITCH in *; lia.
    + intros i I E. specialize (Gr i I).
      refine (block_ne _ _ j j Gb GB NB _ _ _ L2 eq_refl); unfold OFF, STITCH in *; lia.
  - intros m _ Lm E. refine (block_ne _ _ j j Gb GB NB _ _ _ L2 eq_refl); unfold OFF, STITCH in *; lia.
  - intros c I E. specialize (Ga c I). apply GoodBase_ge in GB. unfold OFF, STITCH in *; lia.
Qed.

Lemma fold_FreshCp pre : forall s B j, FreshCp s j -> GoodBase B -> B + STITCH <= j -> j < B + OFF ->
  (forall im, In im pre -> GoodRefs im /\ im_base im <> B) -> FreshCp (fold_left step pre s) j.
Proof.
  induction pre as [|im r IH]; intros s B j Fr GB L1 L2 G; cbn [fold_left]; [exact Fr|].
  apply (IH _ B); try assumption; [|intros im' I; apply G; right; exact I].
  destruct (G im (or_introl eq_refl)) as [G1 G2]. eapply step_FreshCp; eassumption.
Qed.

Lemma stitch_all_app base cs1 : forall cs2 s n,
  stitch_all base s n (cs1 ++ cs2) = stitch_all base (stitch_all base s n cs1) (n + length cs1) cs2.
Proof.
  induction cs1 as [|c r IH]; intros cs2 s n; cbn [app stitch_all length].
  - rewrite Nat.add_0_r. reflexivity.
  - rewrite IH. f_equal. lia.
Qed.

(* every stitching step of [combine]: the schema [s] it is applied to, the freshness of its stitched id there, and
   how the combined schema is obtained from the result *)
Lemma C16_every_step_fresh_lemma : forall native ims, wf_i native ims = true -> wf_refs native ims = true ->
  forall pre im post cs1 c cs2, ims = pre ++ im :: post -> im_conns im = cs1 ++ c :: cs2 ->
  exists s,
    s = stitch_all (im_base im) (union (fold_left step pre native) (shift (im_base im) (im_schema im))) 0 cs1 /\
    FreshCp s (im_base im + STITCH + length cs1) /\
    r_id (cn_add c) <> im_base im + STITCH + length cs1 /\
    combine native ims =
      fold_left step post (stitch_all (im_base im) (stitch_one (im_base im) s (length cs1) c) (S (length cs1)) cs2).
Proof.
  intros native ims WF WR pre im post cs1 c cs2 E Ec.
  destruct (wf_i_inv _ _ WF) as (B & N & G). destruct (bases_ok_inv _ B) as [ND GB].
  destruct (wf_refs_inv _ _ WR) as [RN RI].
  assert (Him : In im ims) by (rewrite E; apply in_or_app; right; left; reflexivity).
  assert (GR : forall im', In im' ims -> GoodRefs im').
  { intros im' I. destruct (G im' I). destruct (RI im' I). split; [split; [apply GB; exact I|auto]|auto]. }
  assert (Dpre : forall im', In im' pre -> im_base im' <> im_base im).
  { intros im' I Eq. rewrite E, map_app in ND. cbn [map] in ND.
    apply (NoDup_app_disjoint _ _ (im_base im) ND); [rewrite <- Eq; apply in_map; exact I|left; reflexivity]. }
  destruct (GR im Him) as ((Gb & Gi & Gl) & Gr & Ga).
  destruct (ids_below_inv _ _ N) as (_ & _ & _ & _ & NC & _).
  destruct (ids_below_inv _ _ Gi) as (_ & _ & _ & _ & LC & _).
  assert (Lc : length cs1 < length (im_conns im)) by (rewrite Ec, app_length; cbn; lia).
  set (f := im_base im + STITCH + length cs1).
  assert (Z1 : im_base im + STITCH <= f) by (unfold f; lia).
  assert (Z2 : f < im_base im + OFF) by (unfold f, OFF, STITCH in *; lia).
  eexists. split; [reflexivity|]. split; [|split].
  - apply stitch_all_FreshCp.
    + apply FreshCp_union.
      * apply (fold_FreshCp pre native (im_base im) f); try assumption.
        -- apply FreshCp_of_refs.
           ++ destruct (find_checkpoint native f) as [x|] eqn:F; [|reflexivity].
              destruct (find_checkpoint_some _ _ _ F) as [I Ix]. specialize (NC x I).
              apply GoodBase_ge in Gb. unfold f, OFF, STITCH in *. lia.
           ++ intro I. exact (RN f im I Him (conj Z1 Z2)).
        -- intros im' I. split; [apply GR; rewrite E; apply in_or_app; left; exact I|apply Dpre; exact I].
      * apply FreshCp_shift.
        -- intros x I Eq. specialize (LC x I). unfold f in Eq. lia.
        -- intros i I Eq. specialize (Gr i I). unfold f in Eq. lia.
    + intros m _ Lm Eq. unfold f in Eq. lia.
    + intros c' I Eq. assert (Ic : In c' (im_conns im)) by (rewrite Ec; apply in_or_app; left; exact I).
      specialize (Ga c' Ic). apply GoodBase_ge in Gb. unfold f, OFF, STITCH in *. lia.
  - assert (Ic : In c (im_conns im)) by (rewrite Ec; apply in_or_app; right; left; reflexivity).
    specialize (Ga c Ic). apply GoodBase_ge in Gb. unfold OFF, STITCH in *. lia.
  - rewrite combine_fold, E, fold_left_app. cbn [fold_left]. f_equal. unfold step at 1.
    rewrite Ec, stitch_all_app. cbn [stitch_all Nat.add]. reflexivity.
Qed.

(* ================================================================== a concrete accepted importing schema *)
(* generated by harness/imports.py (gen_valid_i, seed 5): two imports; the first has a connection onto an action that
   already has a depends_on (imported action 19, held by checkpoint 26; native checkpoint 47 is added), the second a
   connection onto a checkpoint (imported checkpoint 37; native checkpoint 48 is added); the native action 38 depends,
   through checkpoint 46, on the imported action 2018 *)
Module Examples.
Definition ex_native : schema :=
  (Build_schema [(Build_party 5 205); (Build_party 8 208)] [(Build_otype 29 129 [(Build_attr 0 (KField STRING)); (Build_attr 3 (KField NUMERIC));
    (Build_attr 7 (KEdge (Ref RType 29))); (Build_attr 4 (KField STRING_LIST)); (Build_attr 2 (KField NUMERIC_LIST)); (Build_attr 5 (KField
    BOOLEAN_LIST))])] [(Build_promise 16 316 (Ref RType 29) None); (Build_promise 35 335 (Ref RType 29) None); (Build_promise 29 329 (Ref RType 29)
    None); (Build_promise 6 306 (Ref RType 29) None); (Build_promise 36 336 (Ref RType 29) None)] [(Build_action 37 437 (Ref RParty 8) (Ref RPromise
    16) None None (Build_operation (Exclude (Some [7])) [(4, SEmpty); (2, SEmpty)] [] None) []); (Build_action 8 408 (Ref RParty 5) (Ref RPromise 35)
    None (Some (Ref RCheckpoint 41)) (Build_operation (Exclude (Some [])) [(3, SInt); (2, SNums)] [(7, (Ref RPromise 16))] None) []); (Build_action 2
    402 (Ref RParty 5) (Ref RPromise 29) None (Some (Ref RCheckpoint 40)) (Build_operation (Include (Some [7; 2])) [(5, SBools)] [] None) []);
    (Build_action 0 400 (Ref RParty 8) (Ref RPromise 6) None (Some (Ref RCheckpoint 45)) (Build_operation (Include (Some [5; 3; 0])) [(0, SStr)] [(7,
    (Ref RPromise 29))] None) []); (Build_action 38 438 (Ref RParty 5) (Ref RPromise 36) None (Some (Ref RCheckpoint 46)) (Build_operation (Include
    (Some [0])) [] [] None) [])] [(Build_checkpoint 41 541 None [(DCmp (OAct (Ref RAction 37) [0]) EQUALS (OLit (Lit SStr 1)))] None);
    (Build_checkpoint 40 540 (Some G_XOR) [(DCmp (OAct (Ref RAction 8) []) LESS_THAN_OR_EQUAL_TO (OLit (Lit SNull 2))); (DRef (Ref RCheckpoint 41));
    (DCmp (OAct (Ref RAction 37) [7; 4]) CONTAINS_NONE_OF (OLit (Lit SEmpty 3)))] None); (Build_checkpoint 45 545 None [(DCmp (OAct (Ref RAction 2)
    [7; 7; 5]) CONTAINS (OLit (Lit SBool 4)))] None); (Build_checkpoint 46 546 None [(DCmp (OAct (Ref RAction 2018) []) ONE_OF (OLit (Lit SNull 5)))]
    None); (Build_checkpoint 47 547 None [(DCmp (OLit (Lit SEmpty 5)) EQUALS (OAct (Ref RAction 0) [2]))] None); (Build_checkpoint 48 548 None [(DCmp
    (OLit (Lit SInt 6)) GREATER_THAN (OAct (Ref RAction 0) [7; 7; 3]))] None)] []).

Definition ex_ims : list import :=
  [(Build_import 1000 true (Build_schema [(Build_party 1 201); (Build_party 4 204)] [(Build_otype 11 111 [(Build_attr 10 (KField STRING)); (Build_attr 8
    (KField NUMERIC)); (Build_attr 0 (KEdge (Ref RType 11))); (Build_attr 7 (KEdge (Ref RType 25))); (Build_attr 3 (KField STRING_LIST)); (Build_attr
    5 (KField NUMERIC)); (Build_attr 9 (KEdge (Ref RType 25))); (Build_attr 1 (KField STRING))]); (Build_otype 25 125 [(Build_attr 3 (KField STRING));
    (Build_attr 11 (KField NUMERIC)); (Build_attr 2 (KEdge (Ref RType 11)))]); (Build_otype 22 122 [(Build_attr 11 (KField STRING)); (Build_attr 3
    (KField NUMERIC)); (Build_attr 6 (KField NUMERIC_LIST)); (Build_attr 4 (KField STRING_LIST))])] [(Build_promise 20 320 (Ref RType 25) None);
    (Build_promise 11 311 (Ref RType 25) None); (Build_promise 30 330 (Ref RType 11) None)] [(Build_action 22 422 (Ref RParty 4) (Ref RPromise 20)
    None None (Build_operation (Include (Some [2])) [(11, SInt)] [] None) []); (Build_action 19 419 (Ref RParty 4) (Ref RPromise 11) None (Some (Ref
    RCheckpoint 26)) (Build_operation (Exclude None) [] [] None) [0]); (Build_action 30 430 (Ref RParty 4) (Ref RPromise 30) None (Some (Ref
    RCheckpoint 35)) (Build_operation (Include None) [(8, SInt); (5, SInt)] [(7, (Ref RPromise 20)); (9, (Ref RPromise 20))] None) [3])]
    [(Build_checkpoint 26 526 None [(DCmp (OAct (Ref RAction 22) [2; 0; 8]) GREATER_THAN_OR_EQUAL_TO (OLit (Lit SFloat 1)))] None); (Build_checkpoint
    35 535 (Some G_XOR) [(DCmp (OAct (Ref RAction 22) [3]) ONE_OF (OLit (Lit SStrs 2))); (DCmp (OAct (Ref RAction 19) [2; 9; 3]) NONE_OF (OLit (Lit
    SStrs 3)))] None)] []) [(Build_conn (Ref RAction 19) (Ref RCheckpoint 47))]); (Build_import 2000 true (Build_schema [(Build_party 3 203)]
    [(Build_otype 2 102 [(Build_attr 11 (KField STRING)); (Build_attr 9 (KField NUMERIC)); (Build_attr 0 (KEdgeColl (Ref RType 25))); (Build_attr 4
    (KEdgeColl (Ref RType 25))); (Build_attr 5 (KEdge (Ref RType 2)))]); (Build_otype 25 125 [(Build_attr 8 (KField STRING)); (Build_attr 4 (KField
    NUMERIC)); (Build_attr 5 (KEdge (Ref RType 25))); (Build_attr 10 (KField BOOLEAN_LIST)); (Build_attr 7 (KField NUMERIC_LIST)); (Build_attr 2
    (KField BOOLEAN_LIST))])] [(Build_promise 26 326 (Ref RType 2) None); (Build_promise 10 310 (Ref RType 2) None); (Build_promise 39 339 (Ref RType
    25) None); (Build_promise 37 337 (Ref RType 2) None)] [(Build_action 23 423 (Ref RParty 3) (Ref RPromise 26) None None (Build_operation (Include
    (Some [])) [] [] None) []); (Build_action 30 430 (Ref RParty 3) (Ref RPromise 10) None None (Build_operation (Include (Some [])) [] [] None) []);
    (Build_action 18 418 (Ref RParty 3) (Ref RPromise 39) None (Some (Ref RCheckpoint 28)) (Build_operation (Include (Some [8; 7])) [(4, SFloat)] []
    None) []); (Build_action 5 405 (Ref RParty 3) (Ref RPromise 37) None (Some (Ref RCheckpoint 37)) (Build_operation (Include (Some [4])) [(11,
    SStr)] [] None) [])] [(Build_checkpoint 28 528 None [(DCmp (OAct (Ref RAction 23) []) IS_SUPERSET_OF (OLit (Lit SNull 1)))] None);
    (Build_checkpoint 37 537 (Some G_XOR) [(DCmp (OAct (Ref RAction 30) [4; 8]) GREATER_THAN_OR_EQUAL_TO (OLit (Lit SNull 4))); (DCmp (OAct (Ref
    RAction 18) [5; 5; 4]) NONE_OF (OLit (Lit SNums 3))); (DCmp (OAct (Ref RAction 23) [4; 5]) LESS_THAN_OR_EQUAL_TO (OLit (Lit SNull 2)))] None)] [])
    [(Build_conn (Ref RCheckpoint 37) (Ref RCheckpoint 48))])].

Example ex_wf : wf_i ex_native ex_ims = true.
Proof. vm_compute. reflexivity. Qed.
Example ex_wf_refs : wf_refs ex_native ex_ims = true.
Proof. vm_compute. reflexivity. Qed.
Example ex_accepted : conforms_i Gen.Tables.default_value_table ex_native ex_ims = true.
Proof. vm_compute. reflexivity. Qed.

Lemma ex_satisfiable :
  wf_i ex_native ex_ims = true /\ wf_refs ex_native ex_ims = true /\
  conforms_i Gen.Tables.default_value_table ex_native ex_ims = true.
Proof. split; [exact ex_wf|]. split; [exact ex_wf_refs|exact ex_accepted]. Qed.

(* the connected action 1019 depends on what the added native checkpoint 47 mentions (native action 0), and still on
   what it depended on in the imported schema (imported action 22) *)
Example ex_connected_action :
  Dep (combine ex_native ex_ims) 1019 0 /\ Dep (combine ex_native ex_ims) 1019 1022.
Proof.
  assert (Him : In (nth 0 ex_ims (Build_import 0 false ex_native [])) ex_ims) by (left; reflexivity).
  destruct (C16_connection_adds_combined_lemma _ _ _ ex_wf ex_accepted _ (Build_conn (Ref RAction 19) (Ref RCheckpoint 47)) Him
              (or_introl eq_refl)) as [A _].
  split; apply (A eq_refl).
  - left. eapply M_cmp; [vm_compute; reflexivity|left; reflexivity|]. cbn. auto.
  - right. eexists _, 1026. split; [vm_compute; reflexivity|]. split.
    + left. eexists. split; [reflexivity|]. split; reflexivity.
    + eapply M_cmp; [vm_compute; reflexivity|left; reflexivity|]. cbn. auto.
Qed.
End Examples.
