(* Import trees (property C16 at import depth > 1, Model/ImportsDeep.v): the deep verdict extends the flat one of
   Model/Imports.v, acceptance says something about every entry at every depth, the combined schema of an accepted
   tree has no dependency cycle, and a nested connection adds exactly its importer's checkpoint. *)
From Coq Require Import List Bool Arith Lia Relations.
From OIS Require Import Base.Types Base.PipeTypes Spec.Compare Model.Schema Model.Rules Spec.DepRel Model.Imports Model.ImportsDeep.
From OIS Require Import Proofs.ConformsInv Proofs.CycleProofs Proofs.ImportProofs.
From OIS Require Gen.Tables.
Import ListNotations.

(* ================================================================== 0. the verdict as a conjunction *)
(* deciding the cycle search first is only an evaluation order *)
Lemma verdict_on_eq cmp tbl s : verdict_on cmp tbl s = conforms_with cmp tbl s.
Proof.
  unfold verdict_on. destruct (has_cycle s) eqn:E; [|reflexivity].
  unfold conforms_with. rewrite E. symmetry. apply andb_false_r.
Qed.

Lemma tree_ok_unfold cmp tbl parent im kids :
  tree_ok cmp tbl parent (INode im kids) = entry_ok parent im && conforms_deep_with cmp tbl (im_schema im) kids.
Proof. reflexivity. Qed.

Lemma conforms_deep_with_spec_lemma cmp tbl native kids :
  conforms_deep_with cmp tbl native kids =
  bases_ok (map t_im kids) && forallb (tree_ok cmp tbl native) kids && conforms_with cmp tbl (combine_deep native kids).
Proof.
  unfold conforms_deep_with. rewrite verdict_on_eq.
  destruct (bases_ok (map t_im kids)); [|reflexivity].
  destruct (forallb (tree_ok cmp tbl native) kids); reflexivity.
Qed.

Lemma conforms_deep_with_inv cmp tbl native kids : conforms_deep_with cmp tbl native kids = true ->
  bases_ok (map t_im kids) = true /\ (forall t, In t kids -> tree_ok cmp tbl native t = true) /\
  conforms_with cmp tbl (combine_deep native kids) = true.
Proof. rewrite conforms_deep_with_spec_lemma, !andb_true_iff, forallb_forall. tauto. Qed.

Lemma entry_ok_inv parent im : entry_ok parent im = true ->
  im_readable im = true /\ (forall c, In c (im_conns im) -> conn_ok parent im c = true) /\
  nodup_by ref_eqb (map cn_to (im_conns im)) = true.
Proof. unfold entry_ok. rewrite !andb_true_iff, forallb_forall. tauto. Qed.

(* ================================================================== 1. conservative extension *)
Lemma sh_ref_0 r : sh_ref 0 r = r.
Proof. destruct r; reflexivity. Qed.

Lemma sh_conn_0 c : sh_conn 0 c = c.
Proof. destruct c as [t a]. unfold sh_conn. cbn [cn_to cn_add]. rewrite sh_ref_0. reflexivity. Qed.

Lemma map_sh_conn_0 l : map (sh_conn 0) l = l.
Proof. induction l as [|c r IH]; [reflexivity|]. cbn [map]. rewrite sh_conn_0, IH. reflexivity. Qed.

Lemma stitch_tree_leaf st im : mem_nat (im_base im) (ds_seen st) = false ->
  stitch_tree 0 (leaf im) st =
  {| ds_schema := step (ds_schema st) im; ds_seen := im_base im :: ds_seen st; ds_n := ds_n st + length (im_conns im) |}.
Proof.
  intro H. unfold leaf. cbn [stitch_tree]. change (0 + im_base im) with (im_base im). rewrite H.
  cbn [fold_left ds_schema ds_seen ds_n]. rewrite map_sh_conn_0. reflexivity.
Qed.

Lemma stitch_forest_cons pb t r st : stitch_forest pb (t :: r) st = stitch_forest pb r (stitch_tree pb t st).
Proof. reflexivity. Qed.

Lemma mem_nat_cons x y l : mem_nat x (y :: l) = Nat.eqb x y || mem_nat x l.
Proof. reflexivity. Qed.

Lemma stitch_forest_leaves ims : forall st, nodup_nat (map im_base ims) = true ->
  (forall im, In im ims -> mem_nat (im_base im) (ds_seen st) = false) ->
  ds_schema (stitch_forest 0 (map leaf ims) st) = fold_left step ims (ds_schema st).
Proof.
  induction ims as [|im r IH]; intros st ND FR; [reflexivity|].
  cbn [map]. rewrite stitch_forest_cons.
  rewrite stitch_tree_leaf by (apply FR; left; reflexivity).
  cbn [map nodup_nat] in ND. apply andb_true_iff in ND. destruct ND as [NI ND].
  rewrite IH; [reflexivity|exact ND|].
  intros im' Hin. cbn [ds_seen]. rewrite mem_nat_cons. rewrite (FR im' (or_intror Hin)), orb_false_r.
  apply Nat.eqb_neq. intro E. apply negb_true_iff in NI. apply mem_nat_false in NI. apply NI.
  rewrite <- E. apply in_map. exact Hin.
Qed.

Lemma combine_deep_leaves native ims : nodup_nat (map im_base ims) = true ->
  combine_deep native (map leaf ims) = combine native ims.
Proof.
  intro ND. unfold combine_deep. rewrite stitch_forest_leaves; [|exact ND|intros; reflexivity].
  rewrite combine_fold. reflexivity.
Qed.

Lemma tree_ok_leaf cmp tbl native im : tree_ok cmp tbl native (leaf im) = import_ok cmp tbl native im.
Proof.
  unfold leaf. rewrite tree_ok_unfold, conforms_deep_with_spec_lemma.
  change (combine_deep (im_schema im) []) with (im_schema im).
  change (bases_ok (map t_im [])) with true. cbn [forallb andb].
  unfold entry_ok, import_ok.
  destruct (im_readable im); [|reflexivity]. cbn [andb].
  destruct (conforms_with cmp tbl (im_schema im)); [|rewrite andb_false_r; reflexivity].
  rewrite andb_true_r. reflexivity.
Qed.

Lemma forallb_leaves cmp tbl native ims :
  forallb (tree_ok cmp tbl native) (map leaf ims) = forallb (import_ok cmp tbl native) ims.
Proof. induction ims as [|im r IH]; [reflexivity|]. cbn [map forallb]. rewrite tree_ok_leaf, IH. reflexivity. Qed.

Lemma map_t_im_leaves ims : map t_im (map leaf ims) = ims.
Proof. induction ims as [|im r IH]; [reflexivity|]. cbn [map]. rewrite IH. reflexivity. Qed.

(* on trees whose entries import nothing themselves the deep verdict IS the verdict of Model/Imports.v *)
Lemma C16_deep_conservative_lemma : forall cmp tbl native ims,
  conforms_deep_with cmp tbl native (map leaf ims) = conforms_i_with cmp tbl native ims.
Proof.
  intros cmp tbl native ims. rewrite conforms_deep_with_spec_lemma. unfold conforms_i_with.
  rewrite map_t_im_leaves, forallb_leaves.
  destruct (bases_ok ims) eqn:B; [|reflexivity].
  rewrite combine_deep_leaves; [reflexivity|].
  unfold bases_ok in B. apply andb_true_iff in B. exact (proj1 B).
Qed.

Lemma C16_deep_conservative_spec_lemma : forall tbl native ims,
  conforms_deep tbl native (map leaf ims) = conforms_i tbl native ims.
Proof. intros. apply C16_deep_conservative_lemma. Qed.

Lemma C16_deep_conservative_kf_lemma : forall tbl native ims,
  conforms_deep_kf tbl native (map leaf ims) = conforms_i_kf tbl native ims.
Proof. intros. apply C16_deep_conservative_lemma. Qed.

(* ================================================================== 2. every entry at every depth *)
(* [Entry root kids parent t]: t is an import entry somewhere in the tree, listed in the "imports" array of the
   schema [parent] (the native schema for the top level, the imported schema of the enclosing entry below) *)
Inductive Entry (root : schema) (kids : list itree) : schema -> itree -> Prop :=
| Entry_top t : In t kids -> Entry root kids root t
| Entry_sub p im ks t : Entry root kids p (INode im ks) -> In t ks -> Entry root kids (im_schema im) t.

Lemma Entry_tree_ok cmp tbl native kids : conforms_deep_with cmp tbl native kids = true ->
  forall parent t, Entry native kids parent t -> tree_ok cmp tbl parent t = true.
Proof.
  intros H parent t E. induction E as [t Hin | p im ks t E IH Hin].
  - destruct (conforms_deep_with_inv _ _ _ _ H) as (_ & HT & _). apply HT. exact Hin.
  - rewrite tree_ok_unfold in IH. apply andb_true_iff in IH. destruct IH as [_ IH].
    destruct (conforms_deep_with_inv _ _ _ _ IH) as (_ & HT & _). apply HT. exact Hin.
Qed.

Definition conn_facts (parent : schema) (im : import) (c : conn) : Prop :=
  ((r_kind (cn_to c) = RAction /\ exists a, find_action (im_schema im) (r_id (cn_to c)) = Some a) \/
   (r_kind (cn_to c) = RCheckpoint /\ exists t, find_checkpoint (im_schema im) (r_id (cn_to c)) = Some t)) /\
  r_kind (cn_add c) = RCheckpoint /\ exists k, find_checkpoint parent (r_id (cn_add c)) = Some k.

Lemma C16_deep_bad_import_rejected_with cmp tbl native kids : conforms_deep_with cmp tbl native kids = true ->
  forall parent im ks, Entry native kids parent (INode im ks) ->
    im_readable im = true /\
    (forall c, In c (im_conns im) -> conn_facts parent im c) /\
    nodup_by ref_eqb (map cn_to (im_conns im)) = true /\
    bases_ok (map t_im ks) = true /\
    conforms_deep_with cmp tbl (im_schema im) ks = true.
Proof.
  intros H parent im ks E. pose proof (Entry_tree_ok _ _ _ _ H _ _ E) as T.
  rewrite tree_ok_unfold in T. apply andb_true_iff in T. destruct T as [EO ISO].
  destruct (entry_ok_inv _ _ EO) as (R & K & U).
  split; [exact R|]. split; [|split; [exact U|split; [|exact ISO]]].
  - intros c Hc. apply conn_ok_inv. apply K. exact Hc.
  - exact (proj1 (conforms_deep_with_inv _ _ _ _ ISO)).
Qed.

Lemma C16_deep_bad_import_rejected_lemma : forall tbl native kids, conforms_deep tbl native kids = true ->
  forall parent im ks, Entry native kids parent (INode im ks) ->
    im_readable im = true /\
    (forall c, In c (im_conns im) -> conn_facts parent im c) /\
    nodup_by ref_eqb (map cn_to (im_conns im)) = true /\
    bases_ok (map t_im ks) = true /\
    conforms_deep tbl (im_schema im) ks = true.
Proof. intros tbl native kids. apply C16_deep_bad_import_rejected_with. Qed.

Lemma C16_deep_bad_import_rejected_kf_lemma : forall tbl native kids, conforms_deep_kf tbl native kids = true ->
  forall parent im ks, Entry native kids parent (INode im ks) ->
    im_readable im = true /\
    (forall c, In c (im_conns im) -> conn_facts parent im c) /\
    nodup_by ref_eqb (map cn_to (im_conns im)) = true /\
    bases_ok (map t_im ks) = true /\
    conforms_deep_kf tbl (im_schema im) ks = true.
Proof. intros tbl native kids. apply C16_deep_bad_import_rejected_with. Qed.

(* an imported schema that imports nothing is valid on its own *)
Lemma C16_deep_leaf_valid_lemma : forall tbl native kids, conforms_deep tbl native kids = true ->
  forall parent im, Entry native kids parent (INode im []) -> conforms tbl (im_schema im) = true.
Proof.
  intros tbl native kids H parent im E.
  destruct (C16_deep_bad_import_rejected_lemma _ _ _ H _ _ _ E) as (_ & _ & _ & _ & C).
  exact (proj2 (proj2 (conforms_deep_with_inv _ _ _ _ C))).
Qed.

(* ================================================================== 3. cycles and scope violations, at every level *)
Lemma C16_deep_acyclic_with cmp tbl native kids : conforms_deep_with cmp tbl native kids = true ->
  Acyclic (combine_deep native kids).
Proof.
  intro H. destruct (conforms_deep_with_inv _ _ _ _ H) as (_ & _ & C). eapply conforms_with_acyclic. exact C.
Qed.

Lemma C16_deep_cycle_rejected_lemma : forall tbl native kids, conforms_deep tbl native kids = true ->
  Acyclic (combine_deep native kids) /\
  forall parent im ks, Entry native kids parent (INode im ks) -> Acyclic (combine_deep (im_schema im) ks).
Proof.
  intros tbl native kids H. split; [exact (C16_deep_acyclic_with _ _ _ _ H)|].
  intros parent im ks E. destruct (C16_deep_bad_import_rejected_lemma _ _ _ H _ _ _ E) as (_ & _ & _ & _ & C).
  exact (C16_deep_acyclic_with _ _ _ _ C).
Qed.

Lemma C16_deep_cycle_rejected_kf_lemma : forall tbl native kids, conforms_deep_kf tbl native kids = true ->
  Acyclic (combine_deep native kids) /\
  forall parent im ks, Entry native kids parent (INode im ks) -> Acyclic (combine_deep (im_schema im) ks).
Proof.
  intros tbl native kids H. split; [exact (C16_deep_acyclic_with _ _ _ _ H)|].
  intros parent im ks E. destruct (C16_deep_bad_import_rejected_kf_lemma _ _ _ H _ _ _ E) as (_ & _ & _ & _ & C).
  exact (C16_deep_acyclic_with _ _ _ _ C).
Qed.

(* the contrapositive the property states: a tree whose combined schema has a dependency cycle is not accepted *)
Lemma C16_deep_cyclic_not_accepted_lemma : forall tbl native kids,
  ~ Acyclic (combine_deep native kids) -> conforms_deep tbl native kids = false.
Proof.
  intros tbl native kids NA. destruct (conforms_deep tbl native kids) eqn:E; [|reflexivity].
  exfalso. apply NA. exact (C16_deep_acyclic_with _ _ _ _ E).
Qed.

Lemma C16_deep_scope_lemma : forall tbl native kids, conforms_deep tbl native kids = true ->
  scope_clauses (combine_deep native kids).
Proof.
  intros tbl native kids H. destruct (conforms_deep_with_inv _ _ _ _ H) as (_ & _ & C).
  eapply conforms_scope_clauses. exact C.
Qed.

(* ================================================================== 4. what a nested connection adds *)
(* how an entry is stitched: a later entry for a loaded file contributes its connections only, shifted by its importer *)
Lemma stitch_tree_loaded pb im kids st : mem_nat (pb + im_base im) (ds_seen st) = true ->
  ds_schema (stitch_tree pb (INode im kids) st) =
  stitch_all (pb + im_base im) (ds_schema st) (ds_n st) (map (sh_conn pb) (im_conns im)).
Proof. intro H. cbn [stitch_tree]. rewrite H. reflexivity. Qed.

Lemma stitch_tree_first pb im kids st : mem_nat (pb + im_base im) (ds_seen st) = false ->
  ds_schema (stitch_tree pb (INode im kids) st) =
  stitch_all (pb + im_base im)
    (ds_schema (stitch_forest (pb + im_base im) kids
       {| ds_schema := union (ds_schema st) (shift (pb + im_base im) (im_schema im));
          ds_seen := (pb + im_base im) :: ds_seen st; ds_n := ds_n st |}))
    0 (map (sh_conn pb) (im_conns im)).
Proof. intro H. cbn [stitch_tree]. rewrite H. reflexivity. Qed.

(* one stitching step of a connection listed by an importer at absolute base pb, onto a file at absolute base b: the
   target action depends on what it depended on before and on what the IMPORTER's checkpoint (id pb + ...) mentions *)
Lemma C16_deep_nested_connection_adds_lemma : forall pb b s n c a,
  r_kind (cn_to c) = RAction -> r_kind (cn_add c) = RCheckpoint ->
  find_action s (b + r_id (cn_to c)) = Some a ->
  FreshCp s (b + STITCH + n) -> pb + r_id (cn_add c) <> b + STITCH + n ->
  forall x, Dep (stitch_one b s n (sh_conn pb c)) (b + r_id (cn_to c)) x <->
            Dep s (b + r_id (cn_to c)) x \/ Mentions s (pb + r_id (cn_add c)) x.
Proof.
  intros pb b s n c a K1 K2 F Fr Ne x.
  exact (C16_connection_adds_action_lemma b s n (sh_conn pb c) a K1 K2 F Fr Ne x).
Qed.

Lemma C16_deep_nested_connection_adds_checkpoint_lemma : forall pb b s n c tc,
  r_kind (cn_to c) = RCheckpoint -> r_kind (cn_add c) = RCheckpoint ->
  find_checkpoint s (b + r_id (cn_to c)) = Some tc ->
  FreshCp s (b + STITCH + n) -> pb + r_id (cn_add c) <> b + STITCH + n ->
  forall x, Mentions (stitch_one b s n (sh_conn pb c)) (b + r_id (cn_to c)) x <->
            Mentions s (b + r_id (cn_to c)) x \/ Mentions s (pb + r_id (cn_add c)) x.
Proof.
  intros pb b s n c tc K1 K2 F Fr Ne x.
  exact (C16_connection_adds_checkpoint_lemma b s n (sh_conn pb c) tc K1 K2 F Fr Ne x).
Qed.

(* ... and every other action keeps exactly its dependencies *)
Lemma C16_deep_nested_connection_other_actions_lemma : forall pb b s n c,
  r_kind (cn_to c) = RAction -> FreshCp s (b + STITCH + n) ->
  forall y, y <> b + r_id (cn_to c) -> forall x, Dep (stitch_one b s n (sh_conn pb c)) y x <-> Dep s y x.
Proof.
  intros pb b s n c K Fr y Hy x.
  exact (C16_connection_other_actions_lemma b s n (sh_conn pb c) K Fr y Hy x).
Qed.

(* ================================================================== 5. the deep verdict is not vacuous *)
(* A diamond of depth 2 (generated by the harness, accepted / rejected by the implementation as stated):
   the native schema imports M (range 1000) and L (range 2000), M imports L (relative range 1000).
   L: action 1 depends on action 0.  M: action 2 depends on L's action 1 (id 1001 inside M); M's entry for L connects
   L.action 1 to M's checkpoint 5 (which mentions M.action 0).  Native: action 0 depends on L's action 1 (id 2001);
   the entry for M connects M.action 0, the entry for L connects L.action 0. *)
Module DeepExamples.
Definition ex_N_cyclic : schema := (Build_schema [(Build_party 0 200)] [(Build_otype 0 100 [(Build_attr 0 (KField STRING)); (Build_attr 1 (KField
    NUMERIC))])] [(Build_promise 0 300 (Ref RType 0) None); (Build_promise 3 303 (Ref RType 0) None)] [(Build_action 0 400 (Ref RParty 0) (Ref
    RPromise 0) None (Some (Ref RCheckpoint 1)) (Build_operation (Include (Some [0])) [] [] None) []); (Build_action 3 403 (Ref RParty 0) (Ref
    RPromise 3) None None (Build_operation (Include (Some [0])) [] [] None) [])] [(Build_checkpoint 1 501 None [(DCmp (OAct (Ref RAction 2001) [1])
    EQUALS (OLit (Lit SInt 1)))] None); (Build_checkpoint 7 507 None [(DCmp (OAct (Ref RAction 0) [1]) EQUALS (OLit (Lit SInt 2)))] None);
    (Build_checkpoint 4 504 None [(DCmp (OAct (Ref RAction 3) [1]) EQUALS (OLit (Lit SInt 3)))] None)] []).
Definition ex_L : schema := (Build_schema [(Build_party 0 200)] [(Build_otype 0 100 [(Build_attr 0 (KField STRING)); (Build_attr 1 (KField
    NUMERIC))])] [(Build_promise 0 300 (Ref RType 0) None); (Build_promise 1 301 (Ref RType 0) None)] [(Build_action 0 400 (Ref RParty 0) (Ref
    RPromise 0) None None (Build_operation (Include (Some [0])) [] [] None) []); (Build_action 1 401 (Ref RParty 0) (Ref RPromise 1) None (Some (Ref
    RCheckpoint 0)) (Build_operation (Include (Some [0])) [] [] None) [])] [(Build_checkpoint 0 500 None [(DCmp (OAct (Ref RAction 0) [1]) EQUALS
    (OLit (Lit SInt 1)))] None)] []).
Definition ex_M : schema := (Build_schema [(Build_party 0 200)] [(Build_otype 0 100 [(Build_attr 0 (KField STRING)); (Build_attr 1 (KField
    NUMERIC))])] [(Build_promise 0 300 (Ref RType 0) None); (Build_promise 2 302 (Ref RType 0) None)] [(Build_action 0 400 (Ref RParty 0) (Ref
    RPromise 0) None None (Build_operation (Include (Some [0])) [] [] None) []); (Build_action 2 402 (Ref RParty 0) (Ref RPromise 2) None (Some (Ref
    RCheckpoint 6)) (Build_operation (Include (Some [0])) [] [] None) [])] [(Build_checkpoint 5 505 None [(DCmp (OAct (Ref RAction 0) [1]) EQUALS
    (OLit (Lit SInt 1)))] None); (Build_checkpoint 6 506 None [(DCmp (OAct (Ref RAction 1001) [1]) EQUALS (OLit (Lit SInt 2)))] None)] []).
Definition ex_N : schema := (Build_schema [(Build_party 0 200)] [(Build_otype 0 100 [(Build_attr 0 (KField STRING)); (Build_attr 1 (KField
    NUMERIC))])] [(Build_promise 0 300 (Ref RType 0) None); (Build_promise 3 303 (Ref RType 0) None)] [(Build_action 0 400 (Ref RParty 0) (Ref
    RPromise 0) None (Some (Ref RCheckpoint 1)) (Build_operation (Include (Some [0])) [] [] None) []); (Build_action 3 403 (Ref RParty 0) (Ref
    RPromise 3) None None (Build_operation (Include (Some [0])) [] [] None) [])] [(Build_checkpoint 1 501 None [(DCmp (OAct (Ref RAction 2001) [1])
    EQUALS (OLit (Lit SInt 1)))] None); (Build_checkpoint 2 502 None [(DCmp (OAct (Ref RAction 3) [1]) EQUALS (OLit (Lit SInt 2)))] None);
    (Build_checkpoint 4 504 None [(DCmp (OAct (Ref RAction 3) [1]) EQUALS (OLit (Lit SInt 3)))] None)] []).

Definition ex_M_kids : list itree :=
  [INode (Build_import 1000 true ex_L [Build_conn (Ref RAction 1) (Ref RCheckpoint 5)]) []].

(* the native entry for M adds native checkpoint [k] to M.action 0; the native entry for L adds checkpoint 4 to L.action 0 *)
Definition ex_kids (k : nat) : list itree :=
  [INode (Build_import 1000 true ex_M [Build_conn (Ref RAction 0) (Ref RCheckpoint k)]) ex_M_kids;
   INode (Build_import 2000 true ex_L [Build_conn (Ref RAction 0) (Ref RCheckpoint 4)]) []].

(* accepted: checkpoint 2 mentions the independent native action 3 *)
Lemma ex_diamond_accepted : conforms_deep Tables.default_value_table ex_N (ex_kids 2) = true.
Proof. vm_compute. reflexivity. Qed.

(* L is loaded once (the second entry for it contributes its connection only): 2 + 2 + 2 actions, and L.action 1
   (at 2001) depends, through M's nested connection, on M.action 0 (at 1000), which depends on native action 3 *)
Lemma ex_diamond_combined :
  List.length (actions (combine_deep ex_N (ex_kids 2))) = 6
  /\ In 1000 (succ (combine_deep ex_N (ex_kids 2)) 2001) /\ In 2000 (succ (combine_deep ex_N (ex_kids 2)) 2001)
  /\ In 3 (succ (combine_deep ex_N (ex_kids 2)) 1000) /\ In 3 (succ (combine_deep ex_N (ex_kids 2)) 2000).
Proof. vm_compute. repeat split; auto 10. Qed.

(* rejected: checkpoint 7 mentions native action 0, so 0 -> L.1 -> (nested connection) M.0 -> (native connection) 0;
   every imported file is still valid in isolation -- only the combined schema of the root has the cycle *)
Lemma ex_nested_cycle_rejected :
  conforms_deep Tables.default_value_table ex_N_cyclic (ex_kids 7) = false
  /\ forallb (tree_ok Cmp Tables.default_value_table ex_N_cyclic) (ex_kids 7) = true
  /\ has_cycle (combine_deep ex_N_cyclic (ex_kids 7)) = true
  /\ has_cycle (combine_deep ex_M ex_M_kids) = false.
Proof. vm_compute. repeat split; reflexivity. Qed.

(* without the nested connection the combined schema has no cycle: the cycle closes through it *)
Lemma ex_nested_cycle_needs_nested_connection :
  has_cycle (combine_deep ex_N_cyclic
    [INode (Build_import 1000 true ex_M [Build_conn (Ref RAction 0) (Ref RCheckpoint 7)])
       [INode (Build_import 1000 true ex_L []) []];
     INode (Build_import 2000 true ex_L [Build_conn (Ref RAction 0) (Ref RCheckpoint 4)]) []]) = false.
Proof. vm_compute. reflexivity. Qed.
End DeepExamples.
