(* Imports (property C16): the closed form of the dependency relation of the combined schema.

   [combine native ims] is compared with the plain union [plain native ims] of the native schema and the shifted
   imported schemas (no connection applied).  A connection onto a checkpoint behaves as one more nested checkpoint
   reference from its target to the added native checkpoint; a connection onto an action as one more checkpoint
   holding that action.  [MentionsX s K] is [Mentions s] with the extra references [K]; [DepX s A K] is [Dep s]
   with the extra holders [A] and the extra references [K].  The main results:

     Mentions (combine native ims) x b <-> MentionsX (plain native ims) (ConnI RCheckpoint ims) x b   (x not a stitched id)
     Dep (combine native ims) x b <-> DepX (plain native ims) (ConnI RAction ims) (ConnI RCheckpoint ims) x b

   and their specialisations to imported and native actions.

   Method: every stitching step is compared with its input on the level of lookups only, inside the context
   "united with the imports that come later" ([plain _ rest]), so that the steps compose along [combine]. *)
From Coq Require Import List Bool Arith Lia Relations.
From OIS Require Import Base.Types Base.PipeTypes Spec.Compare Model.Schema Model.Rules Spec.DepRel Model.Imports.
From OIS Require Import Proofs.ConformsInv Proofs.ImportProofs.
From OIS Require Gen.Tables.
Import ListNotations.

(* ================================================================== 1. the relations with extra references *)
Section Closure.
Variable s : schema.
Variable K : nat -> nat -> Prop.     (* K t a : checkpoint t additionally refers to checkpoint a *)

Inductive MentionsX : nat -> nat -> Prop :=
| MX_cmp : forall c cp l o r b,
    find_checkpoint s c = Some cp -> In (DCmp l o r) (cp_deps cp) ->
    In b (operand_action l ++ operand_action r) -> MentionsX c b
| MX_ref : forall c cp r b,
    find_checkpoint s c = Some cp -> In (DRef r) (cp_deps cp) -> r_kind r = RCheckpoint ->
    MentionsX (r_id r) b -> MentionsX c b
| MX_conn : forall c a b, K c a -> MentionsX a b -> MentionsX c b.
End Closure.

(* A x a : action x is additionally held by checkpoint a *)
Definition DepX (s : schema) (A K : nat -> nat -> Prop) (x b : nat) : Prop :=
  exists act, find_action s x = Some act /\
    ((exists cc, HoldsAction s act cc /\ MentionsX s K cc b) \/ (exists a, A x a /\ MentionsX s K a b)).

Definition NoConn (u a : nat) : Prop := False.
Definition Or2 (P Q : nat -> nat -> Prop) (u a : nat) : Prop := P u a \/ Q u a.

Lemma MX_mono s (K K' : nat -> nat -> Prop) : (forall u a, K u a -> K' u a) -> forall x b, MentionsX s K x b -> MentionsX s K' x b.
Proof.
  intros HK x b H. induction H as [c cp l o r b F I B | c cp r b F I Kr _ IH | c a b Kc _ IH].
  - eapply MX_cmp; eassumption.
  - eapply MX_ref; eassumption.
  - eapply MX_conn; [apply HK; exact Kc|exact IH].
Qed.

Lemma MX_equiv s (K K' : nat -> nat -> Prop) : (forall u a, K u a <-> K' u a) -> forall x b, MentionsX s K x b <-> MentionsX s K' x b.
Proof. intros HK x b. split; apply MX_mono; intros u a; apply HK. Qed.

Lemma DX_mono s (A A' K K' : nat -> nat -> Prop) : (forall u a, A u a -> A' u a) -> (forall u a, K u a -> K' u a) ->
  forall x b, DepX s A K x b -> DepX s A' K' x b.
Proof.
  intros HA HK x b (act & F & [(cc & H & M)|(a & Aa & M)]); exists act; (split; [exact F|]).
  - left. exists cc. split; [exact H|]. eapply MX_mono; eassumption.
  - right. exists a. split; [apply HA; exact Aa|]. eapply MX_mono; eassumption.
Qed.

Lemma DX_equiv s (A A' K K' : nat -> nat -> Prop) : (forall u a, A u a <-> A' u a) -> (forall u a, K u a <-> K' u a) ->
  forall x b, DepX s A K x b <-> DepX s A' K' x b.
Proof. intros HA HK x b. split; apply DX_mono; intros u a; try apply HA; apply HK. Qed.

Lemma Mentions_MX s K x b : Mentions s x b -> MentionsX s K x b.
Proof.
  intro H. induction H as [c cp l o r b F I B | c cp r b F I Kr _ IH].
  - eapply MX_cmp; eassumption.
  - eapply MX_ref; eassumption.
Qed.

Lemma MX_NoConn s x b : MentionsX s NoConn x b <-> Mentions s x b.
Proof.
  split; [|apply Mentions_MX].
  intro H. induction H as [c cp l o r b F I B | c cp r b F I Kr _ IH | c a b [] _ _].
  - eapply M_cmp; eassumption.
  - eapply M_ref; eassumption.
Qed.

Lemma DX_NoConn s x b : DepX s NoConn NoConn x b <-> Dep s x b.
Proof.
  split.
  - intros (act & F & [(cc & H & M)|(a & [] & _)]). exists act, cc. split; [exact F|]. split; [exact H|].
    apply MX_NoConn. exact M.
  - intros (act & cc & F & H & M). exists act. split; [exact F|]. left. exists cc. split; [exact H|].
    apply MX_NoConn. exact M.
Qed.

(* the extra references one at a time: what a checkpoint mentions by itself, or what a connection onto a checkpoint
   it is or nests adds *)
Lemma MX_along_Nests s K b : forall x y, Nests s x y -> MentionsX s K y b -> MentionsX s K x b.
Proof.
  intros x y H. induction H as [x cp r F I Kr | x y z _ IH1 _ IH2]; intro M.
  - eapply MX_ref; eassumption.
  - apply IH1. apply IH2. exact M.
Qed.

Lemma MX_unfold s K x b :
  MentionsX s K x b <->
  Mentions s x b \/ exists t a, K t a /\ NestsR s x t /\ MentionsX s K a b.
Proof.
  split.
  - intro H. induction H as [c cp l o r b F I B | c cp r b F I Kr M IH | c a b Kc M _].
    + left. eapply M_cmp; eassumption.
    + destruct IH as [IH|(t & a & Kt & N & Ma)].
      * left. eapply M_ref; eassumption.
      * right. exists t, a. split; [exact Kt|]. split; [|exact Ma]. right. eapply Nests_step_R; eassumption.
    + right. exists c, a. split; [exact Kc|]. split; [left; reflexivity|exact M].
  - intros [M|(t & a & Kt & [->|N] & Ma)].
    + apply Mentions_MX. exact M.
    + eapply MX_conn; eassumption.
    + eapply MX_along_Nests; [exact N|]. eapply MX_conn; eassumption.
Qed.

(* ================================================================== 2. freshness on the level of lookups *)
Definition FreshL (s : schema) (f : nat) : Prop :=
  find_checkpoint s f = None /\
  (forall i a r, find_action s i = Some a -> a_dep a = Some r -> r_kind r = RCheckpoint -> r_id r <> f) /\
  (forall i g r, find_group s i = Some g -> g_dep g = Some r -> r_kind r = RCheckpoint -> r_id r <> f) /\
  (forall i cp r, find_checkpoint s i = Some cp -> In (DRef r) (cp_deps cp) -> r_kind r = RCheckpoint -> r_id r <> f).

Lemma FreshCp_FreshL s f : FreshCp s f -> FreshL s f.
Proof.
  intros (F & A & G & C). split; [exact F|]. repeat split.
  - intros i a r Fi. destruct (find_action_some _ _ _ Fi) as [I _]. apply A. exact I.
  - intros i g r Fi. destruct (find_group_some _ _ _ Fi) as [I _]. apply G. exact I.
  - intros i cp r Fi. destruct (find_checkpoint_some _ _ _ Fi) as [I _]. apply C. exact I.
Qed.

Lemma HoldsGroup_freshL s f g c : FreshL s f -> HoldsGroup s g c -> c <> f.
Proof. intros (_ & _ & FG & _) (g' & tg & r & _ & F & D & Kr & <-). exact (FG g' tg r F D Kr). Qed.

Lemma HoldsAction_freshL s f i a c : FreshL s f -> find_action s i = Some a -> HoldsAction s a c -> c <> f.
Proof.
  intros Fr F [(r & D & Kr & <-)|(r & _ & _ & H)].
  - destruct Fr as (_ & FA & _). exact (FA i a r F D Kr).
  - eapply HoldsGroup_freshL; eassumption.
Qed.

Lemma HoldsAction_same_groups s s' : (forall i, find_group s' i = find_group s i) ->
  forall a c, HoldsAction s a c <-> HoldsAction s' a c.
Proof.
  intros HG a c. split; apply HoldsAction_find_mono; intros g tg F; [rewrite HG|rewrite <- HG]; exact F.
Qed.

(* ================================================================== 3. one stitching step, on the level of lookups *)
(* (a) a connection onto checkpoint t: t is copied to f, and t becomes AND [f; add] *)
Section StepC.
Variables (s s' : schema) (t f : nat) (add : ref) (tc cf tc' : checkpoint) (K : nat -> nat -> Prop).
Hypothesis HA : forall i, find_action s' i = find_action s i.
Hypothesis HG : forall i, find_group s' i = find_group s i.
Hypothesis Ft : find_checkpoint s t = Some tc.
Hypothesis Ff : find_checkpoint s' f = Some cf.
Hypothesis Df : cp_deps cf = cp_deps tc.
Hypothesis Ft' : find_checkpoint s' t = Some tc'.
Hypothesis Dt' : cp_deps tc' = [DRef (Ref RCheckpoint f); DRef add].
Hypothesis Fo : forall i, i <> f -> i <> t -> find_checkpoint s' i = find_checkpoint s i.
Hypothesis Fr : FreshL s f.
Hypothesis Kadd : r_kind add = RCheckpoint.
Hypothesis Nadd : r_id add <> f.
Hypothesis Kf : forall u a, K u a -> u <> f /\ a <> f.

Let K' : nat -> nat -> Prop := fun u a => K u a \/ (u = t /\ a = r_id add).

Lemma stepC_t_ne_f : t <> f.
Proof. intro E. destruct Fr as (N & _). rewrite <- E, Ft in N. discriminate. Qed.

Lemma stepC_f_to_t b : MentionsX s' K f b -> MentionsX s' K t b.
Proof.
  intro M. eapply (MX_ref s' K t tc' (Ref RCheckpoint f)); [exact Ft'|rewrite Dt'; left; reflexivity|reflexivity|exact M].
Qed.

Lemma stepC_fwd x b : MentionsX s' K x b ->
  (x = f -> MentionsX s K' t b) /\ (x <> f -> MentionsX s K' x b).
Proof.
  intro H. induction H as [x cp l o r b F I B | x cp r b F I Kr _ IH | x a b Kx _ IH].
  - destruct (Nat.eq_dec x f) as [->|N1].
    + split; [intros _|congruence]. rewrite Ff in F. injection F as <-. rewrite Df in I.
      eapply MX_cmp; [exact Ft|exact I|exact B].
    + split; [congruence|intros _]. destruct (Nat.eq_dec x t) as [->|N2].
      * rewrite Ft' in F. injection F as <-. rewrite Dt' in I. destruct I as [I|[I|[]]]; discriminate.
      * rewrite Fo in F by assumption. eapply MX_cmp; eassumption.
  - destruct IH as [IH1 IH2]. destruct (Nat.eq_dec x f) as [->|N1].
    + split; [intros _|congruence]. rewrite Ff in F. injection F as <-. rewrite Df in I.
      assert (Nr : r_id r <> f) by (destruct Fr as (_ & _ & _ & FC); exact (FC t tc r Ft I Kr)).
      eapply MX_ref; [exact Ft|exact I|exact Kr|exact (IH2 Nr)].
    + split; [congruence|intros _]. destruct (Nat.eq_dec x t) as [->|N2].
      * rewrite Ft' in F. injection F as <-. rewrite Dt' in I. destruct I as [I|[I|[]]]; injection I as <-.
        -- exact (IH1 eq_refl).
        -- eapply MX_conn; [right; split; reflexivity|exact (IH2 Nadd)].
      * rewrite Fo in F by assumption.
        assert (Nr : r_id r <> f) by (destruct Fr as (_ & _ & _ & FC); exact (FC x cp r F I Kr)).
        eapply MX_ref; [exact F|exact I|exact Kr|exact (IH2 Nr)].
  - destruct IH as [_ IH2]. destruct (Kf x a Kx) as [N1 N2].
    split; [congruence|intros _]. eapply MX_conn; [left; exact Kx|exact (IH2 N2)].
Qed.

Lemma stepC_bwd x b : MentionsX s K' x b -> MentionsX s' K x b.
Proof.
  intro H. induction H as [x cp l o r b F I B | x cp r b F I Kr _ IH | x a b Kx _ IH].
  - destruct (Nat.eq_dec x t) as [->|N2].
    + rewrite Ft in F. injection F as <-. apply stepC_f_to_t. rewrite <- Df in I.
      eapply MX_cmp; [exact Ff|exact I|exact B].
    + assert (N1 : x <> f) by (intro E; destruct Fr as (N & _); rewrite <- E, F in N; discriminate).
      rewrite <- Fo in F by assumption. eapply MX_cmp; eassumption.
  - destruct (Nat.eq_dec x t) as [->|N2].
    + rewrite Ft in F. injection F as <-. apply stepC_f_to_t. rewrite <- Df in I.
      eapply MX_ref; [exact Ff|exact I|exact Kr|exact IH].
    + assert (N1 : x <> f) by (intro E; destruct Fr as (N & _); rewrite <- E, F in N; discriminate).
      rewrite <- Fo in F by assumption. eapply MX_ref; eassumption.
  - destruct Kx as [Kx|[-> ->]].
    + eapply MX_conn; eassumption.
    + eapply (MX_ref s' K t tc' add); [exact Ft'|rewrite Dt'; right; left; reflexivity|exact Kadd|exact IH].
Qed.

Lemma stepC_MX x b : x <> f -> (MentionsX s' K x b <-> MentionsX s K' x b).
Proof. intro N. split; [intro M; exact (proj2 (stepC_fwd x b M) N)|apply stepC_bwd]. Qed.

Lemma stepC_DX (A : nat -> nat -> Prop) x b : (forall u a, A u a -> a <> f) -> (DepX s' A K x b <-> DepX s A K' x b).
Proof.
  intro Af. split; intros (act & F & H); exists act.
  - rewrite HA in F. split; [exact F|]. destruct H as [(cc & H & M)|(a & Aa & M)].
    + apply (HoldsAction_same_groups s s' HG) in H. left. exists cc. split; [exact H|].
      apply stepC_MX; [|exact M]. eapply HoldsAction_freshL; eassumption.
    + right. exists a. split; [exact Aa|]. apply stepC_MX; [|exact M]. eapply Af; exact Aa.
  - split; [rewrite HA; exact F|]. destruct H as [(cc & H & M)|(a & Aa & M)].
    + left. exists cc. split; [apply (HoldsAction_same_groups s s' HG); exact H|]. apply stepC_bwd. exact M.
    + right. exists a. split; [exact Aa|]. apply stepC_bwd. exact M.
Qed.
End StepC.

Lemma HoldsGroup_find_mono s s' : (forall g tg, find_group s g = Some tg -> find_group s' g = Some tg) ->
  forall g c, HoldsGroup s g c -> HoldsGroup s' g c.
Proof.
  intros E g c (g' & tg & r' & G1 & G2 & G3). exists g', tg, r'.
  split; [eapply Encloses_find_mono; eassumption|]. split; [apply E; exact G2|exact G3].
Qed.

(* (b) a connection onto action t: its depends_on becomes the added checkpoint, or a new checkpoint f = AND [add; old] *)
Section StepA.
Variables (s s' : schema) (t f : nat) (add : ref) (a a' : action) (K A : nat -> nat -> Prop).
Hypothesis HG : forall i, find_group s' i = find_group s i.
Hypothesis Fo : forall i, i <> f -> find_checkpoint s' i = find_checkpoint s i.
Hypothesis Fa : find_action s t = Some a.
Hypothesis Fa' : find_action s' t = Some a'.
Hypothesis Ctx : a_ctx a' = a_ctx a.
Hypothesis FAo : forall i, i <> t -> find_action s' i = find_action s i.
Hypothesis Shape :
  (a_dep a = None /\ a_dep a' = Some add) \/
  (exists old cf, a_dep a = Some old /\ a_dep a' = Some (Ref RCheckpoint f) /\
                  find_checkpoint s' f = Some cf /\ cp_deps cf = [DRef add; DRef old]).
Hypothesis Fr : FreshL s f.
Hypothesis Kadd : r_kind add = RCheckpoint.
Hypothesis Nadd : r_id add <> f.
Hypothesis Kf : forall u x, K u x -> u <> f /\ x <> f.
Hypothesis Af : forall u x, A u x -> x <> f.

Let A' : nat -> nat -> Prop := fun u x => A u x \/ (u = t /\ x = r_id add).

Lemma stepA_fwd_MX x b : MentionsX s' K x b -> x <> f -> MentionsX s K x b.
Proof.
  intro H. induction H as [x cp l o r b F I B | x cp r b F I Kr _ IH | x y b Kx _ IH]; intro N.
  - rewrite Fo in F by exact N. eapply MX_cmp; eassumption.
  - rewrite Fo in F by exact N. eapply MX_ref; [exact F|exact I|exact Kr|]. apply IH.
    destruct Fr as (_ & _ & _ & FC). exact (FC x cp r F I Kr).
  - eapply MX_conn; [exact Kx|]. apply IH. exact (proj2 (Kf x y Kx)).
Qed.

Lemma stepA_bwd_MX x b : MentionsX s K x b -> MentionsX s' K x b.
Proof.
  intro H. induction H as [x cp l o r b F I B | x cp r b F I Kr _ IH | x y b Kx _ IH].
  - assert (N : x <> f) by (intro E; destruct Fr as (Nn & _); rewrite <- E, F in Nn; discriminate).
    rewrite <- Fo in F by exact N. eapply MX_cmp; eassumption.
  - assert (N : x <> f) by (intro E; destruct Fr as (Nn & _); rewrite <- E, F in Nn; discriminate).
    rewrite <- Fo in F by exact N. eapply MX_ref; eassumption.
  - eapply MX_conn; eassumption.
Qed.

Lemma stepA_MX x b : x <> f -> (MentionsX s' K x b <-> MentionsX s K x b).
Proof. intro N. split; [intro M; apply stepA_fwd_MX; assumption|apply stepA_bwd_MX]. Qed.

Lemma stepA_DX x b : DepX s' A K x b <-> DepX s A' K x b.
Proof.
  split; intros (act & F & H).
  - destruct (Nat.eq_dec x t) as [->|Nx].
    + rewrite Fa' in F. injection F as <-. exists a. split; [exact Fa|].
      destruct H as [(cc & [(r & D & Kr & <-)|(r & C & Kr & HGp)] & M)|(y & Ay & M)].
      * destruct Shape as [[D0 D1]|(old & cf & D0 & D1 & Ff & Dcf)]; rewrite D1 in D; injection D as <-.
        -- right. exists (r_id add). split; [right; split; reflexivity|]. apply stepA_fwd_MX; assumption.
        -- cbn [r_id] in M.
           inversion M as [c0 cp l o r b0 Fc I B | c0 cp r b0 Fc I Kr' Mr | c0 y b0 Kc _]; subst.
           ++ rewrite Ff in Fc. injection Fc as <-. rewrite Dcf in I. destruct I as [I|[I|[]]]; discriminate.
           ++ rewrite Ff in Fc. injection Fc as <-. rewrite Dcf in I. destruct I as [I|[I|[]]]; injection I as <-.
              ** right. exists (r_id add). split; [right; split; reflexivity|]. apply stepA_fwd_MX; assumption.
              ** left. exists (r_id old). split; [left; exists old; auto|]. apply stepA_fwd_MX; [exact Mr|].
                 destruct Fr as (_ & FA & _). exact (FA t a old Fa D0 Kr').
           ++ exfalso. exact (proj1 (Kf _ _ Kc) eq_refl).
      * rewrite Ctx in C.
        assert (HGs : HoldsGroup s (r_id r) cc).
        { eapply HoldsGroup_find_mono; [|exact HGp]. intros g tg Fg. rewrite <- HG. exact Fg. }
        left. exists cc. split; [right; exists r; auto|]. apply stepA_fwd_MX; [exact M|].
        eapply HoldsGroup_freshL; eassumption.
      * right. exists y. split; [left; exact Ay|]. apply stepA_fwd_MX; [exact M|]. exact (Af _ _ Ay).
    + rewrite FAo in F by exact Nx. exists act. split; [exact F|].
      destruct H as [(cc & H & M)|(y & Ay & M)].
      * apply (HoldsAction_same_groups s s' HG) in H. left. exists cc. split; [exact H|].
        apply stepA_fwd_MX; [exact M|]. eapply HoldsAction_freshL; eassumption.
      * right. exists y. split; [left; exact Ay|]. apply stepA_fwd_MX; [exact M|]. exact (Af _ _ Ay).
  - destruct (Nat.eq_dec x t) as [->|Nx].
    + rewrite Fa in F. injection F as <-. exists a'. split; [exact Fa'|].
      assert (ViaAdd : MentionsX s K (r_id add) b ->
                       exists cc, HoldsAction s' a' cc /\ MentionsX s' K cc b).
      { intro M. apply stepA_bwd_MX in M.
        destruct Shape as [[D0 D1]|(old & cf & D0 & D1 & Ff & Dcf)].
        - exists (r_id add). split; [left; exists add; auto|exact M].
        - exists f. split; [left; exists (Ref RCheckpoint f); auto|].
          eapply (MX_ref s' K f cf add); [exact Ff|rewrite Dcf; left; reflexivity|exact Kadd|exact M]. }
      destruct H as [(cc & [(r & D & Kr & <-)|(r & C & Kr & HGp)] & M)|(y & [Ay|[_ ->]] & M)].
      * destruct Shape as [[D0 D1]|(old & cf & D0 & D1 & Ff & Dcf)]; rewrite D0 in D; [discriminate|]. injection D as <-.
        left. exists f. split; [left; exists (Ref RCheckpoint f); auto|].
        eapply (MX_ref s' K f cf old); [exact Ff|rewrite Dcf; right; left; reflexivity|exact Kr|].
        apply stepA_bwd_MX. exact M.
      * left. exists cc. split; [|apply stepA_bwd_MX; exact M]. right. exists r. rewrite Ctx. split; [exact C|].
        split; [exact Kr|]. eapply HoldsGroup_find_mono; [|exact HGp]. intros g tg Fg. rewrite HG. exact Fg.
      * right. exists y. split; [exact Ay|]. apply stepA_bwd_MX. exact M.
      * left. apply ViaAdd. exact M.
    + exists act. split; [rewrite FAo by exact Nx; exact F|].
      destruct H as [(cc & H & M)|(y & [Ay|[E _]] & M)]; [| |contradiction].
      * left. exists cc. split; [apply (HoldsAction_same_groups s s' HG); exact H|apply stepA_bwd_MX; exact M].
      * right. exists y. split; [exact Ay|apply stepA_bwd_MX; exact M].
Qed.
End StepA.

(* ================================================================== 4. the context: united with the imports that come later *)
Definition plain (s : schema) (ims : list import) : schema :=
  fold_left (fun s im => union s (shift (im_base im) (im_schema im))) ims s.

Lemma plain_cons s im r : plain s (im :: r) = plain (union s (shift (im_base im) (im_schema im))) r.
Proof. reflexivity. Qed.

Lemma union_find_action a b i :
  find_action (union a b) i = match find_action a i with Some x => Some x | None => find_action b i end.
Proof. unfold find_action. cbn [union actions]. apply find_app. Qed.
Lemma union_find_checkpoint a b i :
  find_checkpoint (union a b) i = match find_checkpoint a i with Some x => Some x | None => find_checkpoint b i end.
Proof. unfold find_checkpoint. cbn [union checkpoints]. apply find_app. Qed.
Lemma union_find_group a b i :
  find_group (union a b) i = match find_group a i with Some x => Some x | None => find_group b i end.
Proof. unfold find_group. cbn [union groups]. apply find_app. Qed.

Lemma plain_find_action_congr r : forall s s' i, find_action s' i = find_action s i ->
  find_action (plain s' r) i = find_action (plain s r) i.
Proof.
  induction r as [|im r IH]; intros s s' i E; [exact E|]. rewrite !plain_cons. apply IH.
  rewrite !union_find_action, E. reflexivity.
Qed.
Lemma plain_find_checkpoint_congr r : forall s s' i, find_checkpoint s' i = find_checkpoint s i ->
  find_checkpoint (plain s' r) i = find_checkpoint (plain s r) i.
Proof.
  induction r as [|im r IH]; intros s s' i E; [exact E|]. rewrite !plain_cons. apply IH.
  rewrite !union_find_checkpoint, E. reflexivity.
Qed.
Lemma plain_find_group_congr r : forall s s' i, find_group s' i = find_group s i ->
  find_group (plain s' r) i = find_group (plain s r) i.
Proof.
  induction r as [|im r IH]; intros s s' i E; [exact E|]. rewrite !plain_cons. apply IH.
  rewrite !union_find_group, E. reflexivity.
Qed.

Lemma plain_find_action_some r : forall s i v, find_action s i = Some v -> find_action (plain s r) i = Some v.
Proof.
  induction r as [|im r IH]; intros s i v E; [exact E|]. rewrite plain_cons. apply IH.
  rewrite union_find_action, E. reflexivity.
Qed.
Lemma plain_find_checkpoint_some r : forall s i v, find_checkpoint s i = Some v -> find_checkpoint (plain s r) i = Some v.
Proof.
  induction r as [|im r IH]; intros s i v E; [exact E|]. rewrite plain_cons. apply IH.
  rewrite union_find_checkpoint, E. reflexivity.
Qed.
Lemma plain_find_group_some r : forall s i v, find_group s i = Some v -> find_group (plain s r) i = Some v.
Proof.
  induction r as [|im r IH]; intros s i v E; [exact E|]. rewrite plain_cons. apply IH.
  rewrite union_find_group, E. reflexivity.
Qed.

Lemma FreshCp_plain r : forall s f, FreshCp s f ->
  (forall im, In im r -> FreshCp (shift (im_base im) (im_schema im)) f) -> FreshCp (plain s r) f.
Proof.
  induction r as [|im r IH]; intros s f Fs Fr; [exact Fs|]. rewrite plain_cons. apply IH.
  - apply FreshCp_union; [exact Fs|]. apply Fr. left. reflexivity.
  - intros im' I. apply Fr. right. exact I.
Qed.

(* ================================================================== 5. one stitching step in context *)
Definition conn_at (k : rkind) (base : nat) (c : conn) (u a : nat) : Prop :=
  r_kind (cn_to c) = k /\ u = base + r_id (cn_to c) /\ a = r_id (cn_add c).

Definition TargetFound (base : nat) (s0 : schema) (c : conn) : Prop :=
  (r_kind (cn_to c) = RAction /\ exists a, find_action s0 (base + r_id (cn_to c)) = Some a) \/
  (r_kind (cn_to c) = RCheckpoint /\ exists tc, find_checkpoint s0 (base + r_id (cn_to c)) = Some tc).

Lemma stitch_one_ctx base s0 n c r (K A : nat -> nat -> Prop) :
  FreshCp s0 (base + STITCH + n) ->
  (forall im, In im r -> FreshCp (shift (im_base im) (im_schema im)) (base + STITCH + n)) ->
  r_kind (cn_add c) = RCheckpoint -> r_id (cn_add c) <> base + STITCH + n ->
  (forall u a, K u a -> u <> base + STITCH + n /\ a <> base + STITCH + n) ->
  (forall u a, A u a -> a <> base + STITCH + n) ->
  TargetFound base s0 c ->
  (forall x b, x <> base + STITCH + n ->
     (MentionsX (plain (stitch_one base s0 n c) r) K x b <->
      MentionsX (plain s0 r) (Or2 K (conn_at RCheckpoint base c)) x b)) /\
  (forall x b, DepX (plain (stitch_one base s0 n c) r) A K x b <->
               DepX (plain s0 r) (Or2 A (conn_at RAction base c)) (Or2 K (conn_at RCheckpoint base c)) x b).
Proof.
  intros Fr0 FrR Kadd Nadd Kf Af TF. unfold TargetFound in TF.
  set (f := base + STITCH + n) in *. set (t := base + r_id (cn_to c)) in *.
  assert (FrP : FreshL (plain s0 r) f) by (apply FreshCp_FreshL, FreshCp_plain; assumption).
  pose proof (proj1 Fr0) as Fn.
  destruct TF as [[Kc [a Fa]]|[Kc [tc Ftc]]].
  - (* the target is an action *)
    assert (EK : forall u y, Or2 K (conn_at RCheckpoint base c) u y <-> K u y).
    { intros u y. unfold Or2, conn_at. rewrite Kc. split; [intros [H|[H _]]; [exact H|discriminate]|auto]. }
    assert (EA : forall u y, Or2 A (conn_at RAction base c) u y <-> (A u y \/ (u = t /\ y = r_id (cn_add c)))).
    { intros u y. unfold Or2, conn_at. fold t. tauto. }
    destruct (find_action_some _ _ _ Fa) as [_ Ida].
    destruct (a_dep a) as [old|] eqn:D.
    + rewrite (stitch_one_action_some base s0 n c a old Kc Fa D). fold t f.
      set (k := stitched_and f (cn_add c) old). set (s1 := set_action_dep (add_checkpoint s0 k) t (Ref RCheckpoint f)).
      assert (Fo : forall i, i <> f -> find_checkpoint (plain s1 r) i = find_checkpoint (plain s0 r) i).
      { intros i N. apply plain_find_checkpoint_congr. unfold s1. rewrite find_checkpoint_set_dep.
        apply find_checkpoint_add_other. exact N. }
      assert (Fk : find_checkpoint (plain s1 r) f = Some k).
      { apply plain_find_checkpoint_some. unfold s1. rewrite find_checkpoint_set_dep, find_checkpoint_add, Fn.
        cbn. rewrite Nat.eqb_refl. reflexivity. }
      assert (Fa1 : find_action (plain s1 r) t = Some (upd_dep t (Ref RCheckpoint f) a)).
      { apply plain_find_action_some. unfold s1. rewrite find_action_set_dep.
        change (find_action (add_checkpoint s0 k) t) with (find_action s0 t). rewrite Fa. reflexivity. }
      assert (FAo : forall i, i <> t -> find_action (plain s1 r) i = find_action (plain s0 r) i).
      { intros i N. apply plain_find_action_congr. unfold s1. rewrite find_action_set_dep_other by exact N. reflexivity. }
      assert (HG : forall i, find_group (plain s1 r) i = find_group (plain s0 r) i).
      { intro i. apply plain_find_group_congr. reflexivity. }
      assert (Sh : (a_dep a = None /\ a_dep (upd_dep t (Ref RCheckpoint f) a) = Some (cn_add c)) \/
                   (exists old0 cf, a_dep a = Some old0 /\ a_dep (upd_dep t (Ref RCheckpoint f) a) = Some (Ref RCheckpoint f) /\
                      find_checkpoint (plain s1 r) f = Some cf /\ cp_deps cf = [DRef (cn_add c); DRef old0])).
      { right. exists old, k. split; [exact D|]. split; [apply upd_dep_hit; exact Ida|]. split; [exact Fk|reflexivity]. }
      split.
      * intros x b N. rewrite (MX_equiv _ _ _ EK).
        exact (stepA_MX (plain s0 r) (plain s1 r) f K Fo FrP Kf x b N).
      * intros x b. rewrite (DX_equiv _ _ _ _ _ EA EK).
        exact (stepA_DX (plain s0 r) (plain s1 r) t f (cn_add c) a _ K A HG Fo
                 (plain_find_action_some r s0 t a Fa) Fa1 (upd_dep_ctx _ _ _) FAo Sh FrP Kadd Nadd Kf Af x b).
    + rewrite (stitch_one_action_none base s0 n c a Kc Fa D). fold t.
      set (s1 := set_action_dep s0 t (cn_add c)).
      assert (Fo : forall i, i <> f -> find_checkpoint (plain s1 r) i = find_checkpoint (plain s0 r) i).
      { intros i _. apply plain_find_checkpoint_congr. reflexivity. }
      assert (Fa1 : find_action (plain s1 r) t = Some (upd_dep t (cn_add c) a)).
      { apply plain_find_action_some. unfold s1. rewrite find_action_set_dep, Fa. reflexivity. }
      assert (FAo : forall i, i <> t -> find_action (plain s1 r) i = find_action (plain s0 r) i).
      { intros i N. apply plain_find_action_congr. unfold s1. rewrite find_action_set_dep_other by exact N. reflexivity. }
      assert (HG : forall i, find_group (plain s1 r) i = find_group (plain s0 r) i).
      { intro i. apply plain_find_group_congr. reflexivity. }
      assert (Sh : (a_dep a = None /\ a_dep (upd_dep t (cn_add c) a) = Some (cn_add c)) \/
                   (exists old0 cf, a_dep a = Some old0 /\ a_dep (upd_dep t (cn_add c) a) = Some (Ref RCheckpoint f) /\
                      find_checkpoint (plain s1 r) f = Some cf /\ cp_deps cf = [DRef (cn_add c); DRef old0])).
      { left. split; [exact D|]. apply upd_dep_hit. exact Ida. }
      split.
      * intros x b N. rewrite (MX_equiv _ _ _ EK).
        exact (stepA_MX (plain s0 r) (plain s1 r) f K Fo FrP Kf x b N).
      * intros x b. rewrite (DX_equiv _ _ _ _ _ EA EK).
        exact (stepA_DX (plain s0 r) (plain s1 r) t f (cn_add c) a _ K A HG Fo
                 (plain_find_action_some r s0 t a Fa) Fa1 (upd_dep_ctx _ _ _) FAo Sh FrP Kadd Nadd Kf Af x b).
  - (* the target is a checkpoint *)
    assert (EK : forall u y, Or2 K (conn_at RCheckpoint base c) u y <-> (K u y \/ (u = t /\ y = r_id (cn_add c)))).
    { intros u y. unfold Or2, conn_at. fold t. tauto. }
    assert (EA : forall u y, Or2 A (conn_at RAction base c) u y <-> A u y).
    { intros u y. unfold Or2, conn_at. rewrite Kc. split; [intros [H|[H _]]; [exact H|discriminate]|auto]. }
    rewrite (stitch_one_checkpoint base s0 n c tc Kc Ftc). fold t f.
    set (s1 := set_checkpoint (add_checkpoint s0 (stitched_copy f tc)) t (Some G_AND)
                 [DRef (Ref RCheckpoint f); DRef (cn_add c)]).
    assert (HA : forall i, find_action (plain s1 r) i = find_action (plain s0 r) i).
    { intro i. apply plain_find_action_congr. reflexivity. }
    assert (HG : forall i, find_group (plain s1 r) i = find_group (plain s0 r) i).
    { intro i. apply plain_find_group_congr. reflexivity. }
    assert (Ff : find_checkpoint (plain s1 r) f = Some (stitched_copy f tc)).
    { apply plain_find_checkpoint_some. exact (ct_find_f s0 t f tc (cn_add c) Ftc Fn). }
    destruct (ct_find_t s0 t f tc (cn_add c) Ftc) as (tc' & Ft' & Dt').
    assert (Ft1 : find_checkpoint (plain s1 r) t = Some tc') by (apply plain_find_checkpoint_some; exact Ft').
    assert (Fo : forall i, i <> f -> i <> t -> find_checkpoint (plain s1 r) i = find_checkpoint (plain s0 r) i).
    { intros i N1 N2. apply plain_find_checkpoint_congr. exact (ct_find_other s0 t f tc (cn_add c) i N1 N2). }
    split.
    + intros x b N. rewrite (MX_equiv _ _ _ EK).
      exact (stepC_MX (plain s0 r) (plain s1 r) t f (cn_add c) tc (stitched_copy f tc) tc' K
               (plain_find_checkpoint_some r s0 t tc Ftc) Ff eq_refl Ft1 Dt' Fo FrP Kadd Nadd Kf x b N).
    + intros x b. rewrite (DX_equiv _ _ _ _ _ EA EK).
      exact (stepC_DX (plain s0 r) (plain s1 r) t f (cn_add c) tc (stitched_copy f tc) tc' K HA HG
               (plain_find_checkpoint_some r s0 t tc Ftc) Ff eq_refl Ft1 Dt' Fo FrP Kadd Nadd Kf A x b Af).
Qed.

(* ================================================================== 6. all connections of one import, in context *)
Definition ConnL (k : rkind) (base : nat) (cs : list conn) (u a : nat) : Prop :=
  exists c, In c cs /\ conn_at k base c u a.

Definition ConnOkAt (base : nat) (s0 : schema) (c : conn) : Prop :=
  r_kind (cn_add c) = RCheckpoint /\ r_id (cn_add c) < base /\ r_id (cn_to c) < STITCH /\ TargetFound base s0 c.

(* the pairs of P stay clear of the ids reserved for the stitched checkpoints of [base] *)
Definition ZoneFresh (base : nat) (P : nat -> nat -> Prop) : Prop :=
  forall u a, P u a -> forall j, base + STITCH <= j -> j < base + OFF -> u <> j /\ a <> j.

Lemma TargetFound_stitch_one base s0 n c c' : r_id (cn_to c') < STITCH ->
  TargetFound base s0 c' -> TargetFound base (stitch_one base s0 n c) c'.
Proof.
  intros L [[Kc [a Fa]]|[Kc [tc Ftc]]]; [left|right]; (split; [exact Kc|]).
  - pose proof (stitch_one_find_action_skel base s0 n c (base + r_id (cn_to c'))) as E. rewrite Fa in E.
    destruct (find_action (stitch_one base s0 n c) (base + r_id (cn_to c'))) as [a'|]; [eauto|discriminate].
  - assert (N : base + r_id (cn_to c') <> base + STITCH + n) by lia.
    pose proof (stitch_one_find_checkpoint_skel base s0 n c _ N) as E. rewrite Ftc in E.
    destruct (find_checkpoint (stitch_one base s0 n c) (base + r_id (cn_to c'))) as [t'|]; [eauto|discriminate].
Qed.

Lemma stitch_all_ctx base r : forall cs s0 n (K A : nat -> nat -> Prop),
  n + length cs <= OFF - STITCH ->
  (forall m, n <= m -> m < n + length cs -> FreshCp s0 (base + STITCH + m)) ->
  (forall m, n <= m -> m < n + length cs -> forall im, In im r -> FreshCp (shift (im_base im) (im_schema im)) (base + STITCH + m)) ->
  (forall c, In c cs -> ConnOkAt base s0 c) ->
  ZoneFresh base K -> ZoneFresh base A ->
  (forall x b, (forall m, n <= m -> m < n + length cs -> x <> base + STITCH + m) ->
     (MentionsX (plain (stitch_all base s0 n cs) r) K x b <->
      MentionsX (plain s0 r) (Or2 K (ConnL RCheckpoint base cs)) x b)) /\
  (forall x b, DepX (plain (stitch_all base s0 n cs) r) A K x b <->
               DepX (plain s0 r) (Or2 A (ConnL RAction base cs)) (Or2 K (ConnL RCheckpoint base cs)) x b).
Proof.
  induction cs as [|c cs IH]; intros s0 n K A Ln Fr0 FrR Ok ZK ZA.
  - cbn [stitch_all].
    assert (E : forall k (P : nat -> nat -> Prop) u a, P u a <-> Or2 P (ConnL k base []) u a).
    { intros k P u a. unfold Or2, ConnL. split; [auto|intros [H|(c & [] & _)]; exact H]. }
    split; intros x b; [intros _; apply MX_equiv|apply DX_equiv]; intros u a; apply E.
  - cbn [stitch_all]. cbn [length] in Ln, Fr0, FrR |- *.
    set (f := base + STITCH + n). set (s1 := stitch_one base s0 n c).
    set (K1 := Or2 K (ConnL RCheckpoint base cs)). set (A1 := Or2 A (ConnL RAction base cs)).
    destruct (Ok c (or_introl eq_refl)) as (Kadd & Ladd & Lto & TF).
    assert (Zf : base + STITCH <= f /\ f < base + OFF) by (unfold f, OFF, STITCH in *; lia).
    assert (ZL : forall k u a, ConnL k base cs u a -> u <> f /\ a <> f).
    { intros k u a (c' & I & _ & -> & ->). destruct (Ok c' (or_intror I)) as (_ & L1 & L2 & _). unfold f. lia. }
    assert (K1f : forall u a, K1 u a -> u <> f /\ a <> f).
    { intros u a [H|H]; [exact (ZK u a H f (proj1 Zf) (proj2 Zf))|exact (ZL _ u a H)]. }
    assert (A1f : forall u a, A1 u a -> a <> f).
    { intros u a [H|H]; [exact (proj2 (ZA u a H f (proj1 Zf) (proj2 Zf)))|exact (proj2 (ZL _ u a H))]. }
    destruct (stitch_one_ctx base s0 n c r K1 A1) as [One1 One2]; try assumption.
    + apply Fr0; lia.
    + apply FrR; lia.
    + fold f. unfold f. lia.
    + destruct (IH s1 (S n) K A) as [IH1 IH2]; try assumption.
      * lia.
      * intros m A1m A2m. apply stitch_one_FreshCp; [apply Fr0; lia|lia|lia].
      * intros m A1m A2m. apply FrR; lia.
      * intros c' I. destruct (Ok c' (or_intror I)) as (B1 & B2 & B3 & B4).
        split; [exact B1|]. split; [exact B2|]. split; [exact B3|]. apply TargetFound_stitch_one; assumption.
      * assert (EK : forall u a, Or2 K1 (conn_at RCheckpoint base c) u a <-> Or2 K (ConnL RCheckpoint base (c :: cs)) u a).
        { intros u a. unfold K1, Or2, ConnL. split.
          - intros [[H|(c' & I & H)]|H]; [left; exact H|right; exists c'; split; [right; exact I|exact H]|].
            right. exists c. split; [left; reflexivity|exact H].
          - intros [H|(c' & [<-|I] & H)]; [left; left; exact H|right; exact H|left; right; exists c'; auto]. }
        assert (EA : forall u a, Or2 A1 (conn_at RAction base c) u a <-> Or2 A (ConnL RAction base (c :: cs)) u a).
        { intros u a. unfold A1, Or2, ConnL. split.
          - intros [[H|(c' & I & H)]|H]; [left; exact H|right; exists c'; split; [right; exact I|exact H]|].
            right. exists c. split; [left; reflexivity|exact H].
          - intros [H|(c' & [<-|I] & H)]; [left; left; exact H|right; exact H|left; right; exists c'; auto]. }
        split.
        -- intros x b N. rewrite IH1 by (intros m A1m A2m; apply N; lia).
           fold K1. unfold s1. rewrite One1 by (apply N; lia). apply MX_equiv. exact EK.
        -- intros x b. rewrite IH2. fold K1 A1. unfold s1. rewrite One2. apply DX_equiv; [exact EA|exact EK].
Qed.

(* ================================================================== 7. all imports *)
Definition ConnI (k : rkind) (ims : list import) (u a : nat) : Prop :=
  exists im, In im ims /\ ConnL k (im_base im) (im_conns im) u a.

Definition StitchedBy (ims : list import) (x : nat) : Prop :=
  exists im m, In im ims /\ m < length (im_conns im) /\ x = im_base im + STITCH + m.

(* what [conn_ok] says of a connection *)
Definition ConnOk (im : import) (c : conn) : Prop :=
  r_kind (cn_add c) = RCheckpoint /\
  ((r_kind (cn_to c) = RAction /\ exists a, find_action (im_schema im) (r_id (cn_to c)) = Some a) \/
   (r_kind (cn_to c) = RCheckpoint /\ exists t, find_checkpoint (im_schema im) (r_id (cn_to c)) = Some t)).

Lemma ConnOk_lt im c : GoodAll im -> ConnOk im c -> r_id (cn_to c) < STITCH.
Proof.
  intros (_ & B & _) (_ & [[_ [a F]]|[_ [t F]]]); destruct (ids_below_inv _ _ B) as (_ & _ & _ & LA & LC & _).
  - destruct (find_action_some _ _ _ F) as [I <-]. apply LA. exact I.
  - destruct (find_checkpoint_some _ _ _ F) as [I <-]. apply LC. exact I.
Qed.

Lemma TargetFound_union acc im c : ConnOk im c ->
  TargetFound (im_base im) (union acc (shift (im_base im) (im_schema im))) c.
Proof.
  intros (_ & [[Kc [a F]]|[Kc [t F]]]); [left|right]; (split; [exact Kc|]).
  - rewrite union_find_action. destruct (find_action acc (im_base im + r_id (cn_to c))); [eauto|].
    change (find_action (shift (im_base im) (im_schema im)) (im_base im + r_id (cn_to c)))
      with (fnd a_id (im_base im + r_id (cn_to c)) (map (sh_action (im_base im)) (actions (im_schema im)))).
    rewrite (fnd_sh a_id sh_action) by reflexivity.
    change (fnd a_id (r_id (cn_to c)) (actions (im_schema im))) with (find_action (im_schema im) (r_id (cn_to c))).
    rewrite F. cbn. eauto.
  - rewrite union_find_checkpoint. destruct (find_checkpoint acc (im_base im + r_id (cn_to c))); [eauto|].
    change (find_checkpoint (shift (im_base im) (im_schema im)) (im_base im + r_id (cn_to c)))
      with (fnd cp_id (im_base im + r_id (cn_to c)) (map (sh_checkpoint (im_base im)) (checkpoints (im_schema im)))).
    rewrite (fnd_sh cp_id sh_checkpoint) by reflexivity.
    change (fnd cp_id (r_id (cn_to c)) (checkpoints (im_schema im))) with (find_checkpoint (im_schema im) (r_id (cn_to c))).
    rewrite F. cbn. eauto.
Qed.

(* the shifted copy of an import has no reference to an id in the stitch zone of any import *)
Lemma FreshCp_shift_zone im B j : GoodRefs im -> GoodBase B -> B + STITCH <= j -> j < B + OFF ->
  FreshCp (shift (im_base im) (im_schema im)) j.
Proof.
  intros ((Gb & Gi & _) & Gr & _) GB L1 L2.
  destruct (ids_below_inv _ _ Gi) as (_ & _ & _ & _ & LC & _).
  destruct (Nat.eq_dec (im_base im) B) as [E|NB].
  - apply FreshCp_shift.
    + intros x I Eq. specialize (LC x I). lia.
    + intros i I Eq. specialize (Gr i I). lia.
  - apply FreshCp_shift.
    + intros x I Eq. specialize (LC x I).
      refine (block_ne _ _ j j Gb GB NB _ _ _ L2 eq_refl); unfold OFF, STITCH in *; lia.
    + intros i I Eq. specialize (Gr i I).
      refine (block_ne _ _ j j Gb GB NB _ _ _ L2 eq_refl); unfold OFF, STITCH in *; lia.
Qed.

Lemma ConnI_ZoneFresh k r B : GoodBase B ->
  (forall im, In im r -> GoodRefs im /\ im_base im <> B) ->
  (forall im c, In im r -> In c (im_conns im) -> ConnOk im c) ->
  ZoneFresh B (ConnI k r).
Proof.
  intros GB G Ok u a (im & I & c & Ic & _ & -> & ->) j L1 L2.
  destruct (G im I) as [((Gb & Gi & Gl) & Gr & Ga) NB].
  pose proof (ConnOk_lt im c (conj Gb (conj Gi Gl)) (Ok im c I Ic)) as Lt. specialize (Ga c Ic).
  split.
  - refine (block_ne _ _ _ _ Gb GB NB _ _ _ L2); unfold OFF, STITCH in *; lia.
  - apply GoodBase_ge in GB. unfold OFF, STITCH in *. lia.
Qed.

Lemma fold_ctx : forall ims acc (K A : nat -> nat -> Prop),
  NoDup (map im_base ims) ->
  (forall im, In im ims -> GoodRefs im) ->
  (forall im, In im ims -> NoKeys acc (im_base im)) ->
  (forall im, In im ims -> forall j, im_base im + STITCH <= j -> j < im_base im + OFF -> FreshCp acc j) ->
  (forall im c, In im ims -> In c (im_conns im) -> ConnOk im c) ->
  (forall im, In im ims -> ZoneFresh (im_base im) K /\ ZoneFresh (im_base im) A) ->
  (forall x b, ~ StitchedBy ims x ->
     (MentionsX (fold_left step ims acc) K x b <-> MentionsX (plain acc ims) (Or2 K (ConnI RCheckpoint ims)) x b)) /\
  (forall x b, DepX (fold_left step ims acc) A K x b <->
               DepX (plain acc ims) (Or2 A (ConnI RAction ims)) (Or2 K (ConnI RCheckpoint ims)) x b).
Proof.
  induction ims as [|im r IH]; intros acc K A ND GR NK FA Ok Z.
  - cbn [fold_left plain].
    assert (E : forall k (P : nat -> nat -> Prop) u a, P u a <-> Or2 P (ConnI k []) u a).
    { intros k P u a. unfold Or2, ConnI. split; [auto|intros [H|(im & [] & _)]; exact H]. }
    split; intros x b; [intros _; apply MX_equiv|apply DX_equiv]; intros u a; apply E.
  - cbn [fold_left]. rewrite plain_cons.
    cbn [map] in ND. inversion ND as [|? ? NI ND']; subst.
    pose proof (GR im (or_introl eq_refl)) as GRi. pose proof GRi as ((Gb & Gi & Gl) & Gr & Ga).
    assert (NBr : forall im', In im' r -> im_base im' <> im_base im).
    { intros im' I E. apply NI. rewrite <- E. apply in_map. exact I. }
    set (base := im_base im) in *. set (s0 := union acc (shift base (im_schema im))).
    set (K1 := Or2 K (ConnI RCheckpoint r)). set (A1 := Or2 A (ConnI RAction r)).
    assert (ZI : forall k, ZoneFresh base (ConnI k r)).
    { intro k. apply ConnI_ZoneFresh; [exact Gb| |].
      - intros im' I. split; [apply GR; right; exact I|apply NBr; exact I].
      - intros im' c I Ic. apply Ok; [right; exact I|exact Ic]. }
    destruct (Z im (or_introl eq_refl)) as [ZK ZA].
    destruct (stitch_all_ctx base r (im_conns im) s0 0 K1 A1) as [All1 All2].
    + unfold OFF, STITCH in *. lia.
    + intros m _ Lm. assert (L2 : base + STITCH + m < base + OFF) by (unfold OFF, STITCH in *; lia).
      apply FreshCp_union.
      * apply (FA im (or_introl eq_refl)); [lia|exact L2].
      * apply (FreshCp_shift_zone im base); [exact GRi|exact Gb|lia|exact L2].
    + intros m _ Lm im' I. assert (L2 : base + STITCH + m < base + OFF) by (unfold OFF, STITCH in *; lia).
      apply (FreshCp_shift_zone im' base); [apply GR; right; exact I|exact Gb|lia|exact L2].
    + intros c Ic. pose proof (Ok im c (or_introl eq_refl) Ic) as O. split; [exact (proj1 O)|]. split.
      * specialize (Ga c Ic). apply GoodBase_ge in Gb. fold base in Gb. lia.
      * split; [exact (ConnOk_lt im c (conj Gb (conj Gi Gl)) O)|apply TargetFound_union; exact O].
    + intros u a [H|H] j L1 L2; [exact (ZK u a H j L1 L2)|exact (ZI _ u a H j L1 L2)].
    + intros u a [H|H] j L1 L2; [exact (ZA u a H j L1 L2)|exact (ZI _ u a H j L1 L2)].
    + destruct (IH (step acc im) K A) as [IH1 IH2]; try assumption.
      * intros im' I. apply GR. right. exact I.
      * intros im' I. apply step_NoKeys; [apply NK; right; exact I|apply (GR im' (or_intror I))|exact (conj Gb (conj Gi Gl))|].
        intro E. exact (NBr im' I (eq_sym E)).
      * intros im' I j L1 L2. apply (step_FreshCp acc im (im_base im') j); try assumption.
        -- apply (FA im' (or_intror I)); assumption.
        -- apply (GR im' (or_intror I)).
        -- intro E. exact (NBr im' I (eq_sym E)).
      * intros im' c I Ic. apply Ok; [right; exact I|exact Ic].
      * intros im' I. apply Z. right. exact I.
      * assert (EK : forall k (P : nat -> nat -> Prop) u a,
                  Or2 (Or2 P (ConnI k r)) (ConnL k base (im_conns im)) u a <-> Or2 P (ConnI k (im :: r)) u a).
        { intros k P u a. unfold Or2, ConnI. split.
          - intros [[H|(im' & I & H)]|H]; [left; exact H|right; exists im'; split; [right; exact I|exact H]|].
            right. exists im. split; [left; reflexivity|exact H].
          - intros [H|(im' & [<-|I] & H)]; [left; left; exact H|right; exact H|left; right; exists im'; auto]. }
        split.
        -- intros x b N. rewrite IH1.
           ++ fold K1. unfold step. fold base s0. rewrite All1; [apply MX_equiv; apply EK|].
              intros m _ Lm E. apply N. exists im, m. split; [left; reflexivity|]. split; [exact Lm|exact E].
           ++ intros (im' & m & I & Lm & E). apply N. exists im', m. split; [right; exact I|auto].
        -- intros x b. rewrite IH2. fold K1 A1. unfold step. fold base s0. rewrite All2.
           apply DX_equiv; apply EK.
Qed.

(* ================================================================== 8. the closed form on [combine] *)
Definition conns_ok (native : schema) (ims : list import) : bool :=
  forallb (fun im => forallb (conn_ok native im) (im_conns im)) ims.

Lemma conns_ok_inv native ims : conns_ok native ims = true ->
  forall im c, In im ims -> In c (im_conns im) -> ConnOk im c.
Proof.
  unfold conns_ok. rewrite forallb_forall. intros H im c I Ic. specialize (H im I). rewrite forallb_forall in H.
  destruct (conn_ok_inv native im c (H c Ic)) as (T & KA & _). split; assumption.
Qed.

Lemma conns_ok_of_conforms_i tbl native ims : conforms_i tbl native ims = true -> conns_ok native ims = true.
Proof.
  intro C. destruct (conforms_i_with_inv _ _ _ _ C) as (_ & HI & _).
  unfold conns_ok. apply forallb_forall. intros im I. apply forallb_forall. intros c Ic.
  exact (proj1 (proj2 (proj2 (import_ok_inv _ _ _ _ (HI im I)))) c Ic).
Qed.

Lemma GoodRefs_all native ims : wf_i native ims = true -> wf_refs native ims = true ->
  forall im, In im ims -> GoodRefs im.
Proof.
  intros WF WR im I. destruct (wf_i_inv _ _ WF) as (B & _ & G). destruct (bases_ok_inv _ B) as [_ GB].
  destruct (wf_refs_inv _ _ WR) as [_ RI]. destruct (G im I). destruct (RI im I).
  split; [split; [apply GB; exact I|auto]|auto].
Qed.

Lemma native_zone_fresh native ims : wf_i native ims = true -> wf_refs native ims = true ->
  forall im, In im ims -> forall j, im_base im + STITCH <= j -> j < im_base im + OFF -> FreshCp native j.
Proof.
  intros WF WR im I j L1 L2. destruct (wf_i_inv _ _ WF) as (B & N & _). destruct (bases_ok_inv _ B) as [_ GB].
  destruct (wf_refs_inv _ _ WR) as [RN _]. destruct (ids_below_inv _ _ N) as (_ & _ & _ & _ & NC & _).
  apply FreshCp_of_refs.
  - destruct (find_checkpoint native j) as [x|] eqn:F; [|reflexivity].
    destruct (find_checkpoint_some _ _ _ F) as [Ix E]. specialize (NC x Ix).
    pose proof (GoodBase_ge _ (GB im I)). unfold OFF, STITCH in *. lia.
  - intro Ij. exact (RN j im Ij I (conj L1 L2)).
Qed.

Lemma Or2_NoConn (P : nat -> nat -> Prop) u a : Or2 NoConn P u a <-> P u a.
Proof. unfold Or2, NoConn. tauto. Qed.

Lemma C16_closed_form_lemma : forall native ims,
  wf_i native ims = true -> wf_refs native ims = true -> conns_ok native ims = true ->
  (forall x b, ~ StitchedBy ims x ->
     (Mentions (combine native ims) x b <-> MentionsX (plain native ims) (ConnI RCheckpoint ims) x b)) /\
  (forall x b, Dep (combine native ims) x b <->
               DepX (plain native ims) (ConnI RAction ims) (ConnI RCheckpoint ims) x b).
Proof.
  intros native ims WF WR CO.
  destruct (wf_i_inv _ _ WF) as (B & N & G). destruct (bases_ok_inv _ B) as [ND GB].
  destruct (fold_ctx ims native NoConn NoConn) as [F1 F2].
  - exact ND.
  - apply (GoodRefs_all native ims WF WR).
  - intros im I. apply NoKeys_below; [exact N|apply GB; exact I].
  - apply (native_zone_fresh native ims WF WR).
  - apply (conns_ok_inv native ims CO).
  - intros im I. split; intros u a [].
  - rewrite combine_fold. split.
    + intros x b Nx. rewrite <- MX_NoConn, (F1 x b Nx). apply MX_equiv. intros u a. apply Or2_NoConn.
    + intros x b. rewrite <- DX_NoConn, (F2 x b). apply DX_equiv; intros u a; apply Or2_NoConn.
Qed.

(* ================================================================== 9. lookups in the plain union *)
Section PlainKind.
Context {A : Type} (key : A -> nat) (proj : schema -> list A) (sh : nat -> A -> A).
Hypothesis H_union : forall a b, proj (union a b) = proj a ++ proj b.
Hypothesis H_shift : forall d s, proj (shift d s) = map (sh d) (proj s).
Hypothesis H_key : forall d x, key (sh d x) = d + key x.

Lemma pk_union a b i :
  fnd key i (proj (union a b)) = match fnd key i (proj a) with Some x => Some x | None => fnd key i (proj b) end.
Proof. rewrite H_union. unfold fnd. apply find_app. Qed.

Lemma pk_some r : forall s i v, fnd key i (proj s) = Some v -> fnd key i (proj (plain s r)) = Some v.
Proof.
  induction r as [|im r IH]; intros s i v E; [exact E|]. rewrite plain_cons. apply IH. rewrite pk_union, E. reflexivity.
Qed.

Lemma pk_inv r : forall s i v, fnd key i (proj (plain s r)) = Some v ->
  fnd key i (proj s) = Some v \/ exists im, In im r /\ fnd key i (proj (shift (im_base im) (im_schema im))) = Some v.
Proof.
  induction r as [|im r IH]; intros s i v E; [left; exact E|]. rewrite plain_cons in E.
  destruct (IH _ _ _ E) as [E1|(im' & I & E1)].
  - rewrite pk_union in E1. destruct (fnd key i (proj s)) as [x|]; [left; exact E1|].
    right. exists im. split; [left; reflexivity|exact E1].
  - right. exists im'. split; [right; exact I|exact E1].
Qed.

Lemma pk_ex r : forall s im i v, In im r -> fnd key i (proj (shift (im_base im) (im_schema im))) = Some v ->
  exists v', fnd key i (proj (plain s r)) = Some v'.
Proof.
  induction r as [|im0 r IH]; intros s im i v I E; [contradiction|]. rewrite plain_cons. destruct I as [->|I].
  - destruct (fnd key i (proj (union s (shift (im_base im) (im_schema im))))) as [v'|] eqn:F.
    + exists v'. apply pk_some. exact F.
    + rewrite pk_union, E in F. destruct (fnd key i (proj s)); discriminate.
  - eapply IH; eassumption.
Qed.

Lemma pk_shift_range d s i v : fnd key i (proj (shift d s)) = Some v -> exists x, In x (proj s) /\ i = d + key x.
Proof. rewrite H_shift. apply (fnd_sh_some key sh H_key). Qed.

Variables (native : schema) (ims : list import).
Hypothesis HN : forall x, In x (proj native) -> key x < OFF.
Hypothesis HI : forall im, In im ims -> GoodBase (im_base im) /\ forall x, In x (proj (im_schema im)) -> key x < STITCH.
Hypothesis ND : NoDup (map im_base ims).

Lemma pk_native i : i < OFF -> fnd key i (proj (plain native ims)) = fnd key i (proj native).
Proof.
  intro L. destruct (fnd key i (proj native)) as [v|] eqn:F; [apply pk_some; exact F|].
  destruct (fnd key i (proj (plain native ims))) as [v|] eqn:F2; [|reflexivity]. exfalso.
  destruct (pk_inv _ _ _ _ F2) as [E|(im & I & E)]; [rewrite F in E; discriminate|].
  destruct (pk_shift_range _ _ _ _ E) as (x & _ & ->). destruct (HI im I) as [G _]. apply GoodBase_ge in G. lia.
Qed.

Lemma pk_block im i : In im ims -> im_base im <= i -> i < im_base im + OFF ->
  fnd key i (proj (plain native ims)) = fnd key i (proj (shift (im_base im) (im_schema im))).
Proof.
  intros I L1 L2. destruct (HI im I) as [Gb _].
  destruct (fnd key i (proj (plain native ims))) as [v|] eqn:F.
  - destruct (pk_inv _ _ _ _ F) as [E|(im' & I' & E)].
    + exfalso. destruct (find_key_some key _ _ _ E) as [Iv Ev]. specialize (HN v Iv). apply GoodBase_ge in Gb. lia.
    + destruct (pk_shift_range _ _ _ _ E) as (x & Ix & Ei). destruct (HI im' I') as [Gb' Lx]. specialize (Lx x Ix).
      destruct (Nat.eq_dec (im_base im') (im_base im)) as [Eb|Nb].
      * rewrite (key_unique im_base ims im' im ND I' I Eb) in E. symmetry. exact E.
      * exfalso. refine (block_ne _ _ i i Gb' Gb Nb _ _ L1 L2 eq_refl); unfold OFF, STITCH in *; lia.
  - destruct (fnd key i (proj (shift (im_base im) (im_schema im)))) as [v|] eqn:F2; [|reflexivity].
    destruct (pk_ex ims native im i v I F2) as [v' F3]. rewrite F in F3. discriminate.
Qed.
End PlainKind.

(* ================================================================== 10. the closed form seen from one schema *)
(* nested checkpoint references of the native schema stay in the native schema *)
Definition native_nests_native (native : schema) : bool :=
  forallb (fun cp => forallb (fun d => match d with
                                      | DRef r => negb (rkind_eqb (r_kind r) RCheckpoint) || Nat.ltb (r_id r) OFF
                                      | DCmp _ _ _ => true end) (cp_deps cp)) (checkpoints native).

Lemma native_nests_native_inv native : native_nests_native native = true ->
  forall cp r, In cp (checkpoints native) -> In (DRef r) (cp_deps cp) -> r_kind r = RCheckpoint -> r_id r < OFF.
Proof.
  unfold native_nests_native. rewrite forallb_forall. intros H cp r I D Kr. specialize (H cp I).
  rewrite forallb_forall in H. specialize (H _ D). cbn in H. rewrite Kr in H. cbn in H. apply Nat.ltb_lt. exact H.
Qed.

(* group contexts resolve inside the schema (part of what [conforms] checks) *)
Definition CtxClosed (s : schema) : Prop :=
  (forall a r, In a (actions s) -> a_ctx a = Some r -> r_kind r = RGroup -> exists tg, find_group s (r_id r) = Some tg) /\
  (forall g r, In g (groups s) -> g_ctx g = Some r -> r_kind r = RGroup -> exists tg, find_group s (r_id r) = Some tg).

Lemma conforms_CtxClosed cmp tbl s : conforms_with cmp tbl s = true -> CtxClosed s.
Proof.
  intro C. apply conforms_inv in C. split.
  - intros a r I E _. pose proof (ci_actions _ _ _ C a I) as H. apply action_ok_inv in H. destruct H as (_ & _ & H & _).
    rewrite E in H. cbn in H. apply ref_ok_group in H. exact (proj2 H).
  - intros g r I E _. pose proof (ci_groups _ _ _ C g I) as H. apply group_ok_inv in H. destruct H as (H & _).
    rewrite E in H. cbn in H. apply ref_ok_group in H. exact (proj2 H).
Qed.

Lemma Nests_find_mono s s' : (forall i cp, find_checkpoint s i = Some cp -> find_checkpoint s' i = Some cp) ->
  forall x y, Nests s x y -> Nests s' x y.
Proof.
  intros E x y H. induction H as [x cp r F I Kr | x y z _ IH1 _ IH2].
  - eapply N_step; [apply E; exact F|exact I|exact Kr].
  - eapply N_trans; eassumption.
Qed.

Lemma nodup_targets cs : nodup_by ref_eqb (map cn_to cs) = true ->
  forall c c', In c cs -> In c' cs -> cn_to c = cn_to c' -> c = c'.
Proof.
  induction cs as [|x r IH]; intros ND c c' I I' E; [contradiction|].
  cbn [map nodup_by] in ND. apply andb_true_iff in ND. destruct ND as [N1 N2]. apply negb_true_iff in N1.
  assert (NX : forall y, In y r -> cn_to x <> cn_to y).
  { intros y Iy Exy. rewrite <- not_true_iff_false in N1. apply N1. apply existsb_exists. exists (cn_to y).
    split; [apply in_map; exact Iy|apply ref_eqb_eq; exact Exy]. }
  destruct I as [<-|I], I' as [<-|I'].
  - reflexivity.
  - exfalso. exact (NX c' I' E).
  - exfalso. exact (NX c I (eq_sym E)).
  - exact (IH N2 c c' I I' E).
Qed.

Section Localise.
Variables (native : schema) (ims : list import).
Hypothesis WF : wf_i native ims = true.
Hypothesis WR : wf_refs native ims = true.

Let U : schema := plain native ims.

Lemma loc_facts :
  NoDup (map im_base ims) /\ ids_below OFF native = true /\ (forall im, In im ims -> GoodRefs im).
Proof.
  destruct (wf_i_inv _ _ WF) as (B & N & _). destruct (bases_ok_inv _ B) as [ND _].
  split; [exact ND|]. split; [exact N|]. apply (GoodRefs_all native ims WF WR).
Qed.

Lemma U_native_action i : i < OFF -> find_action U i = find_action native i.
Proof.
  destruct loc_facts as (ND & N & GR). destruct (ids_below_inv _ _ N) as (_ & _ & _ & LA & _).
  assert (HI : forall im, In im ims -> GoodBase (im_base im) /\ forall x, In x (actions (im_schema im)) -> a_id x < STITCH).
  { intros im I. destruct (GR im I) as ((Gb & Gi & _) & _). split; [exact Gb|]. apply (ids_below_inv _ _ Gi). }
  intro L. exact (pk_native a_id actions sh_action (fun _ _ => eq_refl) (fun _ _ => eq_refl) (fun _ _ => eq_refl) native ims HI i L).
Qed.
Lemma U_native_checkpoint i : i < OFF -> find_checkpoint U i = find_checkpoint native i.
Proof.
  destruct loc_facts as (ND & N & GR). destruct (ids_below_inv _ _ N) as (_ & _ & _ & _ & LC & _).
  assert (HI : forall im, In im ims -> GoodBase (im_base im) /\ forall x, In x (checkpoints (im_schema im)) -> cp_id x < STITCH).
  { intros im I. destruct (GR im I) as ((Gb & Gi & _) & _). split; [exact Gb|]. apply (ids_below_inv _ _ Gi). }
  intro L. exact (pk_native cp_id checkpoints sh_checkpoint (fun _ _ => eq_refl) (fun _ _ => eq_refl) (fun _ _ => eq_refl) native ims HI i L).
Qed.

Lemma U_block_action im i : In im ims -> im_base im <= i -> i < im_base im + OFF ->
  find_action U i = find_action (shift (im_base im) (im_schema im)) i.
Proof.
  destruct loc_facts as (ND & N & GR). destruct (ids_below_inv _ _ N) as (_ & _ & _ & LA & _).
  assert (HI : forall im, In im ims -> GoodBase (im_base im) /\ forall x, In x (actions (im_schema im)) -> a_id x < STITCH).
  { intros im' I. destruct (GR im' I) as ((Gb & Gi & _) & _). split; [exact Gb|]. apply (ids_below_inv _ _ Gi). }
  exact (pk_block a_id actions sh_action (fun _ _ => eq_refl) (fun _ _ => eq_refl) (fun _ _ => eq_refl) native ims LA HI ND im i).
Qed.
Lemma U_block_checkpoint im i : In im ims -> im_base im <= i -> i < im_base im + OFF ->
  find_checkpoint U i = find_checkpoint (shift (im_base im) (im_schema im)) i.
Proof.
  destruct loc_facts as (ND & N & GR). destruct (ids_below_inv _ _ N) as (_ & _ & _ & _ & LC & _).
  assert (HI : forall im, In im ims -> GoodBase (im_base im) /\ forall x, In x (checkpoints (im_schema im)) -> cp_id x < STITCH).
  { intros im' I. destruct (GR im' I) as ((Gb & Gi & _) & _). split; [exact Gb|]. apply (ids_below_inv _ _ Gi). }
  exact (pk_block cp_id checkpoints sh_checkpoint (fun _ _ => eq_refl) (fun _ _ => eq_refl) (fun _ _ => eq_refl) native ims LC HI ND im i).
Qed.
Lemma U_block_group im i : In im ims -> im_base im <= i -> i < im_base im + OFF ->
  find_group U i = find_group (shift (im_base im) (im_schema im)) i.
Proof.
  destruct loc_facts as (ND & N & GR). destruct (ids_below_inv _ _ N) as (_ & _ & _ & _ & _ & LG).
  assert (HI : forall im, In im ims -> GoodBase (im_base im) /\ forall x, In x (groups (im_schema im)) -> g_id x < STITCH).
  { intros im' I. destruct (GR im' I) as ((Gb & Gi & _) & _). split; [exact Gb|]. apply (ids_below_inv _ _ Gi). }
  exact (pk_block g_id groups sh_group (fun _ _ => eq_refl) (fun _ _ => eq_refl) (fun _ _ => eq_refl) native ims LG HI ND im i).
Qed.

Lemma U_Sub_native : Sub native U.
Proof.
  repeat split; intros i e F.
  - apply plain_find_action_some. exact F.
  - apply plain_find_group_some. exact F.
  - apply plain_find_checkpoint_some. exact F.
Qed.

(* ids found in a shifted import lie in the lower part of its block *)
Lemma shift_found_range im : In im ims ->
  (forall i e, find_action (shift (im_base im) (im_schema im)) i = Some e -> im_base im <= i /\ i < im_base im + STITCH) /\
  (forall i e, find_group (shift (im_base im) (im_schema im)) i = Some e -> im_base im <= i /\ i < im_base im + STITCH) /\
  (forall i e, find_checkpoint (shift (im_base im) (im_schema im)) i = Some e -> im_base im <= i /\ i < im_base im + STITCH).
Proof.
  intro I. destruct loc_facts as (_ & _ & GR). destruct (GR im I) as ((_ & Gi & _) & _).
  destruct (ids_below_inv _ _ Gi) as (_ & _ & _ & LA & LC & LG).
  split; [|split]; intros i e F.
  - destruct (pk_shift_range a_id actions sh_action (fun _ _ => eq_refl) (fun _ _ => eq_refl) _ _ _ _ F) as (x & Ix & ->).
    specialize (LA x Ix). lia.
  - destruct (pk_shift_range g_id groups sh_group (fun _ _ => eq_refl) (fun _ _ => eq_refl) _ _ _ _ F) as (x & Ix & ->).
    specialize (LG x Ix). lia.
  - destruct (pk_shift_range cp_id checkpoints sh_checkpoint (fun _ _ => eq_refl) (fun _ _ => eq_refl) _ _ _ _ F) as (x & Ix & ->).
    specialize (LC x Ix). lia.
Qed.

Lemma U_Sub_shift im : In im ims -> Sub (shift (im_base im) (im_schema im)) U.
Proof.
  intro I. destruct (shift_found_range im I) as (RA & RG & RC).
  repeat split; intros i e F.
  - destruct (RA i e F). rewrite (U_block_action im i I) by (unfold OFF, STITCH in *; lia). exact F.
  - destruct (RG i e F). rewrite (U_block_group im i I) by (unfold OFF, STITCH in *; lia). exact F.
  - destruct (RC i e F). rewrite (U_block_checkpoint im i I) by (unfold OFF, STITCH in *; lia). exact F.
Qed.

(* every checkpoint reference of a shifted import points into the lower part of its block *)
Lemma shift_fresh_outside im j : In im ims -> ~ (im_base im <= j /\ j < im_base im + STITCH) ->
  FreshCp (shift (im_base im) (im_schema im)) j.
Proof.
  intros I N. destruct loc_facts as (_ & _ & GR). destruct (GR im I) as ((_ & Gi & _) & Gr & _).
  destruct (ids_below_inv _ _ Gi) as (_ & _ & _ & _ & LC & _).
  apply FreshCp_shift.
  - intros x Ix E. specialize (LC x Ix). lia.
  - intros i Ii E. specialize (Gr i Ii). lia.
Qed.

Lemma shift_cp_ref_range im x cp r : In im ims ->
  find_checkpoint (shift (im_base im) (im_schema im)) x = Some cp -> In (DRef r) (cp_deps cp) -> r_kind r = RCheckpoint ->
  im_base im <= r_id r /\ r_id r < im_base im + STITCH.
Proof.
  intros I F D Kr.
  destruct (le_lt_dec (im_base im) (r_id r)) as [L1|L1]; [destruct (lt_dec (r_id r) (im_base im + STITCH)) as [L2|L2]; [auto|]|].
  - exfalso. destruct (shift_fresh_outside im (r_id r) I) as (_ & _ & _ & FC); [lia|].
    destruct (find_checkpoint_some _ _ _ F) as [Icp _]. exact (FC cp r Icp D Kr eq_refl).
  - exfalso. destruct (shift_fresh_outside im (r_id r) I) as (_ & _ & _ & FC); [lia|].
    destruct (find_checkpoint_some _ _ _ F) as [Icp _]. exact (FC cp r Icp D Kr eq_refl).
Qed.

Lemma shift_holder_range im x act cc : In im ims ->
  find_action (shift (im_base im) (im_schema im)) x = Some act ->
  HoldsAction (shift (im_base im) (im_schema im)) act cc ->
  im_base im <= cc /\ cc < im_base im + STITCH.
Proof.
  intros I F H.
  destruct (le_lt_dec (im_base im) cc) as [L1|L1]; [destruct (lt_dec cc (im_base im + STITCH)) as [L2|L2]; [auto|]|];
    exfalso; (assert (Fr : FreshCp (shift (im_base im) (im_schema im)) cc) by (apply shift_fresh_outside; [exact I|lia]));
    destruct (find_action_some _ _ _ F) as [Ia _]; exact (HoldsAction_fresh _ _ _ _ Fr Ia H eq_refl).
Qed.

(* (i) what a checkpoint of an import mentions in the plain union is what it mentions in its own schema *)
Lemma Mentions_block im : In im ims -> forall x b, Mentions U x b ->
  im_base im <= x -> x < im_base im + OFF -> Mentions (shift (im_base im) (im_schema im)) x b.
Proof.
  intros I x b H. induction H as [x cp l o r b F I0 B | x cp r b F I0 Kr _ IH]; intros L1 L2.
  - rewrite (U_block_checkpoint im x I L1 L2) in F. eapply M_cmp; eassumption.
  - rewrite (U_block_checkpoint im x I L1 L2) in F.
    destruct (shift_cp_ref_range im x cp r I F I0 Kr) as [R1 R2].
    eapply M_ref; [exact F|exact I0|exact Kr|]. apply IH; unfold OFF, STITCH in *; lia.
Qed.

(* (ii) ... and the checkpoints it nests *)
Lemma Nests_block im : In im ims -> forall x t, Nests U x t ->
  im_base im <= x -> x < im_base im + OFF ->
  Nests (shift (im_base im) (im_schema im)) x t /\ im_base im <= t /\ t < im_base im + STITCH.
Proof.
  intros I x t H. induction H as [x cp r F I0 Kr | x y z _ IH1 _ IH2]; intros L1 L2.
  - rewrite (U_block_checkpoint im x I L1 L2) in F.
    split; [eapply N_step; eassumption|exact (shift_cp_ref_range im x cp r I F I0 Kr)].
  - destruct (IH1 L1 L2) as (N1 & A1 & A2).
    destruct IH2 as (N2 & B1 & B2); [exact A1|unfold OFF, STITCH in *; lia|].
    split; [eapply N_trans; eassumption|auto].
Qed.

Lemma NestsR_block im : In im ims -> forall x t, NestsR U x t ->
  im_base im <= x -> x < im_base im + STITCH ->
  NestsR (shift (im_base im) (im_schema im)) x t /\ im_base im <= t /\ t < im_base im + STITCH.
Proof.
  intros I x t [->|N] L1 L2; [split; [left; reflexivity|auto]|].
  destruct (Nests_block im I x t N L1) as (N' & R); [unfold OFF, STITCH in *; lia|]. split; [right; exact N'|exact R].
Qed.

Lemma NestsR_up im : In im ims -> forall x t, NestsR (shift (im_base im) (im_schema im)) x t -> NestsR U x t.
Proof.
  intros I x t [->|N]; [left; reflexivity|right].
  eapply Nests_find_mono; [|exact N]. apply (U_Sub_shift im I).
Qed.

(* (v) a connection whose target lies in the block of an import is a connection of that import *)
Lemma ConnI_block k im t a : conns_ok native ims = true -> In im ims -> ConnI k ims t a ->
  im_base im <= t -> t < im_base im + OFF -> ConnL k (im_base im) (im_conns im) t a.
Proof.
  intros CO I (im' & I' & c & Ic & Kc & Et & Ea) L1 L2.
  destruct loc_facts as (ND & _ & GR). destruct (GR im I) as ((Gb & _) & _). destruct (GR im' I') as ((Gb' & Gi' & Gl') & _).
  pose proof (ConnOk_lt im' c (conj Gb' (conj Gi' Gl')) (conns_ok_inv native ims CO im' c I' Ic)) as Lt.
  destruct (Nat.eq_dec (im_base im') (im_base im)) as [Eb|Nb].
  - rewrite <- (key_unique im_base ims im' im ND I' I Eb). exists c. split; [exact Ic|]. split; [exact Kc|auto].
  - exfalso. refine (block_ne _ _ t t Gb' Gb Nb _ _ L1 L2 eq_refl); unfold OFF, STITCH in *; lia.
Qed.

Lemma ConnI_target_ge k t a : ConnI k ims t a -> OFF <= t.
Proof.
  intros (im & I & c & _ & _ & -> & _). destruct loc_facts as (_ & _ & GR). destruct (GR im I) as ((Gb & _) & _).
  apply GoodBase_ge in Gb. lia.
Qed.

Lemma ConnI_add_lt k t a : ConnI k ims t a -> a < OFF.
Proof.
  intros (im & I & c & Ic & _ & _ & ->). destruct loc_facts as (_ & _ & GR). destruct (GR im I) as (_ & _ & Ga).
  exact (Ga c Ic).
Qed.

(* what a native checkpoint mentions, with all connections, when native checkpoints nest native checkpoints only *)
Hypothesis NN : native_nests_native native = true.

Lemma MX_native k : forall x b, x < OFF -> (MentionsX U (ConnI k ims) x b <-> Mentions native x b).
Proof.
  intros x b L. split.
  - intro H. revert L. induction H as [x cp l o r b F I B | x cp r b F I Kr _ IH | x a b Kx _ _]; intro L.
    + rewrite (U_native_checkpoint x L) in F. eapply M_cmp; eassumption.
    + rewrite (U_native_checkpoint x L) in F. destruct (find_checkpoint_some _ _ _ F) as [Icp _].
      eapply M_ref; [exact F|exact I|exact Kr|]. apply IH. exact (native_nests_native_inv native NN cp r Icp I Kr).
    + exfalso. apply ConnI_target_ge in Kx. lia.
  - intro M. apply Mentions_MX. eapply Mentions_find_mono; [|exact M]. apply U_Sub_native.
Qed.

(* what a checkpoint of an import mentions, with all connections *)
Lemma MX_block im : conns_ok native ims = true -> In im ims -> forall x b,
  im_base im <= x -> x < im_base im + STITCH ->
  (MentionsX U (ConnI RCheckpoint ims) x b <->
   Mentions (shift (im_base im) (im_schema im)) x b \/
   exists c, In c (im_conns im) /\ r_kind (cn_to c) = RCheckpoint /\
             NestsR (shift (im_base im) (im_schema im)) x (im_base im + r_id (cn_to c)) /\
             Mentions native (r_id (cn_add c)) b).
Proof.
  intros CO I x b L1 L2. rewrite MX_unfold. split.
  - intros [M|(t & a & Kt & N & Ma)].
    + left. apply (Mentions_block im I x b M L1). unfold OFF, STITCH in *; lia.
    + right. destruct (NestsR_block im I x t N L1 L2) as (N' & T1 & T2).
      destruct (ConnI_block RCheckpoint im t a CO I Kt T1) as (c & Ic & Kc & -> & ->); [unfold OFF, STITCH in *; lia|].
      exists c. split; [exact Ic|]. split; [exact Kc|]. split; [exact N'|].
      apply (MX_native RCheckpoint); [|exact Ma]. apply (ConnI_add_lt RCheckpoint _ _ Kt).
  - intros [M|(c & Ic & Kc & N & Ma)].
    + left. eapply Mentions_find_mono; [|exact M]. apply (U_Sub_shift im I).
    + right. exists (im_base im + r_id (cn_to c)), (r_id (cn_add c)).
      assert (Kt : ConnI RCheckpoint ims (im_base im + r_id (cn_to c)) (r_id (cn_add c))).
      { exists im. split; [exact I|]. exists c. split; [exact Ic|]. split; [exact Kc|auto]. }
      split; [exact Kt|]. split; [apply (NestsR_up im I); exact N|].
      apply (MX_native RCheckpoint); [apply (ConnI_add_lt RCheckpoint _ _ Kt)|exact Ma].
Qed.
End Localise.

(* ================================================================== 11. imported and native actions *)
Section Actions.
Variables (native : schema) (ims : list import).
Hypothesis WF : wf_i native ims = true.
Hypothesis WR : wf_refs native ims = true.
Hypothesis CO : conns_ok native ims = true.

Let U : schema := plain native ims.

Lemma shift_find_action_at d s a act0 : find_action s a = Some act0 ->
  find_action (shift d s) (d + a) = Some (sh_action d act0).
Proof.
  intro F. change (find_action (shift d s) (d + a)) with (fnd a_id (d + a) (map (sh_action d) (actions s))).
  rewrite (fnd_sh a_id sh_action) by reflexivity.
  change (fnd a_id a (actions s)) with (find_action s a). rewrite F. reflexivity.
Qed.

Lemma found_lt_STITCH im a act0 : In im ims -> find_action (im_schema im) a = Some act0 -> a < STITCH.
Proof.
  intros I F. destruct (loc_facts native ims WF WR) as (_ & _ & GR). destruct (GR im I) as ((_ & Gi & _) & _).
  destruct (ids_below_inv _ _ Gi) as (_ & _ & _ & LA & _). destruct (find_action_some _ _ _ F) as [Ia <-]. apply LA. exact Ia.
Qed.

(* (iii) the checkpoints holding an imported action are those of its own schema *)
Section Holders.
Variable im : import.
Hypothesis I : In im ims.
Hypothesis CC : CtxClosed (im_schema im).

Let base := im_base im.
Let sh := shift (im_base im) (im_schema im).

Lemma group_lt_STITCH g tg : find_group (im_schema im) g = Some tg -> g < STITCH.
Proof.
  intro F. destruct (loc_facts native ims WF WR) as (_ & _ & GR). destruct (GR im I) as ((_ & Gi & _) & _).
  destruct (ids_below_inv _ _ Gi) as (_ & _ & _ & _ & _ & LG). destruct (find_group_some _ _ _ F) as [Ig <-]. apply LG. exact Ig.
Qed.

Lemma shift_group_ctx_range g tg r : find_group sh g = Some tg -> g_ctx tg = Some r -> r_kind r = RGroup ->
  base <= r_id r /\ r_id r < base + STITCH.
Proof.
  intros F C Kr. destruct (find_group_some _ _ _ F) as [Ig _]. unfold sh in Ig. rewrite shift_eq in Ig. cbn [groups] in Ig.
  apply in_map_iff in Ig. destruct Ig as (tg0 & <- & I0). cbn [sh_group g_ctx] in C.
  destruct (g_ctx tg0) as [r0|] eqn:C0; [|discriminate]. cbn in C. injection C as <-. cbn [sh_ref r_kind r_id] in *.
  destruct (proj2 CC tg0 r0 I0 C0 Kr) as [tg1 F1]. pose proof (group_lt_STITCH _ _ F1). unfold base. lia.
Qed.

Lemma shift_action_ctx_range x act r : find_action sh x = Some act -> a_ctx act = Some r -> r_kind r = RGroup ->
  base <= r_id r /\ r_id r < base + STITCH.
Proof.
  intros F C Kr. destruct (find_action_some _ _ _ F) as [Ia _]. unfold sh in Ia. rewrite shift_eq in Ia. cbn [actions] in Ia.
  apply in_map_iff in Ia. destruct Ia as (a0 & <- & I0). cbn [sh_action a_ctx] in C.
  destruct (a_ctx a0) as [r0|] eqn:C0; [|discriminate]. cbn in C. injection C as <-. cbn [sh_ref r_kind r_id] in *.
  destruct (proj1 CC a0 r0 I0 C0 Kr) as [tg1 F1]. pose proof (group_lt_STITCH _ _ F1). unfold base. lia.
Qed.

Lemma Encloses_block : forall g' g, Encloses U g' g -> base <= g -> g < base + OFF -> Encloses sh g' g.
Proof.
  intros g' g H. induction H as [g tg F | g tg r g' F C Kr _ IH]; intros L1 L2.
  - unfold U in F. rewrite (U_block_group native ims WF WR im g I L1 L2) in F. eapply E_self. exact F.
  - unfold U in F. rewrite (U_block_group native ims WF WR im g I L1 L2) in F.
    destruct (shift_group_ctx_range g tg r F C Kr) as [R1 R2].
    eapply E_up; [exact F|exact C|exact Kr|]. apply IH; unfold OFF, STITCH in *; lia.
Qed.

Lemma HoldsGroup_block g c : HoldsGroup U g c -> base <= g -> g < base + OFF -> HoldsGroup sh g c.
Proof.
  intros (g' & tg & r & E & F & D) L1 L2. pose proof (Encloses_block g' g E L1 L2) as E'.
  destruct (Encloses_declared _ _ _ E') as [tg' F'].
  destruct (shift_found_range native ims WF WR im I) as (_ & RG & _). destruct (RG g' tg' F') as [R1 R2].
  unfold U in F. rewrite (U_block_group native ims WF WR im g' I) in F by (unfold base, OFF, STITCH in *; lia).
  exists g', tg, r. auto.
Qed.

Lemma HoldsAction_block x act cc : find_action sh x = Some act -> HoldsAction U act cc -> HoldsAction sh act cc.
Proof.
  intros F [H|(r & C & Kr & H)]; [left; exact H|right].
  destruct (shift_action_ctx_range x act r F C Kr) as [R1 R2].
  exists r. split; [exact C|]. split; [exact Kr|]. apply HoldsGroup_block; [exact H|exact R1|unfold OFF, STITCH in *; lia].
Qed.

Lemma HoldsAction_up act cc : HoldsAction sh act cc -> HoldsAction U act cc.
Proof. apply HoldsAction_find_mono. apply (U_Sub_shift native ims WF WR im I). Qed.
End Holders.

Hypothesis NN : native_nests_native native = true.

(* (1) an imported action *)
Lemma C16_closed_imported_action_lemma_gen : forall im a act0, In im ims -> CtxClosed (im_schema im) ->
  find_action (im_schema im) a = Some act0 ->
  forall b,
    Dep (combine native ims) (im_base im + a) b <->
    Dep (shift (im_base im) (im_schema im)) (im_base im + a) b \/
    (exists c, In c (im_conns im) /\ cn_to c = Ref RAction a /\ Mentions native (r_id (cn_add c)) b) \/
    (exists c k cc, In c (im_conns im) /\ cn_to c = Ref RCheckpoint k /\
       HoldsAction (shift (im_base im) (im_schema im)) (sh_action (im_base im) act0) cc /\
       NestsR (shift (im_base im) (im_schema im)) cc (im_base im + k) /\
       Mentions native (r_id (cn_add c)) b).
Proof.
  intros im a act0 I CC F0 b.
  set (base := im_base im). set (sh := shift (im_base im) (im_schema im)). set (x := base + a).
  pose proof (found_lt_STITCH im a act0 I F0) as La.
  assert (Fsh : find_action sh x = Some (sh_action base act0)) by (apply shift_find_action_at; exact F0).
  assert (FU : find_action U x = Some (sh_action base act0)).
  { unfold U. rewrite (U_block_action native ims WF WR im x I); [exact Fsh|unfold x, base; lia|unfold x, base, OFF, STITCH in *; lia]. }
  rewrite (proj2 (C16_closed_form_lemma native ims WF WR CO)). fold U. split.
  - intros (act & F & H). rewrite FU in F. injection F as <-. destruct H as [(cc & H & M)|(a' & Aa & M)].
    + pose proof (HoldsAction_block im I CC x _ cc Fsh H) as H'.
      destruct (shift_holder_range native ims WF WR im x _ cc I Fsh H') as [R1 R2].
      apply (MX_block native ims WF WR NN im CO I cc b R1 R2) in M. destruct M as [M|(c & Ic & Kc & N & M)].
      * left. exists (sh_action base act0), cc. auto.
      * right. right. exists c, (r_id (cn_to c)), cc. split; [exact Ic|]. split; [|auto].
        rewrite (ref_eta (cn_to c)) at 1. rewrite Kc. reflexivity.
    + destruct (ConnI_block native ims WF WR RAction im x a' CO I Aa) as (c & Ic & Kc & Et & Ea);
        [unfold x, base; lia|unfold x, base, OFF, STITCH in *; lia|].
      right. left. exists c. split; [exact Ic|]. split.
      * rewrite (ref_eta (cn_to c)), Kc. f_equal. unfold x, base in Et. lia.
      * rewrite <- Ea. apply (MX_native native ims WF WR NN RCheckpoint); [|exact M]. apply (ConnI_add_lt native ims WF WR RAction _ _ Aa).
  - intros [(act & cc & F & H & M)|[(c & Ic & Ec & M)|(c & k & cc & Ic & Ec & H & N & M)]].
    + change (find_action sh x = Some act) in F. rewrite Fsh in F. injection F as <-. exists (sh_action base act0). split; [exact FU|]. left. exists cc.
      destruct (shift_holder_range native ims WF WR im x _ cc I Fsh H) as [R1 R2].
      split; [apply (HoldsAction_up im I); exact H|]. apply (MX_block native ims WF WR NN im CO I cc b R1 R2). left. exact M.
    + exists (sh_action base act0). split; [exact FU|]. right. exists (r_id (cn_add c)).
      assert (Aa : ConnI RAction ims x (r_id (cn_add c))).
      { exists im. split; [exact I|]. exists c. split; [exact Ic|]. split; [rewrite Ec; reflexivity|]. split; [rewrite Ec; reflexivity|reflexivity]. }
      split; [exact Aa|]. apply (MX_native native ims WF WR NN RCheckpoint); [apply (ConnI_add_lt native ims WF WR RAction _ _ Aa)|exact M].
    + exists (sh_action base act0). split; [exact FU|]. left. exists cc.
      destruct (shift_holder_range native ims WF WR im x _ cc I Fsh H) as [R1 R2].
      split; [apply (HoldsAction_up im I); exact H|]. apply (MX_block native ims WF WR NN im CO I cc b R1 R2). right.
      exists c. split; [exact Ic|]. split; [rewrite Ec; reflexivity|]. split; [rewrite Ec; exact N|exact M].
Qed.

(* (2) a native action *)
Lemma C16_closed_native_action_lemma : forall x b, x < OFF ->
  (Dep (combine native ims) x b <->
   Dep (plain native ims) x b \/
   exists act cc im c, find_action native x = Some act /\ HoldsAction (plain native ims) act cc /\
     In im ims /\ In c (im_conns im) /\ r_kind (cn_to c) = RCheckpoint /\
     NestsR (plain native ims) cc (im_base im + r_id (cn_to c)) /\ Mentions native (r_id (cn_add c)) b).
Proof.
  intros x b L. rewrite (proj2 (C16_closed_form_lemma native ims WF WR CO)). fold U. split.
  - intros (act & F & [(cc & H & M)|(a' & Aa & _)]).
    + apply MX_unfold in M. destruct M as [M|(t & a' & Kt & N & Ma)].
      * left. exists act, cc. auto.
      * right. pose proof (ConnI_add_lt native ims WF WR _ _ _ Kt) as La.
        apply (MX_native native ims WF WR NN RCheckpoint _ _ La) in Ma.
        destruct Kt as (im & I & c & Ic & Kc & -> & ->).
        unfold U in F. rewrite (U_native_action native ims WF WR x L) in F.
        exists act, cc, im, c. auto 10.
    + exfalso. apply (ConnI_target_ge native ims WF WR) in Aa. lia.
  - intros [(act & cc & F & H & M)|(act & cc & im & c & F & H & I & Ic & Kc & N & M)].
    + exists act. split; [exact F|]. left. exists cc. split; [exact H|]. apply Mentions_MX. exact M.
    + exists act. split; [unfold U; rewrite (U_native_action native ims WF WR x L); exact F|]. left. exists cc.
      split; [exact H|]. apply MX_unfold. right. exists (im_base im + r_id (cn_to c)), (r_id (cn_add c)).
      assert (Kt : ConnI RCheckpoint ims (im_base im + r_id (cn_to c)) (r_id (cn_add c))).
      { exists im. split; [exact I|]. exists c. split; [exact Ic|]. split; [exact Kc|auto]. }
      split; [exact Kt|]. split; [exact N|].
      apply (MX_native native ims WF WR NN RCheckpoint); [apply (ConnI_add_lt native ims WF WR _ _ _ Kt)|exact M].
Qed.
End Actions.

(* ================================================================== 12. the statements of Properties/C16_closed.v *)
Lemma not_stitched_low native ims im x : wf_i native ims = true -> In im ims ->
  im_base im <= x -> x < im_base im + STITCH -> ~ StitchedBy ims x.
Proof.
  intros WF I L1 L2 (im' & m & I' & Lm & E).
  destruct (wf_i_inv _ _ WF) as (B & _ & G). destruct (bases_ok_inv _ B) as [_ GB].
  destruct (G im' I') as [_ Gl]. destruct (Nat.eq_dec (im_base im') (im_base im)) as [Eb|Nb]; [lia|].
  refine (block_ne _ _ x x (GB im' I') (GB im I) Nb _ _ L1 _ eq_refl); unfold OFF, STITCH in *; lia.
Qed.

Lemma not_stitched_native native ims x : wf_i native ims = true -> x < OFF -> ~ StitchedBy ims x.
Proof.
  intros WF L (im' & m & I' & Lm & E).
  destruct (wf_i_inv _ _ WF) as (B & _ & _). destruct (bases_ok_inv _ B) as [_ GB].
  pose proof (GoodBase_ge _ (GB im' I')). lia.
Qed.

Lemma conforms_i_facts tbl native ims : conforms_i tbl native ims = true ->
  conns_ok native ims = true /\ (forall im, In im ims -> CtxClosed (im_schema im)) /\
  (forall im, In im ims -> nodup_by ref_eqb (map cn_to (im_conns im)) = true).
Proof.
  intro C. split; [exact (conns_ok_of_conforms_i tbl native ims C)|].
  destruct (conforms_i_with_inv _ _ _ _ C) as (_ & HI & _). split; intros im I.
  - destruct (import_ok_inv _ _ _ _ (HI im I)) as (_ & Cs & _). exact (conforms_CtxClosed _ _ _ Cs).
  - exact (proj2 (proj2 (proj2 (import_ok_inv _ _ _ _ (HI im I))))).
Qed.

(* the general closed form, checkpoints *)
Lemma C16_closed_mentions_lemma : forall native ims,
  wf_i native ims = true -> wf_refs native ims = true -> conns_ok native ims = true ->
  forall x b, ~ StitchedBy ims x ->
    (Mentions (combine native ims) x b <-> MentionsX (plain native ims) (ConnI RCheckpoint ims) x b).
Proof. intros native ims WF WR CO. exact (proj1 (C16_closed_form_lemma native ims WF WR CO)). Qed.

(* the general closed form, actions *)
Lemma C16_closed_dep_lemma : forall native ims,
  wf_i native ims = true -> wf_refs native ims = true -> conns_ok native ims = true ->
  forall x b, Dep (combine native ims) x b <->
    exists act, find_action (plain native ims) x = Some act /\
      ((exists cc, HoldsAction (plain native ims) act cc /\ MentionsX (plain native ims) (ConnI RCheckpoint ims) cc b) \/
       (exists im c, In im ims /\ In c (im_conns im) /\ r_kind (cn_to c) = RAction /\ x = im_base im + r_id (cn_to c) /\
                     MentionsX (plain native ims) (ConnI RCheckpoint ims) (r_id (cn_add c)) b)).
Proof.
  intros native ims WF WR CO x b. rewrite (proj2 (C16_closed_form_lemma native ims WF WR CO)). unfold DepX. split.
  - intros (act & F & [H|(a & (im & I & c & Ic & Kc & Et & ->) & M)]); exists act; (split; [exact F|]); [left; exact H|].
    right. exists im, c. auto 10.
  - intros (act & F & [H|(im & c & I & Ic & Kc & Et & M)]); exists act; (split; [exact F|]); [left; exact H|].
    right. exists (r_id (cn_add c)). split; [|exact M]. exists im. split; [exact I|]. exists c. split; [exact Ic|].
    split; [exact Kc|auto].
Qed.

(* the extra references one at a time *)
Lemma C16_closed_unfold_lemma : forall native ims x b,
  MentionsX (plain native ims) (ConnI RCheckpoint ims) x b <->
  Mentions (plain native ims) x b \/
  exists im c, In im ims /\ In c (im_conns im) /\ r_kind (cn_to c) = RCheckpoint /\
    NestsR (plain native ims) x (im_base im + r_id (cn_to c)) /\
    MentionsX (plain native ims) (ConnI RCheckpoint ims) (r_id (cn_add c)) b.
Proof.
  intros native ims x b. rewrite MX_unfold. split.
  - intros [M|(t & a & (im & I & c & Ic & Kc & -> & ->) & N & M)]; [left; exact M|right]. exists im, c. auto 10.
  - intros [M|(im & c & I & Ic & Kc & N & M)]; [left; exact M|right].
    exists (im_base im + r_id (cn_to c)), (r_id (cn_add c)). split; [|auto]. exists im. split; [exact I|]. exists c.
    split; [exact Ic|]. split; [exact Kc|auto].
Qed.

(* checkpoints of the native schema are not changed by connections *)
Lemma C16_closed_native_checkpoint_lemma : forall native ims,
  wf_i native ims = true -> wf_refs native ims = true -> conns_ok native ims = true ->
  native_nests_native native = true ->
  forall x b, x < OFF -> (Mentions (combine native ims) x b <-> Mentions native x b).
Proof.
  intros native ims WF WR CO NN x b L.
  rewrite (C16_closed_mentions_lemma native ims WF WR CO x b (not_stitched_native native ims x WF L)).
  apply (MX_native native ims WF WR NN RCheckpoint). exact L.
Qed.

(* checkpoints of an imported schema *)
Lemma C16_closed_imported_checkpoint_lemma : forall native ims,
  wf_i native ims = true -> wf_refs native ims = true -> conns_ok native ims = true ->
  native_nests_native native = true ->
  forall im k b, In im ims -> k < STITCH ->
    (Mentions (combine native ims) (im_base im + k) b <->
     Mentions (shift (im_base im) (im_schema im)) (im_base im + k) b \/
     exists c k', In c (im_conns im) /\ cn_to c = Ref RCheckpoint k' /\
       NestsR (shift (im_base im) (im_schema im)) (im_base im + k) (im_base im + k') /\
       Mentions native (r_id (cn_add c)) b).
Proof.
  intros native ims WF WR CO NN im k b I Lk.
  assert (L1 : im_base im <= im_base im + k) by lia. assert (L2 : im_base im + k < im_base im + STITCH) by lia.
  rewrite (C16_closed_mentions_lemma native ims WF WR CO _ b (not_stitched_low native ims im _ WF I L1 L2)).
  rewrite (MX_block native ims WF WR NN im CO I _ b L1 L2). split.
  - intros [M|(c & Ic & Kc & N & M)]; [left; exact M|right]. exists c, (r_id (cn_to c)). split; [exact Ic|]. split; [|auto].
    rewrite (ref_eta (cn_to c)) at 1. rewrite Kc. reflexivity.
  - intros [M|(c & k' & Ic & Ec & N & M)]; [left; exact M|right]. exists c. split; [exact Ic|].
    split; [rewrite Ec; reflexivity|]. split; [rewrite Ec; exact N|exact M].
Qed.

(* (1) actions of an imported schema *)
Lemma C16_closed_imported_action_lemma : forall tbl native ims,
  wf_i native ims = true -> wf_refs native ims = true -> conforms_i tbl native ims = true ->
  native_nests_native native = true ->
  forall im a act0, In im ims -> find_action (im_schema im) a = Some act0 ->
  forall b,
    Dep (combine native ims) (im_base im + a) b <->
    Dep (shift (im_base im) (im_schema im)) (im_base im + a) b \/
    (exists c, In c (im_conns im) /\ cn_to c = Ref RAction a /\ Mentions native (r_id (cn_add c)) b) \/
    (exists c k cc, In c (im_conns im) /\ cn_to c = Ref RCheckpoint k /\
       HoldsAction (shift (im_base im) (im_schema im)) (sh_action (im_base im) act0) cc /\
       NestsR (shift (im_base im) (im_schema im)) cc (im_base im + k) /\
       Mentions native (r_id (cn_add c)) b).
Proof.
  intros tbl native ims WF WR C NN im a act0 I F0. destruct (conforms_i_facts tbl native ims C) as (CO & CC & _).
  exact (C16_closed_imported_action_lemma_gen native ims WF WR CO NN im a act0 I (CC im I) F0).
Qed.

(* (3) the target of a connection onto an action: what it depended on in its own schema, what the added checkpoint
   mentions, and what connections onto checkpoints that hold it add *)
Lemma C16_closed_connection_target_lemma : forall tbl native ims,
  wf_i native ims = true -> wf_refs native ims = true -> conforms_i tbl native ims = true ->
  native_nests_native native = true ->
  forall im c a act0, In im ims -> In c (im_conns im) -> cn_to c = Ref RAction a ->
  find_action (im_schema im) a = Some act0 ->
  forall b,
    Dep (combine native ims) (im_base im + a) b <->
    Dep (shift (im_base im) (im_schema im)) (im_base im + a) b \/
    Mentions native (r_id (cn_add c)) b \/
    (exists c' k cc, In c' (im_conns im) /\ cn_to c' = Ref RCheckpoint k /\
       HoldsAction (shift (im_base im) (im_schema im)) (sh_action (im_base im) act0) cc /\
       NestsR (shift (im_base im) (im_schema im)) cc (im_base im + k) /\
       Mentions native (r_id (cn_add c')) b).
Proof.
  intros tbl native ims WF WR C NN im c a act0 I Ic Ec F0 b.
  destruct (conforms_i_facts tbl native ims C) as (_ & _ & ND).
  rewrite (C16_closed_imported_action_lemma tbl native ims WF WR C NN im a act0 I F0 b). split.
  - intros [H|[(c' & Ic' & Ec' & M)|H]]; [left; exact H| |right; right; exact H].
    right. left. rewrite (nodup_targets _ (ND im I) c c' Ic Ic'); [exact M|congruence].
  - intros [H|[M|H]]; [left; exact H| |right; right; exact H]. right. left. exists c. auto.
Qed.

(* ... in the words of the property, when no connection of the import goes onto a checkpoint that holds the target *)
Lemma C16_closed_connection_target_only_lemma : forall tbl native ims,
  wf_i native ims = true -> wf_refs native ims = true -> conforms_i tbl native ims = true ->
  native_nests_native native = true ->
  forall im c a act0, In im ims -> In c (im_conns im) -> cn_to c = Ref RAction a ->
  find_action (im_schema im) a = Some act0 ->
  (forall c' k cc, In c' (im_conns im) -> cn_to c' = Ref RCheckpoint k ->
     HoldsAction (shift (im_base im) (im_schema im)) (sh_action (im_base im) act0) cc ->
     ~ NestsR (shift (im_base im) (im_schema im)) cc (im_base im + k)) ->
  forall b,
    Dep (combine native ims) (im_base im + a) b <->
    Dep (shift (im_base im) (im_schema im)) (im_base im + a) b \/ Mentions native (r_id (cn_add c)) b.
Proof.
  intros tbl native ims WF WR C NN im c a act0 I Ic Ec F0 NH b.
  rewrite (C16_closed_connection_target_lemma tbl native ims WF WR C NN im c a act0 I Ic Ec F0 b). split.
  - intros [H|[M|(c' & k & cc & Ic' & Ec' & H & N & _)]]; [left; exact H|right; exact M|].
    exfalso. exact (NH c' k cc Ic' Ec' H N).
  - intros [H|M]; [left; exact H|right; left; exact M].
Qed.

(* ================================================================== 13. a concrete importing schema with interacting connections *)
(* Import A (base 1000): action 1 is held by checkpoint 3, action 2 by checkpoint 4 = AND [action 1 ...; checkpoint 3].
   Its connections: onto action 1 (adds native checkpoint 10) and onto checkpoint 3 (adds native checkpoint 11): both
   reach action 1, the second also action 2 (checkpoint 4 nests checkpoint 3).
   Import B (base 2000): a connection onto action 0, which has no depends_on (adds native checkpoint 12).
   Native checkpoints 10 and 12 mention native action 3, checkpoint 11 mentions native action 5. *)
Module ClosedExamples.
Definition op0 : operation := Build_operation (Include (Some [0])) [] [] None.
Definition ty0 : otype := Build_otype 0 100 [Build_attr 0 (KField STRING); Build_attr 1 (KField NUMERIC)].
Definition cmp_act (a tag : nat) : dep := DCmp (OAct (Ref RAction a) [1]) EQUALS (OLit (Lit SInt tag)).

Definition cx_A : schema :=
  Build_schema [Build_party 0 200] [ty0]
    [Build_promise 0 300 (Ref RType 0) None; Build_promise 1 301 (Ref RType 0) None; Build_promise 2 302 (Ref RType 0) None]
    [Build_action 0 400 (Ref RParty 0) (Ref RPromise 0) None None op0 [];
     Build_action 1 401 (Ref RParty 0) (Ref RPromise 1) None (Some (Ref RCheckpoint 3)) op0 [];
     Build_action 2 402 (Ref RParty 0) (Ref RPromise 2) None (Some (Ref RCheckpoint 4)) op0 []]
    [Build_checkpoint 3 503 None [cmp_act 0 1] None;
     Build_checkpoint 4 504 (Some G_AND) [cmp_act 1 2; DRef (Ref RCheckpoint 3)] None] [].

Definition cx_B : schema :=
  Build_schema [Build_party 0 200] [ty0]
    [Build_promise 0 300 (Ref RType 0) None; Build_promise 1 301 (Ref RType 0) None]
    [Build_action 0 400 (Ref RParty 0) (Ref RPromise 0) None None op0 [];
     Build_action 1 401 (Ref RParty 0) (Ref RPromise 1) None (Some (Ref RCheckpoint 0)) op0 []]
    [Build_checkpoint 0 500 None [cmp_act 0 1] None] [].

Definition cx_native_with (cp12 : checkpoint) : schema :=
  Build_schema [Build_party 0 200] [ty0]
    [Build_promise 0 300 (Ref RType 0) None; Build_promise 3 303 (Ref RType 0) None; Build_promise 5 305 (Ref RType 0) None]
    [Build_action 0 400 (Ref RParty 0) (Ref RPromise 0) None (Some (Ref RCheckpoint 1)) op0 [];
     Build_action 3 403 (Ref RParty 0) (Ref RPromise 3) None None op0 [];
     Build_action 5 405 (Ref RParty 0) (Ref RPromise 5) None None op0 []]
    [Build_checkpoint 1 501 None [cmp_act 2001 1] None;
     Build_checkpoint 10 510 None [cmp_act 3 2] None;
     Build_checkpoint 11 511 None [cmp_act 5 3] None;
     cp12] [].

Definition cx_native : schema := cx_native_with (Build_checkpoint 12 512 None [cmp_act 3 4] None).

Definition cx_conn_a1 : conn := Build_conn (Ref RAction 1) (Ref RCheckpoint 10).
Definition cx_conn_c3 : conn := Build_conn (Ref RCheckpoint 3) (Ref RCheckpoint 11).
Definition cx_conn_b0 : conn := Build_conn (Ref RAction 0) (Ref RCheckpoint 12).
Definition cx_imA : import := Build_import 1000 true cx_A [cx_conn_a1; cx_conn_c3].
Definition cx_imB : import := Build_import 2000 true cx_B [cx_conn_b0].
Definition cx_ims : list import := [cx_imA; cx_imB].

Example cx_wf : wf_i cx_native cx_ims = true.
Proof. vm_compute. reflexivity. Qed.
Example cx_wf_refs : wf_refs cx_native cx_ims = true.
Proof. vm_compute. reflexivity. Qed.
Example cx_accepted : conforms_i Gen.Tables.default_value_table cx_native cx_ims = true.
Proof. vm_compute. reflexivity. Qed.
Example cx_nests_native : native_nests_native cx_native = true.
Proof. vm_compute. reflexivity. Qed.

Lemma cx_hypotheses :
  wf_i cx_native cx_ims = true /\ wf_refs cx_native cx_ims = true /\
  conforms_i Gen.Tables.default_value_table cx_native cx_ims = true /\ native_nests_native cx_native = true.
Proof. split; [exact cx_wf|]. split; [exact cx_wf_refs|]. split; [exact cx_accepted|exact cx_nests_native]. Qed.

(* both sides of C16_closed_imported_action as booleans: [succ], [mentions], [action_cps] are the functions of the
   model (sound for Dep, Mentions, HoldsAction); [reach] lists a checkpoint and the checkpoints it nests *)
Fixpoint reach (s : schema) (fuel : nat) (c : nat) : list nat :=
  match fuel with
  | 0 => [c]
  | S f => c :: match find_checkpoint s c with
                | None => []
                | Some cp => flat_map (fun d => match d with
                                                | DRef r => if rkind_eqb (r_kind r) RCheckpoint then reach s f (r_id r) else []
                                                | DCmp _ _ _ => [] end) (cp_deps cp)
                end
  end.

Definition lhs_b (native : schema) (ims : list import) (x b : nat) : bool := mem_nat b (succ (combine native ims) x).

Definition rhs_b (native : schema) (im : import) (a b : nat) : bool :=
  let base := im_base im in
  let sh := shift base (im_schema im) in
  let adds c := mem_nat b (mentions native (fuel_of native) (r_id (cn_add c))) in
  mem_nat b (succ sh (base + a))
  || existsb (fun c => ref_eqb (cn_to c) (Ref RAction a) && adds c) (im_conns im)
  || existsb (fun c => rkind_eqb (r_kind (cn_to c)) RCheckpoint &&
                       match find_action sh (base + a) with
                       | Some act => existsb (fun cc => mem_nat (base + r_id (cn_to c)) (reach sh (fuel_of sh) cc)) (action_cps sh act)
                       | None => false
                       end && adds c) (im_conns im).

Definition table_agrees (native : schema) (ims : list import) : bool :=
  forallb (fun im =>
    forallb (fun a =>
      forallb (fun b => Bool.eqb (lhs_b native ims (im_base im + a) b) (rhs_b native im a b))
              (map a_id (actions (combine native ims))))
      (map a_id (actions (im_schema im)))) ims.

(* for every imported action x and every action b of the combined schema the two sides agree *)
Example cx_table : table_agrees cx_native cx_ims = true.
Proof. vm_compute. reflexivity. Qed.

(* the dependency sets themselves: combined, in the shifted imported schemas, and what the added checkpoints mention *)
Example cx_combined_deps :
  map (fun x => (x, succ (combine cx_native cx_ims) x)) [1000; 1001; 1002; 2000; 2001; 0; 3; 5] =
  [(1000, []); (1001, [3; 1000; 5]); (1002, [1001; 1000; 5]); (2000, [3]); (2001, [2000]); (0, [2001]); (3, []); (5, [])].
Proof. vm_compute. reflexivity. Qed.
Example cx_own_deps :
  map (fun x => (x, succ (shift 1000 cx_A) x)) [1000; 1001; 1002] = [(1000, []); (1001, [1000]); (1002, [1001; 1000])] /\
  map (fun x => (x, succ (shift 2000 cx_B) x)) [2000; 2001] = [(2000, []); (2001, [2000])] /\
  map (fun c => (c, mentions cx_native (fuel_of cx_native) c)) [10; 11; 12] = [(10, [3]); (11, [5]); (12, [3])].
Proof. vm_compute. repeat split; reflexivity. Qed.

(* two instances read off the theorems: imported action 1002 gains native action 5 through the connection onto
   checkpoint 3, which its checkpoint 4 nests; the connected action 1001 gains native action 3 from its own connection *)
Lemma cx_In_A : In cx_imA cx_ims. Proof. left. reflexivity. Qed.

Example cx_nested_holder : Dep (combine cx_native cx_ims) 1002 5.
Proof.
  apply (C16_closed_imported_action_lemma _ _ _ cx_wf cx_wf_refs cx_accepted cx_nests_native cx_imA 2
           (Build_action 2 402 (Ref RParty 0) (Ref RPromise 2) None (Some (Ref RCheckpoint 4)) op0 []) cx_In_A eq_refl 5).
  right. right. exists cx_conn_c3, 3, 1004. split; [right; left; reflexivity|]. split; [reflexivity|]. split; [|split].
  - left. exists (Ref RCheckpoint 1004). repeat split.
  - right. eapply (N_step _ 1004 _ (Ref RCheckpoint 1003)); [vm_compute; reflexivity|right; left; reflexivity|reflexivity].
  - eapply M_cmp; [vm_compute; reflexivity|left; reflexivity|]. cbn. auto.
Qed.

Example cx_connected_action : Dep (combine cx_native cx_ims) 1001 3.
Proof.
  apply (C16_closed_connection_target_lemma _ _ _ cx_wf cx_wf_refs cx_accepted cx_nests_native cx_imA cx_conn_a1 1
           (Build_action 1 401 (Ref RParty 0) (Ref RPromise 1) None (Some (Ref RCheckpoint 3)) op0 [])
           cx_In_A (or_introl eq_refl) eq_refl eq_refl 3).
  right. left. eapply M_cmp; [vm_compute; reflexivity|left; reflexivity|]. cbn. auto.
Qed.

(* the side condition [native_nests_native] is needed for the form that speaks of [Mentions native]: let the added
   native checkpoint 12 nest the imported checkpoint 1003 (itself a connection target).  Everything is still
   accepted, but action 2000 now also depends on 1000 and 5, which checkpoint 12 does not mention in the native schema
   alone; the general closed form (C16_closed_dep, C16_closed_mentions) covers this case *)
Definition cx_native_nesting : schema :=
  cx_native_with (Build_checkpoint 12 512 (Some G_AND) [cmp_act 3 4; DRef (Ref RCheckpoint 1003)] None).

Example cx_nesting_needed :
  wf_i cx_native_nesting cx_ims = true /\ wf_refs cx_native_nesting cx_ims = true /\
  conforms_i Gen.Tables.default_value_table cx_native_nesting cx_ims = true /\
  native_nests_native cx_native_nesting = false /\
  succ (combine cx_native_nesting cx_ims) 2000 = [3; 1000; 5] /\
  mentions cx_native_nesting (fuel_of cx_native_nesting) 12 = [3] /\
  table_agrees cx_native_nesting cx_ims = false.
Proof. vm_compute. repeat split; reflexivity. Qed.
End ClosedExamples.
