(* C08 (tables): the implementation's method table, aggregation-operator table and initial-value table,
   tabulated exhaustively from the current source (Gen/Tables.v), equal the declarative rules of
   Spec/PipelineSpec.v on their whole (finite) domains.  Also the default-value table used by C07. *)
From Coq Require Import List Bool.
From OIS Require Import Base.Types Base.PipeTypes Spec.PipelineSpec Gen.Tables Proofs.TableLookup.
Import ListNotations.

(* ---------------- method table ---------------- *)
Definition mkey := (ptype * meth * ptype * bool)%type.
Definition mkey_eqb (a b : mkey) : bool :=
  let '(l1, m1, r1, n1) := a in let '(l2, m2, r2, n2) := b in
  ptype_eqb l1 l2 && meth_eqb m1 m2 && ptype_eqb r1 r2 && Bool.eqb n1 n2.
Lemma mkey_eqb_eq a b : mkey_eqb a b = true <-> a = b.
Proof.
  destruct a as [[[l1 m1] r1] n1], b as [[[l2 m2] r2] n2]; simpl.
  rewrite !andb_true_iff, !ptype_eqb_eq, meth_eqb_eq, Bool.eqb_true_iff.
  split; [intros [[[-> ->] ->] ->]; reflexivity | intros H; inversion H; auto].
Qed.
Definition method_assoc : list (mkey * bool) := map (fun '(l, m, r, n, b) => ((l, m, r, n), b)) method_table.
Definition impl_method_ok (l : ptype) (m : meth) (r : ptype) (n : bool) : option bool := lookup mkey_eqb method_assoc (l, m, r, n).
Definition all_mkeys : list mkey :=
  flat_map (fun l => flat_map (fun m => flat_map (fun r => map (fun n => (l, m, r, n)) [false; true]) all_ptype) all_meth) all_ptype.
Lemma all_mkeys_complete : forall k, In k all_mkeys.
Proof.
  intros [[[l m] r] n]. unfold all_mkeys.
  apply in_flat_map; exists l; split; [apply all_ptype_complete|].
  apply in_flat_map; exists m; split; [apply all_meth_complete|].
  apply in_flat_map; exists r; split; [apply all_ptype_complete|].
  apply in_map. destruct n; simpl; tauto.
Qed.
Lemma method_table_matches :
  table_is mkey_eqb Bool.eqb method_assoc all_mkeys (fun '(l, m, r, n) => Combine l m r n) = true.
Proof. vm_compute. reflexivity. Qed.
Lemma C08_method_table_lemma : forall l m r n, impl_method_ok l m r n = Some (Combine l m r n).
Proof.
  intros l m r n. unfold impl_method_ok.
  exact (table_is_sound mkey_eqb Bool.eqb (fun a b H => proj1 (Bool.eqb_true_iff a b) H) _ _ _ method_table_matches (l, m, r, n) (all_mkeys_complete _)).
Qed.

(* ---------------- aggregation table ---------------- *)
Definition akey := (ptype * agg)%type.
Definition akey_eqb (a b : akey) : bool := ptype_eqb (fst a) (fst b) && agg_eqb (snd a) (snd b).
Definition optpt_eqb (a b : option ptype) : bool :=
  match a, b with Some x, Some y => ptype_eqb x y | None, None => true | _, _ => false end.
Lemma optpt_eqb_eq a b : optpt_eqb a b = true -> a = b.
Proof. destruct a, b; simpl; try discriminate; auto. intro H. apply ptype_eqb_eq in H. congruence. Qed.
Definition agg_assoc : list (akey * option ptype) := map (fun '(s, a, r) => ((s, a), r)) agg_table.
Definition impl_aggregate (s : ptype) (a : agg) : option (option ptype) := lookup akey_eqb agg_assoc (s, a).
Definition all_akeys : list akey := flat_map (fun s => map (fun a => (s, a)) all_agg) all_ptype.
Lemma all_akeys_complete : forall k, In k all_akeys.
Proof. intros [s a]. apply in_flat_map; exists s; split; [apply all_ptype_complete | apply in_map, all_agg_complete]. Qed.
Lemma agg_table_matches : table_is akey_eqb optpt_eqb agg_assoc all_akeys (fun '(s, a) => Aggregate s a) = true.
Proof. vm_compute. reflexivity. Qed.
Lemma C08_agg_table_lemma : forall s a, impl_aggregate s a = Some (Aggregate s a).
Proof.
  intros s a. unfold impl_aggregate.
  exact (table_is_sound akey_eqb optpt_eqb optpt_eqb_eq _ _ _ agg_table_matches (s, a) (all_akeys_complete _)).
Qed.

(* ---------------- initial values and default values ---------------- *)
Definition ikey := (ishape * ty)%type.
Definition ikey_eqb (a b : ikey) : bool := ishape_eqb (fst a) (fst b) && ty_eqb (snd a) (snd b).
Definition var_types : list ty := [STRING; NUMERIC; BOOLEAN; STRING_LIST; NUMERIC_LIST; BOOLEAN_LIST; OBJECT; OBJECT_LIST].
Definition field_types : list ty := [STRING; NUMERIC; BOOLEAN; STRING_LIST; NUMERIC_LIST; BOOLEAN_LIST].
Definition initial_assoc : list (ikey * bool) := map (fun '(s, t, b) => ((s, t), b)) initial_table.
Definition default_assoc : list (ikey * bool) := map (fun '(s, t, b) => ((s, t), b)) default_value_table.
Definition impl_initial_ok (s : ishape) (t : ty) := lookup ikey_eqb initial_assoc (s, t).
Definition impl_default_ok (s : ishape) (t : ty) := lookup ikey_eqb default_assoc (s, t).
Definition ikeys (ts : list ty) : list ikey := flat_map (fun s => map (fun t => (s, t)) ts) all_ishape.
Lemma ikeys_complete ts s t : In t ts -> In (s, t) (ikeys ts).
Proof. intro H. apply in_flat_map; exists s; split; [apply all_ishape_complete | apply in_map, H]. Qed.
Lemma initial_table_matches : table_is ikey_eqb Bool.eqb initial_assoc (ikeys var_types) (fun '(s, t) => InitOk s t) = true.
Proof. vm_compute. reflexivity. Qed.
Lemma default_table_matches : table_is ikey_eqb Bool.eqb default_assoc (ikeys field_types) (fun '(s, t) => DefaultOk s t) = true.
Proof. vm_compute. reflexivity. Qed.
Lemma C08_initial_lemma : forall s t, In t var_types -> impl_initial_ok s t = Some (InitOk s t).
Proof.
  intros s t Ht. unfold impl_initial_ok.
  exact (table_is_sound ikey_eqb Bool.eqb (fun a b H => proj1 (Bool.eqb_true_iff a b) H) _ _ _ initial_table_matches (s, t) (ikeys_complete _ _ _ Ht)).
Qed.
Lemma C07_default_lemma : forall s t, In t field_types -> impl_default_ok s t = Some (DefaultOk s t).
Proof.
  intros s t Ht. unfold impl_default_ok.
  exact (table_is_sound ikey_eqb Bool.eqb (fun a b H => proj1 (Bool.eqb_true_iff a b) H) _ _ _ default_table_matches (s, t) (ikeys_complete _ _ _ Ht)).
Qed.

(* the model's lookup of the default-value table agrees with the specification *)
From OIS Require Import Model.Schema Model.Rules.
Lemma default_fits_spec : forall s t, In t field_types -> default_fits default_value_table s t = DefaultOk s t.
Proof.
  intros s t Ht. destruct s; simpl in Ht;
    repeat (destruct Ht as [<-|Ht]; [vm_compute; reflexivity|]); destruct Ht.
Qed.
