(* Generic lemmas for theorems stated over regenerated finite tables. *)
From Coq Require Import List Bool.
Import ListNotations.

Section Lookup.
  Context {K V : Type} (keqb : K -> K -> bool).
  Hypothesis keqb_eq : forall a b, keqb a b = true <-> a = b.

  Fixpoint lookup (t : list (K * V)) (k : K) : option V :=
    match t with
    | [] => None
    | (k', v) :: t' => if keqb k' k then Some v else lookup t' k
    end.

  (* every key of [dom] is present in [t] and mapped to [f k] *)
  Definition table_is (veqb : V -> V -> bool) (t : list (K * V)) (dom : list K) (f : K -> V) : bool :=
    forallb (fun k => match lookup t k with Some v => veqb v (f k) | None => false end) dom.

  Lemma table_is_sound veqb (veqb_eq : forall a b, veqb a b = true -> a = b) t dom f :
    table_is veqb t dom f = true -> forall k, In k dom -> lookup t k = Some (f k).
  Proof.
    unfold table_is; intros H k Hk.
    rewrite forallb_forall in H. specialize (H k Hk).
    destruct (lookup t k) as [v|]; [|discriminate].
    apply veqb_eq in H. congruence.
  Qed.
End Lookup.

Lemma in_prod3 {A B C} (la : list A) (lb : list B) (lc : list C) a b c :
  In a la -> In b lb -> In c lc ->
  In (a, b, c) (flat_map (fun a => flat_map (fun b => map (fun c => (a, b, c)) lc) lb) la).
Proof.
  intros Ha Hb Hc. apply in_flat_map. exists a; split; [assumption|].
  apply in_flat_map. exists b; split; [assumption|]. apply in_map. assumption.
Qed.
