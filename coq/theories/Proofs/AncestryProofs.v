(* The ancestry searches of Model/Rules.v ([union_nat], [close], [ancestors], [is_ancestor], [group_ancestors],
   [guar_cp], [guaranteed_ancestor]) against the declarative relations [Anc] and [GuarCp] of Spec/DepRel.v.

   Ancestry.  [ancestors s a] is the set of nodes reachable from a by one or more steps of the computed successor
   relation [Edge] ([In y (succ s x)]), with no side condition: |actions| rounds of [close] suffice because a path
   can be shortened to one whose sources are pairwise different, and every source of an edge is an existing
   action (pigeonhole).  [Edge] is included in [Dep] unconditionally and equals it where checkpoint nesting is
   acyclic and thread scopes resolve (Proofs/DepLemmas.v), in particular on every accepted schema.

   Guaranteed ancestry.  [guar_cp] with fuel k is the k-th iterate of a monotone operator on sets of checkpoints
   whose least fixed point is [GuarCp]; the iteration is stationary after at most |checkpoints| rounds (each
   non-stationary round adds a checkpoint of the schema), so any fuel >= |checkpoints| decides [GuarCp] exactly.
   No acyclicity assumption is needed for that. *)
From Coq Require Import List Bool Arith Lia Relations.
From OIS Require Import Base.Types Base.PipeTypes Spec.Compare Model.Schema Model.Rules Spec.DepRel
  Proofs.DepLemmas Proofs.CycleProofs.
Import ListNotations.

Scheme GuarCp_mind := Minimality for GuarCp Sort Prop
  with GuarDep_mind := Minimality for GuarDep Sort Prop.
Combined Scheme Guar_mutind from GuarCp_mind, GuarDep_mind.

(* ------------------------------------------------------------------ list facts *)
Lemma union_nat_In : forall b a x, In x (union_nat a b) <-> In x a \/ In x b.
Proof.
  induction b as [|y r IH]; intros a x; cbn [union_nat].
  - split; [intros H; left; exact H|intros [H|[]]; exact H].
  - destruct (mem_nat y a) eqn:E.
    + rewrite IH. apply mem_nat_In in E. split.
      * intros [H|H]; [left; exact H|right; right; exact H].
      * intros [H|[H|H]]; [left; exact H|subst y; left; exact E|right; exact H].
    + rewrite IH, in_app_iff. split.
      * intros [[H|[H|[]]]|H]; [left; exact H|right; left; exact H|right; right; exact H].
      * intros [H|[H|H]]; [left; left; exact H|left; right; left; exact H|right; exact H].
Qed.

Lemma filter_length_mono : forall (A : Type) (p q : A -> bool) (l : list A),
  (forall x, In x l -> p x = true -> q x = true) -> length (filter p l) <= length (filter q l).
Proof.
  intros A p q. induction l as [|x l IH]; intros H; [apply le_n|].
  assert (IH' : length (filter p l) <= length (filter q l)).
  { apply IH. intros y Hy. apply H. right; exact Hy. }
  cbn [filter]. destruct (p x) eqn:Ep.
  - rewrite (H x (or_introl eq_refl) Ep). cbn [length]. lia.
  - destruct (q x); cbn [length]; lia.
Qed.

Lemma filter_length_eq_ext : forall (A : Type) (p q : A -> bool) (l : list A),
  (forall x, In x l -> p x = true -> q x = true) -> length (filter p l) = length (filter q l) ->
  forall x, In x l -> p x = q x.
Proof.
  intros A p q. induction l as [|y l IH]; intros H HL x Hx; [destruct Hx|].
  assert (Hmono : length (filter p l) <= length (filter q l)).
  { apply filter_length_mono. intros z Hz. apply H. right; exact Hz. }
  assert (Hy := H y (or_introl eq_refl)).
  cbn [filter] in HL. destruct (p y) eqn:Ep; destruct (q y) eqn:Eq; cbn [length] in HL.
  - destruct Hx as [Hx|Hx]; [subst x; congruence|].
    apply IH; [intros z Hz; apply H; right; exact Hz|lia|exact Hx].
  - specialize (Hy eq_refl). discriminate.
  - exfalso. lia.
  - destruct Hx as [Hx|Hx]; [subst x; congruence|].
    apply IH; [intros z Hz; apply H; right; exact Hz|lia|exact Hx].
Qed.

Lemma filter_length_bound : forall (A : Type) (p : A -> bool) (l : list A), length (filter p l) <= length l.
Proof.
  intros A p. induction l as [|x l IH]; [apply le_n|]. cbn [filter]. destruct (p x); cbn [length]; lia.
Qed.

Section Ancestry.
Variable s : schema.

Notation Edge := (CycleProofs.Edge s).

(* ------------------------------------------------------------------ one round *)
Definition step (acc : list nat) : list nat := union_nat acc (flat_map (succ s) acc).

Lemma step_In : forall acc x, In x (step acc) <-> In x acc \/ exists z, In z acc /\ Edge z x.
Proof.
  intros acc x. unfold step. rewrite union_nat_In, in_flat_map. reflexivity.
Qed.

Lemma close_S : forall n acc, close s (S n) acc = close s n (step acc).
Proof. reflexivity. Qed.

Lemma close_S_out : forall n acc, close s (S n) acc = step (close s n acc).
Proof.
  induction n as [|n IH]; intros acc; [reflexivity|].
  rewrite close_S. rewrite IH. rewrite <- close_S. reflexivity.
Qed.

Lemma close_incl_acc : forall n acc x, In x acc -> In x (close s n acc).
Proof.
  induction n as [|n IH]; intros acc x H; [exact H|].
  rewrite close_S. apply IH. apply step_In. left; exact H.
Qed.

Lemma close_mono_rounds : forall n m acc x, n <= m -> In x (close s n acc) -> In x (close s m acc).
Proof.
  intros n m acc x Hle H. induction Hle as [|m Hle IH]; [exact H|].
  rewrite close_S_out. apply step_In. left; exact IH.
Qed.

Lemma close_sound : forall n acc x, In x (close s n acc) ->
  In x acc \/ exists z, In z acc /\ clos_trans nat Edge z x.
Proof.
  induction n as [|n IH]; intros acc x H; [left; exact H|].
  rewrite close_S in H. apply IH in H. destruct H as [H|[z [Hz Hzx]]].
  - apply step_In in H. destruct H as [H|[z [Hz He]]]; [left; exact H|].
    right. exists z. split; [exact Hz|apply t_step; exact He].
  - apply step_In in Hz. destruct Hz as [Hz|[w [Hw He]]].
    + right. exists z. split; assumption.
    + right. exists w. split; [exact Hw|]. eapply t_trans; [apply t_step; exact He|exact Hzx].
Qed.

(* ------------------------------------------------------------------ paths *)
Fixpoint epath (x : nat) (l : list nat) (y : nat) : Prop :=
  match l with
  | [] => Edge x y
  | z :: l' => Edge x z /\ epath z l' y
  end.

Lemma epath_suffix : forall l z y x, epath z l y -> NoDup (z :: l) -> In x (z :: l) ->
  exists l', epath x l' y /\ NoDup (x :: l').
Proof.
  induction l as [|w l IH]; intros z y x HP ND Hx.
  - destruct Hx as [Hx|[]]. subst x. exists []. split; assumption.
  - destruct Hx as [Hx|Hx].
    + subst x. exists (w :: l). split; assumption.
    + destruct HP as [_ HP]. apply (IH w y x HP); [|exact Hx]. inversion ND; assumption.
Qed.

(* a path can be chosen with pairwise different sources *)
Lemma tc_epath : forall x y, clos_trans nat Edge x y -> exists l, epath x l y /\ NoDup (x :: l).
Proof.
  intros x y H. apply clos_trans_t1n in H. induction H as [x y H|x y z H _ IH].
  - exists []. split; [exact H|]. constructor; [intros []|constructor].
  - destruct IH as [l [HP ND]].
    destruct (in_dec Nat.eq_dec x (y :: l)) as [Hin|Hnin].
    + eapply epath_suffix; eassumption.
    + exists (y :: l). split; [split; assumption|]. constructor; assumption.
Qed.

Lemma epath_sources : forall l x y, epath x l y -> incl (x :: l) (map a_id (actions s)).
Proof.
  induction l as [|z l IH]; intros x y HP w Hw.
  - destruct Hw as [Hw|[]]. subst w. eapply succ_exists. exact HP.
  - destruct HP as [He HP]. destruct Hw as [Hw|Hw].
    + subst w. eapply succ_exists. exact He.
    + eapply IH; eassumption.
Qed.

Lemma epath_bound : forall l x y, epath x l y -> NoDup (x :: l) -> S (length l) <= length (actions s).
Proof.
  intros l x y HP ND. pose proof (NoDup_incl_length ND (epath_sources _ _ _ HP)) as H.
  rewrite map_length in H. exact H.
Qed.

Lemma epath_close : forall l z y acc, In z acc -> epath z l y -> In y (close s (S (length l)) acc).
Proof.
  induction l as [|w l IH]; intros z y acc Hz HP.
  - cbn [length]. rewrite close_S. cbn [close]. apply step_In. right. exists z. split; assumption.
  - destruct HP as [He HP]. cbn [length]. rewrite close_S. apply (IH w); [|exact HP].
    apply step_In. right. exists z. split; assumption.
Qed.

(* |actions| rounds reach everything reachable *)
Lemma reach_close : forall acc z y, In z acc -> clos_trans nat Edge z y -> In y (close s (length (actions s)) acc).
Proof.
  intros acc z y Hz H. destruct (tc_epath _ _ H) as [l [HP ND]].
  apply (close_mono_rounds (S (length l))).
  - eapply epath_bound; eassumption.
  - eapply epath_close; eassumption.
Qed.

(* ------------------------------------------------------------------ ancestors of an action *)
Theorem ancestors_reach : forall a b, In b (ancestors s a) <-> clos_trans nat Edge a b.
Proof.
  intros a b. unfold ancestors. split.
  - intros H. apply close_sound in H. destruct H as [H|[z [Hz Hzb]]].
    + apply union_nat_In in H. destruct H as [[]|H]. apply t_step. exact H.
    + apply union_nat_In in Hz. destruct Hz as [[]|Hz]. eapply t_trans; [apply t_step; exact Hz|exact Hzb].
  - intros H. apply clos_trans_t1n in H. destruct H as [y H|y z H Hr].
    + apply close_incl_acc. apply union_nat_In. right; exact H.
    + apply clos_t1n_trans in Hr. apply (reach_close _ y); [|exact Hr]. apply union_nat_In. right; exact H.
Qed.

Theorem is_ancestor_sound : forall a b, is_ancestor s a b = true -> Anc s a b.
Proof.
  intros a b H. unfold is_ancestor in H. apply mem_nat_In in H. apply ancestors_reach in H.
  apply tEdge_Anc. exact H.
Qed.

Lemma anc_tedge : NestingAcyclic s -> ScopesResolve s -> forall a b, Anc s a b -> clos_trans nat Edge a b.
Proof.
  intros NA SR a b H. induction H as [x y H|x y z _ IH1 _ IH2].
  - apply t_step. apply succ_complete; assumption.
  - eapply t_trans; eassumption.
Qed.

Theorem is_ancestor_complete : NestingAcyclic s -> ScopesResolve s ->
  forall a b, Anc s a b -> is_ancestor s a b = true.
Proof.
  intros NA SR a b H. unfold is_ancestor. apply mem_nat_In. apply ancestors_reach. apply anc_tedge; assumption.
Qed.

(* on every schema on which the cycle detector is silent (in particular every accepted one) *)
Theorem is_ancestor_iff_no_cycle : ScopesResolve s -> has_cycle s = false ->
  forall a b, is_ancestor s a b = true <-> Anc s a b.
Proof.
  intros SR HC a b. split; [apply is_ancestor_sound|].
  intros H. unfold is_ancestor. apply mem_nat_In. apply ancestors_reach.
  apply has_cycle_false_anc_tedge; assumption.
Qed.

(* ------------------------------------------------------------------ ancestors of a thread group *)
Definition GroupAnc (g b : nat) : Prop :=
  exists c, HoldsGroup s g c /\ (Mentions s c b \/ exists x, Mentions s c x /\ Anc s x b).

Lemma group_seed_In : forall g x,
  In x (union_nat [] (flat_map (mentions s (fuel_of s)) (group_eff_cps s g))) <->
  exists c, In c (group_eff_cps s g) /\ In x (mentions s (fuel_of s) c).
Proof.
  intros g x. rewrite union_nat_In, in_flat_map. split; [intros [[]|H]; exact H|intros H; right; exact H].
Qed.

Theorem group_ancestors_sound : forall g b, In b (group_ancestors s g) -> GroupAnc g b.
Proof.
  intros g b H. unfold group_ancestors in H. apply close_sound in H. destruct H as [H|[z [Hz Hzb]]].
  - apply group_seed_In in H. destruct H as [c [Hc Hb]]. exists c.
    split; [apply group_eff_cps_sound; exact Hc|]. left. eapply mentions_sound; exact Hb.
  - apply group_seed_In in Hz. destruct Hz as [c [Hc Hz]]. exists c.
    split; [apply group_eff_cps_sound; exact Hc|]. right. exists z.
    split; [eapply mentions_sound; exact Hz|apply tEdge_Anc; exact Hzb].
Qed.

Theorem group_ancestors_complete : NestingAcyclic s -> ScopesResolve s ->
  forall g b, GroupAnc g b -> In b (group_ancestors s g).
Proof.
  intros NA SR g b [c [Hh H]]. unfold group_ancestors.
  assert (Hc : In c (group_eff_cps s g)) by (apply group_eff_cps_complete; assumption).
  assert (HA : NestAcyclicFrom s c) by (apply NestingAcyclic_from; exact NA).
  destruct H as [Hm|[x [Hm Hx]]].
  - apply close_incl_acc. apply group_seed_In. exists c. split; [exact Hc|]. apply mentions_iff; assumption.
  - apply (reach_close _ x).
    + apply group_seed_In. exists c. split; [exact Hc|]. apply mentions_iff; assumption.
    + apply anc_tedge; assumption.
Qed.

(* ------------------------------------------------------------------ guaranteed ancestry: one round as an operator *)
Definition gact (G : nat -> bool) (b x : nat) : bool :=
  Nat.eqb x b || match find_action s x with
                 | Some act => existsb G (action_cps s act)
                 | None => false end.

Definition gdep (G : nat -> bool) (b : nat) (d : dep) : bool :=
  match d with
  | DCmp l _ r => existsb (gact G b) (operand_action l ++ operand_action r)
  | DRef r => if rkind_eqb (r_kind r) RCheckpoint then G (r_id r) else false
  end.

Definition gstep (G : nat -> bool) (b c : nat) : bool :=
  match find_checkpoint s c with
  | None => false
  | Some cp =>
    match cp_gate cp with
    | Some G_OR => forallb (gdep G b) (cp_deps cp)
    | _ => existsb (gdep G b) (cp_deps cp)
    end
  end.

Lemma guar_cp_S : forall f b c, guar_cp s (S f) b c = gstep (guar_cp s f b) b c.
Proof. reflexivity. Qed.

Lemma guar_cp_0 : forall b c, guar_cp s 0 b c = false.
Proof. reflexivity. Qed.

Lemma gstep_or : forall G b c cp, find_checkpoint s c = Some cp -> cp_gate cp = Some G_OR ->
  gstep G b c = forallb (gdep G b) (cp_deps cp).
Proof. intros G b c cp Hf Hg. unfold gstep. rewrite Hf, Hg. reflexivity. Qed.

Lemma gstep_any : forall G b c cp, find_checkpoint s c = Some cp -> cp_gate cp <> Some G_OR ->
  gstep G b c = existsb (gdep G b) (cp_deps cp).
Proof.
  intros G b c cp Hf Hg. unfold gstep. rewrite Hf.
  destruct (cp_gate cp) as [[| | | |]|]; try reflexivity. congruence.
Qed.

Lemma gate_or_dec : forall cp, cp_gate cp = Some G_OR \/ cp_gate cp <> Some G_OR.
Proof. intros cp. destruct (cp_gate cp) as [[| | | |]|]; try (right; congruence). left; reflexivity. Qed.

Lemma gstep_none : forall G b c, find_checkpoint s c = None -> gstep G b c = false.
Proof. intros G b c H. unfold gstep. rewrite H. reflexivity. Qed.

(* soundness of one round *)
Lemma gdep_sound : forall G b d, (forall c, G c = true -> GuarCp s b c) -> gdep G b d = true -> GuarDep s b d.
Proof.
  intros G b d HG H. destruct d as [l o r|r]; cbn [gdep] in H.
  - apply existsb_exists in H. destruct H as [x [Hx Hg]]. unfold gact in Hg.
    apply orb_true_iff in Hg. destruct Hg as [Hg|Hg].
    + apply Nat.eqb_eq in Hg. subst x. apply GD_direct. exact Hx.
    + destruct (find_action s x) as [act|] eqn:Hf; [|discriminate].
      apply existsb_exists in Hg. destruct Hg as [c [Hc Hgc]].
      eapply GD_via; try eassumption. apply HG. exact Hgc.
  - destruct (rkind_eqb (r_kind r) RCheckpoint) eqn:Hk; [|discriminate].
    apply rkind_eqb_eq in Hk. apply GD_ref; [exact Hk|]. apply HG. exact H.
Qed.

Lemma gstep_sound : forall G b c, (forall c, G c = true -> GuarCp s b c) -> gstep G b c = true -> GuarCp s b c.
Proof.
  intros G b c HG H. destruct (find_checkpoint s c) as [cp|] eqn:Hf; [|rewrite gstep_none in H; [discriminate|exact Hf]].
  destruct (gate_or_dec cp) as [Hg|Hg].
  - rewrite (gstep_or _ _ _ _ Hf Hg) in H. eapply G_or; try eassumption.
    intros d Hd. apply (gdep_sound G); [exact HG|]. exact (proj1 (forallb_forall _ _) H d Hd).
  - rewrite (gstep_any _ _ _ _ Hf Hg) in H. apply existsb_exists in H. destruct H as [d [Hd Hgd]].
    eapply G_any; try eassumption. apply (gdep_sound G); assumption.
Qed.

Theorem guar_cp_sound : forall fuel b c, guar_cp s fuel b c = true -> GuarCp s b c.
Proof.
  induction fuel as [|f IH]; intros b c H; [rewrite guar_cp_0 in H; discriminate|].
  rewrite guar_cp_S in H. apply (gstep_sound (guar_cp s f b)); [|exact H]. intros c'. apply IH.
Qed.

(* monotonicity of one round *)
Lemma gact_mono : forall G G' b x, (forall c, G c = true -> G' c = true) -> gact G b x = true -> gact G' b x = true.
Proof.
  intros G G' b x HG H. unfold gact in *. apply orb_true_iff in H. apply orb_true_iff.
  destruct H as [H|H]; [left; exact H|right].
  destruct (find_action s x) as [act|]; [|discriminate].
  apply existsb_exists in H. destruct H as [c [Hc Hgc]]. apply existsb_exists. exists c. split; [exact Hc|apply HG; exact Hgc].
Qed.

Lemma gdep_mono : forall G G' b d, (forall c, G c = true -> G' c = true) -> gdep G b d = true -> gdep G' b d = true.
Proof.
  intros G G' b d HG H. destruct d as [l o r|r]; cbn [gdep] in *.
  - apply existsb_exists in H. destruct H as [x [Hx Hg]]. apply existsb_exists. exists x.
    split; [exact Hx|eapply gact_mono; eassumption].
  - destruct (rkind_eqb (r_kind r) RCheckpoint); [apply HG; exact H|discriminate].
Qed.

Lemma gstep_mono : forall G G' b c, (forall c, G c = true -> G' c = true) -> gstep G b c = true -> gstep G' b c = true.
Proof.
  intros G G' b c HG H. destruct (find_checkpoint s c) as [cp|] eqn:Hf; [|rewrite gstep_none in H; [discriminate|exact Hf]].
  destruct (gate_or_dec cp) as [Hg|Hg].
  - rewrite (gstep_or G _ _ _ Hf Hg) in H. rewrite (gstep_or G' _ _ _ Hf Hg). apply forallb_forall. intros d Hd.
    eapply gdep_mono; [exact HG|]. exact (proj1 (forallb_forall _ _) H d Hd).
  - rewrite (gstep_any G _ _ _ Hf Hg) in H. rewrite (gstep_any G' _ _ _ Hf Hg). apply existsb_exists in H. destruct H as [d [Hd Hgd]].
    apply existsb_exists. exists d. split; [exact Hd|eapply gdep_mono; eassumption].
Qed.

Lemma gstep_ext : forall G G' b c, (forall c, G c = G' c) -> gstep G b c = gstep G' b c.
Proof.
  intros G G' b c HG.
  destruct (gstep G b c) eqn:E1; destruct (gstep G' b c) eqn:E2; try reflexivity.
  - apply (gstep_mono G G') in E1; [congruence|]. intros c' Hc'. rewrite <- HG. exact Hc'.
  - apply (gstep_mono G' G) in E2; [congruence|]. intros c' Hc'. rewrite HG. exact Hc'.
Qed.

Lemma guar_mono_S : forall f b c, guar_cp s f b c = true -> guar_cp s (S f) b c = true.
Proof.
  induction f as [|f IH]; intros b c H; [rewrite guar_cp_0 in H; discriminate|].
  rewrite guar_cp_S in H. rewrite guar_cp_S. eapply gstep_mono; [|exact H]. intros c'. apply IH.
Qed.

Lemma guar_mono : forall f f' b c, f <= f' -> guar_cp s f b c = true -> guar_cp s f' b c = true.
Proof.
  intros f f' b c Hle H. induction Hle as [|f' Hle IH]; [exact H|]. apply guar_mono_S. exact IH.
Qed.

Lemma guar_none : forall f b c, find_checkpoint s c = None -> guar_cp s f b c = false.
Proof.
  intros [|f] b c H; [reflexivity|]. rewrite guar_cp_S. apply gstep_none. exact H.
Qed.

(* ------------------------------------------------------------------ every derivation is found with some fuel *)
Lemma forall_exists_fuel : forall b (l : list dep),
  (forall d, In d l -> exists k, gdep (guar_cp s k b) b d = true) ->
  exists K, forall d, In d l -> gdep (guar_cp s K b) b d = true.
Proof.
  intros b. induction l as [|d l IH]; intros H.
  - exists 0. intros d [].
  - destruct (H d (or_introl eq_refl)) as [k Hk].
    destruct IH as [K HK]; [intros d' Hd'; apply H; right; exact Hd'|].
    exists (Nat.max k K). intros d' [Hd'|Hd'].
    + subst d'. eapply gdep_mono; [|exact Hk]. intros c. apply guar_mono. apply Nat.le_max_l.
    + eapply gdep_mono; [|exact (HK d' Hd')]. intros c. apply guar_mono. apply Nat.le_max_r.
Qed.

Lemma guar_some_fuel : forall b,
  (forall c, GuarCp s b c -> exists k, guar_cp s k b c = true) /\
  (forall d, GuarDep s b d -> exists k, gdep (guar_cp s k b) b d = true).
Proof.
  intros b. apply Guar_mutind.
  - intros c cp Hf Hg _ IH. destruct (forall_exists_fuel b _ IH) as [K HK].
    exists (S K). rewrite guar_cp_S, (gstep_or _ _ _ _ Hf Hg). apply forallb_forall. exact HK.
  - intros c cp d Hf Hg Hd _ [k Hk].
    exists (S k). rewrite guar_cp_S, (gstep_any _ _ _ _ Hf Hg). apply existsb_exists. exists d. split; assumption.
  - intros l o r Hb. exists 0. cbn [gdep]. apply existsb_exists. exists b. split; [exact Hb|].
    unfold gact. rewrite Nat.eqb_refl. reflexivity.
  - intros l o r x act c Hx Hf Hc _ [k Hk]. exists k. cbn [gdep]. apply existsb_exists. exists x.
    split; [exact Hx|]. unfold gact. rewrite Hf. apply orb_true_iff. right.
    apply existsb_exists. exists c. split; assumption.
  - intros r Hk _ [k Hg]. exists k. cbn [gdep].
    assert (Hk' : rkind_eqb (r_kind r) RCheckpoint = true) by (apply rkind_eqb_eq; exact Hk).
    rewrite Hk'. exact Hg.
Qed.

(* ------------------------------------------------------------------ the iteration is stationary after |checkpoints| rounds *)
Definition gcount (b k : nat) : nat := length (filter (fun cp => guar_cp s k b (cp_id cp)) (checkpoints s)).

Definition stable_at (b k : nat) : Prop := forall c, guar_cp s (S k) b c = guar_cp s k b c.

Lemma gcount_mono : forall b k, gcount b k <= gcount b (S k).
Proof. intros b k. unfold gcount. apply filter_length_mono. intros cp _. apply guar_mono_S. Qed.

Lemma gcount_eq_stable : forall b k, gcount b k = gcount b (S k) -> stable_at b k.
Proof.
  intros b k H c. destruct (find_checkpoint s c) as [cp|] eqn:Hf.
  - apply find_checkpoint_some in Hf. destruct Hf as [Hin Hid]. subst c. symmetry.
    apply (filter_length_eq_ext _ (fun cp => guar_cp s k b (cp_id cp)) (fun cp => guar_cp s (S k) b (cp_id cp))
             (checkpoints s)); [|exact H|exact Hin].
    intros cp' _. apply guar_mono_S.
  - rewrite !guar_none by exact Hf. reflexivity.
Qed.

Lemma stable_next : forall b k, stable_at b k -> stable_at b (S k).
Proof.
  intros b k H c. rewrite (guar_cp_S (S k)), (guar_cp_S k). apply gstep_ext. exact H.
Qed.

Lemma stable_forever : forall b k, stable_at b k -> forall m, k <= m -> forall c, guar_cp s m b c = guar_cp s k b c.
Proof.
  intros b k H m Hle. induction Hle as [|m Hle IH]; intros c; [reflexivity|].
  assert (Hm : stable_at b m).
  { clear IH. induction Hle as [|m Hle IHm]; [exact H|apply stable_next; exact IHm]. }
  rewrite Hm. apply IH.
Qed.

Lemma gcount_pigeon : forall b n, (exists k, k < n /\ gcount b k = gcount b (S k)) \/ n <= gcount b n.
Proof.
  intros b. induction n as [|n IH]; [right; apply Nat.le_0_l|].
  destruct IH as [[k [Hk He]]|IH].
  - left. exists k. split; [lia|exact He].
  - pose proof (gcount_mono b n) as Hm.
    destruct (Nat.eq_dec (gcount b n) (gcount b (S n))) as [He|Hne].
    + left. exists n. split; [lia|exact He].
    + right. lia.
Qed.

Lemma stable_early : forall b, exists k, k <= length (checkpoints s) /\ stable_at b k.
Proof.
  intros b. destruct (gcount_pigeon b (S (length (checkpoints s)))) as [[k [Hk He]]|H].
  - exists k. split; [lia|apply gcount_eq_stable; exact He].
  - exfalso. pose proof (filter_length_bound _ (fun cp => guar_cp s (S (length (checkpoints s))) b (cp_id cp)) (checkpoints s)) as Hb.
    unfold gcount in H. lia.
Qed.

Theorem guar_cp_complete : forall fuel b c, length (checkpoints s) <= fuel -> GuarCp s b c -> guar_cp s fuel b c = true.
Proof.
  intros fuel b c HL H. destruct (proj1 (guar_some_fuel b) c H) as [m Hm].
  destruct (stable_early b) as [k [Hk Hst]].
  apply (guar_mono k); [lia|].
  destruct (Nat.le_ge_cases k m) as [Hkm|Hmk].
  - rewrite <- (stable_forever b k Hst m Hkm). exact Hm.
  - eapply guar_mono; eassumption.
Qed.

Theorem guar_cp_iff : forall fuel b c, length (checkpoints s) <= fuel -> (guar_cp s fuel b c = true <-> GuarCp s b c).
Proof. intros fuel b c HL. split; [apply guar_cp_sound|apply guar_cp_complete; exact HL]. Qed.

(* the test the validator applies to appends_objects_to *)
Theorem guaranteed_ancestor_iff : forall a b,
  guaranteed_ancestor s a b = true <-> exists c, In c (action_cps s a) /\ GuarCp s b c.
Proof.
  intros a b. unfold guaranteed_ancestor. rewrite existsb_exists. split.
  - intros [c [Hc Hg]]. exists c. split; [exact Hc|eapply guar_cp_sound; exact Hg].
  - intros [c [Hc Hg]]. exists c. split; [exact Hc|]. apply guar_cp_complete; [lia|exact Hg].
Qed.

End Ancestry.

(* ------------------------------------------------------------------ statements in the form used by Properties/C06_ancestry.v *)
Lemma C06_ancestor_search_sound_lemma : forall s a b, is_ancestor s a b = true -> Anc s a b.
Proof. exact is_ancestor_sound. Qed.

(* duplicate-freeness of the action ids is not needed; [ScopesResolve] is (see Proofs/DepLemmas.v) *)
Lemma C06_ancestor_search_complete_lemma : forall s a b,
  Anc s a b -> NestingAcyclic s -> ScopesResolve s -> nodup_nat (map a_id (actions s)) = true ->
  is_ancestor s a b = true.
Proof. intros s a b H NA SR _. apply is_ancestor_complete; assumption. Qed.

Lemma C06_ancestor_search_exact_lemma : forall tbl s, conforms tbl s = true ->
  forall a b, is_ancestor s a b = true <-> Anc s a b.
Proof.
  intros tbl s H. apply is_ancestor_iff_no_cycle.
  - eapply conforms_with_scopes; exact H.
  - exact (proj2 (proj2 (conforms_with_parts _ _ _ H))).
Qed.

Lemma C06_group_ancestor_search_sound_lemma : forall s g b, In b (group_ancestors s g) -> GroupAnc s g b.
Proof. exact group_ancestors_sound. Qed.

Lemma C06_group_ancestor_search_complete_lemma : forall s g b,
  GroupAnc s g b -> NestingAcyclic s -> ScopesResolve s -> In b (group_ancestors s g).
Proof. intros s g b H NA SR. apply group_ancestors_complete; assumption. Qed.

Lemma C07_guaranteed_sound_lemma : forall s fuel b c, guar_cp s fuel b c = true -> GuarCp s b c.
Proof. exact guar_cp_sound. Qed.

Lemma C07_guaranteed_complete_lemma : forall s fuel b c,
  length (checkpoints s) <= fuel -> GuarCp s b c -> guar_cp s fuel b c = true.
Proof. exact guar_cp_complete. Qed.

Lemma C07_guaranteed_ancestor_exact_lemma : forall s a b,
  guaranteed_ancestor s a b = true <-> exists c, In c (action_cps s a) /\ GuarCp s b c.
Proof. exact guaranteed_ancestor_iff. Qed.

(* ------------------------------------------------------------------ examples (schema of Proofs/CycleProofs.v) *)
Module Examples.
Import CycleProofs.Examples.

(* action 3 has actions 1 and 2 among its ancestors (1 also through the nested reference), action 4 has
   action 2 through the checkpoint of its thread group and action 1 behind it; nothing descends from 3 or 4 *)
Example ex_ancestors : (ancestors ex 1, ancestors ex 2, ancestors ex 3, ancestors ex 4) = ([], [1], [1; 2], [2; 1]).
Proof. vm_compute. reflexivity. Qed.

Example ex_anc_4_1 : Anc ex 4 1.
Proof. apply is_ancestor_sound. vm_compute. reflexivity. Qed.

Example ex_not_anc_1_4 : ~ Anc ex 1 4.
Proof.
  intros H. apply (C06_ancestor_search_exact_lemma _ _ ex_conforms) in H. vm_compute in H. discriminate.
Qed.

Example ex_group_ancestors : group_ancestors ex 1 = [2; 1].
Proof. vm_compute. reflexivity. Qed.

(* checkpoint 2 is an XOR gate: action 1 is guaranteed before action 3, and so is action 2 *)
Example ex_guaranteed : (guaranteed_ancestor ex (Build_action 3 403 (Ref RParty 1) (Ref RPromise 1) None (Some (Ref RCheckpoint 2))
       (Build_operation (Exclude (Some [4; 2])) [] [] None) []) 1) = true.
Proof. vm_compute. reflexivity. Qed.
End Examples.
