#!/venv/bin/python
"""T2 generator: dump the structural specification DATA of the implementation as Coq terms.

usage: gen_specs.py <repo_root> <out.v>

Reads validation/obj_specs.py, validation/pipeline_obj_specs.py, validation/patterns.py and enums.py of the
repository at <repo_root> (imported, not parsed) and writes every named specification reachable from
obj_specs.root_object as a term of OIS.Model.Interp.spec, plus RESERVED_KEYWORDS, enums.ref_types, and - as data
for other components - the unique / unique_composites constraints, enum value lists, ref_types lists and
validation_functions per location.

Normalisation: property maps, optional/forbidden/mutually-exclusive lists, enum values, ref_types, pattern lists
and alternatives are sorted and de-duplicated (none of these orders influences the verdict), so re-ordering or
re-formatting the Python source does not change the output.  The order of "if" conditionals is kept.

FAIL CLOSED: any key, type, operator, regex or feature that the Coq interpreter does not model makes the
generator exit non-zero with a message naming the location; nothing is written in that case.
"""
import os, sys, re

# regex source text -> recogniser constructor of OIS.Model.Regex.pat
KNOWN_PATTERNS = {
    r"^([^_\{\}:\.])[^\{\}:\.]*$": "PAlias",
    r"^[^\.]*$": "PDotless",
    r"^\$(?![_\.]).+$": "PVariable",
    r"^\$_.+$": "PLocalVariable",
    r"^\$_item(\..+)?": "PFilterRef",
    r"^#(?:[0-9a-fA-F]{3}){1,2}$": "PHexCode",
}
# expressions hard-wired into Model/Regex.v (is_global_ref); they must not drift either
FIXED_PATTERNS = {"global_ref_identifier": r"^\d+$", "global_ref_alias": r"^{.+}$"}
PSEUDO_REF_TYPES = ("filter_ref", "local_ref")
STRUCTURAL_FUNCTIONS = {"validate_singular_dependency": "ChkSingularDependency"}
PRIMS = {"integer": "PInteger", "decimal": "PDecimal", "boolean": "PBoolean", "scalar": "PScalar"}
IDENT = re.compile(r"^[A-Za-z_][A-Za-z0-9_]*$")


class Unsupported(Exception):
    pass


def fail(loc, msg):
    raise Unsupported("%s: %s" % (loc, msg))


# ------------------------------------------------------------------ tiny term language + printer
def cstr(s):
    if not isinstance(s, str):
        raise Unsupported("not a string: %r" % (s,))
    if any(ord(c) > 126 or ord(c) < 32 for c in s):
        raise Unsupported("non printable-ASCII string in a specification: %r" % (s,))
    return '"' + s.replace('"', '""') + '"'


class T:
    """app(head, args) | lst(items) | tup(items) | atom(text)"""
    def __init__(self, kind, head=None, items=()):
        self.kind, self.head, self.items = kind, head, list(items)

    def flat(self):
        if self.kind == "atom":
            return self.head
        if self.kind == "lst":
            return "[" + "; ".join(i.flat() for i in self.items) + "]"
        if self.kind == "tup":
            return "(" + ", ".join(i.flat() for i in self.items) + ")"
        if not self.items:
            return self.head
        return "(" + self.head + " " + " ".join(i.flat() for i in self.items) + ")"

    def pretty(self, ind=0, width=110):
        f = self.flat()
        if len(f) + ind <= width or self.kind == "atom":
            return f
        pad = " " * (ind + 2)
        if self.kind == "lst":
            return "[\n" + ";\n".join(pad + i.pretty(ind + 2, width) for i in self.items) + "\n" + " " * ind + "]"
        if self.kind == "tup":
            return "(" + (",\n" + pad).join(i.pretty(ind + 2, width) for i in self.items) + ")"
        return "(" + self.head + "\n" + "\n".join(pad + i.pretty(ind + 2, width) for i in self.items) + ")"


def atom(t): return T("atom", t)
def app(h, *a): return T("app", h, a)
def lst(items): return T("lst", None, items)
def tup(*items): return T("tup", None, items)
def S(s): return atom(cstr(s))
def strs(l): return lst([S(x) for x in l])
def nat(n): return atom(str(int(n)))
def some(t): return app("Some", t)
NONE = atom("None")


def sorted_unique(loc, what, l):
    if not isinstance(l, (list, tuple)) or not all(isinstance(x, str) for x in l):
        fail(loc, "%s must be a list of strings, got %r" % (what, l))
    return sorted(set(l))


def allow(loc, d, keys):
    if not isinstance(d, dict):
        fail(loc, "expected a dict, got %r" % (d,))
    extra = set(d) - set(keys)
    if extra:
        fail(loc, "unsupported key(s) %s" % sorted(extra))


# ------------------------------------------------------------------ conversion
class Gen:
    def __init__(self, repo_root):
        self.repo_root = repo_root
        sys.path.insert(0, repo_root)
        for m in [m for m in sys.modules if m == "enums" or m == "utils" or m.split(".")[0] == "validation"]:
            del sys.modules[m]
        import enums
        from validation import obj_specs, pipeline_obj_specs, oisql, patterns
        from validation import utils as vutils
        from validation.schema_validator import SchemaValidator
        self.enums, self.obj_specs, self.pipeline_obj_specs, self.oisql = enums, obj_specs, pipeline_obj_specs, oisql
        self.patterns, self.vutils, self.SchemaValidator = patterns, vutils, SchemaValidator
        self.ref_types = list(enums.ref_types)
        self.reserved = list(obj_specs.RESERVED_KEYWORDS)
        for name, text in FIXED_PATTERNS.items():
            if getattr(patterns, name, None) != text:
                fail("patterns." + name, "expected %r (hard-wired in Model/Regex.v), found %r" % (text, getattr(patterns, name, None)))
        self.queue, self.named = [], {}
        self.refs = {}            # spec name -> names it mentions
        self.raising = {}         # spec name -> contains a conditional that can raise (len of a non-sized value)
        self.alt_roots = set()    # names mentioned from inside an alternative
        self.cur = None
        self.unique_at, self.unique_composites_at = {}, {}
        self.enum_at, self.ref_types_at, self.functions_at = {}, {}, {}
        self.function_names = set()

    # -- helpers
    def pattern(self, loc, regex):
        if regex not in KNOWN_PATTERNS:
            fail(loc, "unknown regular expression %r (no recogniser in Model/Regex.v)" % (regex,))
        return KNOWN_PATTERNS[regex]

    def pats(self, loc, sp):
        out = set()
        for i, p in enumerate(sp.get("patterns", [])):
            allow("%s.patterns[%d]" % (loc, i), p, {"regex", "description"})
            if "description" in p and not isinstance(p["description"], str):
                fail(loc, "pattern description must be a string")
            out.add(self.pattern(loc, p["regex"]))
        return lst([atom(p) for p in sorted(out)])

    def check_error_replacements(self, loc, sp):
        for i, r in enumerate(sp.get("error_replacements", [])):
            allow("%s.error_replacements[%d]" % (loc, i), r, {"pattern", "replace_with"})

    def name_ref(self, loc, name, in_alt):
        if not isinstance(name, str):
            fail(loc, "obj_spec name must be a string")
        if hasattr(self.obj_specs, name):
            pass
        elif hasattr(self.oisql, name):
            fail(loc, "obj_spec %r resolves to validation/oisql.py, which is not modelled" % name)
        elif not hasattr(self.pipeline_obj_specs, name):
            fail(loc, "obj_spec not found: %r" % name)
        target = self.vutils.get_obj_spec(name)
        if not isinstance(target, dict):
            fail(loc, "obj_spec %r is not a dict" % name)
        if name not in self.named and name not in self.queue:
            self.queue.append(name)
        self.refs.setdefault(self.cur, set()).add(name)
        if in_alt:
            self.alt_roots.add(name)
        return app("SNamed", S(name))

    # -- any field
    def field(self, loc, sp, in_alt):
        if not isinstance(sp, dict):
            fail(loc, "specification must be a dict, got %r" % (sp,))
        if "types" in sp:
            allow(loc, sp, {"types"})
            if not isinstance(sp["types"], (list, tuple)) or not sp["types"]:
                fail(loc, "types must be a non-empty list")
            alts = []
            for i, a in enumerate(sp["types"]):
                if not isinstance(a, dict):
                    fail(loc, "type alternatives given by name are not modelled: %r" % (a,))
                alts.append(self.field("%s|%d" % (loc, i), a, True))
            return self.alt(alts)
        if "type" not in sp:
            fail(loc, "neither type nor types")
        t = sp["type"]
        if not isinstance(t, str) or self.vutils.is_path(t):
            fail(loc, "type given as a path / non-string is not modelled: %r" % (t,))
        if "nullable" in sp and not isinstance(sp["nullable"], bool):
            fail(loc, "nullable must be a boolean")
        self.check_error_replacements(loc, sp)
        common = {"type", "nullable", "error_replacements"}
        if t in PRIMS:
            allow(loc, sp, common)
            term = app("SPrim", atom(PRIMS[t]))
        elif t == "string":
            allow(loc, sp, common | {"patterns"})
            term = app("SString", self.pats(loc, sp))
        elif t == "enum":
            allow(loc, sp, common | {"values"})
            vals = sorted_unique(loc, "enum values", list(sp.get("values", None) or ()))
            self.enum_at[loc] = vals
            term = app("SEnum", strs(vals))
        elif t == "ref":
            allow(loc, sp, common | {"ref_types"})
            kinds = sorted_unique(loc, "ref_types", sp.get("ref_types"))
            for k in kinds:
                if k not in self.ref_types and k not in PSEUDO_REF_TYPES:
                    fail(loc, "ref type %r is neither in enums.ref_types nor filter_ref/local_ref" % k)
            self.ref_types_at[loc] = kinds
            term = app("SRef", strs(kinds))
        elif t == "array":
            allow(loc, sp, common | {"values", "constraints"})
            if "values" not in sp:
                fail(loc, "array without values")
            cons = sp.get("constraints", {})
            allow(loc + ".constraints", cons, {"min_length", "unique", "unique_composites"})
            m = cons.get("min_length", 0)
            if not isinstance(m, int) or isinstance(m, bool) or m < 0:
                fail(loc, "min_length must be a natural number")
            if "unique" in cons:
                u = cons["unique"]
                if not isinstance(u, list) or not all(isinstance(x, str) and not self.vutils.is_path(x) for x in u):
                    fail(loc, "unique must be a list of plain property names")
                self.unique_at[loc] = sorted(set(u))
            if "unique_composites" in cons:
                uc = cons["unique_composites"]
                if not isinstance(uc, list) or not all(isinstance(c, list) and all(isinstance(x, str) for x in c) for c in uc):
                    fail(loc, "unique_composites must be a list of lists of property names")
                self.unique_composites_at[loc] = sorted(sorted(set(c)) for c in uc)
            term = app("SArray", self.field(loc + "[]", sp["values"], in_alt), nat(m))
        elif t == "object":
            term = self.obj(loc, sp, in_alt)
        else:
            fail(loc, "type %r is not modelled" % t)
        if sp.get("nullable", False):
            term = app("SNullable", term)
        return term

    def alt(self, alts):
        uniq = {}
        for a in alts:
            uniq[a.flat()] = a
        return app("SAlt", lst([uniq[k] for k in sorted(uniq)]))

    # -- objects
    def obj(self, loc, sp, in_alt, named=False):
        common = {"type", "nullable", "error_replacements"}
        if sp.get("type") != "object":
            fail(loc, "expected an object specification")
        self.check_error_replacements(loc, sp)
        if "any_of_specs" in sp:
            allow(loc, sp, common | {"any_of_specs"})
            names = sp["any_of_specs"]
            if not isinstance(names, list) or not names:
                fail(loc, "any_of_specs must be a non-empty list")
            return self.alt([self.name_ref(loc, n, True) for n in names])
        if "obj_spec_name" in sp:
            allow(loc, sp, common | {"obj_spec_name"})
            return self.name_ref(loc, sp["obj_spec_name"], in_alt)
        if "properties" in sp:
            keys = common | {"properties", "constraints", "if", "property_validation_priority"}
            if named:
                keys |= {"ref_config"}
            allow(loc, sp, keys)
            return self.obj_props(loc, sp, in_alt)
        if "keys" in sp and "values" in sp:
            allow(loc, sp, common | {"keys", "values"})
            k = sp["keys"]
            allow(loc + ".keys", k, {"type", "patterns"})
            if k.get("type") != "string":
                fail(loc, "keys must be of type string")
            return app("SMap", self.pats(loc + ".keys", k), self.field(loc + ".*", sp["values"], in_alt))
        fail(loc, "object specification without properties / keys+values / obj_spec_name / any_of_specs")

    def props(self, loc, d, in_alt):
        if not isinstance(d, dict):
            fail(loc, "properties must be a dict")
        out = []
        for k in sorted(d):
            if not isinstance(k, str):
                fail(loc, "property name must be a string")
            out.append(tup(S(k), self.field("%s.%s" % (loc, k), d[k], in_alt)))
        return lst(out)

    def forbidden(self, loc, f):
        allow(loc, f, {"properties", "reason"})
        if not isinstance(f.get("reason", ""), str):
            fail(loc, "forbidden.reason must be a string")
        return sorted_unique(loc, "forbidden.properties", f.get("properties"))

    def obj_props(self, loc, sp, in_alt):
        props = self.props(loc, sp["properties"], in_alt)
        cons = sp.get("constraints", {})
        allow(loc + ".constraints", cons, {"optional", "forbidden", "mutually_exclusive", "validation_functions"})
        optional = sorted_unique(loc, "optional", cons.get("optional", []))
        forb = self.forbidden(loc + ".constraints.forbidden", cons["forbidden"]) if "forbidden" in cons else []
        mutex = []
        if "mutually_exclusive" in cons:
            m = cons["mutually_exclusive"]
            if not isinstance(m, list) or not m or len(set(m)) != len(m):
                fail(loc, "mutually_exclusive must be a non-empty list without duplicates")
            mutex = sorted_unique(loc, "mutually_exclusive", m)
        checks, fnames = [], []
        for i, f in enumerate(cons.get("validation_functions", [])):
            allow("%s.validation_functions[%d]" % (loc, i), f, {"function", "args"})
            fn = f.get("function")
            if not isinstance(fn, str):
                fail(loc, "validation function name must be a string")
            fnames.append(fn)
            self.function_names.add(fn)
            if fn in STRUCTURAL_FUNCTIONS:
                if "args" in f:
                    fail(loc, "%s is modelled without args" % fn)
                # the interpreter silently skips names that are not callable attributes
                if callable(getattr(self.SchemaValidator, fn, None)):
                    checks.append(STRUCTURAL_FUNCTIONS[fn])
        if fnames:
            self.functions_at[loc] = sorted(set(fnames))
        if "property_validation_priority" in sp:
            sorted_unique(loc, "property_validation_priority", sp["property_validation_priority"])  # order only
        conds = []
        for i, c in enumerate(sp.get("if", [])):
            conds.append(self.conditional("%s.if[%d]" % (loc, i), c, in_alt))
        return app("SObject", props, strs(optional), strs(forb), strs(mutex), lst(conds),
                   lst([atom(c) for c in sorted(set(checks))]))

    def path(self, loc, p):
        if not isinstance(p, str) or not p:
            fail(loc, "condition property must be a non-empty string")
        segs = p.split(".")
        for s in segs:
            if not IDENT.match(s) or s == "root":
                fail(loc, "condition property segment %r is not a plain key" % s)
        return segs

    def atom_(self, loc, c, in_alt):
        allow(loc, c, {"property", "operator", "value", "attribute"})
        for k in ("property", "operator", "value"):
            if k not in c:
                fail(loc, "condition lacks %r" % k)
        op, val = c["operator"], c["value"]
        if isinstance(val, str) and op != "DOES_NOT_MATCH_PATTERN" and self.vutils.is_path(val):
            fail(loc, "condition value given as a path is not modelled")
        if op == "LESS_THAN":
            if c.get("attribute") != "length" or not isinstance(val, int) or isinstance(val, bool) or val < 0:
                fail(loc, "LESS_THAN is modelled only on attribute length with a natural number")
            self.raising[self.cur] = True
            if in_alt:
                fail(loc, "a length conditional inside an alternative can raise where the model only fails the alternative")
            return app("ALenLt", strs(self.path(loc, c["property"])), nat(val))
        if "attribute" in c:
            fail(loc, "attribute with operator %r is not modelled" % op)
        if op == "ONE_OF":
            if not isinstance(val, (list, tuple)) or not all(isinstance(x, str) for x in val):
                fail(loc, "ONE_OF is modelled only against a list of strings")
            return app("AOneOf", strs(self.path(loc, c["property"])), strs(sorted(set(val))))
        if op == "DOES_NOT_CONTAIN_KEY":
            if not isinstance(val, str) or not isinstance(c["property"], str):
                fail(loc, "DOES_NOT_CONTAIN_KEY needs string property and value")
            return app("ANoKey", S(c["property"]), S(val))
        if op == "DOES_NOT_MATCH_PATTERN":
            if self.vutils.is_path(val):
                fail(loc, "the interpreter would read this pattern as a path")
            return app("ANoMatch", strs(self.path(loc, c["property"])), atom(self.pattern(loc, val)))
        fail(loc, "condition operator %r is not modelled" % (op,))

    def conditional(self, loc, c, in_alt):
        if not isinstance(c, dict):
            fail(loc, "conditional must be a dict")
        if "else" in c:
            fail(loc, "else branches are not modelled")
        if "then" not in c:
            fail(loc, "conditional without then")
        if "conditions" in c and "gate_type" in c:
            allow(loc, c, {"conditions", "gate_type", "then"})
            if c["gate_type"] not in ("AND", "OR") or not isinstance(c["conditions"], list):
                fail(loc, "condition group must be a list gated by AND or OR")
            atoms = lst([self.atom_("%s.conditions[%d]" % (loc, i), a, in_alt) for i, a in enumerate(c["conditions"])])
            cond = app("CAny" if c["gate_type"] == "OR" else "CAll", atoms)
        else:
            allow(loc, c, {"property", "operator", "value", "attribute", "then"})
            cond = app("CAtom", self.atom_(loc, {k: v for k, v in c.items() if k != "then"}, in_alt))
        then = c["then"]
        allow(loc + ".then", then, {"add_constraints", "add_properties", "override_properties"})
        fo = NONE
        if "add_constraints" in then:
            allow(loc + ".then.add_constraints", then["add_constraints"], {"forbidden"})
            if "forbidden" in then["add_constraints"]:
                fo = some(strs(self.forbidden(loc + ".then.add_constraints.forbidden", then["add_constraints"]["forbidden"])))
        po = {}
        for k in ("add_properties", "override_properties"):
            for p, s in then.get(k, {}).items():
                if p in po:
                    fail(loc, "property %r both added and overridden" % p)
                po[p] = s
        return tup(cond, fo, self.props(loc + ".then", po, in_alt))

    # -- driver
    def run(self):
        self.cur = "root"
        root = self.obj("root", self.obj_specs.root_object, False, named=True)
        while self.queue:
            name = self.queue.pop(0)
            self.cur = name
            self.named[name] = self.obj(name, self.vutils.get_obj_spec(name), False, named=True)
        # a conditional that can raise must not be reachable from an alternative
        seen, todo = set(), list(self.alt_roots)
        while todo:
            n = todo.pop()
            if n in seen:
                continue
            seen.add(n)
            if self.raising.get(n):
                fail(n, "contains a length conditional (may raise) and is reachable from an alternative")
            todo.extend(self.refs.get(n, ()))
        self.root = root
        return self

    def render(self):
        def table(name, typ, d, conv):
            body = lst([tup(S(k), conv(d[k])) for k in sorted(d)])
            return "Definition %s : %s :=\n  %s.\n" % (name, typ, body.pretty(2))
        out = []
        out.append("(* GENERATED by tools/gen_specs.py from validation/obj_specs.py, validation/pipeline_obj_specs.py,\n"
                   "   validation/patterns.py and enums.py - do not edit.  Lists are sorted; see the generator. *)")
        out.append("From Coq Require Import List String.\nFrom OIS Require Import Model.Regex Model.Interp.\n"
                   "Import ListNotations.\nOpen Scope string_scope.\n")
        out.append("Definition reserved_keywords : list string :=\n  %s.\n" % strs(sorted(set(self.reserved))).pretty(2))
        out.append("Definition ref_types : list string :=\n  %s.\n" % strs(sorted(set(self.ref_types))).pretty(2))
        for name in sorted(self.named):
            out.append("Definition spec_%s : spec :=\n  %s.\n" % (name, self.named[name].pretty(2)))
        out.append("Definition spec_defs : list (string * spec) :=\n  %s.\n"
                   % lst([tup(S(n), atom("spec_" + n)) for n in sorted(self.named)]).pretty(2))
        out.append("Definition spec_env : env := mkEnv spec_defs reserved_keywords ref_types.\n")
        out.append("Definition root_spec : spec :=\n  %s.\n" % self.root.pretty(2))
        out.append("(* data for other components *)")
        out.append(table("unique_at", "list (string * list string)", self.unique_at, strs))
        out.append(table("unique_composites_at", "list (string * list (list string))", self.unique_composites_at,
                         lambda v: lst([strs(c) for c in v])))
        out.append(table("enum_values_at", "list (string * list string)", self.enum_at, strs))
        out.append(table("ref_types_at", "list (string * list string)", self.ref_types_at, strs))
        out.append(table("validation_functions_at", "list (string * list string)", self.functions_at, strs))
        return "\n".join(out)


def generate(repo_root):
    """-> (Coq text, Gen instance).  Raises Unsupported."""
    g = Gen(repo_root).run()
    return g.render(), g


def main(argv):
    if len(argv) != 3:
        sys.stderr.write(__doc__)
        return 2
    repo_root, out = os.path.abspath(argv[1]), os.path.abspath(argv[2])
    try:
        text, g = generate(repo_root)
    except Unsupported as e:
        sys.stderr.write("gen_specs: UNSUPPORTED specification feature - %s\n" % e)
        return 1
    old = open(out).read() if os.path.exists(out) else None
    if old != text:
        os.makedirs(os.path.dirname(out), exist_ok=True)
        tmp = out + ".tmp.%d" % os.getpid()
        open(tmp, "w").write(text)
        os.replace(tmp, out)
        print("gen_specs: wrote %s (%d named specs)" % (out, len(g.named)))
    else:
        print("gen_specs: %s unchanged (%d named specs)" % (out, len(g.named)))
    return 0


if __name__ == "__main__":
    sys.exit(main(sys.argv))
