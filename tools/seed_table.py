#!/venv/bin/python
"""Prints the markdown table of seeded changes (section 9 of DESIGN.md) from seeded/*/meta.json."""
import json, glob, os
V = os.path.abspath(os.path.join(os.path.dirname(__file__), ".."))
rows = []
for d in sorted(glob.glob(os.path.join(V, "seeded", "*"))):
    m = json.load(open(os.path.join(d, "meta.json")))
    name = os.path.basename(d)
    checks = m["what_was_run"]["checks"]
    caught = []
    for c, r in checks.items():
        if r["exit"] == 1 and r["violations"]:
            how = (r["first"] or {}).get("mutator") or (r["first"] or {}).get("what") or ""
            caught.append("%s (%s%s)" % (c, "replay with input" if r["with_input"] else "obligation only", ": " + str(how)[:70] if how else ""))
    rows.append("| `%s` | %s | %s | %s |" % (name, (m["what_it_does"] or "")[:160].replace("|", "/").replace("\n", " "),
                                           (m["needs_to_manifest"] or "")[:140].replace("|", "/").replace("\n", " "),
                                           "; ".join(caught) if caught else "**missed**"))
print("| seeded change | what it does | needs | caught by |\n|---|---|---|---|")
print("\n".join(rows))
