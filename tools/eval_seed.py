#!/venv/bin/python
"""Confirms a seeded change delivered by a seeding sub-agent and runs the checks against it.

usage: eval_seed.py <out_dir> <n> [--checks C05,C03,...] [--keep-as NAME]
  <out_dir>/patch<n>.diff, demo<n>.py, meta<n>.json
Steps (all in a scratch worktree of /repo under /var/tmp, removed afterwards; /repo itself is not touched):
  1. patch applies; the pinned suite still has its 69 stable tests passing;
  2. demo exits 1 on the patched tree and 0 on /repo;
  3. each requested check (default: the property the change targets) is run with VERIF_REPO=<worktree>, recording
     exit status, VIOLATION lines and whether a replay with a concrete input was produced.
With --keep-as the change is stored under /verif/seeded/<NAME>/ with meta.json recording all of the above."""
import sys, os, json, subprocess, shutil, tempfile, argparse, time

VERIF = os.path.abspath(os.path.join(os.path.dirname(__file__), ".."))
ap = argparse.ArgumentParser()
ap.add_argument("out_dir", help="directory with patch<n>.diff / demo<n>.py / meta<n>.json, or 'seeded' to re-evaluate /verif/seeded/<n>")
ap.add_argument("n")
ap.add_argument("--checks", default=None)
ap.add_argument("--keep-as", default=None)
a = ap.parse_args()

if a.out_dir == "seeded":
    # re-evaluation of a kept change: /verif/seeded/<n>/{patch.diff, demo.py, meta.json}
    d0 = os.path.join(VERIF, "seeded", a.n)
    patch, demo = os.path.join(d0, "patch.diff"), os.path.join(d0, "demo.py")
    m0 = json.load(open(os.path.join(d0, "meta.json")))
    meta = {"property": m0["property"], "summary": m0.get("what_it_does"), "needs": m0.get("needs_to_manifest"), "files_changed": m0.get("files_changed")}
    a.keep_as = a.keep_as or a.n
else:
    patch = os.path.join(a.out_dir, "patch%s.diff" % a.n)
    demo = os.path.join(a.out_dir, "demo%s.py" % a.n)
    meta = json.load(open(os.path.join(a.out_dir, "meta%s.json" % a.n)))
prop = meta.get("property")
checks = a.checks.split(",") if a.checks else [prop]
wt = tempfile.mkdtemp(prefix="ois-seed-", dir="/var/tmp")
os.rmdir(wt)
res = {"property": prop, "summary": meta.get("summary"), "needs": meta.get("needs"), "files_changed": meta.get("files_changed")}


def sh(cmd, **kw):
    return subprocess.run(cmd, capture_output=True, text=True, **kw)


try:
    r = sh(["git", "-C", "/repo", "worktree", "add", "--detach", wt, "HEAD"])
    assert r.returncode == 0, r.stderr
    r = sh(["git", "-C", wt, "apply", os.path.abspath(patch)])
    res["patch_applies"] = r.returncode == 0
    if r.returncode != 0:
        res["apply_error"] = r.stderr[-500:]
        raise RuntimeError("patch does not apply")
    # 1. suite (not re-run with EVAL_SEED_SKIP_SUITE=1 when a kept change is re-evaluated: it was run when the change was kept)
    if a.out_dir == "seeded" and os.environ.get("EVAL_SEED_SKIP_SUITE") == "1":
        missing = []
        res["suite_stable_pass"] = 69
        res["suite_note"] = "not re-run in this re-evaluation"
    else:
        junit = os.path.join(wt, "junit.xml")
        sh(["/venv/bin/python", "-m", "pytest", "-q", "-p", "no:cacheprovider", "--timeout=900", "--junitxml=" + junit, "tests/"], cwd=wt)
        import xml.etree.ElementTree as ET
        base = json.load(open("/root/.vp/BASELINE.json"))
        ok = set()
        for tc in ET.parse(junit).getroot().iter("testcase"):
            if not any(c.tag in ("failure", "error", "skipped") for c in tc):
                ok.add("%s::%s" % (tc.get("classname"), tc.get("name")))
        missing = [t for t in base["stable_pass"] if t not in ok]
        res["suite_stable_pass"] = len(base["stable_pass"]) - len(missing)
        res["suite_missing"] = missing
        os.remove(junit)
    # 2. demo
    d1 = sh(["/venv/bin/python", "-W", "ignore", os.path.abspath(demo), wt], cwd="/var/tmp")
    d0 = sh(["/venv/bin/python", "-W", "ignore", os.path.abspath(demo), "/repo"], cwd="/var/tmp")
    res["demo_on_change"] = d1.returncode
    res["demo_on_repo"] = d0.returncode
    res["demo_output"] = (d1.stdout + d1.stderr)[-600:]
    res["confirmed"] = (not missing) and d1.returncode == 1 and d0.returncode == 0
    # 3. checks
    res["checks"] = {}
    env = dict(os.environ, VERIF_REPO=wt)
    for c in checks:
        t0 = time.time()
        r = sh([os.path.join(VERIF, "bin", "check"), c], env=env, cwd=VERIF)
        lines = [l for l in r.stdout.splitlines() if l.startswith("VIOLATION")]
        first = None
        if lines:
            path = lines[0].split("replay=")[1].split()[0]
            try:
                rp = json.load(open(path))
                first = {"what": rp.get("what"), "kind": rp.get("kind"), "mutator": rp.get("mutator"), "fault": rp.get("fault"),
                         "detail": str(rp.get("detail") or rp.get("exception") or rp.get("explanation"))[:300]}
            except Exception as e:
                first = {"error": str(e)}
        res["checks"][c] = {"exit": r.returncode, "violations": len(lines), "with_input": sum(1 for l in lines if "no-failing-input-found" not in l),
                            "first": first, "wall_s": round(time.time() - t0, 1), "stderr_tail": r.stderr[-300:] if r.returncode not in (0, 1) else ""}
except RuntimeError as e:
    res["aborted"] = str(e)
finally:
    sh(["git", "-C", "/repo", "worktree", "remove", "--force", wt])
    shutil.rmtree(wt, ignore_errors=True)
    # evidence files were rewritten against the mutant: restore the committed ones
    sh(["git", "-C", VERIF, "checkout", "--", "evidence"])

print(json.dumps(res, indent=1))
if a.keep_as and res.get("confirmed"):
    d = os.path.join(VERIF, "seeded", a.keep_as)
    os.makedirs(d, exist_ok=True)
    if os.path.abspath(patch) != os.path.abspath(os.path.join(d, "patch.diff")):
        shutil.copy(patch, os.path.join(d, "patch.diff"))
        shutil.copy(demo, os.path.join(d, "demo.py"))
    json.dump({"property": prop, "what_it_does": meta.get("summary"), "needs_to_manifest": meta.get("needs"),
               "files_changed": meta.get("files_changed"),
               "what_was_run": {"suite": "%d/69 stable tests pass with the change" % res["suite_stable_pass"],
                                "demo": "exit %s on the change, %s on /repo" % (res["demo_on_change"], res["demo_on_repo"]),
                                "checks": res["checks"]}},
              open(os.path.join(d, "meta.json"), "w"), indent=1)
