#!/bin/bash
# Re-evaluates every kept seeded change against the current checks (sequentially; each in a scratch worktree of /repo)
# and rewrites seeded/<id>/meta.json.  usage: tools/reeval_all_seeds.sh [ids...]
cd "$(dirname "$0")/.."
ids="$@"; [ -z "$ids" ] && ids=$(ls seeded)
for id in $ids; do
  /venv/bin/python tools/eval_seed.py seeded $id > /root/scratch/seedres/re_$id.json 2>&1
  /venv/bin/python - <<PY
import json
try:
    r=json.load(open('/root/scratch/seedres/re_$id.json')); p=r['property']; c=r['checks'][p]
    print('$id', 'confirmed' if r.get('confirmed') else 'UNCONFIRMED(%s,%s,%s)'%(r.get('patch_applies'),r.get('demo_on_change'),r.get('demo_on_repo')), 'exit', c['exit'], 'with_input', c['with_input'])
except Exception as e:
    print('$id', 'ERR', e)
PY
done
