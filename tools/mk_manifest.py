#!/venv/bin/python
"""Writes /verif/MANIFEST.json from the table below (kept in one place so it stays valid)."""
import json, os
V = os.path.abspath(os.path.join(os.path.dirname(__file__), ".."))

CLAIMED = {
 "C04": dict(
   technique="Coq proof by exhaustive reflection over a table regenerated from the source (T1) + Coq operand-typing model checked against the validator on routes x cells (T3)",
   text="Theorems C04_table_partial / C04_table_known_finding / C04_table_refuted / C04_spec_is_relational (Properties/C04.v): the implementation's comparability decision, tabulated from the current source on all 11x14x11 (type, operator, type) triples, equals the declarative specification Cmp outside the recorded known finding (STRING CONTAINS STRING); re-proved on every run against the regenerated table. How an operand acquires its type (literal shapes, direct attribute, through edges / edge collections, list lifting, unresolvable paths) is modelled in Gallina (Model/Rules.v) and compared with the whole validator on every route x cell combination and on random scenarios with C04 faults.",
   note="Trusted: coqc kernel + vm_compute; tools/gen_tables.py (imports and runs validation.utils.types_are_comparable); renderer scenario->JSON; operand typing is tied by differential testing (bounded), not proved about the Python.",
   design="6/C04"),
 "C17": dict(
   technique="Coq proof (induction; fuel bounds proved) over a Gallina model of from_graph_data + exact-coordinate correspondence on generated DAGs",
   text="Theorems C17_terminates, C17_total_injective, C17_depth_is_longest, C17_edge_left, C17_deterministic (Properties/C17.v), for all finite well-formed acyclic graphs with no size bound, about Model/Layout.v; the model is tied to DependencyChartLayout.from_graph_data by comparing every node's exact coordinates (insertion order included) on exhaustive small DAGs and random DAGs up to 40 nodes; the property is also checked directly on the implementation's output as search oracle.",
   note="Trusted: coqc kernel; corr/layout.py generator/runner; model fixes node_height=2,node_spacing=1 and ascending iteration over a set of small ints; CPython recursion limit not modelled.",
   design="6/C17"),
 "C18": dict(
   technique="Coq proof (offset-loop exit condition + pigeonhole fuel bound) over the same layout model + exact-coordinate correspondence",
   text="Theorems C18_no_overlap, C18_no_edge_through_node (Properties/C18.v) for all finite well-formed acyclic graphs about Model/Layout.v, tied to the implementation as for C17 (graphs with >= 3 columns and equal-parity column sizes over-sampled).",
   note="Trusted: as C17.",
   design="6/C18"),
 "C10": dict(
   technique="Coq proof (dict-based duplicate detection = NoDup; canonical form equality = same modulo order, type sensitive) + correspondence with utils.hash_sorted_object / _validate_unique + duplicates injected into whole documents against the Coq scenario model",
   text="Theorems C10_dup_detect, C10_dup_positions, C10_canon_eq, C10_canon_perm, C10_canon_type_sensitive, C10_canon_retyped, C10_verdict_perm, C10_unique_errors_zero, C10_composite_detect, C10_unique_errors_perm, C10_impl_never_misses (Properties/C10.v) about Model/Canon.v for all JSON values and all key lists; the exact-text converse is refuted by a witness (C10_impl_confuses_kinds) and stated. The model is tied to the code by running hash_sorted_object and _validate_unique on generated pairs/arrays, and whole documents with a duplicate in each uniqueness domain at random pair positions are compared with the Coq scenario model (Model/Rules.v unique_ids).",
   note="Trusted: coqc kernel; corr/canon.py; SHA-1/json.dumps injectivity on canonical forms; scenario renderer. Known findings: composite duplicates under different reference spelling accepted; literal list order ignored.",
   design="6/C10"),
 "C11": dict(
   technique="Coq proof (spec refinement by reflection on specs regenerated from the source + interpreter monotonicity + inertness lemmas) + correspondence of the interpreter model with the implementation's isolated structural layer",
   text="Theorems C11_specs_refine (vm_compute against Gen/Specs.v regenerated every run), C11_damage_rejected, C11_inert_unknown, C11_inert_descriptive (Properties/C11.v) about Model/Interp.v, a Gallina interpreter of the obj_spec language, for all JSON documents. Tie: T2 dump of obj_specs/pipeline_obj_specs/patterns/enums as Coq terms (fail closed) and T3 differential run of Model/Interp.v against the implementation's structural layer (semantic functions stubbed in a harness subclass) on damaged documents; search oracle: grammar G evaluated in Coq vs the complete validator, and inert additions vs the complete validator.",
   note="Trusted: coqc kernel; tools/gen_specs.py; corr/interp.py isolation subclass; Model/Regex.v recognisers (ASCII); Spec/Grammar.v is a hand transcription of README/property text.",
   design="6/C11"),
 "C19": dict(
   technique="Coq proof over a Gallina model of the schema->graph extraction + exact correspondence (nodes, gates, labelled edge list, dicts) on generated valid schemas",
   text="Theorems C19_builds, C19_nodes, C19_reach, C19_acyclic, C19_dicts, C19_refuses_invalid, C19_draws_otherwise, C19_wf_excludes_nesting_cycles (Properties/C19.v) about Model/Graph.v for all well-formed abstract schemas; tied to DependencyGraph by comparing the full graph state on generated valid schemas in every encoding and both spellings; the property is re-checked on the implementation's output; invalid documents are shown to be refused with validation on.",
   note="Trusted: coqc kernel; corr/graph.py (generator, renderer, abstraction); layout coordinates come from the implementation (C17/C18). Known finding: gate alias equal to str(action id).",
   design="6/C19"),
 "C20": dict(
   technique="Coq proof over a Gallina model of the board emission (request list as a function of graph, coordinates and response script) + exact correspondence of recorded request sequences under 5 response scripts per case",
   text="Theorems C20_shapes, C20_connectors, C20_points_distinct, C20_error_aborts, C20_first_error, C20_aborts_only_on_error (Properties/C20.v) about Model/Board.v for all graphs and all response scripts; tied to generate_miro_board by stubbing requests.post in the harness process and comparing the whole request sequence and final status.",
   note="Trusted: coqc kernel; corr/graph.py stub of requests.post and abstraction of payloads to (kind, endpoints, caption, integer position); HTTP transport and the Miro service are outside the model.",
   design="6/C20"),
 "C01": dict(
   technique="Coq proof (inversion of the model's acceptance into declarative facts) + whole-validator vs Coq model on scenarios and single-reference faults + retargeting sweep of shipped schemas",
   text="Theorems C01_refs_resolve, C01_action_promise_resolves, C01_ids_distinct, C01_paths_declared, C01_path_segment_declared (Properties/C01.v): acceptance by the model (Model/Rules.v) implies that the reference at each of the 17 positions denotes exactly one declared entity of the allowed kind and that attribute paths follow declared attributes. The model's verdict is compared with the implementation's on conformant scenarios and on dangling / wrong-kind / undeclared-path faults at every position; the property's second sentence is additionally checked directly on every single-reference retargeting of the shipped valid schemas.",
   note="Trusted: coqc kernel + vm_compute (case files); scenario generator/renderer/mutators (harness/scenario.py, mutators.py); Model/Rules.v is tied to the Python by differential testing bounded by the generator, not by proof about the Python; T1 default-value table.",
   design="6/C01"),
 "C02": dict(
   technique="Coq proof (DFS with shared visited set sound and complete w.r.t. the declarative dependency relation; acceptance implies acyclicity) + whole-validator vs Coq model on all digraphs over <=3 actions in 4 encodings, random scenarios and cycle mutants",
   text="Theorems C02_cycle_never_accepted, C02_detector_sound, C02_acyclic_never_flagged, C02_dep_characterisation(_conforms) (Properties/C02.v): for every schema, acceptance implies that the dependency relation Dep of Spec/DepRel.v (own checkpoint through nested references + checkpoints of all enclosing thread groups) has no cycle; on acyclic schemas the detector never fires; the successor function is exactly Dep. Tie: the implementation's verdict equals the model's on every directed graph over 1-3 actions (sampled over 4-5) rendered in the encodings flat / nested / shared / thread-implicit, on random scenarios and on cycle mutants. Cycles across import connections: C16.",
   note="Trusted: coqc kernel + vm_compute (case files); scenario generator/renderer/mutators (harness/scenario.py, mutators.py); Model/Rules.v is tied to the Python by differential testing bounded by the generator, not by proof about the Python; T1 default-value table.",
   design="6/C02"),
 "C03": dict(
   technique="Coq: the executable specification `conforms` is the conjunction of the rules characterised in C01,C02,C04-C07,C10 (proved) + differential run: every scenario the specification accepts must be accepted by the implementation under every rendering",
   text="Theorems C03_conforms_is_conjunction_of_rules, C03_known_finding_only_widens (Properties/C03.v). The statement 'conformant => accepted' is about the Python implementation and is carried by the correspondence: conformant-by-construction scenarios (3-14 actions, thread groups, edits, appends, all gate types, nested references), each rendered with id / alias / mixed spelling, shuffled arrays and optional descriptive properties, must be accepted; any rejection is reported with the document.",
   note="Trusted: coqc kernel + vm_compute (case files); scenario generator/renderer/mutators (harness/scenario.py, mutators.py); Model/Rules.v is tied to the Python by differential testing bounded by the generator, not by proof about the Python; T1 default-value table. Pipelines and imports are covered by C08/C09/C16.",
   design="6/C03"),
 "C05": dict(
   technique="Coq proof (scope membership = Encloses; SC1-SC7 from acceptance) + whole-validator vs Coq model on thread scenarios and scoping faults",
   text="Theorems C05_SC1 ... C05_SC7, C05_has_access_is_Encloses, C05_has_access_sound (Properties/C05.v): acceptance implies each scoping clause of the property, stated with the declarative Encloses relation. Tie: conformant scenarios with thread groups (depth 2, own / inherited checkpoints, spawn from promise paths and from enclosing variables) and faults (checkpoint used outside its group, threaded action / variable compared outside, non-list spawn source, spawn source not fulfilled by an ancestor, unused group, variable name repeated in a chain).",
   note="Trusted: coqc kernel + vm_compute (case files); scenario generator/renderer/mutators (harness/scenario.py, mutators.py); Model/Rules.v is tied to the Python by differential testing bounded by the generator, not by proof about the Python; T1 default-value table.",
   design="6/C05"),
 "C06": dict(
   technique="Coq proof (lifecycle from acceptance; ancestry search = transitive closure of Dep) + whole-validator vs Coq model on create/edit scenarios and lifecycle faults",
   text="Theorems C06_lifecycle, C06_creators_characterisation, C06_actions_on_characterisation, C06_is_ancestor_sound (Properties/C06.v) and C06_ancestor_search_sound/complete/exact, C06_group_ancestor_search_* (Properties/C06_ancestry.v): in an accepted schema every promise has exactly one fulfiller, the one action on it with no ancestor acting on it; contexts agree; every other action has it as ancestor; the model's ancestry search is exactly reachability in Dep whatever the route. Tie: conformant scenarios with editing actions (threaded and not) and faults (second creator, promise nobody fulfils, context mismatches).",
   note="Trusted: coqc kernel + vm_compute (case files); scenario generator/renderer/mutators (harness/scenario.py, mutators.py); Model/Rules.v is tied to the Python by differential testing bounded by the generator, not by proof about the Python; T1 default-value table.",
   design="6/C06"),
 "C07": dict(
   technique="Coq proof (operation rules from acceptance; guaranteed-ancestor search = inductive GuarCp; default-value table by exhaustive reflection) + whole-validator vs Coq model on operation faults",
   text="Theorems C07_operations, C07_appends_path, C07_is_dependee_meaning, C07_settable_meaning (Properties/C07.v), C07_guaranteed_sound/complete/exact (Properties/C06_ancestry.v) and the default-value table (Proofs/C08Tables.v C07_default_lemma, regenerated T1). Tie: conformant scenarios with include/exclude/null, default values of every attribute type, default edges, appends_objects_to, and faults for each clause (unknown attribute, wrong-typed default, default for edge, default on edit, default edge to wrong promise / for a field, appends on edit / wrong collection / settable collection / by a dependee / ancestry only through one OR branch).",
   note="Trusted: coqc kernel + vm_compute (case files); scenario generator/renderer/mutators (harness/scenario.py, mutators.py); Model/Rules.v is tied to the Python by differential testing bounded by the generator, not by proof about the Python; T1 default-value table.",
   design="6/C07"),
 "C12": dict(
   technique="Coq proof of fuel adequacy of every search of the total Gallina model (partial: Python exceptions are runtime behaviour outside the model) + differential rewiring run: well-shaped documents must not raise",
   text="Theorems C12_model_total, C12_cycle_search_fuel_adequate, C12_nesting_fuel_adequate, C12_ancestry_rounds_adequate, C12_guaranteed_fuel_adequate (Properties/C12.v): the model returns a verdict on every schema and running out of fuel never changes a verdict (cyclic action graphs and cyclic checkpoint nesting included). PARTIAL: that the Python code raises no exception is not a statement about the model; it is observed by validating conformant scenarios scrambled by 1-8 rewirings (any reference to any entity of any kind or to nothing, id/name collisions, retyped attributes, arbitrary and cyclic checkpoint nesting and thread-group contexts) and single-reference rewirings of all shipped schemas: any exception is a violation with the document as replay.",
   note="Trusted: coqc kernel + vm_compute (case files); scenario generator/renderer/mutators (harness/scenario.py, mutators.py); Model/Rules.v is tied to the Python by differential testing bounded by the generator, not by proof about the Python; T1 default-value table. The interpreter's recursion limit on very long (hundreds of actions) finite chains is not exercised.",
   design="6/C12"),
 "C13": dict(
   technique="Coq proof (state machine: results independent of history when every written field is re-initialised) over def/use data regenerated from the source by an ast pass + histories on one real instance vs a fresh instance",
   text="Theorems C13_fields_covered (vm_compute over Gen/State.v, regenerated every run) and C13_no_carry_over (Properties/C13.v, histories of any length). Tie/search: 180+ histories of 2-8 validate() calls (dict / JSON string / file entry points) over families of documents sharing ids (scenario, re-renderings, single-fault variants; pipeline families; shipped schemas with imports and thread groups): every call must equal a fresh instance's exact error list; the caller's dict must be unchanged; module-level spec data must be unchanged.",
   note="Trusted: tools/gen_state.py (fields are only touched through self.<name> syntax); deep equality as proxy for object identity.",
   design="6/C13"),
 "C14": dict(
   technique="Coq proof (the model's verdict is invariant under permutation of every order-free list, for all schemas) + metamorphic run on the implementation tied to the model",
   text="Theorems C14_top_level, C14_dependencies, C14_attributes, C14_inclusion_lists, C14_perm, C14_perm_kf (Properties/C14.v) for all schemas, accepted or not. Tie: each conformant scenario and each single-fault mutant is rendered in 4 declaration orders (top-level collections, attributes, dependencies, include/exclude lists, milestones, thread groups, key order); all four verdicts must agree with each other and with the model.",
   note="Trusted: coqc kernel + vm_compute (case files); scenario generator/renderer/mutators (harness/scenario.py, mutators.py); Model/Rules.v is tied to the Python by differential testing bounded by the generator, not by proof about the Python; T1 default-value table.",
   design="6/C14"),
 "C15": dict(
   technique="Coq proof (invariance of the model under injective renumbering of ids and renaming of names/variables/attributes; spelling does not exist in the abstract syntax) + metamorphic run on the implementation tied to the model + kernel model of the reference STRING layer (Model/Resolve.v) with its own theorems and correspondence",
   text="Theorems C15_renumber_ids, C15_rename_names, C15_rename_and_renumber (Properties/C15.v) for all schemas. Tie: each conformant scenario and each single-fault mutant is rendered all-by-id, all-by-alias, mixed per occurrence, and consistently renumbered/renamed; the verdicts must agree with each other and with the model. The string layer the renderings go through (utils.is_global_ref / parse_* / reduce_ref, SchemaValidator._resolve_global_ref, _normalize_ref, _ref_has_path) has a kernel model Model/Resolve.v; 21 theorems in Properties/C15_resolve.v: both spellings of an entity resolve to it under any qualifier (C15r_spellings_agree), also when another entity's name is the decimal spelling of its id (C15r_numeric_alias_not_confused), normalisation is idempotent and keeps the denotation, normal forms of path-free references coincide exactly for the same entity (C15r_unique_reference_fields, which the uniqueness of reference-valued fields relies on), references into schemas that are not loaded never resolve, the exact result of normalisation incl. the refuted claim that a path is preserved; tied to the real functions by corr/resolve.py (13 outputs compared per case on generated environments and reference strings).",
   note="Trusted: coqc kernel + vm_compute (case files); scenario generator/renderer/mutators (harness/scenario.py, mutators.py); Model/Rules.v is tied to the Python by differential testing bounded by the generator, not by proof about the Python; T1 default-value table. Known finding (C10/C15): checkpoint composite duplicates under different spelling.",
   design="6/C15"),
 "C16": dict(
   technique="Coq proof over Gallina models of namespacing (id shift) and stitching (combine), flat imports and import trees + whole validator with generated import files (depth 1-3, diamonds, identical entries) vs the Coq models",
   text="20 theorems in Properties/C16_deep.v about Model/ImportsDeep.v (import trees: C16_deep_conservative: on trees without nested imports the verdict equals the flat model's; C16_deep_bad_import_rejected: acceptance implies that every entry at every depth is readable, its connections target the imported schema and add a checkpoint of ITS importer, targets are distinct and the file with its own imports is accepted; C16_deep_cycle_rejected / _cyclic_not_accepted: the combined schema is acyclic, so a cycle closed through a nested connection is rejected; C16_deep_first_entry / _later_entry / _nested_connection_adds: what a first, a repeated and a nested entry stitch; concrete diamond accepted, nested cycle rejected) and 23 theorems in Properties/C16.v about Model/Imports.v: C16_bad_import_rejected (unreadable / invalid import, target not in the imported schema, added dependency not a native checkpoint), C16_namespacing_imported/_denotes/_native and C16_shift_valid (an imported valid schema stays valid in its namespace; native lookups unchanged), C16_connection_adds / _adds_checkpoint / _checkpoint_holders / _other_actions (one connection adds exactly the dependencies of the added checkpoint to its target and to nothing else; exact iff per stitching step, C16_every_step_fresh shows the hypotheses hold at every step of combine; for the whole combine the closed form is proved in Properties/C16_closed.v: C16_closed_dep / C16_closed_mentions characterise Dep and Mentions of the combined schema exactly, through the closure MentionsX of the plain union under checkpoint connections; C16_closed_imported_action, _native_action, _connection_target(_only): under native_nests_native a connection's target depends on exactly what it depended on before, what the added checkpoint mentions, and what connections onto checkpoints it holds add -- and nothing else changes; a counterexample shows the extra hypothesis is needed), C16_cycle_through_connection_rejected, C16_scope_through_connection. Tie: importing scenarios with 1-2 generated importable files, schema-qualified references in both spellings, 0-2 connections per import on actions with/without checkpoint and on checkpoints, and 7 kinds of single faults.",
   note="Trusted: coqc kernel + vm_compute (case files); scenario generator/renderer/mutators; Model/Rules.v and Model/Imports.v are tied to the Python by differential testing bounded by the generator. Cyclic imports are neither generated nor modelled; pipeline rules of imported files are outside the import models (valid pipelines inside imported files are generated). Known finding: rules about imported entities are not re-validated in the importing context.",
   design="6/C16"),
 "C08": dict(
   technique="Coq proof by exhaustive reflection over tables regenerated from the source (method, aggregation, initial values) + Coq proof that acceptance by the pipeline model is exactly the declarative typing rules + whole validator vs Coq model on pipeline scenarios, faults and a cell family",
   text="Theorems C08_method_table, C08_agg_table, C08_initial, C08_lists_never_null (Properties/C08.v: the implementation's tables, tabulated on their whole finite domains from the current source, equal Combine / Aggregate / InitOk) and C08_pipeline_typed, C08_initial_values, C08_traversals, C08_applications, C08_outputs, C08_verdict_is_rules, C08_step_is_rule, C08_step_type_is_rule (Properties/C08_pipeline.v: acceptance by Model/PipeRules.v holds exactly when every variable, traversal, application (source route, step, method, SET-first rule, filter clauses incl. nested) and output (incl. object type) satisfies the declarative rule, so well-typed pipelines are never rejected). Tie: conformant scenarios with 0-2 pipelines (traversal depth 3, up to 12 siblings, every route / step / method), 15+ typing faults, and a systematic (variable type, initial, method, source type, step) cell family (all 26400 cells in the thorough tier).",
   note="Trusted: coqc kernel + vm_compute (case files); harness/pipes.py generator / renderer / mutators; Model/PipeRules.v is tied to the Python by differential testing bounded by the generator; T1 tables by tools/gen_tables.py. Sort keys are not checked by the implementation and not modelled.",
   design="6/C08"),
 "C09": dict(
   technique="Coq proof (scope visibility = list prefix; the dotted-decimal string test the code uses decides it, plain startswith does not; acceptance <=> scoping rules) + whole validator vs Coq model on traversal trees, scoping faults and a placement family",
   text="Theorems C09_visible_is_prefix, C09_scope_strings(_joined/_decimal), C09_decimal_notation, C09_plain_startswith_wrong, C09_scoped, C09_thread_variable, C09_no_redeclaration, C09_never_assigned, C09_own_object, C09_outputs_unsettable, C09_no_checkpoint_on_written, C09_never_rejected (Properties/C09.v) about Model/PipeRules.v. Tie: conformant pipeline scenarios incl. traversal index >= 10, scoping faults (out-of-scope read/write, redeclaration incl. thread variable names, assignment to loop / thread / traversed variables, reading the own object, writing settable attributes, checkpoint on a written attribute) and all 128 (declaration scope, use scope) placements in the thorough tier.",
   note="Trusted: coqc kernel + vm_compute (case files); harness/pipes.py generator / renderer / mutators; Model/PipeRules.v is tied to the Python by differential testing bounded by the generator; T1 tables by tools/gen_tables.py. Known finding (C10/C15 class): sibling traversal sources are compared as text.",
   design="6/C09"),
}

PENDING_REASON = "check under construction in this session; not yet claimed"

props = [json.loads(l) for l in open(os.path.join(V, "properties.jsonl"))]
checks, na = [], []
for p in props:
    pid = p["id"]
    if pid in CLAIMED:
        c = CLAIMED[pid]
        checks.append({
            "property_id": pid,
            "quick_cmd": "./bin/check %s --tier quick" % pid,
            "thorough_cmd": "./bin/check %s --tier thorough" % pid,
            "evidence_file": "/verif/evidence/%s.json" % pid,
            "replay_cmd_template": "./bin/check %s --replay {path}" % pid,
            "engine": "coq+correspondence",
            "level_claimed": {"category": "proof", "text": c["text"], "design_ref": "DESIGN.md section " + c["design"]},
            "level_note": c["note"],
            "technique": c["technique"],
        })
    else:
        na.append({"property_id": pid, "reason": PENDING_REASON})

manifest = {
    "version": 1,
    "setup_cmd": "./bin/setup",
    "hooks": {"guard": "NATUREBLOCKS_OPEN_IMPACT_STANDARDS_VERIF",
              "enable": "no source hooks: checks run the repository's public API from a snapshot of /repo's working tree (the variable is exported but nothing in /repo reads it)",
              "baseline_off_cmd": "/verif/tools/run_baseline.sh", "source_commits": [], "add_only": True},
    "engines": [{"name": "coq+correspondence", "path": "/verif/coq", "serves_properties": sorted(CLAIMED),
                 "kind_free_text": "Coq 8.16.1 development (theories/Model, Spec, Proofs, Properties; Gen regenerated from /repo every run) + Python harness comparing model (vm_compute in coqc) and implementation"}],
    "checks": checks,
    "not_applicable": na,
    "notes": "See DESIGN.md. Repairs of genuine defects are unguarded 'fix:' commits in /repo, listed in known_findings.json under 'fixed'.",
}
json.dump(manifest, open(os.path.join(V, "MANIFEST.json"), "w"), indent=1)
print("claimed:", sorted(CLAIMED), "pending:", len(na))
