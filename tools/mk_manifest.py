#!/venv/bin/python
"""Writes /verif/MANIFEST.json from the table below (kept in one place so it stays valid)."""
import json, os
V = os.path.abspath(os.path.join(os.path.dirname(__file__), ".."))

CLAIMED = {
 "C04": dict(
   technique="Coq proof by exhaustive reflection over a table regenerated from the source (T1) + Coq operand-typing model checked against the validator on routes x cells (T3)",
   text="Theorems C04_table_partial / C04_table_known_finding / C04_table_refuted / C04_spec_is_relational (Properties/C04.v): the implementation's comparability decision, tabulated from the current source on all 11x14x11 (type, operator, type) triples, equals the declarative specification Cmp outside the recorded known finding (STRING CONTAINS STRING); re-proved on every run against the regenerated table. How an operand acquires its type (literal shapes, direct attribute, through edges / edge collections, list lifting, unresolvable paths) is modelled in Gallina (Model/Rules.v) and compared with the whole validator on every route x cell combination and on random scenarios with C04 faults.",
   note="Trusted: coqc kernel + vm_compute; tools/gen_tables.py (imports and runs validation.utils.types_are_comparable); renderer scenario->JSON; operand typing is tied by differential testing (bounded), not proved about the Python.",
   design="6/C04"),
 "C17": dict(
   technique="Coq proof (induction; fuel bounds proved) over a Gallina model of from_graph_data + exact-coordinate correspondence on generated DAGs",
   text="Theorems C17_terminates, C17_total_injective, C17_depth_is_longest, C17_edge_left, C17_deterministic (Properties/C17.v), for all finite well-formed acyclic graphs with no size bound, about Model/Layout.v; the model is tied to DependencyChartLayout.from_graph_data by comparing every node's exact coordinates (insertion order included) on exhaustive small DAGs and random DAGs up to 40 nodes; the property is also checked directly on the implementation's output as search oracle.",
   note="Trusted: coqc kernel; corr/layout.py generator/runner; model fixes node_height=2,node_spacing=1 and ascending iteration over a set of small ints; CPython recursion limit not modelled.",
   design="6/C17"),
 "C18": dict(
   technique="Coq proof (offset-loop exit condition + pigeonhole fuel bound) over the same layout model + exact-coordinate correspondence",
   text="Theorems C18_no_overlap, C18_no_edge_through_node (Properties/C18.v) for all finite well-formed acyclic graphs about Model/Layout.v, tied to the implementation as for C17 (graphs with >= 3 columns and equal-parity column sizes over-sampled).",
   note="Trusted: as C17.",
   design="6/C18"),
 "C10": dict(
   technique="Coq proof (dict-based duplicate detection = NoDup; canonical form equality = same modulo order, type sensitive) + correspondence with utils.hash_sorted_object / _validate_unique + duplicates injected into whole documents against the Coq scenario model",
   text="Theorems C10_dup_detect, C10_dup_positions, C10_canon_eq, C10_canon_perm, C10_canon_type_sensitive, C10_canon_retyped, C10_verdict_perm, C10_unique_errors_zero, C10_composite_detect, C10_unique_errors_perm, C10_impl_never_misses (Properties/C10.v) about Model/Canon.v for all JSON values and all key lists; the exact-text converse is refuted by a witness (C10_impl_confuses_kinds) and stated. The model is tied to the code by running hash_sorted_object and _validate_unique on generated pairs/arrays, and whole documents with a duplicate in each uniqueness domain at random pair positions are compared with the Coq scenario model (Model/Rules.v unique_ids).",
   note="Trusted: coqc kernel; corr/canon.py; SHA-1/json.dumps injectivity on canonical forms; scenario renderer. Known findings: composite duplicates under different reference spelling accepted; literal list order ignored.",
   design="6/C10"),
 "C11": dict(
   technique="Coq proof (spec refinement by reflection on specs regenerated from the source + interpreter monotonicity + inertness lemmas) + correspondence of the interpreter model with the implementation's isolated structural layer",
   text="Theorems C11_specs_refine (vm_compute against Gen/Specs.v regenerated every run), C11_damage_rejected, C11_inert_unknown, C11_inert_descriptive (Properties/C11.v) about Model/Interp.v, a Gallina interpreter of the obj_spec language, for all JSON documents. Tie: T2 dump of obj_specs/pipeline_obj_specs/patterns/enums as Coq terms (fail closed) and T3 differential run of Model/Interp.v against the implementation's structural layer (semantic functions stubbed in a harness subclass) on damaged documents; search oracle: grammar G evaluated in Coq vs the complete validator, and inert additions vs the complete validator.",
   note="Trusted: coqc kernel; tools/gen_specs.py; corr/interp.py isolation subclass; Model/Regex.v recognisers (ASCII); Spec/Grammar.v is a hand transcription of README/property text.",
   design="6/C11"),
 "C19": dict(
   technique="Coq proof over a Gallina model of the schema->graph extraction + exact correspondence (nodes, gates, labelled edge list, dicts) on generated valid schemas",
   text="Theorems C19_builds, C19_nodes, C19_reach, C19_acyclic, C19_dicts, C19_refuses_invalid, C19_draws_otherwise, C19_wf_excludes_nesting_cycles (Properties/C19.v) about Model/Graph.v for all well-formed abstract schemas; tied to DependencyGraph by comparing the full graph state on generated valid schemas in every encoding and both spellings; the property is re-checked on the implementation's output; invalid documents are shown to be refused with validation on.",
   note="Trusted: coqc kernel; corr/graph.py (generator, renderer, abstraction); layout coordinates come from the implementation (C17/C18). Known finding: gate alias equal to str(action id).",
   design="6/C19"),
 "C20": dict(
   technique="Coq proof over a Gallina model of the board emission (request list as a function of graph, coordinates and response script) + exact correspondence of recorded request sequences under 5 response scripts per case",
   text="Theorems C20_shapes, C20_connectors, C20_points_distinct, C20_error_aborts, C20_first_error, C20_aborts_only_on_error (Properties/C20.v) about Model/Board.v for all graphs and all response scripts; tied to generate_miro_board by stubbing requests.post in the harness process and comparing the whole request sequence and final status.",
   note="Trusted: coqc kernel; corr/graph.py stub of requests.post and abstraction of payloads to (kind, endpoints, caption, integer position); HTTP transport and the Miro service are outside the model.",
   design="6/C20"),
}

PENDING_REASON = "check under construction in this session; not yet claimed"

props = [json.loads(l) for l in open(os.path.join(V, "properties.jsonl"))]
checks, na = [], []
for p in props:
    pid = p["id"]
    if pid in CLAIMED:
        c = CLAIMED[pid]
        checks.append({
            "property_id": pid,
            "quick_cmd": "./bin/check %s --tier quick" % pid,
            "thorough_cmd": "./bin/check %s --tier thorough" % pid,
            "evidence_file": "/verif/evidence/%s.json" % pid,
            "replay_cmd_template": "./bin/check %s --replay {path}" % pid,
            "engine": "coq+correspondence",
            "level_claimed": {"category": "proof", "text": c["text"], "design_ref": "DESIGN.md section " + c["design"]},
            "level_note": c["note"],
            "technique": c["technique"],
        })
    else:
        na.append({"property_id": pid, "reason": PENDING_REASON})

manifest = {
    "version": 1,
    "setup_cmd": "./bin/setup",
    "hooks": {"guard": "NATUREBLOCKS_OPEN_IMPACT_STANDARDS_VERIF",
              "enable": "no source hooks: checks run the repository's public API from a snapshot of /repo's working tree (the variable is exported but nothing in /repo reads it)",
              "baseline_off_cmd": "/verif/tools/run_baseline.sh", "source_commits": [], "add_only": True},
    "engines": [{"name": "coq+correspondence", "path": "/verif/coq", "serves_properties": sorted(CLAIMED),
                 "kind_free_text": "Coq 8.16.1 development (theories/Model, Spec, Proofs, Properties; Gen regenerated from /repo every run) + Python harness comparing model (vm_compute in coqc) and implementation"}],
    "checks": checks,
    "not_applicable": na,
    "notes": "See DESIGN.md. Repairs of genuine defects are unguarded 'fix:' commits in /repo, listed in known_findings.json under 'fixed'.",
}
json.dump(manifest, open(os.path.join(V, "MANIFEST.json"), "w"), indent=1)
print("claimed:", sorted(CLAIMED), "pending:", len(na))
