#!/venv/bin/python
"""Writes /verif/MANIFEST.json from the table below (kept in one place so it stays valid)."""
import json, os
V = os.path.abspath(os.path.join(os.path.dirname(__file__), ".."))

CLAIMED = {
 "C04": dict(
   technique="Coq proof by exhaustive reflection over a table regenerated from the source (T1) + Coq operand-typing model checked against the validator on routes x cells (T3)",
   text="Theorems C04_table_partial / C04_table_known_finding / C04_table_refuted / C04_spec_is_relational (Properties/C04.v): the implementation's comparability decision, tabulated from the current source on all 11x14x11 (type, operator, type) triples, equals the declarative specification Cmp outside the recorded known finding (STRING CONTAINS STRING); re-proved on every run against the regenerated table. How an operand acquires its type (literal shapes, direct attribute, through edges / edge collections, list lifting, unresolvable paths) is modelled in Gallina (Model/Rules.v) and compared with the whole validator on every route x cell combination and on random scenarios with C04 faults.",
   note="Trusted: coqc kernel + vm_compute; tools/gen_tables.py (imports and runs validation.utils.types_are_comparable); renderer scenario->JSON; operand typing is tied by differential testing (bounded), not proved about the Python.",
   design="6/C04"),
 "C17": dict(
   technique="Coq proof (induction; fuel bounds proved) over a Gallina model of from_graph_data + exact-coordinate correspondence on generated DAGs",
   text="Theorems C17_terminates, C17_total_injective, C17_depth_is_longest, C17_edge_left, C17_deterministic (Properties/C17.v), for all finite well-formed acyclic graphs with no size bound, about Model/Layout.v; the model is tied to DependencyChartLayout.from_graph_data by comparing every node's exact coordinates (insertion order included) on exhaustive small DAGs and random DAGs up to 40 nodes; the property is also checked directly on the implementation's output as search oracle.",
   note="Trusted: coqc kernel; corr/layout.py generator/runner; model fixes node_height=2,node_spacing=1 and ascending iteration over a set of small ints; CPython recursion limit not modelled.",
   design="6/C17"),
 "C18": dict(
   technique="Coq proof (offset-loop exit condition + pigeonhole fuel bound) over the same layout model + exact-coordinate correspondence",
   text="Theorems C18_no_overlap, C18_no_edge_through_node (Properties/C18.v) for all finite well-formed acyclic graphs about Model/Layout.v, tied to the implementation as for C17 (graphs with >= 3 columns and equal-parity column sizes over-sampled).",
   note="Trusted: as C17.",
   design="6/C18"),
}

PENDING_REASON = "check under construction in this session; not yet claimed"

props = [json.loads(l) for l in open(os.path.join(V, "properties.jsonl"))]
checks, na = [], []
for p in props:
    pid = p["id"]
    if pid in CLAIMED:
        c = CLAIMED[pid]
        checks.append({
            "property_id": pid,
            "quick_cmd": "./bin/check %s --tier quick" % pid,
            "thorough_cmd": "./bin/check %s --tier thorough" % pid,
            "evidence_file": "/verif/evidence/%s.json" % pid,
            "replay_cmd_template": "./bin/check %s --replay {path}" % pid,
            "engine": "coq+correspondence",
            "level_claimed": {"category": "proof", "text": c["text"], "design_ref": "DESIGN.md section " + c["design"]},
            "level_note": c["note"],
            "technique": c["technique"],
        })
    else:
        na.append({"property_id": pid, "reason": PENDING_REASON})

manifest = {
    "version": 1,
    "setup_cmd": "./bin/setup",
    "hooks": {"guard": "NATUREBLOCKS_OPEN_IMPACT_STANDARDS_VERIF",
              "enable": "no source hooks: checks run the repository's public API from a snapshot of /repo's working tree (the variable is exported but nothing in /repo reads it)",
              "baseline_off_cmd": "/verif/tools/run_baseline.sh", "source_commits": [], "add_only": True},
    "engines": [{"name": "coq+correspondence", "path": "/verif/coq", "serves_properties": sorted(CLAIMED),
                 "kind_free_text": "Coq 8.16.1 development (theories/Model, Spec, Proofs, Properties; Gen regenerated from /repo every run) + Python harness comparing model (vm_compute in coqc) and implementation"}],
    "checks": checks,
    "not_applicable": na,
    "notes": "See DESIGN.md. Repairs of genuine defects are unguarded 'fix:' commits in /repo, listed in known_findings.json under 'fixed'.",
}
json.dump(manifest, open(os.path.join(V, "MANIFEST.json"), "w"), indent=1)
print("claimed:", sorted(CLAIMED), "pending:", len(na))
