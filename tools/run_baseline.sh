#!/bin/bash
# Runs the repository's pinned test suite (guard off) and checks the 69 stable tests pass.
out=$(mktemp /var/tmp/ois-junit.XXXXXX.xml)
cd /repo && env -u NATUREBLOCKS_OPEN_IMPACT_STANDARDS_VERIF /venv/bin/python -m pytest -ra -q -p no:cacheprovider --timeout=900 --continue-on-collection-errors --junitxml="$out" >/dev/null 2>&1
/venv/bin/python - "$out" <<'PY'
import sys, json, xml.etree.ElementTree as ET
base=json.load(open('/root/.vp/BASELINE.json'))
t=ET.parse(sys.argv[1]).getroot()
ok=set()
for tc in t.iter('testcase'):
    name=f"{tc.get('classname')}::{tc.get('name')}"
    if not any(c.tag in('failure','error','skipped') for c in tc): ok.add(name)
missing=[n for n in base['stable_pass'] if n not in ok]
print(f"stable_pass={len(base['stable_pass'])} passing_now={len(ok)} missing={len(missing)}")
for m in missing: print("  MISSING", m)
sys.exit(1 if missing else 0)
PY
rc=$?
rm -f "$out"
exit $rc
