#!/venv/bin/python
"""T2 for C13: def/use pass over validation/schema_validator.py (ast).
Emits Gen/State.v with
  fields_mutated : instance fields of SchemaValidator written (assigned, item-assigned, or mutated through a
                   method call such as append/add/update/pop/remove/clear/extend/setdefault) anywhere outside __init__;
  fields_reset   : instance fields unconditionally re-assigned at the start of every validate() call, i.e. by a
                   plain `self.f = ...` statement at the top level of validate() (also inside its
                   `if isinstance(self.schema, dict)` block, which is the only path that runs the collectors) or at
                   the top level of _collect_actions_and_checkpoints() (called from that block), BEFORE the first
                   statement of validate() that can read collected state (the call to _validate_object);
  fields_percall : fields assigned from the call's own arguments / results (schema, errors, warnings).
usage: gen_state.py <repo_root> <out.v>        Fails closed on anything it does not understand."""
import sys, os, ast

repo, out = os.path.abspath(sys.argv[1]), os.path.abspath(sys.argv[2])
src = open(os.path.join(repo, "validation", "schema_validator.py")).read()
import warnings
warnings.simplefilter("ignore")
tree = ast.parse(src)
cls = [n for n in tree.body if isinstance(n, ast.ClassDef) and n.name == "SchemaValidator"]
if len(cls) != 1:
    sys.exit("gen_state: class SchemaValidator not found")
cls = cls[0]
methods = {n.name: n for n in cls.body if isinstance(n, ast.FunctionDef)}
for need in ("__init__", "validate", "_collect_actions_and_checkpoints"):
    if need not in methods:
        sys.exit("gen_state: method %s not found" % need)

MUTATORS = {"append", "add", "update", "pop", "remove", "clear", "extend", "setdefault", "insert", "popitem", "discard", "sort", "reverse"}


def self_attr(node):
    """name f if node is `self.f` (possibly under subscripts), else None"""
    while isinstance(node, ast.Subscript):
        node = node.value
    if isinstance(node, ast.Attribute) and isinstance(node.value, ast.Name) and node.value.id == "self":
        return node.attr
    return None


def mutated_fields(fn):
    out = set()
    for n in ast.walk(fn):
        targets = []
        if isinstance(n, ast.Assign):
            targets = n.targets
        elif isinstance(n, (ast.AugAssign, ast.AnnAssign)):
            targets = [n.target]
        elif isinstance(n, ast.Delete):
            targets = n.targets
        for t in targets:
            for tt in (t.elts if isinstance(t, (ast.Tuple, ast.List)) else [t]):
                f = self_attr(tt)
                if f:
                    out.add(f)
        if isinstance(n, ast.Call) and isinstance(n.func, ast.Attribute) and n.func.attr in MUTATORS:
            f = self_attr(n.func.value)
            if f:
                out.add(f)
    return out


def plain_assigns(stmts):
    """fields assigned by a top-level `self.f = expr` statement of the list (in order), stopping nowhere"""
    out = []
    for st in stmts:
        if isinstance(st, ast.Assign) and len(st.targets) == 1:
            t = st.targets[0]
            if isinstance(t, ast.Attribute) and isinstance(t.value, ast.Name) and t.value.id == "self":
                out.append(t.attr)
    return out


mutated = set()
for name, fn in methods.items():
    if name != "__init__":
        mutated |= mutated_fields(fn)
# attributes of helper objects (ThreadGroup, Pipeline) are reached through reset containers and are not instance fields

# --- what validate() resets before anything reads collected state
v = methods["validate"]
reset = []
percall = set()
calls_collect = False
for st in v.body:
    # stop at the first statement that calls _validate_object (the structural walk)
    if any(isinstance(n, ast.Call) and isinstance(n.func, ast.Attribute) and n.func.attr == "_validate_object" for n in ast.walk(st)):
        # the statement `self.errors = (...)` itself is a per-call assignment
        percall |= set(plain_assigns([st]))
        break
    reset += plain_assigns([st])
    if isinstance(st, ast.If):
        test = ast.unparse(st.test)
        if test == "isinstance(self.schema, dict)":
            reset += plain_assigns(st.body)
            for n in ast.walk(st):
                if isinstance(n, ast.Call) and isinstance(n.func, ast.Attribute) and n.func.attr == "_collect_actions_and_checkpoints":
                    calls_collect = True
        else:
            # the argument dispatch: assigns self.schema from the call's arguments
            for sub in ast.walk(st):
                if isinstance(sub, ast.Assign):
                    for f in plain_assigns([sub]):
                        percall.add(f)
if not calls_collect:
    sys.exit("gen_state: validate() no longer calls _collect_actions_and_checkpoints inside the dict branch")
reset += plain_assigns(methods["_collect_actions_and_checkpoints"].body)
# the structural walk starts with _validate_object("root", ...): its leading plain assignments run before any read
lead = []
for st in methods["_validate_object"].body:
    if isinstance(st, ast.Expr) and isinstance(st.value, ast.Constant):
        continue   # docstring
    a = plain_assigns([st])
    if not a:
        break
    lead += a
reset += lead
reset = sorted(set(reset) - percall)
percall = sorted(percall)
mutated = sorted(mutated)


def coq_list(xs):
    return "[" + "; ".join('"%s"' % x for x in xs) + "]"


txt = """(* GENERATED by tools/gen_state.py from validation/schema_validator.py (ast def/use pass) -- do not edit. *)
From Coq Require Import List String.
Import ListNotations.
Open Scope string_scope.

Definition fields_mutated : list string := %s.
Definition fields_reset : list string := %s.
Definition fields_percall : list string := %s.
""" % (coq_list(mutated), coq_list(reset), coq_list(percall))
old = open(out).read() if os.path.exists(out) else None
if old != txt:
    os.makedirs(os.path.dirname(out), exist_ok=True)
    open(out, "w").write(txt)
print("gen_state: %d mutated, %d reset, %d per-call fields; wrote=%s" % (len(mutated), len(reset), len(percall), old != txt))
missing = [f for f in mutated if f not in reset and f not in percall]
if missing:
    print("gen_state: mutated but not reset: %s" % missing)
