"""Defect 3: comparison operands that are variables, and comparisons of two actions.

usage: python demo_03_operands.py [path-to-source-tree]   (exit 0 = pass)
"""
import json, os, sys

tree = os.path.abspath(sys.argv[1] if len(sys.argv) > 1 else "/repo")
sys.path.insert(0, tree)
os.chdir(tree)
from visualization.dependency_graph import DependencyGraph

# (a) single-dependency checkpoint comparing an action with a thread variable:
#     {"left": {"ref": "action:15.object_promise.number"}, "right": {"ref": "$edge.number"}}
#     ('Invalid ref: $edge.number' before the fix)
graph = DependencyGraph(
    json_schema_file_path="schemas/test/basic_thread_group_example.json",
    validate_schema=True,
)
assert graph.edge_tuples == [("14", "11"), ("20", "15")], graph.edge_tuples
assert set(graph.node_coordinates) == {"11", "14", "15", "20"}
assert graph.edge_captions[("20", "15")] == ["action:15.object_promise.number > $edge.number"]

# (b) the same comparison inside a multi-dependency checkpoint (gate)
schema = json.load(open("schemas/test/basic_thread_group_example.json"))
threaded = schema["checkpoints"][1]
threaded["gate_type"] = "AND"
threaded["dependencies"].append(
    {
        "compare": {
            "left": {"ref": "$edge.number"},
            "right": {"value": 5},
            "operator": "GREATER_THAN",
        }
    }
)
graph = DependencyGraph(schema_dict=schema, validate_schema=True)
assert graph.gates == {"threaded checkpoint 0": "AND"}
assert graph.edge_tuples == [
    ("14", "11"),
    ("20", "threaded checkpoint 0"),
    ("threaded checkpoint 0", "15"),
], graph.edge_tuples

# (c) a comparison between two actions depends on both of them,
#     in a single-dependency checkpoint and in a gate
schema = json.load(open("schemas/test/ses_wo_alias_refs.json"))
schema["checkpoints"][2]["dependencies"][0]["compare"]["right"] = {
    "ref": "action:9.object_promise.completed"
}
schema["checkpoints"][3]["dependencies"][1]["compare"]["right"] = {
    "ref": "action:7.object_promise.completed"
}
graph = DependencyGraph(schema_dict=schema, validate_schema=True)
assert [t for t in graph.edge_tuples if t[0] == "8"] == [("8", "7"), ("8", "9")]
gate = "Agreement and Guidance#0000"
assert [t for t in graph.edge_tuples if t[0] == gate] == [(gate, "9"), (gate, "10"), (gate, "7")]
assert graph.edge_captions[("8", "9")] == [
    "action:7.object_promise.completed = action:9.object_promise.completed"
]
print("demo_03_operands: PASS")
