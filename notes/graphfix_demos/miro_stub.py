"""Offline stand-in for the Miro REST API, shared by the board demos.

install() switches to a scratch cwd holding a dummy tokens.json and replaces
requests.post with a recorder that answers every call with a fresh item id.
"""
import json, os, tempfile
import requests


class Recorder:
    def __init__(self):
        self.calls = []  # (url, payload, returned id)

    def post(self, url, json=None, headers=None):
        item_id = str(len(self.calls))
        self.calls.append((url, json, item_id))

        class Response:
            text = '{"id": "%s"}' % item_id

        return Response()

    def shapes(self):
        """visible shapes"""
        return [c for c in self.calls if c[0].endswith("/shapes") and "content" in c[1]["data"]]

    def elbows(self):
        """invisible shapes"""
        return [c for c in self.calls if c[0].endswith("/shapes") and "content" not in c[1]["data"]]

    def connectors(self):
        return [c for c in self.calls if c[0].endswith("/connectors")]


def install():
    scratch = tempfile.mkdtemp()
    json.dump({"access_token": "x"}, open(os.path.join(scratch, "tokens.json"), "w"))
    os.chdir(scratch)
    recorder = Recorder()
    requests.post = recorder.post
    return recorder
