"""Defect 4: k parallel edges must be drawn as k connector chains, not k*k.

usage: python demo_04_parallel_strands.py [path-to-source-tree]   (exit 0 = pass)
"""
import json, os, sys
from collections import Counter

tree = os.path.abspath(sys.argv[1] if len(sys.argv) > 1 else "/repo")
sys.path.insert(0, tree)
sys.path.insert(0, os.path.dirname(os.path.abspath(__file__)))
os.chdir(tree)
from visualization.dependency_graph import DependencyGraph
import miro_stub

# gate "Agreement and Guidance#0000" compares two attributes of action 9
# (and one of action 10): 2 parallel edges gate -> 9. Party refs are spelled
# by name here, so this does not depend on the party-by-id fix.
schema = json.load(open("schemas/test/small_example_schema.json"))
gate = "Agreement and Guidance#0000"
schema["checkpoints"][3]["dependencies"].append(
    {
        "compare": {
            "left": {"ref": "action:9.object_promise.number"},
            "right": {"value": 3},
            "operator": "GREATER_THAN",
        }
    }
)
graph = DependencyGraph(schema_dict=schema, validate_schema=True)
multiplicity = Counter(graph.edge_tuples)
assert multiplicity[(gate, "9")] == 2 and multiplicity[(gate, "10")] == 1

recorder = miro_stub.install()
graph.generate_miro_board(board_name="demo")

shape_of = {}  # miro item id -> node id, via the layout position
by_position = {
    (xy[0] * graph.x_coord_factor, xy[1] * graph.y_coord_factor): node
    for node, xy in graph.node_coordinates.items()
}
for url, payload, item_id in recorder.shapes():
    shape_of[item_id] = by_position[(payload["position"]["x"], payload["position"]["y"])]
assert sorted(shape_of.values()) == sorted(graph.node_coordinates)  # one shape per node

elbows = {item_id: payload for url, payload, item_id in recorder.elbows()}
assert len(elbows) == 2, f"expected 2 elbow shapes, got {len(elbows)}"
assert len({(p["position"]["x"], p["position"]["y"]) for p in elbows.values()}) == 2

# rebuild the chains: direct connectors and dependent -> elbow -> dependency
direct, into_elbow, out_of_elbow = [], {}, {}
for url, payload, item_id in recorder.connectors():
    start, end = payload["startItem"]["id"], payload["endItem"]["id"]
    if start in shape_of and end in shape_of:
        direct.append((shape_of[start], shape_of[end]))
    elif end in elbows:
        assert end not in into_elbow
        into_elbow[end] = (shape_of[start], payload.get("captions"))
    else:
        assert start in elbows and start not in out_of_elbow
        out_of_elbow[start] = (shape_of[end], payload.get("captions"))
assert set(into_elbow) == set(out_of_elbow) == set(elbows)
chains = direct + [(into_elbow[e][0], out_of_elbow[e][0]) for e in elbows]
assert Counter(chains) == multiplicity, Counter(chains) - multiplicity
assert len(recorder.connectors()) == len(graph.edge_tuples) - 2 + 2 * 2

# each strand carries its own comparison as caption (on one of its two segments)
captions = sorted(
    (into_elbow[e][1] or out_of_elbow[e][1])[0]["content"] for e in elbows
)
assert captions == [
    "action:9.object_promise.completed = True",
    "action:9.object_promise.number > 3",
], captions
print("demo_04_parallel_strands: PASS")
