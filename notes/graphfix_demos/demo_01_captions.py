"""Defect 1: edge captions for current-format comparisons ({"ref": ...} operands).

usage: python demo_01_captions.py [path-to-source-tree]   (exit 0 = pass)
"""
import json, os, sys

tree = os.path.abspath(sys.argv[1] if len(sys.argv) > 1 else "/repo")
sys.path.insert(0, tree)
os.chdir(tree)
from visualization.dependency_graph import DependencyGraph

# current format, every reference spelled by alias (the only spelling the
# unpatched graph builder understands), so only the caption code is exercised
schema = json.load(open("schemas/test/small_example_schema.json"))
graph = DependencyGraph(schema_dict=schema, validate_schema=True)  # KeyError('value') before the fix

assert graph.edge_captions[("8", "7")] == ["action:7.object_promise.completed = True"], graph.edge_captions[("8", "7")]
gate = "Agreement and Guidance#0000"
assert graph.edge_captions[(gate, "9")] == ["action:9.object_promise.completed = True"]
assert graph.edge_captions[("11", gate)] == ["placeholder description"]

# literal on the left, reference on the right, non-string literal
schema = json.load(open("schemas/test/small_example_schema.json"))
compare = schema["checkpoints"][2]["dependencies"][0]["compare"]
compare["left"], compare["right"] = compare["right"], compare["left"]
graph = DependencyGraph(schema_dict=schema, validate_schema=True)
assert graph.edge_captions[("8", "7")] == ["True = action:7.object_promise.completed"], graph.edge_captions[("8", "7")]

# the legacy operand format used by the layout fixtures keeps its captions
graph = DependencyGraph(
    json_schema_file_path="schemas/test/multi_condition_node_dependency.json",
    validate_schema=False,
)
assert graph.edge_captions[("a#0000", "0")] == ["completed = True", "did_the_thing = True"]
print("demo_01_captions: PASS")
