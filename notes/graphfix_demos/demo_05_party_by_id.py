"""Defect 5: node colour of an action whose party is referenced by id ("party:0").

usage: python demo_05_party_by_id.py [path-to-source-tree]   (exit 0 = pass)
"""
import json, os, sys

tree = os.path.abspath(sys.argv[1] if len(sys.argv) > 1 else "/repo")
sys.path.insert(0, tree)
sys.path.insert(0, os.path.dirname(os.path.abspath(__file__)))
os.chdir(tree)
from visualization.dependency_graph import DependencyGraph
import miro_stub


def action_colors(graph):
    recorder = miro_stub.install()
    graph.generate_miro_board(board_name="demo")  # KeyError('2') before the fix
    os.chdir(tree)
    return {
        payload["data"]["content"]: payload["style"]["fillColor"]
        for url, payload, item_id in recorder.shapes()
        if payload["data"]["shape"] == "round_rectangle"
    }


# parties referenced by id; party 1 ("Project") declares no colour
schema = json.load(open("schemas/test/ses_wo_alias_refs.json"))
del schema["parties"][1]["hex_code"]
by_id = action_colors(DependencyGraph(schema_dict=schema, validate_schema=True))
assert len(by_id) == 11
assert by_id["Set up survey"] == "#c0e1fa"  # action 7, party:2
assert by_id["Agreement decided between tenant and owner."] == "#fdeeb7"  # action 9, party:0
assert list(by_id.values()).count("#ffffff") == 3  # actions 15, 16, 17, party:1

# the same schema with parties referenced by name gives the same colours
schema = json.load(open("schemas/test/small_example_schema.json"))
del schema["parties"][1]["hex_code"]
by_name = action_colors(DependencyGraph(schema_dict=schema, validate_schema=True))
assert by_name == by_id

# an action that names no party is drawn white
graph = DependencyGraph(
    json_schema_file_path="schemas/test/basic_dependency_chart.json", validate_schema=False
)
assert set(action_colors(graph).values()) == {"#ffffff"}
print("demo_05_party_by_id: PASS")
