"""Defect 2: checkpoint refs written by id and action refs written by name.

usage: python demo_02_ref_spellings.py [path-to-source-tree]   (exit 0 = pass)
"""
import json, os, re, sys

tree = os.path.abspath(sys.argv[1] if len(sys.argv) > 1 else "/repo")
sys.path.insert(0, tree)
os.chdir(tree)
from visualization.dependency_graph import DependencyGraph

# reference graph: same schema with checkpoints spelled by alias, actions by id
by_alias = DependencyGraph(
    json_schema_file_path="schemas/test/small_example_schema.json", validate_schema=True
)

# (a) checkpoints referenced by id: "checkpoint:3"      (KeyError('2') before the fix)
by_id = DependencyGraph(
    json_schema_file_path="schemas/test/ses_wo_alias_refs.json", validate_schema=True
)
assert by_id.edge_tuples == by_alias.edge_tuples
assert by_id.gates == by_alias.gates
assert set(by_id.node_coordinates) == set(by_alias.node_coordinates)

# (b) actions referenced by name: "action:{action_7}.object_promise.completed"
#                                                       (KeyError('action_7') before the fix)
text = open("schemas/test/small_example_schema.json").read()
text, n = re.subn(r'"action:(\d+)\.', r'"action:{action_\1}.', text)
assert n > 0
by_name = DependencyGraph(schema_dict=json.loads(text), validate_schema=True)
assert by_name.edge_tuples == by_alias.edge_tuples
assert by_name.gates == by_alias.gates
# node ids are unchanged: str(action id) for actions, checkpoint alias for gates
assert set(by_name.node_coordinates) == set(by_alias.node_coordinates)
assert "7" in by_name.node_coordinates and "Agreement and Guidance#0000" in by_name.node_coordinates

# (c) a nested checkpoint reference written by id, and a number-like alias that
#     differs from the id: "checkpoint:0" is the checkpoint whose id is 0 (alias "8"),
#     "checkpoint:{8}" is the same checkpoint by alias
schema = json.load(open("schemas/test/ses_wo_alias_refs.json"))
schema["checkpoints"][5]["dependencies"].append({"checkpoint": "checkpoint:4"})
nested = DependencyGraph(schema_dict=schema, validate_schema=True)
assert ("Land Rights and Local Laws#0000", "Land owner or Tenant#0000") in nested.edge_tuples
assert ("12", "8") in nested.edge_tuples and ("14", "8") in nested.edge_tuples
print("demo_02_ref_spellings: PASS")
