"""Independent cross-check of C19/C20 over every import-free schema in schemas/test
(plus id<->alias respellings of them). usage: python crosscheck_c19_c20.py [tree]"""
import copy, glob, json, os, re, sys
from collections import Counter

tree = os.path.abspath(sys.argv[1] if len(sys.argv) > 1 else "/repo")
sys.path.insert(0, tree)
sys.path.insert(0, os.path.dirname(os.path.abspath(__file__)))
os.chdir(tree)
from visualization.dependency_graph import DependencyGraph
from validation.schema_validator import SchemaValidator
import miro_stub

ALIAS = {"action": "name", "checkpoint": "alias", "party": "name"}
COLL = {"action": "actions", "checkpoint": "checkpoints", "party": "parties"}


def lookup(schema, ref):
    m = re.match(r"^(action|checkpoint|party):(\{([^}]+)\}|(\d+))", ref)
    typ = m.group(1)
    for o in schema[COLL[typ]]:
        if m.group(3) is not None and o.get(ALIAS[typ]) == m.group(3):
            return o
        if m.group(4) is not None and str(o.get("id")) == m.group(4):
            return o
    raise KeyError(ref)


def respell(schema, to_alias):
    s = copy.deepcopy(schema)

    def fix(ref):
        m = re.match(r"^(action|checkpoint|party):(\{[^}]+\}|\d+)(.*)$", ref)
        if not m:
            return ref
        o = lookup(schema, ref)
        return m.group(1) + ":" + ("{%s}" % o[ALIAS[m.group(1)]] if to_alias else str(o["id"])) + m.group(3)

    def walk(x):
        if isinstance(x, dict):
            return {k: walk(v) for k, v in x.items()}
        if isinstance(x, list):
            return [walk(v) for v in x]
        if isinstance(x, str):
            return fix(x)
        return x

    return walk(s)


def spec(schema):
    """explicit deps per action + gates in use, straight from the schema"""
    gates, direct = {}, {}

    def visit(cp, acc, seen):
        if id(cp) in seen:
            return
        seen.add(id(cp))
        if len(cp["dependencies"]) > 1:
            gates[cp["alias"]] = cp["gate_type"]
        for dep in cp["dependencies"]:
            if "compare" in dep:
                for side in ("left", "right"):
                    ref = dep["compare"].get(side, {}).get("ref")
                    if isinstance(ref, str) and ref.startswith("action:"):
                        acc.add(str(lookup(schema, ref)["id"]))
            else:
                visit(lookup(schema, dep["checkpoint"]), acc, seen)

    for a in schema["actions"]:
        acc = set()
        if "depends_on" in a:
            visit(lookup(schema, a["depends_on"]), acc, set())
        direct[str(a["id"])] = acc
    closure = {}
    for a in direct:
        seen, stack = set(), list(direct[a])
        while stack:
            n = stack.pop()
            if n not in seen:
                seen.add(n)
                stack.extend(direct[n])
        closure[a] = seen
    return closure, gates


def check(name, schema, validate):
    graph = DependencyGraph(schema_dict=schema, validate_schema=validate)
    closure, gates = spec(schema)
    assert graph.gates == gates, (name, graph.gates, gates)
    nodes = set(closure) | set(gates)
    assert set(graph.node_coordinates) == nodes, (name, set(graph.node_coordinates) ^ nodes)
    adj = {}
    for f, t in graph.edge_tuples:
        assert f in nodes and t in nodes, (name, f, t)
        adj.setdefault(f, []).append(t)
    for a in closure:
        seen, stack = set(), list(adj.get(a, []))
        while stack:
            n = stack.pop()
            if n not in seen:
                seen.add(n)
                stack.extend(adj.get(n, []))
        assert seen - set(gates) == closure[a], (name, a, seen - set(gates), closure[a])

    # C20
    rec = miro_stub.install()
    graph.generate_miro_board(board_name=name)
    os.chdir(tree)
    pos = {}
    for node, xy in graph.node_coordinates.items():
        pos.setdefault((xy[0] * graph.x_coord_factor, xy[1] * graph.y_coord_factor), []).append(node)
    shape_of = {}
    visible = [c for c in rec.shapes() if c[1]["data"]["shape"] in ("round_rectangle", "circle")]
    assert len(visible) == len(nodes), (name, len(visible), len(nodes))
    for url, p, iid in visible:
        cands = pos[(p["position"]["x"], p["position"]["y"])]
        assert len(cands) == 1, (name, "overlapping nodes", cands)
        node = cands[0]
        shape_of[iid] = node
        if node in gates:
            assert p["data"]["content"] == gates[node]
        else:
            a = graph.actions[node]
            want = "#ffffff"
            if "party" in a:
                want = lookup(schema, a["party"]).get("hex_code", "#ffffff")
            assert p["style"]["fillColor"] == want, (name, node)
    elbows = {iid for url, p, iid in rec.elbows()}
    direct, ins, outs = [], {}, {}
    for url, p, iid in rec.connectors():
        s, e = p["startItem"]["id"], p["endItem"]["id"]
        if s in shape_of and e in shape_of:
            direct.append((shape_of[s], shape_of[e]))
        elif e in elbows:
            assert e not in ins; ins[e] = shape_of[s]
        else:
            assert s in elbows and s not in outs; outs[s] = shape_of[e]
    assert set(ins) == set(outs) == elbows
    mult = Counter(graph.edge_tuples)
    assert Counter(direct + [(ins[e], outs[e]) for e in elbows]) == mult, name
    k = sum(v for v in mult.values() if v > 1)
    assert len(elbows) == k and len(rec.connectors()) == sum(v for v in mult.values() if v == 1) + 2 * k
    return len(nodes), len(graph.edge_tuples), k


for f in sorted(glob.glob("schemas/test/*.json")):
    schema = json.load(open(f))
    if schema.get("imports") or "basic_import" in f:
        continue
    valid = not SchemaValidator().validate(schema_dict=schema)
    variants = {"as written": schema}
    if valid:
        variants["all by id"] = respell(schema, False)
        variants["all by alias"] = respell(schema, True)
    for label, s in variants.items():
        if valid:
            assert not SchemaValidator().validate(schema_dict=s), (f, label)
        for validate in ([True, False] if valid else [False]):
            try:
                print(f"{os.path.basename(f):45s} {label:13s} validate={validate!s:5s}", check(f, s, validate))
            except Exception as e:
                print(f"{os.path.basename(f):45s} {label:13s} validate={validate!s:5s} FAIL {type(e).__name__}: {str(e)[:150]}")
    if not valid:
        try:
            DependencyGraph(schema_dict=schema, validate_schema=True)
            print("   !! invalid schema was drawn with validation on")
        except Exception:
            pass
