"""Single-fault mutators of conformant scenarios.  Each mutator is owned by the property whose rule must
catch the fault; the Coq model decides the expected verdict, the owner only routes the report."""
import scenario as S
from scenario import KINDS, GATES, OPS, SHAPE_TY, py_cmp

COLL = {"party": "parties", "type": "otypes", "promise": "promises", "action": "actions", "checkpoint": "checkpoints", "group": "groups"}


def ref_positions(s):
    """All reference occurrences as (setter, current_ref, allowed_kind, position_name)."""
    out = []

    def add(container, key, kind, pos, idx=None):
        def setter(new, container=container, key=key, idx=idx):
            if idx is None:
                container[key] = new
            else:
                lst = list(container[key])
                lst[idx] = new
                container[key] = tuple(lst) if isinstance(container[key], tuple) else lst
        cur = container[key] if idx is None else container[key][idx]
        if cur is not None:
            out.append((setter, cur, kind, pos))
    for t in s["otypes"]:
        for a in t["attrs"]:
            if a["kind"][0] != "F":
                add(a, "kind", "type", "attribute.object_type", 1)
    for p in s["promises"]:
        add(p, "type", "type", "object_promise.object_type")
        add(p, "ctx", "group", "object_promise.context")
    for a in s["actions"]:
        add(a, "party", "party", "action.party")
        add(a, "promise", "promise", "action.object_promise")
        add(a, "ctx", "group", "action.context")
        add(a, "dep", "checkpoint", "action.depends_on")
        for i, e in enumerate(a["op"]["edges"]):
            def setter(new, a=a, i=i):
                a["op"]["edges"][i] = (a["op"]["edges"][i][0], new)
            out.append((setter, e[1], "promise", "operation.default_edges"))
        if a["op"]["appends"] is not None:
            def setter(new, a=a):
                a["op"]["appends"] = (new, a["op"]["appends"][1])
            out.append((setter, a["op"]["appends"][0], "promise", "operation.appends_objects_to"))
    for c in s["checkpoints"]:
        add(c, "ctx", "group", "checkpoint.context")
        for i, d in enumerate(c["deps"]):
            if d[0] == "ref":
                def setter(new, c=c, i=i):
                    c["deps"][i] = ("ref", new)
                out.append((setter, d[1], "checkpoint", "checkpoint.dependencies.checkpoint"))
            else:
                for side in (1, 3):
                    if d[side][0] == "act":
                        def setter(new, c=c, i=i, side=side):
                            dd = list(c["deps"][i])
                            dd[side] = ("act", new, dd[side][2])
                            c["deps"][i] = tuple(dd)
                        out.append((setter, d[side][1], "action", "comparison operand ref"))
    for g in s["groups"]:
        add(g, "ctx", "group", "thread_group.context")
        add(g, "dep", "checkpoint", "thread_group.depends_on")
        if g["src"][0] == "P":
            def setter(new, g=g):
                g["src"] = ("P", new, g["src"][2])
            out.append((setter, g["src"][1], "promise", "thread_group.spawn.foreach"))
    return out


def operand_positions(s):
    return [(c, i, side) for c in s["checkpoints"] for i, d in enumerate(c["deps"]) if d[0] == "cmp" for side in (1, 3)]


MUTATORS = {}


def mutator(owner):
    def deco(f):
        MUTATORS[f.__name__] = (owner, f)
        return f
    return deco


def add_dep(rng, c, dep):
    c["deps"].append(dep)
    if c["gate"] is None:
        c["gate"] = rng.choice(GATES)


def operand_ty(b, o):
    """Type of an action operand according to the generator's own path table (None if unknown)."""
    if o[0] == "lit":
        return SHAPE_TY.get(o[1])
    if o[0] != "act":
        return None
    try:
        pr = b.promise_of_action(o[1][1])
    except StopIteration:
        return None
    for (p, t, _) in b.paths_from(pr["type"][1]) + [([], "OBJECT", None)]:
        if p == list(o[2]):
            return t
    return None


# ------------------------------------------------------------------------------------------------ C01
@mutator("C04")
def path_on_scalar_variable(rng, s, b):
    """A thread-variable operand is continued by an attribute although the variable (or the path so far) holds a
    plain value: the operand's type cannot be resolved.  The rest of the comparison stays as it was, so it still fits
    the type the operand had before the extension."""
    cands = []
    for (c, i, side) in operand_positions(s):
        o = c["deps"][i][side]
        if o[0] != "var":
            continue
        other = c["deps"][i][4 - side]
        if other[0] == "lit" and other[1] == "SNull":
            continue
        cands.append((c, i, side))
    if not cands:
        return None
    c, i, side = rng.choice(cands)
    d = list(c["deps"][i])
    o = d[side]
    # only operands that end in a plain value (scalar or list of scalars) -- an object would make the new segment legal
    def var_type(gid, depth=0):
        g = next((x for x in s["groups"] if x["id"] == gid), None)
        if g is None or depth > 6:
            return None
        if g["src"][0] == "P":
            pr = next((x for x in s["promises"] if x["id"] == g["src"][1][1]), None)
            if pr is None:
                return None
            start = pr["type"][1]
        else:
            vt = var_type(g["src"][1], depth + 1)
            if vt is None or vt[0] != "OBJECT":
                return None
            start = vt[1]
        for (pp, t, obj) in b.paths_from(start):
            if pp == list(g["src"][2]) and t.endswith("_LIST"):
                return (t[:-5], obj)
        return None
    vt = var_type(o[1])
    if vt is None:
        return None
    if o[2]:
        if vt[0] != "OBJECT":
            return None
        end = next((t for (pp, t, obj) in b.paths_from(vt[1]) if pp == list(o[2])), None)
    else:
        end = vt[0]
    if end is None or end.startswith("OBJECT"):
        return None
    names = sorted(set(a["name"] for t in s["otypes"] for a in t["attrs"]))
    seg = rng.choice(names + [77])
    d[side] = ("var", o[1], list(o[2]) + [seg])
    c["deps"][i] = tuple(d)
    return "attribute path continued from a thread variable operand (segment %s)" % seg


@mutator("C01")
def dangling_ref(rng, s, b):
    setter, cur, kind, name = rng.choice(ref_positions(s))
    if rng.random() < 0.5:
        setter((cur[0], 900 + rng.randrange(50)))
    else:
        # the next free ids of the collection: where entities generated during validation would land
        ids = [e["id"] for e in s[COLL[cur[0]]]] if cur[0] in COLL else []
        setter((cur[0], max(ids + [0]) + rng.choice([1, 1, 2, 3])))
    return "dangling %s" % name


@mutator("C01")
def ref_qualified_by_unimported_schema(rng, s, b):
    setter, cur, kind, name = rng.choice(ref_positions(s))
    setter((cur[0], S.GHOST + cur[1]))
    return "%s qualified by a schema that is not imported (local part resolves natively)" % name


@mutator("C01")
def wrong_kind_ref(rng, s, b):
    setter, cur, kind, name = rng.choice(ref_positions(s))
    other = rng.choice([k for k in KINDS if k != kind])
    ids = [e["id"] for e in s[COLL[other]]]
    setter((other, rng.choice(ids) if ids else 0))
    return "wrong kind %s -> %s" % (name, other)


@mutator("C01")
def undeclared_path(rng, s, b):
    cands = [(c, i, side) for (c, i, side) in operand_positions(s) if c["deps"][i][side][0] == "act"]
    if not cands:
        return None
    c, i, side = rng.choice(cands)
    d = list(c["deps"][i])
    o = d[side]
    path = list(o[2])
    if path and rng.random() < 0.5:
        path[rng.randrange(len(path))] = 77
    else:
        path.append(77)
    d[side] = ("act", o[1], path)
    c["deps"][i] = tuple(d)
    return "undeclared attribute in operand path"


# ------------------------------------------------------------------------------------------------ C02
@mutator("C02")
def back_edge(rng, s, b):
    """Make an ancestor depend on one of its descendants (through every encoding of an edge)."""
    pairs = [(anc_, a) for a, ancs in b.anc.items() for anc_ in ancs]
    if not pairs:
        return None
    anc_, desc = rng.choice(sorted(pairs))
    act = next(x for x in s["actions"] if x["id"] == anc_)
    cmp_, _ = b.make_cmp(desc)
    mode = rng.random()
    if act["dep"] is None or mode < 0.3:
        cid = max([c["id"] for c in s["checkpoints"]] + [0]) + 1
        if act["dep"] is None:
            s["checkpoints"].append({"id": cid, "alias": 500 + cid, "gate": None, "deps": [cmp_], "ctx": None})
            act["dep"] = ("checkpoint", cid)
            return "cycle through a new checkpoint"
        # wrap: new gate checkpoint = old checkpoint AND new comparison (nested reference encoding)
        s["checkpoints"].append({"id": cid, "alias": 500 + cid, "gate": rng.choice(GATES),
                                 "deps": [("ref", act["dep"]), cmp_], "ctx": None})
        act["dep"] = ("checkpoint", cid)
        return "cycle through a nested checkpoint reference"
    c = next(x for x in s["checkpoints"] if x["id"] == act["dep"][1])
    add_dep(rng, c, cmp_)
    return "cycle through an added dependency"


@mutator("C02")
def self_dependency(rng, s, b):
    acts = [a for a in s["actions"] if a["dep"] is not None]
    if not acts:
        return None
    a = rng.choice(acts)
    c = next(x for x in s["checkpoints"] if x["id"] == a["dep"][1])
    cmp_, _ = b.make_cmp(a["id"])
    add_dep(rng, c, cmp_)
    return "action depends on itself"


# ------------------------------------------------------------------------------------------------ C04
def _one_literal_cmps(s):
    return [(c, i) for c in s["checkpoints"] for i, d in enumerate(c["deps"])
            if d[0] == "cmp" and (d[1][0] == "lit") != (d[3][0] == "lit")]


@mutator("C04")
def ill_typed_operator(rng, s, b):
    cands = _one_literal_cmps(s)
    rng.shuffle(cands)
    for c, i in cands:
        d = c["deps"][i]
        lt, rt = operand_ty(b, d[1]), operand_ty(b, d[3])
        if lt is None or rt is None or "TNULL" in (lt, rt):
            continue
        bad = [o for o in OPS if not py_cmp(lt, o, rt) and not (lt == rt == "STRING" and o in ("CONTAINS", "DOES_NOT_CONTAIN"))]
        if not bad:
            continue
        dd = list(d)
        dd[2] = rng.choice(bad)
        c["deps"][i] = tuple(dd)
        return "operator %s undefined for %s / %s" % (dd[2], lt, rt)
    return None


@mutator("C04")
def ill_typed_literal(rng, s, b):
    cands = _one_literal_cmps(s)
    rng.shuffle(cands)
    for c, i in cands:
        d = c["deps"][i]
        lit_side = 1 if d[1][0] == "lit" else 3
        ty = operand_ty(b, d[4 - lit_side])
        if ty is None:
            continue
        shapes = [sh for sh, t in SHAPE_TY.items() if not (py_cmp(t, d[2], ty) if lit_side == 1 else py_cmp(ty, d[2], t))
                  and not (t == ty == "STRING" and d[2] in ("CONTAINS", "DOES_NOT_CONTAIN"))]
        if not shapes:
            continue
        dd = list(d)
        dd[lit_side] = ("lit", rng.choice(shapes), b.fresh())
        c["deps"][i] = tuple(dd)
        return "literal of the wrong type"
    return None


@mutator("C04")
def two_literals(rng, s, b):
    cands = [(c, i) for c in s["checkpoints"] if len(c["deps"]) > 1 for i, d in enumerate(c["deps"]) if d[0] == "cmp"]
    if not cands:
        return None
    c, i = rng.choice(cands)
    c["deps"][i] = ("cmp", ("lit", "SInt", b.fresh()), "EQUALS", ("lit", "SInt", b.fresh()))
    return "both operands literals"


@mutator("C04")
def identical_operands(rng, s, b):
    cands = [(c, i) for c in s["checkpoints"] for i, d in enumerate(c["deps"]) if d[0] == "cmp" and d[1][0] == "act"]
    if not cands:
        return None
    c, i = rng.choice(cands)
    d = c["deps"][i]
    c["deps"][i] = ("cmp", d[1], "EQUALS", d[1])
    return "identical operands"


# ------------------------------------------------------------------------------------------------ C06
@mutator("C06")
def second_creator(rng, s, b):
    """An action with no ancestry relation to a promise's creator acts on that promise."""
    acts = s["actions"]
    cands = []
    for a in acts:
        for p, c in b.creator.items():
            if c != a["id"] and a["promise"][1] != p and c not in b.anc[a["id"]] and a["id"] not in b.anc[c]:
                cands.append((a, p))
    if not cands:
        return None
    a, p = rng.choice(cands)
    own = a["promise"][1]
    if b.creator.get(own) == a["id"]:
        users = [x for x in acts if x["promise"][1] == own and x is not a]
        edge_users = [x for x in acts for (_, r) in x["op"]["edges"] if r[1] == own]
        cmp_users = [c for c in s["checkpoints"] for d in c["deps"] if d[0] == "cmp" for o in (d[1], d[3]) if o[0] == "act" and o[1][1] == a["id"]]
        if users or edge_users or cmp_users:
            return None
        s["promises"] = [q for q in s["promises"] if q["id"] != own]
    a["promise"] = ("promise", p)
    pr = next(q for q in s["promises"] if q["id"] == p)
    t = b.otype(pr["type"][1])
    a["op"] = {"incl": ("include", [t["attrs"][0]["name"]]), "defaults": [], "edges": [], "appends": None}
    return "two unrelated actions act on one promise"


@mutator("C06")
def unrelated_editor_shares_checkpoint_with_inner_action(rng, s, b):
    """Nested thread groups I inside O.  C creates a promise in O and I's own checkpoint waits for C.  A new action E in
    O edits C's promise although C is no ancestor of E; E waits for a checkpoint K (bound to O, not leading to C) that
    an action X of the INNER group names as well, and X is listed before E.  Whatever is derived for X -- whose thread
    group does lead to C -- must not be credited to E."""
    inner = [g for g in s["groups"] if g["ctx"] is not None and g["dep"] is not None]
    rng.shuffle(inner)
    for I in inner:
        O = I["ctx"][1]
        cs = [a for a in s["actions"] if a["ctx"] == ("group", O) and b.creator.get(a["promise"][1]) == a["id"]
              and not any(x is not a and x["promise"] == a["promise"] for x in s["actions"])]
        xs = [a for a in s["actions"] if a["ctx"] == ("group", I["id"]) and b.creator.get(a["promise"][1]) == a["id"]
              and not a["op"]["edges"] and a["op"]["appends"] is None]
        ms = [a for a in s["actions"] if a["ctx"] is None]
        if not cs or not xs or not ms:
            continue
        C, X = rng.choice(cs), rng.choice(xs)
        # nothing in the scenario may depend on X through its old checkpoint semantics: X keeps its promise, only waits for K
        m = rng.choice(ms)
        icp = next((c for c in s["checkpoints"] if c["id"] == I["dep"][1]), None)
        if icp is None or icp["ctx"] != ("group", O):
            continue
        add_dep(rng, icp, b.make_cmp(C["id"])[0])
        kid = max(c["id"] for c in s["checkpoints"]) + 1
        s["checkpoints"].append({"id": kid, "alias": 500 + kid, "gate": None, "deps": [b.make_cmp(m["id"])[0]], "ctx": ("group", O)})
        X["dep"] = ("checkpoint", kid)
        eid = max(a["id"] for a in s["actions"]) + 1
        pr = next(q for q in s["promises"] if q["id"] == C["promise"][1])
        t = b.otype(pr["type"][1])
        s["actions"].append({"id": eid, "name": 400 + eid, "party": C["party"], "promise": C["promise"], "ctx": ("group", O),
                             "dep": ("checkpoint", kid), "op": {"incl": ("include", [t["attrs"][0]["name"]]), "defaults": [], "edges": [], "appends": None},
                             "milestones": []})
        return "an action edits a promise whose creator is not its ancestor, sharing its checkpoint with an action of a nested thread group that does descend from the creator"
    return None


@mutator("C06")
def unrelated_editor_behind_redundant_dependency(rng, s, b):
    """Thread group G waits for checkpoint K.  X is an action of G that names K itself as its depends_on (legal,
    redundant).  F1 creates a promise in G; a new action F2 of G acts on that promise and waits for a thread-bound
    checkpoint that only compares X -- F1 is no ancestor of F2."""
    gs = [g for g in s["groups"] if g["dep"] is not None]
    rng.shuffle(gs)
    for G in gs:
        ctx = ("group", G["id"])
        mine = [a for a in s["actions"] if a["ctx"] == ctx]
        xs = [a for a in mine if a["dep"] in (None, G["dep"]) and b.creator.get(a["promise"][1]) == a["id"] and not a["op"]["edges"] and a["op"]["appends"] is None]
        f1s = [a for a in mine if b.creator.get(a["promise"][1]) == a["id"] and not any(y is not a and y["promise"] == a["promise"] for y in s["actions"])]
        pairs = [(x, f) for x in xs for f in f1s if x is not f and f["id"] not in b.anc.get(x["id"], set())]
        if not pairs:
            continue
        X, F1 = rng.choice(pairs)
        X["dep"] = G["dep"]
        kid = max(c["id"] for c in s["checkpoints"]) + 1
        s["checkpoints"].append({"id": kid, "alias": 500 + kid, "gate": None, "deps": [b.make_cmp(X["id"])[0]], "ctx": ctx})
        eid = max(a["id"] for a in s["actions"]) + 1
        pr = next(q for q in s["promises"] if q["id"] == F1["promise"][1])
        t = b.otype(pr["type"][1])
        s["actions"].append({"id": eid, "name": 400 + eid, "party": F1["party"], "promise": F1["promise"], "ctx": ctx, "dep": ("checkpoint", kid),
                             "op": {"incl": ("include", [t["attrs"][0]["name"]]), "defaults": [], "edges": [], "appends": None}, "milestones": []})
        return "an action acts on a promise whose creator is not its ancestor; its only condition is on an action that repeats its thread group's checkpoint"
    return None


@mutator("C06")
def promise_never_fulfilled(rng, s, b):
    t = rng.choice(s["otypes"])
    pid = max(p["id"] for p in s["promises"]) + 1
    s["promises"].append({"id": pid, "name": 300 + pid, "type": ("type", t["id"]), "ctx": None})
    return "a promise no action acts on"


# ------------------------------------------------------------------------------------------------ C07
@mutator("C07")
def include_unknown_attribute(rng, s, b):
    a = rng.choice(s["actions"])
    mode, sel = a["op"]["incl"]
    a["op"]["incl"] = (mode, list(sel or []) + [88])
    return "include/exclude names an undeclared attribute"


@mutator("C07")
def default_value_wrong_type(rng, s, b):
    cre = [a for a in s["actions"] if b.creator.get(a["promise"][1]) == a["id"]]
    rng.shuffle(cre)
    for a in cre:
        t = b.otype(b.promise_of_action(a["id"])["type"][1])
        fields = [x for x in t["attrs"] if x["kind"][0] == "F"]
        if not fields:
            continue
        x = rng.choice(fields)
        ft = x["kind"][1]
        wrong = [sh for sh in ["SNull", "SStr", "SInt", "SBool", "SStrs", "SNums", "SBools", "SEmpty"]
                 if not (SHAPE_TY[sh] == ft or (sh == "SEmpty" and ft.endswith("_LIST")))]
        a["op"]["defaults"] = [d for d in a["op"]["defaults"] if d[0] != x["name"]] + [(x["name"], rng.choice(wrong))]
        return "default value of the wrong type"
    return None


@mutator("C07")
def default_value_for_edge(rng, s, b):
    cre = [a for a in s["actions"] if b.creator.get(a["promise"][1]) == a["id"]]
    rng.shuffle(cre)
    for a in cre:
        t = b.otype(b.promise_of_action(a["id"])["type"][1])
        edges = [x for x in t["attrs"] if x["kind"][0] != "F"]
        if not edges:
            continue
        x = rng.choice(edges)
        a["op"]["defaults"] = a["op"]["defaults"] + [(x["name"], "SStr")]
        return "default value given for an edge attribute"
    return None


@mutator("C07")
def default_on_edit(rng, s, b):
    eds = [a for a in s["actions"] if b.creator.get(a["promise"][1]) != a["id"]]
    if not eds:
        return None
    a = rng.choice(eds)
    t = b.otype(b.promise_of_action(a["id"])["type"][1])
    fields = [x for x in t["attrs"] if x["kind"][0] == "F"]
    if not fields:
        return None
    x = rng.choice(fields)
    sh = {"STRING": "SStr", "NUMERIC": "SInt", "BOOLEAN": "SBool", "STRING_LIST": "SStrs", "NUMERIC_LIST": "SNums",
          "BOOLEAN_LIST": "SBools"}[x["kind"][1]]
    a["op"]["defaults"] = [(x["name"], sh)]
    return "default values on an editing action"


@mutator("C07")
def default_edge_wrong_promise(rng, s, b):
    cre = [a for a in s["actions"] if b.creator.get(a["promise"][1]) == a["id"]]
    rng.shuffle(cre)
    for a in cre:
        t = b.otype(b.promise_of_action(a["id"])["type"][1])
        edges = [x for x in t["attrs"] if x["kind"][0] == "E"]
        if not edges:
            continue
        x = rng.choice(edges)
        cands = [p for p in s["promises"] if not (b.creator.get(p["id"]) in b.anc[a["id"]] and p["type"] == x["kind"][1])]
        if not cands:
            continue
        p = rng.choice(cands)
        a["op"]["edges"] = [e for e in a["op"]["edges"] if e[0] != x["name"]] + [(x["name"], ("promise", p["id"]))]
        return "default edge to a promise of the wrong type or not fulfilled by an ancestor"
    return None


@mutator("C07")
def default_edge_for_field(rng, s, b):
    cre = [a for a in s["actions"] if b.creator.get(a["promise"][1]) == a["id"]]
    rng.shuffle(cre)
    for a in cre:
        t = b.otype(b.promise_of_action(a["id"])["type"][1])
        fields = [x for x in t["attrs"] if x["kind"][0] != "E"]
        if not fields:
            continue
        x = rng.choice(fields)
        a["op"]["edges"] = a["op"]["edges"] + [(x["name"], ("promise", rng.choice(s["promises"])["id"]))]
        return "default edge given for a non-edge attribute"
    return None


# ------------------------------------------------------------------------------------------------ C10
def _colls(s):
    return [c for c in ["parties", "otypes", "promises", "actions", "checkpoints", "groups"] if len(s[c]) >= 2]


@mutator("C10")
def duplicate_id(rng, s, b):
    coll = rng.choice(_colls(s))
    i, j = rng.sample(range(len(s[coll])), 2)
    s[coll][j]["id"] = s[coll][i]["id"]
    return "duplicate id in %s (positions %d, %d)" % (coll, i, j)


@mutator("C10")
def duplicate_name(rng, s, b):
    coll = rng.choice(_colls(s))
    i, j = rng.sample(range(len(s[coll])), 2)
    k = "alias" if coll == "checkpoints" else "name"
    s[coll][j][k] = s[coll][i][k]
    return "duplicate name in %s (positions %d, %d)" % (coll, i, j)


@mutator("C10")
def duplicate_attribute(rng, s, b):
    t = rng.choice(s["otypes"])
    if len(t["attrs"]) < 2:
        return None
    i, j = rng.sample(range(len(t["attrs"])), 2)
    t["attrs"][j]["name"] = t["attrs"][i]["name"]
    return "duplicate attribute name"


@mutator("C10")
def duplicate_milestone(rng, s, b):
    if len(s["actions"]) < 2:
        return None
    a1, a2 = rng.sample(s["actions"], 2)
    m = (a1["milestones"] or [rng.randrange(5)])[0]
    a1["milestones"] = sorted(set(a1["milestones"] + [m]))
    a2["milestones"] = sorted(set(a2["milestones"] + [m]))
    return "two actions claim one milestone"


def mutate(rng, n_actions=None, only=None, threads=False):
    """(scenario, mutator_name, owner, description) for a fresh conformant scenario with one fault.
    The mutator is chosen first (uniformly), then scenarios are generated until it applies."""
    names = sorted(MUTATORS) if only is None else [m for m in sorted(MUTATORS) if MUTATORS[m][0] in only or m in only]
    for _ in range(20):
        name = rng.choice(names)
        owner, f = MUTATORS[name]
        for _ in range(40):
            want_threads = threads or name in THREAD_ONLY
            s, b = S.gen_valid(rng, n_actions or rng.choice([3, 4, 5, 6, 8]), want_threads, builder=True)
            desc = f(rng, s, b)
            if desc is not None:
                return s, name, owner, desc
    raise RuntimeError("no applicable mutator among %s" % names)


@mutator("C10")
def duplicate_composite(rng, s, b):
    """Two checkpoints with the same gate type and the same set of dependencies (reordered)."""
    cps = [c for c in s["checkpoints"]]
    if len(cps) < 2:
        return None
    c1, c2 = rng.sample(cps, 2)
    multi = [c for c in cps if len(c["deps"]) >= 2]
    if multi and rng.random() < 0.7:
        # a duplicated SET of several dependencies: the two listings may differ in order
        c1 = rng.choice(multi)
        c2 = rng.choice([c for c in cps if c is not c1])
    deps = list(c1["deps"])
    rng.shuffle(deps)
    c2["deps"] = deps
    c2["gate"] = c1["gate"]
    return "two checkpoints with equal gate type and dependency set (reordered)"


FORCE_ID_SPELLING = {"identical_operands", "duplicate_composite"}


# ------------------------------------------------------------------------------------------------ C05 (thread scoping)
def _threaded_actions(s):
    return [a for a in s["actions"] if a["ctx"] is not None]


def _chain(s, gid):
    out = []
    while gid is not None:
        out.append(gid)
        g = next((x for x in s["groups"] if x["id"] == gid), None)
        gid = g["ctx"][1] if g and g["ctx"] else None
    return out


@mutator("C05")
def threaded_checkpoint_used_outside(rng, s, b):
    """An action outside a thread group (or in a sibling group) depends on a checkpoint bound to that group."""
    cps = [c for c in s["checkpoints"] if c["ctx"] is not None]
    if not cps:
        return None
    c = rng.choice(cps)
    outsiders = [a for a in s["actions"] if a["ctx"] is None or c["ctx"][1] not in _chain(s, a["ctx"][1])]
    if not outsiders:
        return None
    a = rng.choice(outsiders)
    a["dep"] = ("checkpoint", c["id"])
    return "checkpoint bound to a thread group depended on from outside it"


@mutator("C05")
def threaded_checkpoint_nested_outside(rng, s, b):
    """A checkpoint outside a thread group (unbound, or bound to a group that the bound checkpoint's group does not
    enclose... i.e. to a sibling / unrelated group) NESTS a checkpoint bound to that group."""
    bound = [c for c in s["checkpoints"] if c["ctx"] is not None]
    if not bound:
        return None
    c = rng.choice(bound)
    hosts = [h for h in s["checkpoints"] if h is not c and (h["ctx"] is None or c["ctx"][1] not in _chain(s, h["ctx"][1]))]
    # no cycle through the nesting: the host's users must not be mentioned (transitively) by c
    mentioned = set()
    for d in c["deps"]:
        if d[0] == "cmp":
            for o in (d[1], d[3]):
                if o[0] == "act":
                    mentioned |= {o[1][1]} | b.anc.get(o[1][1], set())
    hosts = [h for h in hosts if not any(x["dep"] == ("checkpoint", h["id"]) and x["id"] in mentioned for x in s["actions"])
             and not any(d[0] == "ref" for d in c["deps"])]
    unbound = [h for h in hosts if h["ctx"] is None]
    if not hosts:
        return None
    h = rng.choice(unbound) if unbound and rng.random() < 0.6 else rng.choice(hosts)
    add_dep(rng, h, ("ref", ("checkpoint", c["id"])))
    return "checkpoint bound to a thread group nested by a checkpoint outside that group (%s)" % ("unbound" if h["ctx"] is None else "bound elsewhere")


@mutator("C05")
def threaded_action_compared_outside(rng, s, b):
    ta = _threaded_actions(s)
    if not ta:
        return None
    a = rng.choice(ta)
    # checkpoints without thread context, or bound to a thread group that the action's group does not enclose
    cps = [c for c in s["checkpoints"] if c["ctx"] is None or a["ctx"][1] not in _chain(s, c["ctx"][1])]
    bound = [c for c in cps if c["ctx"] is not None]
    if not cps:
        return None
    c = rng.choice(bound) if bound and rng.random() < 0.6 else rng.choice(cps)
    # the comparison must not close a cycle (that would be rejected for another reason)
    users = [x["id"] for x in s["actions"] if x["dep"] == ("checkpoint", c["id"])]
    if any(u == a["id"] or u in b.anc.get(a["id"], set()) for u in users):
        return None
    add_dep(rng, c, b.make_cmp(a["id"])[0])
    return "threaded action compared by a checkpoint outside its thread group"


@mutator("C05")
def threaded_action_compared_outside_alone(rng, s, b):
    """A NEW checkpoint whose ONLY dependency compares a threaded action from outside its thread group (typed for the
    view from outside, where the threaded promise is a list), referenced from a checkpoint of an unthreaded action."""
    ta = _threaded_actions(s)
    hosts = [c for c in s["checkpoints"] if c["ctx"] is None and any(x["dep"] == ("checkpoint", c["id"]) and x["ctx"] is None for x in s["actions"])]
    if not ta or not hosts:
        return None
    rng.shuffle(ta)
    for a in ta:
        host = rng.choice(hosts)
        users = [x["id"] for x in s["actions"] if x["dep"] == ("checkpoint", host["id"])]
        if any(u == a["id"] or u in b.anc.get(a["id"], set()) for u in users):
            continue
        paths = [(p, t) for (p, t, _) in b.paths_from(b.promise_of_action(a["id"])["type"][1]) if t in ("STRING", "NUMERIC", "BOOLEAN")]
        if not paths:
            continue
        p, t = rng.choice(paths)
        shape = {"STRING": "SStr", "NUMERIC": "SInt", "BOOLEAN": "SBool"}[t]
        kid = max(c["id"] for c in s["checkpoints"]) + 1
        s["checkpoints"].append({"id": kid, "alias": 500 + kid, "gate": None, "ctx": None,
                                 "deps": [("cmp", ("act", ("action", a["id"]), list(p)), rng.choice(["CONTAINS", "DOES_NOT_CONTAIN"]), ("lit", shape, b.fresh()))]})
        add_dep(rng, host, ("ref", ("checkpoint", kid)))
        return "single-dependency checkpoint compares a threaded action from outside its thread group"
    return None


@mutator("C05")
def second_threaded_operand_outside(rng, s, b):
    """A comparison of a thread-bound checkpoint whose LEFT operand is a threaded action in scope and whose RIGHT
    operand is a threaded action of a group that does not enclose the checkpoint; typed so that scope is the only
    fault (seen from outside, a threaded promise is a list: scalar ONE_OF / NONE_OF list)."""
    ta = _threaded_actions(s)
    cands = []
    for c in s["checkpoints"]:
        if c["ctx"] is None:
            continue
        chain = _chain(s, c["ctx"][1])
        ins = [a for a in ta if a["ctx"][1] in chain]
        # in-scope operands that the checkpoint already compares add no new dependency edge
        already = set(d[side][1][1] for d in c["deps"] if d[0] == "cmp" for side in (1, 3) if d[side][0] == "act")
        ins = [a for a in ins if a["id"] in already]
        users = [x["id"] for x in s["actions"] if x["dep"] == ("checkpoint", c["id"])]
        outs = [a for a in ta if a["ctx"][1] not in chain and not any(u == a["id"] or u in b.anc.get(a["id"], set()) for u in users)]
        for x in ins:
            for y in outs:
                cands.append((c, x, y))
    rng.shuffle(cands)
    for c, x, y in cands[:20]:
        px = [(p, t) for (p, t, _) in b.paths_from(b.promise_of_action(x["id"])["type"][1]) if t in ("STRING", "NUMERIC", "BOOLEAN")]
        py = [(p, t) for (p, t, _) in b.paths_from(b.promise_of_action(y["id"])["type"][1]) if t in ("STRING", "NUMERIC", "BOOLEAN")]
        pairs = [(p1, p2) for (p1, t1) in px for (p2, t2) in py if t1 == t2]
        if not pairs:
            continue
        p1, p2 = rng.choice(pairs)
        add_dep(rng, c, ("cmp", ("act", ("action", x["id"]), list(p1)), rng.choice(["ONE_OF", "NONE_OF"]), ("act", ("action", y["id"]), list(p2))))
        return "right operand is a threaded action outside the checkpoint's thread group (left operand threaded and in scope)"
    return None


@mutator("C05")
def variable_used_outside(rng, s, b):
    if not s["groups"]:
        return None
    g = rng.choice(s["groups"])
    # outside g's scope, and no group visible from there may carry the same variable NAME (variables are resolved by
    # name along the checkpoint's own chain: a same-named variable of another branch would make the comparison legal)
    def names_visible(c):
        return [x["var"] for x in s["groups"] if c["ctx"] is not None and x["id"] in _chain(s, c["ctx"][1])]
    cps = [c for c in s["checkpoints"] if (c["ctx"] is None or g["id"] not in _chain(s, c["ctx"][1])) and g["var"] not in names_visible(c)]
    if not cps:
        return None
    c = rng.choice(cps)
    add_dep(rng, c, ("cmp", ("var", g["id"], []), "EQUALS", ("lit", "SNull", b.fresh())))
    return "thread variable used by a checkpoint outside its thread group"


@mutator("C05")
def spawn_from_non_list(rng, s, b):
    gs = [g for g in s["groups"] if g["src"][0] == "P"]
    if not gs:
        return None
    g = rng.choice(gs)
    pr = next(p for p in s["promises"] if p["id"] == g["src"][1][1])
    scal = [(p, t) for (p, t, _) in b.paths_from(pr["type"][1]) if not t.endswith("_LIST")]
    if pr["ctx"] is not None or not scal:
        return None
    g["src"] = ("P", g["src"][1], list(rng.choice(scal)[0]))
    return "thread group spawned from a non-list source"


@mutator("C05")
def spawn_not_fulfilled_by_ancestor(rng, s, b):
    gs = [g for g in s["groups"] if g["ctx"] is None and g["src"][0] == "P"]
    rng.shuffle(gs)
    for g in gs:
        cp = next(c for c in s["checkpoints"] if c["id"] == g["dep"][1])
        mentioned = set()
        for d in cp["deps"]:
            if d[0] == "cmp":
                for o in (d[1], d[3]):
                    if o[0] == "act":
                        mentioned |= {o[1][1]} | b.anc.get(o[1][1], set())
        cands = [p for p in s["promises"] if p["ctx"] is None and b.creator.get(p["id"]) not in mentioned and b.list_paths(p["type"][1])]
        if not cands:
            continue
        p = rng.choice(cands)
        path = rng.choice(b.list_paths(p["type"][1]))[0]
        # keep the nested groups' variable paths meaningful: only retarget groups nobody spawns from
        if any(h["src"][0] == "V" and h["src"][1] == g["id"] for h in s["groups"]):
            continue
        if any(d[0] == "cmp" and any(o[0] == "var" and o[1] == g["id"] for o in (d[1], d[3])) for c in s["checkpoints"] for d in c["deps"]):
            continue
        g["src"] = ("P", ("promise", p["id"]), list(path))
        return "spawn source fulfilled by an action that is no ancestor of the thread group"
    return None


@mutator("C05")
def nested_spawn_from_threaded_non_ancestor(rng, s, b):
    """A NESTED thread group spawns from an object promise that an action of an ENCLOSING thread group fulfils, while
    that action is no ancestor of the nested group (neither its own checkpoint nor an inherited one leads to it)."""
    gs = [g for g in s["groups"] if g["ctx"] is not None]
    rng.shuffle(gs)
    by_id = {g["id"]: g for g in s["groups"]}
    for g in gs:
        if any(h["src"][0] == "V" and h["src"][1] == g["id"] for h in s["groups"]):
            continue
        if any(d[0] == "cmp" and any(o[0] == "var" and o[1] == g["id"] for o in (d[1], d[3])) for c in s["checkpoints"] for d in c["deps"]):
            continue
        chain = _chain(s, g["ctx"][1])
        mentioned = set()
        for h in [g] + [by_id[i] for i in chain if i in by_id]:
            if h["dep"] is None:
                continue
            stack, seen = [h["dep"][1]], set()
            while stack:
                cid = stack.pop()
                if cid in seen:
                    continue
                seen.add(cid)
                cp = next((c for c in s["checkpoints"] if c["id"] == cid), None)
                if cp is None:
                    continue
                for d in cp["deps"]:
                    if d[0] == "ref":
                        stack.append(d[1][1])
                    else:
                        for o in (d[1], d[3]):
                            if o[0] == "act":
                                mentioned |= {o[1][1]} | b.anc.get(o[1][1], set())
        cands = [p for p in s["promises"] if p["ctx"] is not None and p["ctx"][1] in chain and b.creator.get(p["id"]) is not None
                 and b.creator.get(p["id"]) not in mentioned and b.list_paths(p["type"][1])]
        if not cands:
            continue
        p = rng.choice(cands)
        path = rng.choice(b.list_paths(p["type"][1]))[0]
        g["src"] = ("P", ("promise", p["id"]), list(path))
        return "nested spawn source fulfilled inside an enclosing thread group by an action that is no ancestor of the nested group"
    return None


@mutator("C05")
def unused_thread_group(rng, s, b):
    gs = [g for g in s["groups"] if g["ctx"] is None]
    if not gs:
        return None
    g = dict(rng.choice(gs))
    g["id"] = max(x["id"] for x in s["groups"]) + 1
    g["name"] = 600 + g["id"]
    g["var"] = 90 + rng.randrange(9)
    s["groups"].append(g)
    return "thread group used by no action and no nested group"


@mutator("C05")
def variable_name_repeats_in_chain(rng, s, b):
    nested = [g for g in s["groups"] if g["ctx"] is not None]
    if not nested:
        return None
    by_id = {g["id"]: g for g in s["groups"]}
    order = {g["id"]: k for k, g in enumerate(s["groups"])}
    cands, special = [], []
    for h in nested:
        chain = [by_id[i] for i in _chain(s, h["ctx"][1]) if i in by_id]        # enclosing groups, innermost first
        below = h
        for depth, A in enumerate(chain):
            cands.append((h, A, depth))
            # `below` is the child of A on the way down to h: does A have an EARLIER declared child with nested groups of its own?
            sibs = [g for g in s["groups"] if g["ctx"] == ("group", A["id"]) and g is not below and order[g["id"]] < order[below["id"]]]
            if any(any(x["ctx"] == ("group", sb["id"]) for x in s["groups"]) for sb in sibs) or depth >= 1:
                special.append((h, A, depth))
            below = A
    h, A, depth = rng.choice(special if special and rng.random() < 0.6 else cands)
    h["var"] = A["var"]
    if rng.random() < 0.7:
        # declare the enclosing group AFTER everything nested in it: the clash is then found from its side, searching
        # downwards through all its branches (declaration order is free)
        s["groups"].remove(A)
        s["groups"].append(A)
    return "nested thread group reuses the variable name of an enclosing group (%d level%s up)" % (depth + 1, "" if depth == 0 else "s")


@mutator("C06")
def promise_context_mismatch(rng, s, b):
    if not s["groups"]:
        return None
    p = rng.choice(s["promises"])
    g = rng.choice(s["groups"])
    cur = p["ctx"]
    new = None if (cur is not None and rng.random() < 0.5) else ("group", g["id"])
    if new == cur:
        return None
    p["ctx"] = new
    return "promise context differs from the context of its fulfilling action"


@mutator("C06")
def edit_outside_fulfilment_context(rng, s, b):
    """An editing action whose context differs from the context in which the promise is fulfilled."""
    eds = [a for a in s["actions"] if b.creator.get(a["promise"][1]) != a["id"]]
    if not eds or not s["groups"]:
        return None
    a = rng.choice(eds)
    cands = [None] + [("group", g["id"]) for g in s["groups"]]
    cands = [c for c in cands if c != a["ctx"]]
    a["ctx"] = rng.choice(cands)
    return "edit outside the context in which the promise is fulfilled"


THREAD_ONLY = {"unrelated_editor_behind_redundant_dependency", "threaded_checkpoint_nested_outside", "threaded_action_compared_outside_alone", "unrelated_editor_shares_checkpoint_with_inner_action", "nested_spawn_from_threaded_non_ancestor", "path_on_scalar_variable", "threaded_checkpoint_used_outside", "threaded_action_compared_outside", "second_threaded_operand_outside", "variable_used_outside",
               "spawn_from_non_list", "spawn_not_fulfilled_by_ancestor", "unused_thread_group",
               "variable_name_repeats_in_chain", "promise_context_mismatch", "edit_outside_fulfilment_context"}


# ------------------------------------------------------------------------------------------------ C07 appends_objects_to
def _appenders(s):
    return [a for a in s["actions"] if a["op"]["appends"] is not None]


@mutator("C07")
def appends_wrong_collection(rng, s, b):
    ap = _appenders(s)
    if not ap:
        return None
    a = rng.choice(ap)
    q, path = a["op"]["appends"]
    qt = b.otype(next(p for p in s["promises"] if p["id"] == q[1])["type"][1])
    my_type = next(p for p in s["promises"] if p["id"] == a["promise"][1])["type"]
    wrong = [at["name"] for at in qt["attrs"] if not (at["kind"][0] == "C" and at["kind"][1] == my_type)]
    if not wrong:
        return None
    a["op"]["appends"] = (q, [rng.choice(wrong)])
    return "appends_objects_to names an attribute that is not an edge collection of the action's own object type"


@mutator("C07")
def appends_by_dependee(rng, s, b):
    ap = _appenders(s)
    others = [x for x in s["actions"] if x["dep"] is not None]
    if not ap or not others:
        return None
    a = rng.choice(ap)
    cands = [x for x in others if x["id"] != a["id"] and x["id"] not in b.anc[a["id"]] and x["ctx"] == a["ctx"]]
    if not cands:
        return None
    x = rng.choice(cands)
    c = next(cc for cc in s["checkpoints"] if cc["id"] == x["dep"][1])
    # half of the time the appender is the RIGHT operand of a comparison whose left operand is another action
    ctx_of = {y["id"]: y["ctx"] for y in s["actions"]}
    partners = sorted(y for y in b.anc[x["id"]] if y != a["id"] and ctx_of.get(y) in (None, x["ctx"]))
    if partners and rng.random() < 0.5:
        y = rng.choice(partners)
        for _ in range(12):
            cmp_, two = b.make_cmp(y, a["id"])
            if two and cmp_[1][0] == "act" and cmp_[1][1][1] == y and cmp_[3][0] == "act" and cmp_[3][1][1] == a["id"]:
                add_dep(rng, c, cmp_)
                return "an action that appends objects is the right operand of a dependency's comparison"
    add_dep(rng, c, b.make_cmp(a["id"])[0])
    return "an action that appends objects is itself a dependency of a checkpoint"


@mutator("C07")
def appends_to_settable_collection(rng, s, b):
    ap = _appenders(s)
    if not ap:
        return None
    a = rng.choice(ap)
    q, path = a["op"]["appends"]
    users = [x for x in s["actions"] if x["promise"][1] == q[1]]
    x = rng.choice(users)
    x["op"]["incl"] = ("include", sorted(set((x["op"]["incl"][1] or []) if x["op"]["incl"][0] == "include" else []) | {path[-1]}))
    others = [y for y in users if y is not x]
    if others and rng.random() < 0.6:
        # another action on the same object excludes exactly that collection (whatever one action may set stays
        # settable, in whichever order the actions are declared)
        y = rng.choice(others)
        y["op"]["incl"] = ("exclude", [path[-1]])
        y["op"]["defaults"] = [d for d in y["op"]["defaults"] if d[0] != path[-1]]
        y["op"]["edges"] = [e for e in y["op"]["edges"] if e[0] != path[-1]]
        return "the appended-to edge collection is settable by one action's operation and excluded by another's"
    return "the appended-to edge collection is settable by an action's operation"


@mutator("C07")
def appends_on_edit(rng, s, b):
    ap = _appenders(s)
    eds = [x for x in s["actions"] if b.creator.get(x["promise"][1]) != x["id"]]
    if not ap or not eds:
        return None
    x = rng.choice(eds)
    x["op"]["appends"] = rng.choice(ap)["op"]["appends"]
    return "appends_objects_to on an editing action"


@mutator("C07")
def appends_ancestry_not_guaranteed(rng, s, b):
    """The appended-to promise's fulfiller is reachable only through one branch of an OR gate."""
    ap = _appenders(s)
    rng.shuffle(ap)
    for a in ap:
        cp = next(c for c in s["checkpoints"] if c["id"] == a["dep"][1])
        q = a["op"]["appends"][0][1]
        f = b.creator[q]
        others = [x["id"] for x in s["actions"] if x["ctx"] is None and x["id"] != f and f not in b.anc[x["id"]]
                  and x["id"] != a["id"] and a["id"] not in b.anc[x["id"]] and x["op"]["appends"] is None]
        mentions_f = [d for d in cp["deps"] if d[0] == "cmp" and any(o[0] == "act" and o[1][1] == f for o in (d[1], d[3]))]
        rest = [d for d in cp["deps"] if d not in mentions_f]
        if not others or len(mentions_f) != 1 or any(d[0] == "ref" for d in rest):
            continue
        if any(o[0] == "act" and (o[1][1] == f or f in b.anc[o[1][1]]) for d in rest for o in (d[1], d[3])):
            continue
        if a["ctx"] is not None:
            continue
        cp["deps"] = mentions_f + rest + [b.make_cmp(rng.choice(others))[0]]
        cp["gate"] = "OR"
        return "fulfilment of the appended-to promise is reachable only through one branch of an OR gate"
    return None
