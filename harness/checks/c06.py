"""C06: decided on the scenario model (Model/Rules.v): theorems in Properties/C06.v about what acceptance guarantees;
tie: whole validator vs model on conformant scenarios and on single-fault mutants owned by C06."""
import scen_check
LEVEL = "proof"
OWNERS = ("C06",)


def run(ctx):
    scen_check.scenario_check(
        ctx, owners=OWNERS, n_valid=60, n_mut=260,
        rule="conformant scenarios (half with thread groups, two renderings each) and single-fault mutants owned by C06 (see harness/mutators.py), each mutant applied to a fresh conformant scenario; non-trivial = every mutant and every conformant scenario with a checkpoint; distinct by abstract scenario",
        trusted=[], prop_files=PROP_FILES if "PROP_FILES" in globals() else None)
    # lifecycle across import files: native actions that create promises of imported types or edit imported promises
    # after their imported creator (native and imported ids overlap)
    import random, engine
    scale = 1 if ctx.tier == "quick" else 10
    engine.import_family(ctx, random.Random(ctx.seed + 6), 30 * scale, 0,
                         what="T3 correspondence: promise lifecycle across import files, whole validator vs Coq model (Model/Imports.v)")
    # ... and across import trees: ancestry that runs through connections of a file reached by two import entries
    engine.import_tree_family(ctx, random.Random(ctx.seed + 8), 10 * scale, shapes=["diamond", "diamond_plus", "chain3_shortcut", "deep_diamond", None],
                              what="T3 correspondence: promise lifecycle across import trees, whole validator vs Coq model (Model/ImportsDeep.v)")


PROP_FILES = ["C06_ancestry"]
