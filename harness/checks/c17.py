"""C17 / C18: chart layout. Proof: Properties/C17.v, C18.v over Model/Layout.v; tie: exact coordinates of
model and implementation on generated DAGs; search oracle: the property checked directly on the
implementation's output."""
import random, json
import common, kernel
from corr import layout as L

LEVEL = "proof"
PROP_FILTER = {"C17": ("C17",), "C18": ("C18",)}


def run(ctx):
    ok, thms, log = kernel.proof_step(ctx)
    rng = random.Random(ctx.seed)
    n = 900 if ctx.tier == "quick" else 12000
    cases = L.gen_cases(rng, n, exhaustive_upto=4 if ctx.tier == "quick" else 5)
    if getattr(ctx, "replay_file", None):
        cases = [json.load(open(ctx.replay_file))["case"]]
    failing, results, evaluated = kernel.corr_step(ctx, L, cases, 300, "layout")
    # the property itself, checked on the implementation's own output
    spec_bad = []
    for i, (c, r) in enumerate(zip(cases, results)):
        msg = L.spec_check(c, r)
        if msg and msg.startswith(ctx.prop if ctx.prop in ("C17", "C18") else ""):
            spec_bad.append((i, msg))
        elif msg and ctx.prop == "C17" and not msg.startswith("C18"):
            spec_bad.append((i, msg))
    # "the same input always yields the same layout": several graphs laid out on ONE DependencyChartLayout instance
    # must each equal the layout a fresh instance computes (graphs sharing node ids, in both orders)
    hist_bad = []
    nonterminating = [i for i, r in enumerate(results) if isinstance(r, dict) and "Timeout" in str(r.get("raise"))]
    if ctx.prop in ("C17", "C18") and nonterminating:
        # the layout stopped terminating: the further families (histories, geometries, processes) would only wait
        ctx.notes.append("%d cases did not terminate; history / geometry / process families skipped" % len(nonterminating))
        if not spec_bad:
            for i in nonterminating[:2]:
                ctx.violation({"what": "the layout does not terminate (no result within 10 s)", "case": cases[i], "implementation": results[i]})
    if ctx.prop in ("C17", "C18") and not nonterminating:
        import subprocess, random as _random
        small = [c for c in cases if 2 <= len(c["nodes"]) <= 12]
        sample = small[:200]
        # plus random pairs (adjacent cases of the exhaustive part resemble each other): graphs with long edges first
        hr = _random.Random(ctx.seed + 17)
        longish = [c for c in small if len(c["nodes"]) >= 3 and len(c["edges"]) >= 3] or small
        for _ in range(300 if ctx.tier == "quick" else 3000):
            sample += [hr.choice(longish), hr.choice(small)]
        code = r'''
import sys, json
sys.path.insert(0, %r)
from visualization.dependency_chart_layout import DependencyChartLayout
cases = json.load(sys.stdin)
def lay(inst, c):
    nodes = [str(n) for n in c["nodes"]]
    ed = {}
    et = []
    for a, b in c["edges"]:
        ed.setdefault(str(a), []).append(str(b)); et.append((str(a), str(b)))
    return {k: list(v) for k, v in inst.from_graph_data(nodes, ed, et).items()}
bad = []
for i in range(0, len(cases) - 1, 2):
    for x, y in ((cases[i], cases[i + 1]), (cases[i + 1], cases[i])):
        inst = DependencyChartLayout()
        try:
            nodes_x = [str(n) for n in x["nodes"]]
            ed_x, et_x = {}, []
            for a, b in x["edges"]:
                ed_x.setdefault(str(a), []).append(str(b)); et_x.append((str(a), str(b)))
            first_result = inst.from_graph_data(nodes_x, ed_x, et_x)          # the object the caller keeps
            first_copy = {k: list(v) for k, v in first_result.items()}
            got = lay(inst, y)
            want = lay(DependencyChartLayout(), y)
            if got != want:
                bad.append({"first": x, "second": y, "on_used_instance": got, "on_fresh_instance": want})
            elif {k: list(v) for k, v in first_result.items()} != first_copy:
                bad.append({"first": x, "second": y, "first_result_before_second_call": first_copy,
                            "first_result_after_second_call": {k: list(v) for k, v in first_result.items()}})
        except BaseException as e:
            bad.append({"first": x, "second": y, "raised": repr(e)})
print(json.dumps(bad[:5]))
''' % ctx.repo_copy
        r = subprocess.run([common.PY, "-W", "ignore", "-c", code], input=json.dumps(sample), capture_output=True, text=True, env=ctx.impl_env(), timeout=900)
        if r.returncode == 0:
            hist_bad = json.loads(r.stdout)
        else:
            ctx.notes.append("history runner failed: " + r.stderr[-300:])
        for h in hist_bad[:2]:
            ctx.violation({"what": "a layout depends on what the same DependencyChartLayout instance laid out before", "history": h})
        # other geometries than the default one of the model (node_height / node_spacing are constructor parameters):
        # the statements of C17 / C18 do not mention the geometry, so they are checked on the output directly
        code3 = r'''
import sys, json
sys.path.insert(0, %r)
from visualization.dependency_chart_layout import DependencyChartLayout
out = []
for c in json.load(sys.stdin):
    row = []
    for (h, sp) in ((1, 1), (2, 2), (3, 1), (1, 2), (2, 0.5)):
        nodes = list(c["nodes"])
        ed, et = {}, []
        for a, b in c["edges"]:
            ed.setdefault(a, []).append(b); et.append((a, b))
        try:
            co = DependencyChartLayout(node_height=h, node_spacing=sp).from_graph_data(nodes, ed, et)
            row.append([[k, v[0], v[1]] for k, v in co.items()])
        except BaseException as e:
            row.append({"raise": "%%s: %%s" %% (type(e).__name__, str(e)[:100])})
    out.append(row)
print(json.dumps(out))
''' % ctx.repo_copy
        gsample = [c for c in small if len(c["edges"]) >= 3][:120] + [hr.choice(longish) for _ in range(200 if ctx.tier == "quick" else 2000)]
        r3 = subprocess.run([common.PY, "-W", "ignore", "-c", code3], input=json.dumps(gsample), capture_output=True, text=True, env=ctx.impl_env(), timeout=900)
        if r3.returncode != 0:
            ctx.notes.append("geometry runner failed: " + r3.stderr[-300:])
        else:
            ng = 0
            for c, row in zip(gsample, json.loads(r3.stdout)):
                for geo, res in zip(((1, 1), (2, 2), (3, 1), (1, 2), (2, 0.5)), row):
                    msg = L.spec_check(c, res if isinstance(res, dict) else [tuple(x) for x in res])
                    if msg and msg.startswith(ctx.prop) and ng < 2:
                        ng += 1
                        hist_bad.append({"case": c})
                        ctx.violation({"what": "the implementation's layout violates the property with node_height=%s, node_spacing=%s" % geo,
                                       "detail": msg, "case": c, "implementation": res})
        # ... and across interpreter processes: node ids are strings when DependencyGraph calls the layout, and string
        # hashing (hence the iteration order of sets of strings) differs per process
        code2 = r'''
import sys, json
sys.path.insert(0, %r)
from visualization.dependency_chart_layout import DependencyChartLayout
out = []
for c in json.load(sys.stdin):
    nodes = ["n%%s" %% n for n in c["nodes"]]
    ed, et = {}, []
    for a, b in c["edges"]:
        ed.setdefault("n%%s" %% a, []).append("n%%s" %% b); et.append(("n%%s" %% a, "n%%s" %% b))
    try:
        out.append(sorted([k, list(v)] for k, v in DependencyChartLayout().from_graph_data(nodes, ed, et).items()))
    except BaseException as e:
        out.append("raise " + type(e).__name__)
print(json.dumps(out))
''' % ctx.repo_copy
        from concurrent.futures import ThreadPoolExecutor
        xs = [c for c in small if len(c["edges"]) >= 2][:150] + [hr.choice(small) for _ in range(150)]

        def one(seed):
            env = ctx.impl_env()
            env["PYTHONHASHSEED"] = seed
            r2 = subprocess.run([common.PY, "-W", "ignore", "-c", code2], input=json.dumps(xs), capture_output=True, text=True, env=env, timeout=600)
            return json.loads(r2.stdout) if r2.returncode == 0 else None
        with ThreadPoolExecutor(max_workers=4) as ex:
            outs = list(ex.map(one, ["0", "1", "2", "4242"]))
        if any(o is None for o in outs):
            ctx.notes.append("across-process layout runner failed")
        else:
            nb = 0
            for i, c in enumerate(xs):
                diff = [sd for sd, o in zip(["1", "2", "4242"], outs[1:]) if o[i] != outs[0][i]]
                if diff and nb < 2:
                    nb += 1
                    hist_bad.append({"case": c})
                    ctx.violation({"what": "the layout of one graph (string node ids) differs between interpreter processes (PYTHONHASHSEED 0 vs %s)" % diff[0],
                                   "case": c, "with_seed_0": outs[0][i], "with_seed_%s" % diff[0]: outs[1 + ["1", "2", "4242"].index(diff[0])][i]})
    cov = ctx.coverage
    cov.update({"evaluations": len(cases), "distinct_nontrivial": len(set(json.dumps(c, sort_keys=True) for c in cases if len(c["edges"]) >= 2)),
                "rule": "DAGs: exhaustive up to %d nodes (all edge subsets of a topological order, relabelled, listing orders shuffled), then random/layered/comb DAGs up to 40 nodes with parallel edges; non-trivial = at least two edges; distinct by (nodes, edges) listing" % (4 if ctx.tier == "quick" else 5),
                "samples": [{"case": cases[i], "implementation": results[i]} for i in (0, len(cases) // 2, len(cases) - 1)],
                "disagreements_checked": len(failing) + len(hist_bad), "stats": L.case_stats(cases, results) if hasattr(L, "case_stats") else {},
                "trusted_base": ["corr/layout.py: graph generator, runner of DependencyChartLayout.from_graph_data, printer of cases as Coq terms",
                                 "model fixes node_height=2, node_spacing=1 (the defaults DependencyGraph uses); ascending iteration of a set of small ints; y in halves"]})
    reported = set()
    for i, msg in spec_bad[:3]:
        reported.add(i)
        ctx.violation({"what": "the implementation's layout violates the property", "detail": msg, "case": cases[i], "implementation": results[i]})
    if not spec_bad:
        for i in failing[:3]:
            # model and implementation differ, property still holds on this output
            ctx.violation({"what": "correspondence T3 layout: model and implementation disagree; the property holds on the implementation's output for this input",
                           "case": cases[i], "implementation": results[i],
                           "correspondence": "OIS.Model.Layout.layout vs DependencyChartLayout.from_graph_data"}, no_input=True)
    if not evaluated and not ctx.violations:
        kernel.obligation_violation(ctx, thms, "; ".join(ctx.notes[-2:]), {"correspondence": "Coq evaluation of layout cases failed"})
    if not ok and not ctx.violations:
        kernel.obligation_violation(ctx, thms, log)
