"""C03: every specification-conformant schema is accepted.
The Coq model's `conforms` is the executable specification; every scenario it accepts must be accepted by the
implementation, whatever the rendering (spelling, order, descriptive properties) and feature mix."""
import scen_check
LEVEL = "proof"


def run(ctx):
    scen_check.scenario_check(
        ctx, owners=(), n_valid=240, n_mut=0, sizes=[3, 5, 6, 8, 10, 12, 14],
        rule="conformant-by-construction scenarios of 3-14 actions (plus threaded actions), half with thread groups, each rendered twice (id / alias / mixed spelling, shuffled arrays and key order, optional descriptive properties); a case is non-trivial when it has at least one checkpoint; distinct by abstract scenario",
        trusted=["Properties/C03.v: conforms is the conjunction of the per-property rules proved sound in C01, C02, C04-C07, C10 (the statement 'conformant => accepted' is about the implementation and is carried by the correspondence)"])
