"""C03: every specification-conformant schema is accepted.
Theorems: Properties/C03_spec.v (the model's verdict `conforms` is equivalent to the purely declarative specification
`Conforms` of Spec/Conforms.v: C03_sound, C03_complete, C03_iff) and Properties/C03.v (conforms is the conjunction of its
rules; the known finding only widens acceptance).  The statement 'conformant => accepted by the implementation' is carried
by the correspondence: everything the executable specification accepts -- plain, threaded, with pipelines, with imports,
and the systematic families -- must be accepted by the implementation under every rendering."""
import os, json
import random, json, collections
import common, kernel, engine, families, scenario as S
import pipes, imports as I

LEVEL = "proof"


def run(ctx):
    ok, thms, log = kernel.proof_step(ctx, regen=("tables",))
    lock = ctx.coq_lock()
    try:
        ok2, log2 = ctx.make(["theories/Properties/C03_spec.vo"])
    finally:
        lock.close()
    ctx.coverage["obligation_names"] = ctx.coverage.get("obligation_names", []) + ["OIS.Properties.C03_spec.C03_sound", "OIS.Properties.C03_spec.C03_complete", "OIS.Properties.C03_spec.C03_iff"]
    if ok2:
        ctx.coverage["obligations"] += 3
        ctx.coverage["discharged"] = ctx.coverage.get("discharged", 0) + 3 if ok else 0
    else:
        ok, log = False, log + log2
    rng = random.Random(ctx.seed)
    scale = 1 if ctx.tier == "quick" else 10
    sizes = [3, 5, 6, 8, 10, 12, 14]
    # (a) plain and threaded scenarios + the guaranteed-ancestry family
    items = engine.make_valid_items(ctx, rng, 90 * scale, variants=2, threads=False, sizes=sizes)
    items += engine.make_valid_items(ctx, rng, 90 * scale, variants=2, threads=True, sizes=sizes)
    items += families.guaranteed_family(rng)
    ev1 = engine.run_items(ctx, items)
    # (b) scenarios with aggregation pipelines
    pitems = []
    for k in range(60 * scale):
        s, b = pipes.gen_valid_p(rng, threads=(k % 2 == 1))
        g = engine.scen_hash(s)
        for v in range(2):
            r = {"spelling": ["mixed", "alias"][v], "shuffle": v == 1, "descriptive": v == 1, "seed": rng.randrange(1 << 30)}
            pitems.append(engine.Item(s, S.render(s, random.Random(r["seed"]), r["spelling"], r["shuffle"], r["descriptive"]), "valid-pipelines", render=r, group=g))
    ev2 = engine.run_items(ctx, pitems, coq_file_fn=pipes.coq_cases_file_p)
    # (c) importing scenarios
    iitems = []
    for k in range(40 * scale):
        case = I.gen_valid_i(rng, threads=(k % 3 == 0))
        r = {"spelling": "mixed", "shuffle": k % 2 == 1, "seed": rng.randrange(1 << 30)}
        doc = I.render_i(case, ctx.repo_copy, random.Random(r["seed"]), r["spelling"], r["shuffle"], False)
        iitems.append(engine.Item(case, doc, "valid-imports", render=r, group="i%d" % k))
    ev3 = engine.run_items(ctx, iitems, coq_file_fn=I.coq_cases_file_i)
    for it in iitems:
        it.scenario = {"native": it.scenario["native"], "imports": [{k: v for k, v in imp.items() if k != "builder"} for imp in it.scenario["imports"]]}
    # (d) import trees (files that import files, diamonds, connections at every level)
    import imports_deep as D
    ditems = []
    for k in range(24 * scale):
        case = D.gen_valid_deep(rng, threads=(k % 4 == 0))
        for f in case["files"].values():
            f["file"] = None
        r = {"spelling": ["mixed", "alias", "id"][k % 3], "shuffle": k % 2 == 1, "seed": rng.randrange(1 << 30)}
        doc = D.render_deep(case, ctx.repo_copy, random.Random(r["seed"]), r["spelling"], r["shuffle"])
        r["imported_files"] = {}
        for f in case["files"].values():
            try:
                r["imported_files"][f["file"]] = json.load(open(os.path.join(ctx.repo_copy, "schemas", f["file"] + ".json")))
            except Exception:
                r["imported_files"][f["file"]] = None
        ditems.append(engine.Item(case, doc, "valid-import-tree", render=r, group="d%d" % k))
    ev3 = engine.run_items_grouped(ctx, ditems, coq_file_fn=D.coq_cases_file_deep, chunk=6) and ev3
    for it in ditems:
        it.scenario = D.strip(it.scenario)
    # (e) per-file uniqueness: a native checkpoint repeating the composite of an imported checkpoint that a connection
    # targets (implementation against its own verdict on the sibling without the repetition)
    import impl
    twins = I.per_file_uniqueness_twins(rng, 6 * scale)
    pool = impl.Pool(ctx)
    tw_rejected = 0
    for k, (case, twin, info) in enumerate(twins):
        sp = ["id", "alias", "mixed"][k % 3]
        seed = rng.randrange(1 << 30)
        d0 = I.render_i(case, ctx.repo_copy, random.Random(seed), sp, False, False)
        d1 = I.render_i(twin, ctx.repo_copy, random.Random(seed), sp, False, False)
        r0, r1 = pool.validate_many([d0, d1])
        if r0["outcome"] == "accept" and r1["outcome"] != "accept":
            tw_rejected += 1
            if tw_rejected <= 2:
                ctx.violation({"what": "a conformant importing document is rejected: a native checkpoint repeats gate type and dependencies of an imported checkpoint that a connection targets (uniqueness is per schema file; the sibling without the repetition is accepted)",
                               "document": d1, "errors": r1.get("errors"), "exc": r1.get("exc"), "sibling_document": d0, "spelling": sp, "detail": info,
                               "imported_files": {imp["file"]: json.load(open(os.path.join(ctx.repo_copy, "schemas", imp["file"] + ".json"))) for imp in twin["imports"] if imp.get("file")}})
    pool.close()
    ctx.coverage["per_file_uniqueness_twins"] = {"pairs": len(twins), "twin_rejected": tw_rejected}
    allitems = items + pitems + iitems + ditems
    engine.report(ctx, allitems, "T3 correspondence: a scenario the executable specification accepts is not accepted by the implementation (or vice versa)")
    ctx.coverage.update({
        "rule": "conformant-by-construction scenarios of 3-14 actions (plus threaded actions; thread forests to depth 3), each rendered twice (id / alias / mixed spelling, numeric aliases, shuffled arrays and key order, descriptive properties); the guaranteed-ancestry family (5 gates x 4 x 4 branch shapes); scenarios with 0-2 aggregation pipelines; importing scenarios with generated import files; non-trivial = at least one checkpoint; distinct by abstract scenario",
        "samples": engine.sample_of(items[:1] + pitems[:1] + iitems[:1]),
        "accepted_by_both": sum(1 for it in allitems if it.res["outcome"] == "accept" and it.model_accepts),
        "trusted_base": ["scenario / pipeline / import generators and renderers (harness/scenario.py, pipes.py, imports.py)",
                         "Spec/Conforms.v is the declarative reading of the published specification; its equivalence with the executable model is proved, its agreement with the implementation is tested"]})
    if not (ev1 and ev2 and ev3) and not ctx.violations:
        kernel.obligation_violation(ctx, thms, "; ".join(ctx.notes[-3:]), {"correspondence": "Coq evaluation of scenario cases failed"})
    if not ok and not ctx.violations:
        kernel.obligation_violation(ctx, thms, log)
