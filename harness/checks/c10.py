"""C10: identifiers are unique within their collection.
Proof: Properties/C10.v (dict-based duplicate detection = NoDup at any pair position; canonical-form equality =
same modulo array/key order and sensitive to scalar JSON type).  Tie: corr/canon.py runs utils.hash_sorted_object
and SchemaValidator._validate_unique against the Gallina model; the scenario engine injects duplicates into every
uniqueness domain of whole documents."""
import random, json, copy
import common, kernel, engine, impl, scenario as S
from corr import canon as C

LEVEL = "proof"


def kf_docs():
    """Witness documents of the recorded known findings."""
    import checks.c04 as c04
    # (1) composite duplicates that differ only in the spelling of a reference
    s = c04.base_scenario()
    s["actions"].append(dict(s["actions"][2], id=3, name=403, promise=("promise", 3), dep=("checkpoint", 1)))
    s["promises"].append({"id": 3, "name": 303, "type": ("type", 0), "ctx": None})
    dep = ("cmp", ("act", ("action", 0), [0]), "EQUALS", ("lit", "SStr", 1))
    s["checkpoints"][0]["deps"] = [dep]
    s["checkpoints"].append({"id": 1, "alias": 501, "gate": None, "deps": [dep], "ctx": None})
    d_same = S.render(s, random.Random(1), spelling="id")
    d_mixed = copy.deepcopy(d_same)
    d_mixed["checkpoints"][1]["dependencies"][0]["compare"]["left"]["ref"] = "action:{action 400}.object_promise.attr0"
    # (2) literal list operands differing only in element order are reported as duplicates
    s2 = copy.deepcopy(s)
    s2["checkpoints"][0]["deps"] = [("cmp", ("act", ("action", 0), [4]), "EQUALS", ("lit", "SNums", 1))]
    s2["checkpoints"][1]["deps"] = [("cmp", ("act", ("action", 0), [4]), "EQUALS", ("lit", "SNums", 1))]
    d2 = S.render(s2, random.Random(1), spelling="id")
    d2["checkpoints"][1]["dependencies"][0]["compare"]["right"]["value"] = [1.5, 1]
    return d_same, d_mixed, d2


def directed_reference_duplicates(ctx):
    """Two pipelines writing one object promise and two connections of one import targeting one object, in every
    pair of reference spellings (id / alias) and both array orders; plus the distinct controls.  Oracle: the
    property statement itself (duplicates never accepted; distinct identifiers never reported as duplicates)."""
    import itertools, os

    def action(i):
        return {"id": i, "name": "act %d" % i, "object_promise": "object_promise:%d" % i, "description": "d", "party": "party:{P}",
                "operation": {"include": ["name"]}}

    def pipeline(i, promise, var, to):
        return {"id": i, "name": "pipe %d" % i, "object_promise": promise, "variables": [{"name": var, "type": "NUMERIC", "initial": 0}],
                "output": [{"from": var, "to": to}]}
    base = {"standard": "c10", "terms": [], "parties": [{"id": 0, "name": "P"}],
            "object_types": [{"id": 0, "name": "T", "attributes": [{"name": "name", "type": "STRING"}, {"name": "n", "type": "NUMERIC"}, {"name": "m", "type": "NUMERIC"}]}],
            "object_promises": [{"id": 4, "name": "first", "object_type": "object_type:{T}"}, {"id": 7, "name": "4", "object_type": "object_type:{T}"}],
            "actions": [dict(action(4), id=0), dict(action(7), id=1)], "checkpoints": [], "thread_groups": [], "pipelines": []}
    docs = []
    spell = {4: ["object_promise:4", "object_promise:{first}"], 7: ["object_promise:7", "object_promise:{4}"]}
    # the same names with the two ids exchanged: whatever a validator instance remembers about one document (each
    # worker also validates every document on an instance it keeps reusing) must not leak into the next
    swapped = copy.deepcopy(base)
    swapped["object_promises"][0]["id"], swapped["object_promises"][1]["id"] = 7, 4
    swapped["actions"][0]["object_promise"], swapped["actions"][1]["object_promise"] = "object_promise:7", "object_promise:4"
    sspell = {"first": ["object_promise:7", "object_promise:{first}"], "4": ["object_promise:4", "object_promise:{4}"]}
    for a, b in itertools.product(spell[4], repeat=2):
        d = copy.deepcopy(base)
        d["pipelines"] = [pipeline(0, a, "$x", "n"), pipeline(1, b, "$y", "m")]
        docs.append(("two pipelines write one object promise (%s / %s)" % (a, b), d, True))
    for a, b in itertools.product(spell[4], spell[7]):
        for order in (0, 1):
            d = copy.deepcopy(base)
            d["pipelines"] = [pipeline(0, a, "$x", "n"), pipeline(1, b, "$y", "m")][::1 if order == 0 else -1]
            docs.append(("two pipelines on two object promises (%s / %s); the name of one is the decimal id of the other" % (a, b), d, False))
            # ... followed by the document with exchanged ids, in which the same two spellings may or may not coincide
            for a2, b2 in ((sspell["first"][1], sspell["first"][0]), (sspell["first"][1], sspell["4"][0]), (a, b)):
                d2 = copy.deepcopy(swapped)
                d2["pipelines"] = [pipeline(0, a2, "$x", "n"), pipeline(1, b2, "$y", "m")]
                ids = set()
                for r_ in (a2, b2):
                    ids.add({"object_promise:7": 7, "object_promise:{first}": 7, "object_promise:4": 4, "object_promise:{4}": 4}[r_])
                docs.append(("ids exchanged: pipelines on %s / %s" % (a2, b2), d2, len(ids) == 1))
    f = os.path.join(ctx.repo_copy, "schemas", "test", "native_checkpoint_to_imported_action.json")
    imp = os.path.join(ctx.repo_copy, "schemas", "test", "basic_import.json")
    if os.path.exists(f) and os.path.exists(imp):
        nat, isc = json.load(open(f)), json.load(open(imp))
        cp = copy.deepcopy(nat["checkpoints"][0])
        cp["id"], cp["alias"] = 55, "second native checkpoint"
        cp["dependencies"][0]["compare"]["operator"] = "DOES_NOT_EQUAL"
        nat["checkpoints"].append(cp)
        a1 = next(a for a in isc["actions"] if a["id"] == 1)
        a0 = next(a for a in isc["actions"] if a["id"] == 0)
        c0 = isc["checkpoints"][0]
        fn = nat["imports"][0]["file_name"]
        sp = {"a1": ["schema:{%s}.action:1" % fn, "schema:{%s}.action:{%s}" % (fn, a1["name"])],
              "a0": ["schema:{%s}.action:0" % fn, "schema:{%s}.action:{%s}" % (fn, a0["name"])],
              "c0": ["schema:{%s}.checkpoint:%d" % (fn, c0["id"]), "schema:{%s}.checkpoint:{%s}" % (fn, c0["alias"])]}
        for key in ("a1", "c0"):
            for a, b in itertools.product(sp[key], repeat=2):
                d = copy.deepcopy(nat)
                d["imports"][0]["connections"] = [{"to_ref": a, "add_dependency": "checkpoint:0"}, {"to_ref": b, "add_dependency": "checkpoint:55"}]
                docs.append(("two connections of one import target one object (%s / %s)" % (a, b), d, True))
        # known finding C10-junk-in-schema-qualifier: the qualifier is parsed leniently and compared as written
        d = copy.deepcopy(nat)
        d["imports"][0]["connections"] = [{"to_ref": sp["a1"][0], "add_dependency": "checkpoint:0"},
                                          {"to_ref": "schema:{%s}:junk}.action:1" % fn, "add_dependency": "checkpoint:55"}]
        docs.append(("KF two connections of one import target one object, one through a qualifier with trailing junk", d, True))
        for a, b in itertools.product(sp["a1"], sp["c0"]):
            d = copy.deepcopy(nat)
            d["imports"][0]["connections"] = [{"to_ref": a, "add_dependency": "checkpoint:0"}, {"to_ref": b, "add_dependency": "checkpoint:55"}]
            docs.append(("two connections of one import with different targets (%s / %s)" % (a, b), d, False))
    pool = impl.Pool(ctx, 4)
    res = pool.validate_many([d for _, d, _ in docs])
    pool.close()
    n_bad = 0
    for (what, d, dup), r in zip(docs, res):
        dup_reported = any("duplicate" in e or "cannot specify the same" in e for e in r["errors"])
        if what.startswith("KF "):
            if r["outcome"] == "accept":
                ctx.known_finding("two connections of one import that target the same object are accepted when one writes the schema qualifier with trailing junk ('schema:{file}:junk}.action:1' resolves like 'schema:{file}.action:1' but is compared as written); witness: known_findings.json C10-junk-in-schema-qualifier")
            continue
        if dup and r["outcome"] == "accept" and n_bad < 3:
            n_bad += 1
            ctx.violation({"what": "a duplicate is accepted: " + what, "document": d, "implementation": r})
        elif not dup and (dup_reported or r["outcome"] == "raise") and n_bad < 3:
            n_bad += 1
            ctx.violation({"what": "distinct identifiers are reported as duplicates: " + what, "document": d, "implementation": r})
        elif r.get("reused") and n_bad < 3:
            n_bad += 1
            ctx.violation({"what": "duplicate detection depends on what the same validator instance validated before: " + what,
                           "difference": {k: v for k, v in r["reused"].items() if k != "previous_document"},
                           "history": [r["reused"].get("previous_document"), d], "document": d},
                          no_input="previous_document" not in r["reused"])
    return len(docs), sum(1 for (_, _, dup), r in zip(docs, res) if dup), sum(1 for r in res if r["outcome"] == "accept")


def generated_alias_documents(ctx):
    """Documents whose own identifiers are all distinct but one of whose checkpoints carries the alias of a checkpoint
    that validation generates itself (stitched connections, psuedo-checkpoints of threads): whatever else is said about
    such a document, it must not be reported as containing duplicates."""
    import os, glob
    from corr import interp as I
    bases = []
    for f in sorted(glob.glob(os.path.join(ctx.repo_copy, "schemas", "test", "*.json"))):
        rel = os.path.relpath(f, os.path.join(ctx.repo_copy, "schemas"))[:-5]
        try:
            bases.append(("file:" + rel, json.load(open(f))))
        except Exception:
            continue
        bases.append(("imports:" + rel, I.importing_doc(rel)))
    acc = I.run_verdicts(ctx.repo_copy, [b[1] for b in bases], mode="--full")
    bases = [b for b, v in zip(bases, acc) if v == "accept"]
    aliases = I.run_verdicts(ctx.repo_copy, [b[1] for b in bases], mode="--aliases")
    dep = {"compare": {"left": {"ref": "action:0.object_promise.completed"}, "right": {"value": True}, "operator": "DOES_NOT_EQUAL"}}
    docs = []
    for (name, doc), al in zip(bases, aliases):
        own = set(c.get("alias") for c in doc.get("checkpoints", []) if isinstance(c, dict))
        ids = [c.get("id") for c in doc.get("checkpoints", []) if isinstance(c, dict) and isinstance(c.get("id"), int)]
        # the hand-written checkpoint is a copy of a checkpoint of the document (so that it is well typed there) with the
        # operator of its single comparison flipped (so that it is no duplicate of the original)
        flip = {"EQUALS": "DOES_NOT_EQUAL", "DOES_NOT_EQUAL": "EQUALS", "GREATER_THAN": "LESS_THAN", "LESS_THAN": "GREATER_THAN",
                "ONE_OF": "NONE_OF", "NONE_OF": "ONE_OF", "CONTAINS": "DOES_NOT_CONTAIN", "DOES_NOT_CONTAIN": "CONTAINS"}
        tmpl = next((c for c in doc.get("checkpoints", []) if isinstance(c, dict) and isinstance(c.get("dependencies"), list) and len(c["dependencies"]) == 1
                     and isinstance(c["dependencies"][0], dict) and isinstance(c["dependencies"][0].get("compare"), dict)
                     and c["dependencies"][0]["compare"].get("operator") in flip and "context" not in c), None)
        for a in al:
            if a in own or not a.startswith("_"):
                continue
            d = copy.deepcopy(doc)
            if tmpl is not None:
                new = copy.deepcopy(tmpl)
                new["id"], new["alias"] = max(ids + [0]) + 50, a
                new["dependencies"][0]["compare"]["operator"] = flip[new["dependencies"][0]["compare"]["operator"]]
            else:
                new = {"id": max(ids + [0]) + 50, "alias": a, "description": "hand written", "dependencies": [dep]}
            d.setdefault("checkpoints", []).append(new)
            # keep it referenced: an action without a dependency waits for it (when the comparison does not mention that action)
            free = [x for x in d.get("actions", []) if isinstance(x, dict) and "depends_on" not in x and "context" not in x
                    and ("action:%s." % x.get("id")) not in json.dumps(new) and ("action:{%s}" % x.get("name")) not in json.dumps(new)]
            if free:
                free[-1]["depends_on"] = "checkpoint:%d" % new["id"]
            docs.append((name, a, d))
    if not docs:
        return 0
    pool = impl.Pool(ctx, 4)
    res = pool.validate_many([d for _, _, d in docs])
    pool.close()
    bad = 0
    for (name, a, d), r in zip(docs, res):
        if any("duplicate" in e for e in r["errors"]) and bad < 2:
            bad += 1
            ctx.violation({"what": "a document whose own identifiers are all distinct is reported as containing duplicates (its checkpoint alias equals one that validation generates)",
                           "base": name, "alias": a, "document": d, "implementation": r})
    # conformant import trees (files that import files, connections at every level generate checkpoints with ids of
    # their own): all identifiers of all documents are distinct, so no duplicate may be reported
    import imports_deep as D
    rng = random.Random(ctx.seed + 31)
    tdocs, tfiles = [], []
    for i in range(30 if ctx.tier == "quick" else 300):
        case = D.gen_valid_deep(rng, threads=(i % 4 == 0))
        for f in case["files"].values():
            f["file"] = None
        tdocs.append(D.render_deep(case, ctx.repo_copy, random.Random(rng.randrange(1 << 30)), ["mixed", "id", "alias"][i % 3], i % 2 == 1))
        files = {}
        for f in case["files"].values():
            try:
                files[f["file"]] = json.load(open(os.path.join(ctx.repo_copy, "schemas", f["file"] + ".json")))
            except Exception:
                files[f["file"]] = None
        tfiles.append(files)
    pool = impl.Pool(ctx, 4)
    tres = pool.validate_many(tdocs)
    pool.close()
    nb = 0
    for d, fl, r in zip(tdocs, tfiles, tres):
        if any("duplicate" in e for e in r["errors"]) and nb < 2:
            nb += 1
            ctx.violation({"what": "a conformant import tree (all identifiers distinct) is reported as containing duplicates", "document": d, "implementation": r,
                           "imported_files": fl})
    return len(docs) + len(tdocs)


def run(ctx):
    ok, thms, log = kernel.proof_step(ctx)
    rng = random.Random(ctx.seed)
    quick = ctx.tier == "quick"
    # ---- kernel correspondence: canonical hash and _validate_unique
    bad_domains = C.check_domains(ctx.repo_copy)
    cases = C.gen_cases(rng, 600 if quick else 6000)
    failing, results, ev1 = kernel.corr_step(ctx, C, cases, C.MAX_PER_FILE, "canon")
    ucases = C.gen_unique_cases(rng, 300 if quick else 3000)
    ufailing, uresults, ev2 = kernel.corr_step(ctx, C, ucases, C.MAX_PER_FILE, "unique", run_impl=C.run_impl_unique, coq_file=C.coq_file_unique)
    violated = C.check_expectations(cases, results)
    for i in violated[:3]:
        ctx.violation({"what": "hash_sorted_object violates the composite-key quantifier of C10 (equal sets must collide, near-equal sets must not, never raise)",
                       "case": cases[i], "implementation_equal": results[i]})
    if not violated:
        for i in failing[:2]:
            ctx.violation({"what": "correspondence T3 canon: Gallina model and utils.hash_sorted_object disagree", "case": cases[i],
                           "implementation_equal": results[i]}, no_input=True)
    for i in ufailing[:2]:
        c = ucases[i]
        ctx.violation({"what": "correspondence T3 unique: Gallina model and SchemaValidator._validate_unique disagree (number of duplicate errors)",
                       "case": c, "implementation_errors": uresults[i]})
    if bad_domains:
        ctx.violation({"what": "the unique / unique_composites constraints of the repository's specs differ from the uniqueness domains of C10",
                       "mismatches": bad_domains}, no_input=True)
    # ---- whole documents: duplicates in every domain at random pair positions; conformant documents report none
    items = engine.make_valid_items(ctx, rng, 80 if quick else 600, variants=2)
    items += engine.make_mutant_items(ctx, rng, 200 if quick else 2000, owners=("C10",))
    # duplicates among entities bound to different thread groups / one bound and one not
    items += engine.make_mutant_items(ctx, rng, 120 if quick else 1200, owners=("C10",), threads=True)
    ev3 = engine.run_items(ctx, items)
    engine.report(ctx, items, "T3 correspondence: duplicates injected into whole documents vs Coq model")
    ctx.coverage["generated_alias_documents"] = generated_alias_documents(ctx)
    n_dir, n_dup, n_acc = directed_reference_duplicates(ctx)
    ctx.coverage["directed_reference_duplicates"] = {"documents": n_dir, "with_duplicate": n_dup, "accepted": n_acc}
    # ---- known findings
    d_same, d_mixed, d2 = kf_docs()
    pool = impl.Pool(ctx, 2)
    r_same, r_mixed, r2 = pool.validate_many([d_same, d_mixed, d2])
    pool.close()
    if r_same["outcome"] == "accept":
        ctx.violation({"what": "two checkpoints with identical gate type and dependencies are accepted", "document": d_same, "implementation": r_same})
    if r_mixed["outcome"] == "accept":
        ctx.known_finding("two checkpoints with the same gate type and the same set of dependencies are accepted when one reference is spelled by id and the other by alias (composite key compares reference text); witness: known_findings.json C10-composite-spelling")
    if r2["outcome"] != "accept":
        ctx.known_finding("two checkpoints whose comparisons differ only in the element order of a literal list ([1, 1.5] vs [1.5, 1]) are reported as duplicates (the canonical form sorts every list); witness: known_findings.json C10-literal-list-order")
    cov = ctx.coverage
    cov["evaluations"] = cov.get("evaluations", 0) + len(cases) + len(ucases)
    cov["distinct_nontrivial"] = cov.get("distinct_nontrivial", 0) + len(set(json.dumps(c, sort_keys=True) for c in cases)) + len(set(json.dumps(c, sort_keys=True, default=str) for c in ucases))
    cov["disagreements_checked"] = cov.get("disagreements_checked", 0) + len(failing) + len(ufailing)
    cov["rule"] = ("hash pairs: composite-key shaped and generic JSON values with y derived from x by shuffling (must collide), retyping one scalar (must differ), dropping/duplicating (must differ), unrelated; unique cases: small arrays per domain with duplicates at random pair positions; whole documents: conformant scenarios and C10 single-fault mutants (duplicate id / name / attribute / milestone / composite); distinct by JSON text")
    cov["samples"] = [cases[0], ucases[0]] + engine.sample_of([it for it in items if it.kind == "mutant"][:1])
    cov["trusted_base"] = ["corr/canon.py (generator, runner of utils.hash_sorted_object and SchemaValidator._validate_unique, JSON->Coq printer)",
                           "SHA-1 and json.dumps treated as injective on canonical forms; the typed canonical form is proved, the text model (exact json.dumps text) is compared"]
    if not (ev1 and ev2 and ev3) and not ctx.violations:
        kernel.obligation_violation(ctx, thms, "; ".join(ctx.notes[-3:]), {"correspondence": "Coq evaluation of C10 cases failed"})
    if not ok and not ctx.violations:
        kernel.obligation_violation(ctx, thms, log)
