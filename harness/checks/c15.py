"""C15: references by id and by alias are interchangeable; names are arbitrary."""
import meta_check
LEVEL = "proof"


def run(ctx):
    meta_check.run_meta(
        ctx, meta_check.variants_c15, n_valid=40, n_mut=90,
        what="respelling references or renaming / renumbering entities changes the verdict",
        rule="conformant scenarios and single-fault mutants (all mutators), each rendered 4 times: every reference by id, every reference by alias, independently mixed spelling per occurrence, and a consistent injective renumbering of all ids / renaming of all names, variables and attribute names; array order fixed; distinct by abstract scenario",
        trusted=["the abstract syntax has no spelling: (kind, id) references; Properties/C15.v proves invariance of the model under injective renumbering and renaming"])
