"""C15: references by id and by alias are interchangeable; names are arbitrary.
Two layers.  (1) The scenario model has no spelling: Properties/C15.v proves invariance under renumbering / renaming, and
the metamorphic family renders every scenario in every spelling (meta_check).  (2) The STRING layer the renderings go
through -- utils.is_global_ref / parse_* / reduce_ref, SchemaValidator._resolve_global_ref, _normalize_ref,
_ref_has_path -- has its own kernel model Model/Resolve.v with theorems in Properties/C15_resolve.v (both spellings of an
entity resolve to it, normalisation is idempotent and keeps the denotation, normal forms of path-free references coincide
exactly for the same entity, unresolvable references are left alone) and its own correspondence corr/resolve.py."""
import random, collections, json
import meta_check, kernel
from corr import resolve as R
LEVEL = "proof"


def resolve_layer(ctx):
    """kernel correspondence of the reference string layer + the theorems of Properties/C15_resolve.v in the evidence"""
    from checks.c16 import extra_property_file
    ok, thms, log = extra_property_file(ctx, "C15_resolve")
    quick = ctx.tier == "quick"
    rng = random.Random(ctx.seed * 1000003 + 15)
    bad_consts = R.check_consts(ctx.repo_copy)
    cases = R.gen_cases(rng, 600 if quick else 6000)
    failing, results, evaluated = kernel.corr_step(ctx, R, cases, R.MAX_PER_FILE, "resolve")

    def payload(i):
        c = cases[i]
        return {"reference": c["ref"], "category": c["cat"], "built_from": c["built"], "implementation": results[i],
                "environment": {"native": c["env"]["native"], "imported_schemas": c["env"]["imported"], "within_theorem_hypotheses": not c["env"]["odd"]},
                "evaluated_before_on_the_same_validator_instance": [d["ref"] for d in cases[:i] if d["env_id"] == c["env_id"]],
                "how": "SchemaValidator().schema = native collections + imported_schemas; _resolve_global_ref / _normalize_ref / _ref_has_path / utils.* on the reference; one instance per environment"}
    complaints = [(i, b) for i, b in ((i, R.spec_check(cases[i], results[i])) for i in range(len(cases))) if b]
    for i, b in complaints[:3]:
        ctx.violation(dict(payload(i), what="the reference layer violates the property on this input: " + "; ".join(b)))
    if not complaints:
        for i in failing[:3]:
            ctx.violation(dict(payload(i), what="correspondence T3 resolve: the Gallina model (Model/Resolve.v) and the implementation's reference functions disagree"),
                          no_input=True)
    if bad_consts:
        ctx.violation({"what": "ref_types / the reference expressions of patterns.py / the ref_config of a kind differ from the data of Model/Resolve.v",
                       "mismatches": bad_consts}, no_input=True)
    cov = ctx.coverage
    dist = collections.Counter("%s -> %s" % (c["cat"], R.outcome_class(r)) for c, r in zip(cases, results))
    changed = sum(1 for c, r in zip(cases, results) if r["norm_id"] == ["val", c["ref"]]), \
        sum(1 for c, r in zip(cases, results) if r["norm_id"][0] == "val" and r["norm_id"][1] != c["ref"])
    cov["evaluations"] = cov.get("evaluations", 0) + len(cases)
    cov["distinct_nontrivial"] = cov.get("distinct_nontrivial", 0) + len(set((c["env_id"], c["ref"]) for c in cases))
    cov["disagreements_checked"] = cov.get("disagreements_checked", 0) + len(failing)
    cov["resolve_layer"] = {"cases": len(cases), "environments": len(set(c["env_id"] for c in cases)),
                            "environments_outside_theorem_hypotheses": len(set(c["env_id"] for c in cases if c["env"]["odd"])),
                            "category_outcome": dict(sorted(dist.items())), "normalize_unchanged": changed[0], "normalize_rewrites": changed[1],
                            "model_disagreements": len(failing), "property_complaints": len(complaints),
                            "compared_per_case": ["_resolve_global_ref (identity of the item)", "_normalize_ref", "_normalize_ref(to_alias=True)",
                                                  "_normalize_ref(to_alias=True, alias_attribute_name='alias')", "_ref_has_path", "reduce_ref", "is_global_ref",
                                                  "is_import_ref", "truncate_schema_id", "parse_schema_id", "parse_ref_type", "parse_ref_id", "as_ref / prepend_schema_id"]}
    cov["rule"] = cov.get("rule", "") + ("; reference string layer: environments of 1-6 entities per kind with confusable ids (0,1,10,11,2,12...), names that are decimal spellings of "
                                         "other entities' ids, odd names, 0-2 loaded imported schemas overlapping the native ids and names; per environment every spelling of its "
                                         "entities with / without paths and qualifiers, unloaded and number-spelled qualifiers, dangling ids and aliases, wrong kinds, lexically "
                                         "broken and randomly damaged strings; distinct by (environment, text)")
    cov["samples"] = list(cov.get("samples", []))[:3] + [{"reference": cases[0]["ref"], "implementation": results[0]}]
    cov["trusted_base"] = list(cov.get("trusted_base", [])) + [
        "corr/resolve.py (generator of environments and reference strings, runner of the real reference functions on a SchemaValidator whose .schema is the environment, printer of cases as Coq terms)",
        "Model/Resolve.v mirrors re.match for the three reference expressions of patterns.py by hand (source text compared on every run); ASCII"]
    if not evaluated and not ctx.violations:
        kernel.obligation_violation(ctx, thms, "; ".join(ctx.notes[-3:]), {"correspondence": "Coq evaluation of the reference-layer cases failed"})
    if not ok and not ctx.violations:
        kernel.obligation_violation(ctx, thms, log)


def run(ctx):
    meta_check.run_meta(
        ctx, meta_check.variants_c15, n_valid=40, n_mut=90,
        what="respelling references or renaming / renumbering entities changes the verdict",
        rule="conformant scenarios and single-fault mutants (all mutators), each rendered 4 times: every reference by id, every reference by alias, independently mixed spelling per occurrence, and a consistent injective renumbering of all ids / renaming of all names, variables and attribute names; array order fixed; distinct by abstract scenario",
        trusted=["the abstract syntax has no spelling: (kind, id) references; Properties/C15.v proves invariance of the model under injective renumbering and renaming"])
    resolve_layer(ctx)
