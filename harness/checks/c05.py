"""C05: decided on the scenario model (Model/Rules.v): theorems in Properties/C05.v about what acceptance guarantees;
tie: whole validator vs model on conformant scenarios and on single-fault mutants owned by C05."""
import scen_check
LEVEL = "proof"
OWNERS = ("C05",)


def run(ctx):
    scen_check.scenario_check(
        ctx, owners=OWNERS, n_valid=60, n_mut=260,
        rule="conformant scenarios (half with thread groups, two renderings each) and single-fault mutants owned by C05 (see harness/mutators.py), each mutant applied to a fresh conformant scenario; non-trivial = every mutant and every conformant scenario with a checkpoint; distinct by abstract scenario",
        trusted=[], prop_files=PROP_FILES if "PROP_FILES" in globals() else None)
    # scope through import connections: a checkpoint bound to a native thread group added to an imported action or checkpoint
    import random, engine
    scale = 1 if ctx.tier == "quick" else 10
    engine.import_family(ctx, random.Random(ctx.seed + 5), 8 * scale, 24 * scale, only=("scope_violation_through_connection",),
                         what="T3 correspondence: thread scope through import connections, whole validator vs Coq model (Model/Imports.v)")
