"""C05: decided on the scenario model (Model/Rules.v): theorems in Properties/C05.v about what acceptance guarantees;
tie: whole validator vs model on conformant scenarios and on single-fault mutants owned by C05."""
import scen_check
LEVEL = "proof"
OWNERS = ("C05",)


def run(ctx):
    scen_check.scenario_check(
        ctx, owners=OWNERS, n_valid=60, n_mut=260,
        rule="conformant scenarios (half with thread groups, two renderings each) and single-fault mutants owned by C05 (see harness/mutators.py), each mutant applied to a fresh conformant scenario; non-trivial = every mutant and every conformant scenario with a checkpoint; distinct by abstract scenario",
        trusted=[], prop_files=PROP_FILES if "PROP_FILES" in globals() else None)
    # scope through import connections: a checkpoint bound to a native thread group added to an imported action or checkpoint
    import random, engine
    scale = 1 if ctx.tier == "quick" else 10
    engine.import_family(ctx, random.Random(ctx.seed + 5), 8 * scale, 24 * scale, only=("scope_violation_through_connection",),
                         what="T3 correspondence: thread scope through import connections, whole validator vs Coq model (Model/Imports.v)")
    # a `context` names a thread group and nothing inside it: the same documents (conformant ones and single scope
    # faults) with a path appended to one context reference, in the spelling the document uses, must be rejected
    import copy, impl, scenario as S, mutators as M
    rng = random.Random(ctx.seed + 6)
    docs = []
    for k in range(30 * scale):
        if k % 3 == 2:
            s, name, owner, desc = M.mutate(rng, only=OWNERS, threads=True)
        else:
            s, name, desc = S.gen_valid(rng, threads=True), None, None
        sp = ["id", "alias", "mixed"][k % 3] if name not in M.FORCE_ID_SPELLING else "id"
        doc = S.render(s, random.Random(rng.randrange(1 << 30)), sp, False, False)
        spots = [(coll, i) for coll in ("actions", "checkpoints", "thread_groups", "object_promises") for i, e in enumerate(doc.get(coll) or [])
                 if isinstance(e, dict) and isinstance(e.get("context"), str)]
        rng.shuffle(spots)
        for coll, i in spots[:3]:
            d = copy.deepcopy(doc)
            suffix = rng.choice([".x", ".$object", ".0", ".spawn", ".object_promise"])
            d[coll][i]["context"] += suffix
            docs.append((d, coll, i, d[coll][i]["context"], name))
    pool = impl.Pool(ctx)
    res = pool.validate_many([d[0] for d in docs])
    pool.close()
    acc = [(d, r) for d, r in zip(docs, res) if r["outcome"] == "accept"]
    for d, r in acc[:2]:
        ctx.violation({"what": "a context reference followed by a path is accepted (the entity is then bound to no thread group the scope rules know)",
                       "document": d[0], "position": "%s[%d].context" % (d[1], d[2]), "context": d[3], "underlying_fault": d[4]})
    ctx.coverage["context_with_path"] = {"documents": len(docs), "accepted": len(acc), "raised": sum(1 for r in res if r["outcome"] == "raise")}
    ctx.coverage["evaluations"] = ctx.coverage.get("evaluations", 0) + len(docs)
