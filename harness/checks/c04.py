"""C04: comparisons are accepted exactly when operand types fit the operator.
Proof: Properties/C04.v (exhaustive table from the current source = declarative Cmp, outside the recorded
known finding); tie: T1 tabulation (gen_tables.py) + T3 routes x cells through the whole validator against
the Coq model's typing of operands; search: cells that differ, instantiated as documents."""
import random, json, itertools, subprocess, os
import common, kernel, engine, impl, scenario as S

LEVEL = "proof"

ATTR = {"STRING": 0, "NUMERIC": 1, "BOOLEAN": 2, "STRING_LIST": 3, "NUMERIC_LIST": 4, "BOOLEAN_LIST": 5, "OBJECT": 6, "OBJECT_LIST": 7}
LIT_SHAPES = ["SNull", "SStr", "SInt", "SFloat", "SBool", "SEmpty", "SStrs", "SNums", "SBools"]


def base_scenario():
    t0 = {"id": 0, "name": 100, "attrs": [{"name": i, "kind": ("F", S.FIELD_TYPES[i])} for i in range(6)] +
          [{"name": 6, "kind": ("E", ("type", 0))}, {"name": 7, "kind": ("C", ("type", 0))}]}
    op = lambda: {"incl": ("include", [0]), "defaults": [], "edges": [], "appends": None}
    return {"parties": [{"id": 0, "name": 200}], "otypes": [t0],
            "promises": [{"id": i, "name": 300 + i, "type": ("type", 0), "ctx": None} for i in range(3)],
            "actions": [{"id": i, "name": 400 + i, "party": ("party", 0), "promise": ("promise", i), "ctx": None,
                         "dep": ("checkpoint", 0) if i == 2 else None, "op": op(), "milestones": []} for i in range(3)],
            "checkpoints": [{"id": 0, "alias": 500, "gate": None, "deps": [], "ctx": None}], "groups": []}


def routes():
    r = []
    for ty, a in ATTR.items():
        r.append(("direct:" + ty, [a]))
        r.append(("edge:" + ty, [6, a]))
        r.append(("coll:" + ty, [7, a]))
    r.append(("bare", []))
    r.append(("undeclared", [0, 77]))
    # a path that goes on after a list-typed attribute (directly and through an edge)
    for ty in ("STRING_LIST", "NUMERIC_LIST", "BOOLEAN_LIST"):
        r.append(("pastlist:" + ty, [ATTR[ty], 77]))
        r.append(("edge-pastlist:" + ty, [6, ATTR[ty], 78]))
    return r


def cell_scenario(lroute, op, rroute):
    s = base_scenario()
    def operand(route, action):
        if route[0].startswith("lit:"):
            return ("lit", route[0][4:], 5)
        return ("act", ("action", action), list(route[1]))
    s["checkpoints"][0]["deps"] = [("cmp", operand(lroute, 0), op, operand(rroute, 1))]
    return s


def context_family(rng):
    """The same reference text typed in two contexts: two sibling thread groups that give their variable the SAME
    name but spawn from lists of different item types, each with a threaded action comparing that variable."""
    items = []
    LISTS = {"STRING_LIST": 3, "NUMERIC_LIST": 4, "BOOLEAN_LIST": 5, "OBJECT_LIST": 7}
    LIT = {"STRING": "SStr", "NUMERIC": "SInt", "BOOLEAN": "SBool"}
    for (t1, a1), (t2, a2) in itertools.product(LISTS.items(), LISTS.items()):
        for swap in (False, True):
            s = base_scenario()
            s["checkpoints"][0]["deps"] = [("cmp", ("act", ("action", 0), [0]), "EQUALS", ("lit", "SStr", 1))]
            s["checkpoints"].append({"id": 1, "alias": 501, "gate": None, "deps": [("cmp", ("act", ("action", 0), [1]), "EQUALS", ("lit", "SInt", 2))], "ctx": None})
            gids = [1, 12]
            for k, (t, a, cp) in enumerate(((t1, a1, 0), (t2, a2, 1))):
                g = gids[k]
                s["groups"].append({"id": g, "name": 600 + g, "ctx": None, "dep": ("checkpoint", cp), "src": ("P", ("promise", 0), [a]), "var": 7})
                item = t[:-5]
                if item == "OBJECT":
                    dep = ("cmp", ("var", g, [0]), "EQUALS", ("lit", "SStr", 10 + k))
                else:
                    dep = ("cmp", ("var", g, []), "EQUALS", ("lit", LIT[item], 10 + k))
                cid, aid = 10 + k, 20 + k
                s["checkpoints"].append({"id": cid, "alias": 500 + cid, "gate": None, "deps": [dep], "ctx": ("group", g)})
                s["promises"].append({"id": aid, "name": 300 + aid, "type": ("type", 0), "ctx": ("group", g)})
                s["actions"].append({"id": aid, "name": 400 + aid, "party": ("party", 0), "promise": ("promise", aid), "ctx": ("group", g),
                                     "dep": ("checkpoint", cid), "op": {"incl": ("include", [0]), "defaults": [], "edges": [], "appends": None}, "milestones": []})
            # action 2 of the base scenario depends on checkpoint 0, which the first group also uses: fine
            if swap:
                s["checkpoints"] = s["checkpoints"][:2] + s["checkpoints"][2:][::-1]
                s["groups"].reverse()
            doc = S.render(s, random.Random(rng.randrange(1 << 30)), spelling=rng.choice(["id", "alias", "mixed"]))
            items.append(engine.Item(s, doc, "context", mutator="$v7 : %s in group 1, %s in group 12%s" % (t1, t2, " (reversed)" if swap else ""),
                                     owner="C04", desc="same variable name, two contexts", group="ctx|%s|%s|%s" % (t1, t2, swap)))
    return items


def run(ctx):
    ok, thms, log = kernel.proof_step(ctx, regen=("tables",))
    rng = random.Random(ctx.seed)
    R = routes()
    lits = [("lit:" + sh, None) for sh in LIT_SHAPES]
    direct = [r for r in R if r[0].startswith("direct:")]
    cells = []
    if ctx.tier == "quick":
        cells += [(l, o, r) for l in direct for o in S.OPS for r in direct + lits]                   # 8 x 14 x 17
        others = [(l, o, r) for l in R for o in S.OPS for r in R + lits if not (l in direct and r in direct + lits)]
        cells += rng.sample(others, 500) + [(l, o, r) for l in lits[:3] for o in S.OPS[:2] for r in direct]
        # systematically: paths past a list attribute against what the list itself would fit; literal against literal
        past = [r for r in R if "pastlist:" in r[0]]
        extra = [(l, o, r) for l in past for o in ("CONTAINS", "EQUALS", "DOES_NOT_CONTAIN") for r in lits[:5] + direct[:3]]
        extra += [(l, o, r) for l in lits[:2] for o in ("CONTAINS", "ONE_OF") for r in past if o in S.OPS]
        extra += [(l, o, r) for l in lits for o in ("EQUALS", "DOES_NOT_EQUAL", "CONTAINS", "GREATER_THAN") for r in lits]
        cells += [c for c in extra if c not in cells]
    else:
        cells += [(l, o, r) for l in R for o in S.OPS for r in R + lits] + [(l, o, r) for l in lits for o in S.OPS for r in R + lits]
    items = []
    for (l, o, r) in cells:
        s = cell_scenario(l, o, r)
        doc = S.render(s, random.Random(1), spelling="id")
        items.append(engine.Item(s, doc, "cell", mutator="%s %s %s" % (l[0], o, r[0]), owner="C04", desc="route x cell", group="%s|%s|%s" % (l[0], o, r[0])))
    # random scenarios with C04 mutants as well
    items += engine.make_valid_items(ctx, rng, 40 if ctx.tier == "quick" else 300, variants=2)
    # thread variables and threaded promises: the same variable name / reference typed in different contexts
    items += engine.make_valid_items(ctx, rng, 60 if ctx.tier == "quick" else 400, variants=2, threads=True)
    items += engine.make_mutant_items(ctx, rng, 150 if ctx.tier == "quick" else 1500, owners=("C04",))
    # operand typing depends on the thread context the comparison is resolved from
    items += context_family(rng)
    items += engine.make_mutant_items(ctx, rng, 120 if ctx.tier == "quick" else 1200,
                                      owners=("threaded_action_compared_outside", "variable_used_outside", "threaded_checkpoint_used_outside"), threads=True)
    evaluated = engine.run_items(ctx, items)
    dis, uneval = engine.report(ctx, items, "T3 correspondence: comparison typing through the whole validator vs Coq model")
    # known finding: replay its witness
    kf = [it for it in items if it.kind == "cell" and it.mutator in ("direct:STRING CONTAINS direct:STRING", "direct:STRING DOES_NOT_CONTAIN direct:STRING")]
    if any(it.res["outcome"] == "accept" for it in kf):
        ctx.known_finding("STRING CONTAINS / DOES_NOT_CONTAIN STRING is accepted (substring containment is outside the operator families of the statement); witness: action:0.object_promise.attr0 CONTAINS action:1.object_promise.attr0")
    ctx.coverage.update({
        "rule": "cells = (left route, operator, right route): routes are direct attribute / through an edge / through an edge collection / bare promise / undeclared path for each of the 8 types, and literals of 9 JSON shapes; quick = all 8x14x17 direct cells + 500 sampled others; plus random conformant scenarios and C04 single-fault mutants; distinct by cell or by scenario",
        "samples": engine.sample_of([it for it in items if it.kind == "cell"][:2] + [it for it in items if it.kind == "mutant"][:1]),
        "exhaustive": ctx.tier == "thorough",
        "trusted_base": ["T1: tools/gen_tables.py calls validation.utils.types_are_comparable on all 11x14x11 triples (exhaustive)",
                         "T3: renderer scenario->JSON (harness/scenario.py); operand typing of the Coq model (Model/Rules.v: walk, promise_path_type, operand_type) is compared, not proved equal to the Python"]})
    # comparisons whose operands reach into imported schemas (paths through imported edges and edge collections)
    evaluated = engine.import_family(ctx, random.Random(ctx.seed + 4), 30 if ctx.tier == "quick" else 300,
                                     what="T3 correspondence: comparison typing across import files vs Coq model (Model/Imports.v)") and evaluated
    if (not ok) and not ctx.violations:
        # the table theorem broke: look for the cells that changed and instantiate them
        found = search_table_cells(ctx)
        if not found:
            kernel.obligation_violation(ctx, thms, log)
    if not evaluated and not ctx.violations:
        kernel.obligation_violation(ctx, thms, "; ".join(ctx.notes[-2:]), {"correspondence": "Coq evaluation of C04 cases failed"})


def search_table_cells(ctx):
    """Which cells of the implementation's table differ from the specification?  Show each on a document."""
    code = r'''
import sys, json, itertools
sys.path.insert(0, %r)
from validation import utils
import enums
NULL = utils.field_type_from_python_type_name("NoneType")
T = ["STRING","NUMERIC","BOOLEAN","STRING_LIST","NUMERIC_LIST","BOOLEAN_LIST","OBJECT","OBJECT_LIST"]
out=[]
for l in T+[NULL,"LIST",None]:
    for o in enums.comparison_operators:
        for r in T+[NULL,"LIST",None]:
            try: v=bool(utils.types_are_comparable(l,r,o))
            except Exception as e: v="raise"
            out.append([l,o,r,v])
print(json.dumps(out))
''' % ctx.repo_copy
    r = subprocess.run([common.PY, "-W", "ignore", "-c", code], capture_output=True, text=True, env=ctx.impl_env())
    if r.returncode != 0:
        return False
    name = {"NULL": "TNULL", "LIST": "TLIST", None: "TNONE"}
    bad = []
    for l, o, rr, v in json.loads(r.stdout):
        L, Rr = name.get(l, l), name.get(rr, rr)
        exp = S.py_cmp(L, o, Rr) or (L == Rr == "STRING" and o in ("CONTAINS", "DOES_NOT_CONTAIN"))
        if v != exp:
            bad.append((L, o, Rr, v))
    found = False
    pool = impl.Pool(ctx)
    for (L, o, Rr, v) in bad[:40]:
        def route(t, lit_ok):
            if t in ATTR:
                return ("direct:" + t, [ATTR[t]])
            if t == "TNONE":
                return ("undeclared", [0, 77])
            return ("lit:" + {"TNULL": "SNull", "TLIST": "SEmpty"}[t], None) if lit_ok else None
        lr, rr_ = route(L, True), route(Rr, True)
        if lr[0].startswith("lit:") and rr_[0].startswith("lit:"):
            continue
        s = cell_scenario(lr, o, rr_)
        doc = S.render(s, random.Random(1), spelling="id")
        res = pool.validate_many([doc])[0]
        exp = S.py_cmp(L, o, Rr)
        if (res["outcome"] == "accept") != exp:
            found = True
            ctx.violation({"what": "comparison verdict differs from the specification", "cell": [L, o, Rr], "table_says": v,
                           "specification_says": exp, "implementation": res, "document": doc, "scenario": s})
            if len(ctx.violations) >= 3:
                break
    pool.close()
    return found
