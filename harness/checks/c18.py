"""C18 (shares the layout model, the correspondence and the same-instance histories with C17; see checks/c17.py,
which selects theorems, spec clauses and messages by ctx.prop)."""
from checks.c17 import run, LEVEL  # noqa
