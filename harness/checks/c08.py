"""C08: aggregation pipelines are type-checked end to end.  Theorems: Properties/C08.v (the T1 tables Combine / Aggregate /
InitOk equal the implementation's tables) and Properties/C08_pipeline.v (what acceptance by Model/PipeRules.v guarantees);
tie: whole validator vs model on conformant scenarios with pipelines, on single-fault mutants owned by C08 and on the
(variable type, initial value, method, source type, source step) cells."""
import pipes
LEVEL = "proof"
OWNERS = ("C08",)


def families(ctx, rng):
    cells = pipes.all_cells()
    if ctx.tier == "quick":
        good = [c for c in cells if pipes.cell_expected(c)]
        cells = rng.sample(good, min(30, len(good))) + rng.sample(cells, 50)
    return pipes.make_family_items(rng, "cell", cells, pipes.cell_scenario)


def run(ctx):
    pipes.run_check(
        ctx, owners=OWNERS, n_valid=60, n_mut=200, families=families, prop_files=("C08_pipeline",),
        rule="conformant scenarios with 0-2 aggregation pipelines (half with thread groups, two renderings each), single-fault mutants owned by C08 (harness/pipes.py: initial value, method, SET order, aggregation operator, filter clause at every depth/position, step on a wrong source, output type incl. object type), each applied to a fresh conformant scenario, and cells (variable type x initial x method x source type x step) on a fixed two-promise scenario (quick: a sample balanced between accepted and rejected cells; thorough: all 26400); non-trivial = every item with a pipeline; distinct by abstract scenario",
        trusted=[])
