"""C08: aggregation pipelines are type-checked end to end.  Theorems: Properties/C08.v (the T1 tables Combine / Aggregate /
InitOk equal the implementation's tables) and Properties/C08_pipeline.v (what acceptance by Model/PipeRules.v guarantees);
tie: whole validator vs model on conformant scenarios with pipelines, on single-fault mutants owned by C08 and on the
(variable type, initial value, method, source type, source step) cells."""
import pipes
LEVEL = "proof"
OWNERS = ("C08",)


def families(ctx, rng):
    cells = pipes.all_cells()
    if ctx.tier == "quick":
        good = [c for c in cells if pipes.cell_expected(c)]
        cells = rng.sample(good, min(30, len(good))) + rng.sample(cells, 50)
    return pipes.make_family_items(rng, "cell", cells, pipes.cell_scenario)


def mixed_initials(ctx):
    """Initial values that no variable type admits: lists whose items are of different JSON types (numbers with
    booleans in either order -- Python's bool is an int --, with strings, with null, nested lists) and scalars for
    list types, on an otherwise accepted pipeline.  Oracle: the property statement (an initial value fits the
    declared type)."""
    import random, json, copy, impl
    import scenario as S
    cells = [c for c in pipes.all_cells() if pipes.cell_expected(c)]
    docs = []
    bad_lists = [[1, True], [True, 1], [0.5, 2, False], [1, "a"], ["a", 1], ["a", True], [True, "a"], [1, None], [None], [[1]], [1, [2]], [{}]]
    for vt in ("NUMERIC_LIST", "STRING_LIST", "BOOLEAN_LIST"):
        cell = next((c for c in cells if c[0] == vt and c[1] in ("SNums", "SStrs", "SBools", "SEmpty")), None)
        if cell is None:
            continue
        base = S.render(pipes.cell_scenario(cell), random.Random(1), "id", False, False)
        for v in bad_lists + [1, "a", True]:
            if vt == "BOOLEAN_LIST" and v is True:
                pass
            d = copy.deepcopy(base)
            d["pipelines"][0]["variables"][0]["initial"] = v
            docs.append((vt, v, d))
        # the same inside a traversal's variable declarations is covered by the scenario mutants
    for vt, good in (("NUMERIC", [1, 2.5]), ("STRING", ["a"]), ("BOOLEAN", [True])):
        cell = next((c for c in cells if c[0] == vt and c[1] != "SNull"), None)
        if cell is None:
            continue
        base = S.render(pipes.cell_scenario(cell), random.Random(1), "id", False, False)
        for v in (good, [], True if vt != "BOOLEAN" else 1, "x" if vt != "STRING" else 7):
            d = copy.deepcopy(base)
            d["pipelines"][0]["variables"][0]["initial"] = v
            docs.append((vt, v, d))
    pool = impl.Pool(ctx, 4)
    res = pool.validate_many([d for _, _, d in docs])
    pool.close()
    bad = 0
    for (vt, v, d), r in zip(docs, res):
        if r["outcome"] == "accept" and bad < 3:
            bad += 1
            ctx.violation({"what": "a pipeline variable of type %s is accepted with the initial value %s" % (vt, json.dumps(v)), "document": d, "implementation": r})
    return len(docs)


def run(ctx):
    n_mixed = mixed_initials(ctx)
    ctx.coverage["mixed_initial_documents"] = n_mixed
    pipes.run_check(
        ctx, owners=OWNERS, n_valid=60, n_mut=200, families=families, prop_files=("C08_pipeline", "C04"),
        rule="conformant scenarios with 0-2 aggregation pipelines (half with thread groups, two renderings each), single-fault mutants owned by C08 (harness/pipes.py: initial value, method, SET order, aggregation operator, filter clause at every depth/position, step on a wrong source, output type incl. object type), each applied to a fresh conformant scenario, and cells (variable type x initial x method x source type x step) on a fixed two-promise scenario (quick: a sample balanced between accepted and rejected cells; thorough: all 26400); non-trivial = every item with a pipeline; distinct by abstract scenario",
        trusted=[])
