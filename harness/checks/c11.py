"""C11: structurally non-conformant documents are never accepted; inert additions never reject.
Proof: Properties/C11.v (regenerated specs refine the grammar G; interpreter monotone in the spec; unknown
and descriptive additions are inert).  Tie: T2 gen_specs.py dumps the repository's obj_specs as Coq terms
every run; T3 corr/interp.py runs the implementation's structural layer in isolation against Model/Interp.v
on damaged documents.  Search oracle: the grammar G evaluated in Coq vs the complete validator."""
import random, json, collections
import common, kernel
from corr import interp as I

LEVEL = "proof"


def coq_file_grammar(cases, full_accepts):
    """indices where the complete validator ACCEPTS a document the grammar G rejects"""
    lines = ["From Coq Require Import List String ZArith Bool.",
             "From OIS Require Import Base.Json Model.Regex Model.Interp Gen.Specs Spec.Grammar.",
             "Import ListNotations.", "Open Scope string_scope.", ""]
    for i, c in enumerate(cases):
        lines.append("Definition doc_%d : json := %s." % (i, I.coq_json(c["doc"])))
    lines.append("Definition cases : list (json * bool) := [%s]." %
                 "; ".join("(doc_%d, %s)" % (i, "true" if r else "false") for i, r in enumerate(full_accepts)))
    lines.append("Definition failing : list nat :=\n"
                 "  (fix go (i : nat) (l : list (json * bool)) : list nat :=\n"
                 "     match l with\n     | [] => []\n"
                 "     | (d, b) :: r => if b && negb (interp G_env default_fuel G_root d) then i :: go (S i) r else go (S i) r\n"
                 "     end) 0 cases.")
    lines.append("Eval vm_compute in failing.")
    return "\n".join(lines) + "\n"


def run(ctx):
    ok, thms, log = kernel.proof_step(ctx, regen=("specs",))
    rng = random.Random(ctx.seed)
    n = 700 if ctx.tier == "quick" else 8000
    cases = I.root_cases(ctx.repo_copy) + I.directed_cases() + I.alias_collision_cases(ctx.repo_copy) + I.twin_cases(ctx.repo_copy) + I.exclusive_pair_cases(ctx.repo_copy) + I.short_array_cases(ctx.repo_copy) + I.enum_near_cases(ctx.repo_copy) + I.gen_cases(rng, n, ctx.repo_copy)
    if getattr(ctx, "replay_file", None):
        cases = [json.load(open(ctx.replay_file))["case"]]
    verdicts = I.run_verdicts(ctx.repo_copy, [c["doc"] for c in cases])
    results = [v == "accept" for v in verdicts]
    failing, _, ev1 = kernel.corr_step(ctx, I, cases, I.MAX_CASES_PER_FILE, "interp", run_impl=lambda root, cs: results)
    full = I.run_verdicts(ctx.repo_copy, [c["doc"] for c in cases], mode="--full")
    full_acc = [v == "accept" for v in full]
    holes, _, ev2 = kernel.corr_step(ctx, I, cases, I.MAX_CASES_PER_FILE, "grammar", run_impl=lambda root, cs: full_acc,
                                     coq_file=coq_file_grammar)
    bases = I.base_documents(ctx.repo_copy)
    base_full = dict(zip([b[0] for b in bases], I.run_verdicts(ctx.repo_copy, [b[1] for b in bases], mode="--full")))
    inert_bad = [i for i, c in enumerate(cases) if c["inert"] and base_full.get(c["base"]) == "accept" and not full_acc[i]]
    leak = [i for i in range(len(cases)) if full_acc[i] and not results[i]]
    for i in holes[:3]:
        ctx.violation({"what": "a structurally non-conformant document (rejected by the grammar G) is accepted by the validator",
                       "damage": cases[i]["kind"], "where": cases[i]["path"], "base": cases[i]["base"], "case": cases[i]})
    for i in inert_bad[:3]:
        ctx.violation({"what": "an inert addition (unknown / descriptive property) turns an accepted document into a rejected one",
                       "addition": cases[i]["kind"], "where": cases[i]["path"], "base": cases[i]["base"], "case": cases[i], "verdict": full[i]})
    if not ctx.violations:
        for i in failing[:3]:
            ctx.violation({"what": "correspondence T3 interp: Model/Interp.v and the implementation's structural layer disagree; no document found that the validator wrongly accepts",
                           "damage": cases[i]["kind"], "where": cases[i]["path"], "case": cases[i], "structural_layer": verdicts[i]}, no_input=True)
        for i in leak[:1]:
            ctx.violation({"what": "isolation of the structural layer broke: accepted by the complete validator but rejected by the isolated structural layer",
                           "case": cases[i]}, no_input=True)
    kinds = collections.Counter((c["kind"].split(":")[0] if "+" not in c["kind"] else "double") + "/" + v for c, v in zip(cases, verdicts))
    ctx.coverage.update({
        "evaluations": len(cases), "distinct_nontrivial": len(set(json.dumps(c["doc"], sort_keys=True) for c in cases if not c["inert"])),
        "rule": "damage of shipped schemas and a synthetic fixture (nested traversals, filters, maps, imports): every location x damage kind (delete key, 9 replacement values, reserved / unknown / forbidden / mutually exclusive keys, truncation, enum and pattern breaks, gate_type vs dependency count) + directed edge cases + 20% inert additions; non-trivial = damaged; distinct by document text",
        "samples": [{"kind": cases[i]["kind"], "path": cases[i]["path"], "base": cases[i]["base"], "structural": verdicts[i], "complete": full[i]} for i in (0, len(cases) // 2, len(cases) - 1)],
        "disagreements_checked": len(failing) + len(holes) + len(inert_bad),
        "distribution": dict(kinds), "complete_validator": dict(collections.Counter(full)),
        "trusted_base": ["tools/gen_specs.py (T2: dumps obj_specs / pipeline_obj_specs / patterns / enums as Coq terms; fails closed on unknown keys, regexes, constraint kinds)",
                         "corr/interp.py: isolates the structural layer by overriding semantic validation functions and reference resolution in a subclass (no source edits)",
                         "Model/Regex.v recognisers for the regexes of patterns.py (ASCII inputs; Python's '$' before a trailing newline modelled)",
                         "Spec/Grammar.v: hand transcription of the README / property grammar"]})
    if not (ev1 and ev2) and not ctx.violations:
        kernel.obligation_violation(ctx, thms, "; ".join(ctx.notes[-3:]), {"correspondence": "Coq evaluation of C11 cases failed"})
    if not ok and not ctx.violations:
        # which constraint got loosened?  ask the diagnostic variant of spec_le
        okd, out = ctx.coq_eval("diag", "From Coq Require Import String List.\nFrom OIS Require Import Gen.Specs Spec.Grammar Model.Interp.\nEval vm_compute in (refines_diag spec_env root_spec G_env G_root).\n")
        kernel.obligation_violation(ctx, thms, log, {"spec_le_diagnostic": out[-800:]})
