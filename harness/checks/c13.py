"""C13: validation is a pure, repeatable function of the document.
Proof: Properties/C13.v -- def/use data regenerated from the source by an ast pass (every field written outside
__init__ is re-initialised at the start of validate()) + generic state-machine theorem for histories of any length.
Tie / search: histories of validate() calls on one real instance vs a fresh instance (exact error lists), the three
entry points, the caller's dict unchanged, module-level specification data unchanged."""
import random, json, copy, os, glob, collections
import common, kernel, engine, impl, scenario as S, mutators as M

LEVEL = "proof"


@impl.register
def history_one(payload):
    """payload: {"docs": [doc...], "calls": [(doc_index, entry)...]}; returns list of problems"""
    import json as js, copy as cp, tempfile, os as _os
    from validation.schema_validator import SchemaValidator
    from validation import obj_specs, pipeline_obj_specs
    docs, calls = payload["docs"], payload["calls"]
    problems = []

    def fresh(doc):
        try:
            return ("ok", SchemaValidator().validate(json_string=js.dumps(doc)))
        except BaseException as e:  # noqa
            return ("raise", type(e).__name__)
    specs_before = js.dumps([obj_specs.root_object, obj_specs.action, obj_specs.checkpoint, obj_specs.thread_group,
                             pipeline_obj_specs.pipeline, pipeline_obj_specs.apply, pipeline_obj_specs.filter_comparison], sort_keys=True, default=str)
    expected = [fresh(d) for d in docs]
    v = SchemaValidator()
    tmpdir = tempfile.mkdtemp(prefix="ois-c13-")
    try:
        for step, (i, entry) in enumerate(calls):
            d = docs[i]
            try:
                if entry == "dict_literal":
                    # the document as a Python literal: its strings are the interpreter's interned constants (the same
                    # objects as the literals in the validator's own source), unlike strings decoded from JSON
                    mine = eval(compile(repr(d), "<document literal>", "eval"), {"true": True, "false": False, "null": None})
                    got = ("ok", v.validate(schema_dict=mine))
                elif entry == "dict":
                    mine = cp.deepcopy(d)
                    before = js.dumps(mine, sort_keys=True)
                    got = ("ok", v.validate(schema_dict=mine))
                    if js.dumps(mine, sort_keys=True) != before:
                        problems.append({"kind": "caller's dict was modified", "step": step, "doc": i,
                                         "added_keys": sorted(set(mine) - set(d))})
                    # the same object again, on a new validator
                    again = ("ok", SchemaValidator().validate(schema_dict=mine))
                    if again != expected[i]:
                        problems.append({"kind": "validating the same dict object again gives a different result", "step": step, "doc": i,
                                         "first": expected[i][1][:3] if expected[i][0] == "ok" else expected[i], "again": again[1][:3] if again[0] == "ok" else again})
                elif entry == "file":
                    # one path per document (the same path recurs when a document is submitted again), and for every
                    # third history one path for all documents (the file's content changes between calls)
                    path = _os.path.join(tmpdir, "shared.json" if len(calls) % 3 == 0 else "doc%d.json" % i)
                    text = js.dumps(d)
                    if not (_os.path.exists(path) and open(path).read() == text):      # an unchanged file is left untouched
                        with open(path, "w") as f:
                            f.write(text)
                    got = ("ok", v.validate(json_file_path=path))
                elif entry == "file_elsewhere":
                    # the file lives in a directory called `schemas` that is not the repository's own (a copy elsewhere,
                    # holding nothing else): where a document comes from is no part of the document
                    edir = _os.path.join(tmpdir, "elsewhere", "schemas", "sub")
                    _os.makedirs(edir, exist_ok=True)
                    path = _os.path.join(edir, "doc%d.json" % i)
                    with open(path, "w") as f:
                        f.write(js.dumps(d))
                    got = ("ok", v.validate(json_file_path=path))
                elif entry in ("next_id", "all_ids"):
                    # the two other public entry points: they validate the file and answer from the validated schema
                    import io, contextlib
                    path = _os.path.join(tmpdir, "shared.json" if len(calls) % 3 == 0 else "doc%d.json" % i)
                    text = js.dumps(d)
                    if not (_os.path.exists(path) and open(path).read() == text):
                        with open(path, "w") as f:
                            f.write(text)
                    ids = [a["id"] for a in d["actions"]] if isinstance(d, dict) and isinstance(d.get("actions"), list) else None
                    want = "refused" if expected[i] != ("ok", []) else ((max(ids) + 1 if ids else 0) if entry == "next_id" else ids)
                    try:
                        with contextlib.redirect_stdout(io.StringIO()):
                            have = v.get_next_action_id(path) if entry == "next_id" else v.get_all_action_ids(path)
                    except BaseException as e:  # noqa
                        have = "refused" if str(e) == "Invalid schema" else "raise " + type(e).__name__
                    if have != want:
                        problems.append({"kind": "%s answers %r, a fresh validation of the document implies %r" % (
                            "get_next_action_id" if entry == "next_id" else "get_all_action_ids", have, want), "step": step, "doc": i, "history": calls[:step + 1]})
                        break
                    continue
                else:
                    got = ("ok", v.validate(json_string=js.dumps(d)))
            except BaseException as e:  # noqa
                got = ("raise", type(e).__name__)
            if got != expected[i]:
                problems.append({"kind": "result depends on the history of the instance / entry point", "step": step, "doc": i, "entry": entry,
                                 "fresh": expected[i][1][:3] if expected[i][0] == "ok" else expected[i],
                                 "used": got[1][:3] if got[0] == "ok" else got,
                                 "history": calls[:step + 1]})
                break
    finally:
        import shutil
        shutil.rmtree(tmpdir, ignore_errors=True)
    specs_after = js.dumps([obj_specs.root_object, obj_specs.action, obj_specs.checkpoint, obj_specs.thread_group,
                            pipeline_obj_specs.pipeline, pipeline_obj_specs.apply, pipeline_obj_specs.filter_comparison], sort_keys=True, default=str)
    if specs_before != specs_after:
        problems.append({"kind": "module-level specification data was modified by validation"})
    return problems


def across_processes(ctx, docs):
    """The same documents validated in fresh interpreter processes that differ only in PYTHONHASHSEED (string hashing,
    hence the iteration order of sets of strings, differs per process): the exact error lists must be the same."""
    import subprocess
    code = r'''
import sys, json, os
sys.path.insert(0, %r); os.chdir(%r)
import warnings; warnings.simplefilter("ignore")
from validation.schema_validator import SchemaValidator
out = []
for d in json.load(sys.stdin):
    try:
        out.append(["ok", SchemaValidator().validate(json_string=json.dumps(d))])
    except BaseException as e:
        out.append(["raise", type(e).__name__])
print(json.dumps(out))
''' % (ctx.repo_copy, ctx.repo_copy)
    from concurrent.futures import ThreadPoolExecutor
    seeds = ["0", "1", "2", "3", "77", "4242"]

    def one(seed):
        env = ctx.impl_env()
        env["PYTHONHASHSEED"] = seed
        r = subprocess.run([common.PY, "-W", "ignore", "-c", code], input=json.dumps(docs), capture_output=True, text=True, env=env)
        return json.loads(r.stdout) if r.returncode == 0 else None
    with ThreadPoolExecutor(max_workers=len(seeds) + 1) as ex:
        fut_rev = ex.submit(lambda: None)
        outs = list(ex.map(one, seeds))
    # the same documents in REVERSED order in one more process: what a process has validated before (module-level
    # caches, memoised helpers, one-shot iterators in the specification data) must not change a document's result
    def one_reversed():
        env = ctx.impl_env()
        env["PYTHONHASHSEED"] = "0"
        r = subprocess.run([common.PY, "-W", "ignore", "-c", code], input=json.dumps(docs[::-1]), capture_output=True, text=True, env=env)
        return json.loads(r.stdout)[::-1] if r.returncode == 0 else None
    rev = one_reversed()
    if rev is not None and outs[0] is not None:
        nrev = 0
        for i, d in enumerate(docs):
            if rev[i] != outs[0][i] and nrev < 2:
                nrev += 1
                ctx.violation({"what": "the error list of one document depends on which documents the same interpreter process validated before (documents in reversed order)",
                               "document": d, "validated_in_given_order": outs[0][i][1][:4] if outs[0][i][0] == "ok" else outs[0][i],
                               "validated_in_reversed_order": rev[i][1][:4] if rev[i][0] == "ok" else rev[i],
                               "documents_validated_before_it_in_given_order": docs[max(0, i - 3):i]})
    if any(o is None for o in outs):
        ctx.notes.append("across_processes: a runner failed")
        return 0
    bad = 0
    for i, d in enumerate(docs):
        for sd, o in zip(seeds[1:], outs[1:]):
            if o[i] != outs[0][i]:
                bad += 1
                if bad <= 2:
                    ctx.violation({"what": "the error list of one document differs between interpreter processes (PYTHONHASHSEED 0 vs %s)" % sd,
                                   "document": d, "with_seed_0": outs[0][i][1][:4] if outs[0][i][0] == "ok" else outs[0][i],
                                   "with_seed_%s" % sd: o[i][1][:4] if o[i][0] == "ok" else o[i]})
                break
    return len(docs) * len(seeds)


def families(ctx, rng, n):
    """document families that share ids: a conformant scenario, re-renderings of it, and single-fault variants of it"""
    fams = []
    for k in range(n):
        s, b = S.gen_valid(rng, threads=(k % 2 == 0), builder=True)
        docs = [S.render(s, random.Random(rng.randrange(1 << 30)), "mixed", False, False)]
        docs.append(S.render(s, random.Random(rng.randrange(1 << 30)), "alias", True, True))
        names = sorted(M.MUTATORS)
        for _ in range(3):
            name = rng.choice(names)
            s2 = copy.deepcopy(s)
            b2 = copy.copy(b)
            b2.s = s2
            try:
                desc = M.MUTATORS[name][1](rng, s2, b2)
            except Exception:
                desc = None
            if desc is not None:
                docs.append(S.render(s2, random.Random(rng.randrange(1 << 30)), "mixed", False, False))
        # a variant without its checkpoints' users / without thread groups
        fams.append(docs)
    return fams


def pipeline_families():
    """Synthetic families around one aggregation pipeline: leaked state is keyed by promise references and by
    document paths, so it only bites when the next document reuses them."""
    def base(n=3):
        t = {"id": 0, "name": "Thing", "attributes": [
            {"name": "done", "type": "BOOLEAN"}, {"name": "label", "type": "STRING"}, {"name": "number", "type": "NUMERIC"},
            {"name": "numbers", "type": "NUMERIC_LIST"}, {"name": "edge", "type": "EDGE", "object_type": "object_type:{Thing}"},
            {"name": "objects", "type": "EDGE_COLLECTION", "object_type": "object_type:{Thing}"}]}
        d = {"standard": "s", "terms": [], "parties": [{"id": 0, "name": "P"}], "object_types": [t], "object_promises": [],
             "pipelines": [], "actions": [], "checkpoints": []}
        for i in range(n):
            d["object_promises"].append({"id": i, "name": "promise_%d" % i, "object_type": "object_type:{Thing}"})
            d["actions"].append({"id": i, "name": "action_%d" % i, "description": "d", "party": "party:{P}",
                                 "object_promise": "object_promise:%d" % i, "operation": {"include": ["done"]}})
        d["checkpoints"].append({"id": 0, "alias": "c0", "description": "d", "dependencies": [
            {"compare": {"left": {"ref": "action:0.object_promise.done"}, "right": {"value": True}, "operator": "EQUALS"}}]})
        d["actions"][1]["depends_on"] = "checkpoint:0"
        return d
    fams = []
    for (field, var_t, init, frm, agg, meth) in [("number", "NUMERIC", 0, "object_promise:1.numbers", {"field": "$_item", "operator": "SUM"}, "ADD"),
                                                 ("label", "STRING", "", "object_promise:1.label", None, "CONCAT"),
                                                 ("numbers", "NUMERIC_LIST", [], "object_promise:1.numbers", None, "CONCAT")]:
        A = base()
        ap = {"from": frm, "method": meth, "to": "$v"}
        if agg:
            ap["aggregate"] = agg
        A["pipelines"] = [{"id": 0, "name": "p", "object_promise": "object_promise:0",
                           "variables": [{"name": "$v", "type": var_t, "initial": init}], "apply": [ap],
                           "output": [{"from": "$v", "to": field}]}]
        B = base()      # no pipeline, but a checkpoint that compares the field the pipeline of A writes
        B["checkpoints"][0]["dependencies"][0] = {"compare": {"left": {"ref": "action:0.object_promise.%s" % field},
                                                              "right": {"value": None}, "operator": "EQUALS"}}
        C = copy.deepcopy(A)   # same pipeline path, source that cannot be resolved, filter that needs the cached type
        C["pipelines"][0]["apply"][0]["from"] = "$nosuchvariable"
        D = base()
        D["pipelines"] = [{"id": 0, "name": "p", "object_promise": "object_promise:0",
                           "variables": [{"name": "$o", "type": "OBJECT_LIST", "initial": []}],
                           "apply": [{"from": "object_promise:1.objects", "filter": {"where": [{"left": {"ref": "$_item.number"}, "operator": "GREATER_THAN", "right": 5}]},
                                      "method": "CONCAT", "to": "$o"}], "output": [{"from": "$o", "to": "objects"}]}]
        E = copy.deepcopy(D)
        E["pipelines"][0]["apply"][0]["from"] = "$nosuchvariable"
        fams.append([A, B, C, D, E])
    return fams


def shipped(ctx):
    out = []
    for f in sorted(glob.glob(os.path.join(ctx.repo_copy, "schemas", "test", "*.json"))) + sorted(glob.glob(os.path.join(ctx.repo_copy, "schemas", "*.json"))):
        try:
            out.append(json.load(open(f)))
        except Exception:
            pass
    return out


def run(ctx):
    ok, thms, log = kernel.proof_step(ctx, regen=("state",))
    rng = random.Random(ctx.seed)
    quick = ctx.tier == "quick"
    ship = shipped(ctx)
    payloads = []
    fams = families(ctx, rng, 60 if quick else 600)
    for docs in fams:
        pool_docs = docs + rng.sample(ship, 2)
        for _ in range(2):
            calls = [(rng.randrange(len(pool_docs)), rng.choice(["json", "json", "dict", "dict_literal", "file", "next_id", "all_ids"])) for _ in range(rng.randint(2, 7))]
            payloads.append({"docs": pool_docs, "calls": calls})
    # shipped documents among themselves (pipelines, imports, thread groups)
    for _ in range(60 if quick else 600):
        pool_docs = rng.sample(ship, min(5, len(ship)))
        calls = [(rng.randrange(len(pool_docs)), rng.choice(["json", "dict", "dict_literal", "file", "file", "next_id", "all_ids"])) for _ in range(rng.randint(2, 8))]
        payloads.append({"docs": pool_docs, "calls": calls})
    # the same file submitted again (and again after another file), for every shipped document and family head
    heads = ship + [docs[0] for docs in fams[:20 if quick else 200]]
    for i in range(len(heads)):
        j = (i + 1) % len(heads)
        payloads.append({"docs": [heads[i], heads[j]], "calls": [(0, "file"), (0, "file"), (1, "file"), (0, "file"), (0, "all_ids")]})
    # degenerate documents through every entry point, alone and after another document
    for deg in ({}, [], {"standard": "only"}):
        payloads.append({"docs": [deg, ship[0]], "calls": [(0, "dict"), (0, "json"), (0, "file"), (1, "dict"), (0, "dict"), (0, "file"), (0, "json")]})
        payloads.append({"docs": [ship[1], deg], "calls": [(0, "json"), (1, "dict"), (1, "json")]})
    # documents submitted as files from another `schemas` directory (imports still resolve as for every other entry
    # point), then through the other entry points on the same instance
    for i, d in enumerate(ship):
        if isinstance(d, dict) and d.get("imports"):
            payloads.append({"docs": [d, ship[(i + 1) % len(ship)]], "calls": [(0, "file_elsewhere"), (0, "json"), (1, "file_elsewhere"), (0, "dict"), (1, "json")]})
            payloads.append({"docs": [d], "calls": [(0, "json"), (0, "file_elsewhere"), (0, "json")]})
    for d in rng.sample(ship, min(6, len(ship))):
        payloads.append({"docs": [d], "calls": [(0, "file_elsewhere"), (0, "file"), (0, "json")]})
    # a conformant document, then a DIFFERENT document that a careless fingerprint would take for it: the same content
    # with an order-sensitive array reordered (pipeline operations), or with an empty array written as an empty object
    import pipes as _pp
    n_tw = 0
    for i in range(400):
        if n_tw >= (24 if quick else 240):
            break
        s0, b0 = _pp.gen_valid_p(rng, threads=(i % 4 == 0), n_pipes=rng.choice([1, 2]))
        s2 = copy.deepcopy(s0)
        b2 = copy.copy(b0)
        b2.s = s2
        name = ("p_reorder_first_set", "p_set_not_first", "p_first_not_set")[i % 3]
        try:
            desc = M.MUTATORS[name][1](rng, s2, b2)
        except Exception:
            desc = None
        if desc is None:
            continue
        n_tw += 1
        seed = rng.randrange(1 << 30)
        d0, d2 = S.render(s0, random.Random(seed), "id", False, False), S.render(s2, random.Random(seed), "id", False, False)
        payloads.append({"docs": [d0, d2], "calls": [(0, "json"), (1, "json"), (0, "dict"), (1, "dict")]})
        payloads.append({"docs": [d0, d2], "calls": [(0, "file"), (1, "file"), (1, "json")]})
    for d in ship:
        if isinstance(d, dict):
            for key in ("terms", "pipelines", "thread_groups", "checkpoints"):
                if d.get(key) == []:
                    d2 = dict(copy.deepcopy(d), **{key: {}})
                    payloads.append({"docs": [d, d2], "calls": [(0, "json"), (1, "json"), (0, "dict"), (1, "dict"), (1, "file")]})
                    break
    # every shipped document and pipeline fault as a Python literal and as decoded JSON; a document that imports a file
    # which exists but is not a valid schema, several times in a row
    bad_import = dict(copy.deepcopy(ship[0]), imports=[{"file_name": "example"}])
    payloads.append({"docs": [bad_import, ship[1]], "calls": [(0, "json"), (0, "dict"), (1, "json"), (0, "file"), (0, "json")]})
    for d in ship:
        payloads.append({"docs": [d], "calls": [(0, "dict_literal"), (0, "json"), (0, "dict_literal")]})
    import pipes as _pipes
    for i in range(40 if quick else 400):
        if i % 2:
            s2, name, owner, desc = _pipes.mutate_p(rng, only=("C08", "C09"), threads=(i % 4 == 1))
        else:
            s2 = _pipes.gen_valid_p(rng, threads=(i % 4 == 0), n_pipes=rng.choice([1, 2]))[0]
        d = S.render(s2, random.Random(rng.randrange(1 << 30)), "mixed", False, False)
        payloads.append({"docs": [d], "calls": [(0, "dict_literal"), (0, "json"), (0, "dict")]})
    # pipeline families: a shipped document with and without its pipelines
    for d in ship:
        if d.get("pipelines"):
            d2 = copy.deepcopy(d)
            d2["pipelines"] = []
            payloads.append({"docs": [d, d2], "calls": [(0, "json"), (1, "json"), (0, "dict"), (1, "dict"), (1, "file")]})
    for docs in pipeline_families():
        for i in range(len(docs)):
            for j in range(len(docs)):
                if i != j:
                    payloads.append({"docs": docs, "calls": [(i, "json"), (j, "json")]})
                    payloads.append({"docs": docs, "calls": [(i, "dict"), (j, "file"), (i, "json")]})
    # pairs of DIFFERENT documents whose errors sit at the same document paths (error messages carry context that
    # is cached per path): an unknown attribute in the operation of the k-th action of two unrelated scenarios,
    # with the top-level key order varied
    for k in range(40 if quick else 400):
        pair = []
        for j in range(2):
            s2, b2 = S.gen_valid(rng, rng.choice([3, 4]), threads=False, builder=True)
            idx = k % 3
            a = s2["actions"][min(idx, len(s2["actions"]) - 1)]
            mode, sel = a["op"]["incl"]
            a["op"]["incl"] = (mode, list(sel or []) + [88])
            doc = S.render(s2, random.Random(rng.randrange(1 << 30)), "id", False, False)
            keys = list(doc.keys())
            if (k + j) % 2 == 0:
                keys.remove("actions"); keys.append("actions")          # actions validated last
            else:
                keys.remove("actions"); keys.insert(0, "actions")       # actions validated first
            pair.append({kk: doc[kk] for kk in keys})
        payloads.append({"docs": pair, "calls": [(0, "json"), (1, "json")]})
        payloads.append({"docs": pair, "calls": [(1, "dict"), (0, "json"), (1, "file")]})
    # the same with minimal documents (plain creating actions only, so that the erroneous action is the first and
    # the last place where message context is computed)
    import checks.c04 as c04
    for k in range(12):
        pair = []
        for j in range(2):
            s2 = c04.base_scenario()
            s2["checkpoints"] = []
            off = [0, 5][j] + k
            for i, a in enumerate(s2["actions"]):
                a["id"], a["name"], a["dep"] = off + i, 400 + off + i, None
            bad = k % 3
            s2["actions"][bad]["op"]["incl"] = ("include", [0, 88])
            doc = S.render(s2, random.Random(1), "id", False, False)
            keys = list(doc.keys())
            keys.remove("actions")
            keys = keys + ["actions"] if j == 0 else keys[:2] + ["actions"] + keys[2:]
            pair.append({kk: doc[kk] for kk in keys})
        payloads.append({"docs": pair, "calls": [(0, "json"), (1, "json")]})
        payloads.append({"docs": pair, "calls": [(0, "dict"), (1, "dict")]})
    # importing documents (imported files are written into the snapshot), incl. misdirected connections:
    # stitching rewrites whatever entity a connection's to_ref resolves to
    import imports as I
    for k in range(12 if quick else 120):
        docs = []
        for j in range(3):
            if j == 0:
                case = I.gen_valid_i(rng, threads=(k % 3 == 0))
            else:
                case, _, _ = I.mutate_i(rng, only=("connection_target_native", "connection_target_missing", "cycle_through_connection", "add_dependency_not_native_checkpoint", "imported_schema_invalid", "import_unreadable"))
            docs.append(I.render_i(case, ctx.repo_copy, random.Random(rng.randrange(1 << 30)), "mixed", False, False))
        for _ in range(2):
            calls = [(rng.randrange(len(docs)), rng.choice(["dict", "dict", "json", "file"])) for _ in range(rng.randint(2, 6))]
            payloads.append({"docs": docs, "calls": calls})
    pool = impl.Pool(ctx)
    results = pool.call_many("history_one", payloads, chunk=2)
    pool.close()
    # process-level repeatability: invalid and valid family members (competing fulfillers, duplicates, cycles ...)
    xdocs = [d for docs in fams[:40 if quick else 300] for d in docs] + ship
    # faults whose error messages depend on which of several candidates is picked (competing creators, duplicates ...)
    # pipeline faults (their messages mention types and variables)
    import pipes
    for i in range(60 if quick else 600):
        # (every third one a fault whose message names types or objects)
        only = ("p_object_type_mismatch", "p_output_type_mismatch", "p_agg_unfit") if i % 3 == 0 else ("C08", "C09")
        s2, name, owner, desc = pipes.mutate_p(rng, only=only, threads=(i % 2 == 1))
        xdocs.append(S.render(s2, random.Random(rng.randrange(1 << 30)), "id" if name in M.FORCE_ID_SPELLING else "mixed", False, False))
    for _ in range(60 if quick else 600):
        s2, name, owner, desc = M.mutate(rng, only=("C06", "C10", "C02"))
        xdocs.append(S.render(s2, random.Random(rng.randrange(1 << 30)), "id" if name in M.FORCE_ID_SPELLING else "mixed", rng.random() < 0.5, False))
    n_cross = across_processes(ctx, xdocs)
    ctx.coverage["across_processes"] = {"documents": len(xdocs), "validations": n_cross}
    n_calls = sum(len(p["calls"]) for p in payloads)
    seen = set()
    bad = 0
    for p, probs in zip(payloads, results):
        for pr in probs:
            bad += 1
            if pr["kind"] in seen:
                continue
            seen.add(pr["kind"])
            ctx.violation({"what": pr["kind"], "detail": pr, "documents": p["docs"], "calls": p["calls"]})
    ctx.coverage.update({
        "evaluations": n_calls, "distinct_nontrivial": len(set(json.dumps(p["calls"]) + str(len(p["docs"])) + json.dumps(p["docs"][0], sort_keys=True)[:200] for p in payloads)),
        "rule": "histories of 2-8 validate() calls on one instance over (a) families sharing ids: a conformant scenario, re-renderings of it and up to 3 single-fault variants of the same scenario, mixed with shipped schemas, (b) shipped schemas among themselves (pipelines, imports, thread groups), (c) each shipped schema with pipelines vs the same schema without; entry point drawn per call from dict / JSON string / file / get_next_action_id / get_all_action_ids (the same file path may recur); every call is compared with a fresh instance (exact error list); dict calls also check that the caller's object is unchanged and that validating the same object again gives the same result; distinct by (documents, call sequence)",
        "samples": [{"calls": payloads[0]["calls"], "n_docs": len(payloads[0]["docs"])}],
        "histories": len(payloads), "problems": bad, "disagreements_checked": bad,
        "trusted_base": ["tools/gen_state.py: ast def/use pass (assumes fields are only touched through `self.<name>` syntax)",
                         "Python object identity is observed through deep equality of the caller's dict before/after"]})
    if not ok and not ctx.violations:
        kernel.obligation_violation(ctx, thms, log, {"hint": "a field written during validation is no longer re-initialised at the start of validate(): see Gen/State.v"})
