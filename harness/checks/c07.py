"""C07: action operations touch only existing fields, with the right type and mode.
Proof: Properties/C07.v, C06_ancestry.v (guaranteed ancestry), Proofs/C08Tables.v (default-value table, T1).
Tie: whole validator vs Coq model on conformant scenarios, operation faults, and a systematic family around
appends_objects_to: which shape of action makes which attribute settable."""
import random, itertools
import scen_check, engine, families, scenario as S

LEVEL = "proof"
OWNERS = ("C07",)
PROP_FILES = ["C06_ancestry", "C07_defaults"]


def settable_family(ctx, rng):
    """owner action f acts on promise 1 (type T with edge collection `kids` of T); appender a appends to promise 1.kids.
    Varied: thread context (none / both in one thread group), the shape of f's depends_on (none, own checkpoint, the
    thread group's own checkpoint repeated), whether a second action edits promise 1, and each operation form
    that does or does not make `kids` settable."""
    items = []
    T = lambda: {"id": 0, "name": 100, "attrs": [{"name": 0, "kind": ("F", "STRING")}, {"name": 1, "kind": ("F", "NUMERIC_LIST")},
                                                 {"name": 5, "kind": ("C", ("type", 0))}, {"name": 6, "kind": ("E", ("type", 0))}]}
    op = lambda incl, defaults=(), edges=(), app=None: {"incl": incl, "defaults": list(defaults), "edges": list(edges), "appends": app}
    forms = [("include", [0]), ("include", [0, 5]), ("include", None), ("exclude", [5]), ("exclude", [0]), ("exclude", None), ("exclude", [])]
    combos = [(t, f, e, fo, None) for t, f, e, fo in itertools.product([False, True], ["none", "own", "group"], [False, True], forms)]
    # owner makes `kids` settable while the editor's exclude list leaves it out (and the other way round), the editor
    # declared before or after the owner: what ONE action may set is settable
    for t, f in ((False, "none"), (True, "own"), (True, "group")):
        for owner_form in (("include", [0, 5]), ("exclude", [0]), ("exclude", None), ("exclude", [])):
            for first in ("owner", "editor"):
                combos.append((t, f, True, ("exclude", [5]), (owner_form, first)))
    for threaded, fdep, editor, form, special in combos:
        if not threaded and fdep == "group":
            continue
        ctx_ref = ("group", 12) if threaded else None
        s = {"parties": [{"id": 0, "name": 200}], "otypes": [T()], "promises": [], "actions": [], "checkpoints": [], "groups": []}
        def act(i, prom, dep, o, c=ctx_ref):
            s["actions"].append({"id": i, "name": 400 + i, "party": ("party", 0), "promise": ("promise", prom), "ctx": c, "dep": dep, "op": o, "milestones": []})
        def prom(i, c=ctx_ref):
            s["promises"].append({"id": i, "name": 300 + i, "type": ("type", 0), "ctx": c})
        cmp_ = lambda a, tag: ("cmp", ("act", ("action", a), [0]), "EQUALS", ("lit", "SStr", tag))
        prom(0, None)
        act(0, 0, None, op(("include", [0])), None)                       # root creator, spawn source
        s["checkpoints"].append({"id": 1, "alias": 501, "gate": None, "deps": [cmp_(0, 1)], "ctx": None})
        if threaded:
            s["groups"].append({"id": 12, "name": 612, "ctx": None, "dep": ("checkpoint", 1), "src": ("P", ("promise", 0), [1]), "var": 7})
        # owner f = action 1 on promise 1
        prom(1)
        fdep_ref = None
        if fdep == "own":
            s["checkpoints"].append({"id": 2, "alias": 502, "gate": None, "deps": [cmp_(0, 2)], "ctx": ctx_ref})
            fdep_ref = ("checkpoint", 2)
        elif fdep == "group":
            fdep_ref = ("checkpoint", 1)
        elif not threaded:
            fdep_ref = ("checkpoint", 1)
        owner_form = form if not editor else ("include", [0])
        if special is not None:
            owner_form = special[0]
        if special is not None and special[1] == "editor":
            s["checkpoints"].append({"id": 3, "alias": 503, "gate": None, "deps": [cmp_(1, 3)], "ctx": ctx_ref})
            act(3, 1, ("checkpoint", 3), op(form))          # declared before the owner (it still depends on it)
            act(1, 1, fdep_ref, op(owner_form))
        else:
            act(1, 1, fdep_ref, op(owner_form))
            if editor:
                s["checkpoints"].append({"id": 3, "alias": 503, "gate": None, "deps": [cmp_(1, 3)], "ctx": ctx_ref})
                act(3, 1, ("checkpoint", 3), op(form))
        # appender a = action 2, depends on f, appends to promise 1 . kids
        prom(2)
        s["checkpoints"].append({"id": 4, "alias": 504, "gate": None, "deps": [cmp_(1, 4)], "ctx": ctx_ref})
        act(2, 2, ("checkpoint", 4), op(("include", [0]), app=(("promise", 1), [5])))
        r = {"spelling": rng.choice(["id", "alias", "mixed"]), "shuffle": (rng.random() < 0.5) and special is None, "descriptive": False, "seed": rng.randrange(1 << 30)}
        doc = S.render(s, random.Random(r["seed"]), r["spelling"], r["shuffle"], False)
        items.append(engine.Item(s, doc, "settable", mutator="threaded=%s owner_dep=%s editor=%s form=%s%s" % (threaded, fdep, editor, form, "" if special is None else " owner_form=%s declared_first=%s" % special),
                                 owner="C07", desc="appends vs settable", render=r, group="settable|%s|%s|%s|%s|%s" % (threaded, fdep, editor, form, special)))
    return items


def edges_across_namespaces(ctx):
    """default_edges between a native and an imported object type that share their numeric id (and, in a second
    variant, their name): the edge's declared object type and the type of the referenced promise must be the SAME
    type, schema qualifier included.  Oracle: the property statement (a default edge refers to a promise of the
    edge's own object type fulfilled by an ancestor)."""
    import os, json, copy, itertools, impl
    f = os.path.join(ctx.repo_copy, "schemas", "test", "basic_import.json")
    if not os.path.exists(f):
        return 0
    imp = json.load(open(f))
    it = imp["object_types"][0]
    imported_attr = it["attributes"][0]["name"]
    fn = "test/basic_import"
    docs = []
    for same_name in (False, True):
        native_t = {"id": it["id"], "name": it["name"] if same_name else "Target", "attributes": [{"name": "label", "type": "STRING"}]}
        spell = {"native": ["object_type:%d" % it["id"], "object_type:{%s}" % native_t["name"]],
                 "imported": ["schema:{%s}.object_type:%d" % (fn, it["id"]), "schema:{%s}.object_type:{%s}" % (fn, it["name"])]}
        for edge_ns, prom_ns in itertools.product(("native", "imported"), repeat=2):
            for es, ps in itertools.product(spell[edge_ns], spell[prom_ns]):
                holder = {"id": 5, "name": "Holder", "attributes": [{"name": "label", "type": "STRING"}, {"name": "link", "type": "EDGE", "object_type": es}]}
                act = lambda i, **kw: dict({"id": i, "name": "act %d" % i, "object_promise": "object_promise:%d" % i, "description": "d", "party": "party:{P}",
                                            "operation": {"include": ["label"]}}, **kw)
                first = act(0)
                if prom_ns == "imported":
                    first["operation"] = {"include": [imported_attr]}
                d = {"standard": "c07", "terms": [], "imports": [{"file_name": fn}], "parties": [{"id": 0, "name": "P"}], "pipelines": [],
                     "object_types": [native_t, holder],
                     "object_promises": [{"id": 0, "name": "target", "object_type": ps}, {"id": 1, "name": "holder", "object_type": "object_type:{Holder}"}],
                     "actions": [first, act(1, depends_on="checkpoint:0", operation={"include": ["label"], "default_edges": {"link": "object_promise:0"}})],
                     "checkpoints": [{"id": 0, "alias": "first done", "description": "d", "dependencies": [
                         {"compare": {"left": {"ref": "action:0.object_promise"}, "operator": "DOES_NOT_EQUAL", "right": {"value": None}}}]}],
                     "thread_groups": []}
                docs.append(("edge of %s type (%s) -> promise of %s type (%s)%s" % (edge_ns, es, prom_ns, ps, ", types share the name" if same_name else ""), d, edge_ns == prom_ns))
    pool = impl.Pool(ctx, 4)
    res = pool.validate_many([d for _, d, _ in docs])
    pool.close()
    bad = 0
    for (what, d, ok), r in zip(docs, res):
        if (r["outcome"] == "accept") != ok and bad < 3:
            bad += 1
            ctx.violation({"what": ("a default edge to a promise of another object type is accepted: " if not ok else
                                    "a default edge to a promise of the edge's own object type is not accepted: ") + what,
                           "document": d, "implementation": r})
    ctx.coverage["edges_across_namespaces"] = {"documents": len(docs), "accepted": sum(1 for r in res if r["outcome"] == "accept")}
    return len(docs)


def default_edge_on_decorated_field(ctx):
    """Default edges only for EDGE attributes: a non-edge attribute that carries a stray `object_type` property (extra
    properties of an attribute are ignored) is still no edge, also when the promise given as default has exactly that
    type and is fulfilled by an ancestor.  Control: the same document with the default on the real edge is accepted,
    and the decorated attribute alone (no default edge) is accepted."""
    import impl
    docs = []
    for ty in ("STRING", "NUMERIC", "BOOLEAN", "STRING_LIST", "NUMERIC_LIST", "BOOLEAN_LIST"):
        for stray in ("object_type:0", "object_type:{Target}"):
            for use in ("field", "edge", "none"):
                holder = {"id": 5, "name": "Holder", "attributes": [{"name": "label", "type": "STRING"}, {"name": "link", "type": "EDGE", "object_type": "object_type:{Target}"},
                                                                   {"name": "deco", "type": ty, "object_type": stray}]}
                act = lambda i, **kw: dict({"id": i, "name": "act %d" % i, "object_promise": "object_promise:%d" % i, "description": "d", "party": "party:{P}",
                                            "operation": {"include": ["label"]}}, **kw)
                op = {"include": ["label"]}
                if use != "none":
                    op["default_edges"] = {("deco" if use == "field" else "link"): "object_promise:0"}
                d = {"standard": "c07", "terms": [], "parties": [{"id": 0, "name": "P"}], "pipelines": [],
                     "object_types": [{"id": 0, "name": "Target", "attributes": [{"name": "label", "type": "STRING"}]}, holder],
                     "object_promises": [{"id": 0, "name": "target", "object_type": "object_type:0"}, {"id": 1, "name": "holder", "object_type": "object_type:{Holder}"}],
                     "actions": [act(0), act(1, depends_on="checkpoint:0", operation=op)],
                     "checkpoints": [{"id": 0, "alias": "first done", "description": "d", "dependencies": [
                         {"compare": {"left": {"ref": "action:0.object_promise"}, "operator": "DOES_NOT_EQUAL", "right": {"value": None}}}]}],
                     "thread_groups": []}
                docs.append(("%s attribute with a stray object_type (%s), default edge on %s" % (ty, stray, use), d, use != "field"))
    pool = impl.Pool(ctx, 4)
    res = pool.validate_many([d for _, d, _ in docs])
    pool.close()
    bad = 0
    for (what, d, ok), r in zip(docs, res):
        if (r["outcome"] == "accept") != ok and bad < 3:
            bad += 1
            ctx.violation({"what": ("a default edge for a non-edge attribute is accepted: " if not ok else "a conformant operation is not accepted: ") + what,
                           "document": d, "implementation": r})
    ctx.coverage["default_edge_on_decorated_field"] = {"documents": len(docs), "accepted": sum(1 for r in res if r["outcome"] == "accept")}
    return len(docs)


def run(ctx):
    edges_across_namespaces(ctx)
    default_edge_on_decorated_field(ctx)
    before = len(ctx.violations)
    items = scen_check.scenario_check(
        ctx, owners=OWNERS, n_valid=60, n_mut=260, extra=lambda c, r: settable_family(c, r) + families.guaranteed_family(r), prop_files=PROP_FILES,
        rule="conformant scenarios (half with thread groups, two renderings each), single-fault mutants owned by C07, the guaranteed-ancestry family (5 gate types x 4 x 4 branch shapes incl. diamonds through a shared nested checkpoint), and the settable family: owner action shape (plain / threaded without, with own, with the group's repeated checkpoint) x editor present x 7 operation forms, with an action appending to the owner's edge collection; distinct by abstract scenario",
        trusted=[])
    # a broken obligation without an input (e.g. the tabulated typing of default values no longer matches the
    # specification: model and implementation then agree with each other, wrongly): the conformant-by-construction
    # scenarios the implementation does not accept are the failing inputs
    new = ctx.violations[before:]
    if new and all(v.get("no_input") for v in new):
        bad = [it for it in (items or []) if it.kind == "valid" and it.res and it.res["outcome"] != "accept"]
        for it in bad[:2]:
            ctx.violation({"what": "a conformant-by-construction scenario is not accepted by the implementation while a proof obligation of C07 no longer checks (operations obeying the rules are never rejected)",
                           "document": it.doc, "implementation": it.res, "scenario": it.scenario, "render": it.render})
