"""C07: decided on the scenario model (Model/Rules.v): theorems in Properties/C07.v about what acceptance guarantees;
tie: whole validator vs model on conformant scenarios and on single-fault mutants owned by C07."""
import scen_check
LEVEL = "proof"
OWNERS = ("C07",)


def run(ctx):
    scen_check.scenario_check(
        ctx, owners=OWNERS, n_valid=60, n_mut=260,
        rule="conformant scenarios (half with thread groups, two renderings each) and single-fault mutants owned by C07 (see harness/mutators.py), each mutant applied to a fresh conformant scenario; non-trivial = every mutant and every conformant scenario with a checkpoint; distinct by abstract scenario",
        trusted=[], prop_files=PROP_FILES if "PROP_FILES" in globals() else None)
PROP_FILES = ["C06_ancestry"]
