"""C19 / C20: dependency graph extraction and board emission.
Proof: Properties/C19.v, C20.v over Model/Graph.v, Model/Board.v.  Tie: corr/graph.py compares node list, gates,
labelled edge list, edge_dict, captions and the full Miro request sequences (5 response scripts per case) of
model and implementation on generated valid schemas in every encoding.  Search oracle: the property checked
directly on the implementation's output."""
import random, json, os, subprocess
import common, kernel
from corr import graph as G

LEVEL = "proof"


def refuses_invalid(ctx, rng, n):
    """With validation switched on, a schema the validator rejects must be refused."""
    import mutators as M, scenario as S
    docs = []
    for _ in range(n):
        s, name, owner, desc = M.mutate(rng, only=("C01", "C02", "C04", "C06", "C07", "C10"))
        docs.append((name, S.render(s, random.Random(rng.randrange(1 << 30)), spelling="id" if name in M.FORCE_ID_SPELLING else "mixed")))
    # structurally damaged documents: each root collection removed from a conformant document, and damage of the
    # kinds C11 uses (missing / mistyped / forbidden properties anywhere in the tree)
    import copy
    from corr import interp as I
    import checks.c04 as c04
    flat = c04.base_scenario()          # three independent actions, no checkpoint: every other collection is empty,
    flat["checkpoints"] = []            # so that removing a root property is the document's only defect
    for a in flat["actions"]:
        a["dep"] = None
    goods = [S.render(flat, random.Random(1), spelling="id")]
    goods += [S.render(S.gen_valid(rng), random.Random(rng.randrange(1 << 30)), spelling="mixed") for _ in range(max(2, n // 20))]
    for good in goods:
        for key in list(good):
            d = copy.deepcopy(good)
            del d[key]
            docs.append(("root property %r removed" % key, d))
        for kind in rng.sample(I.DAMAGE_KINDS, 6):
            res = I.damage(rng, good, kind)
            if res is not None and isinstance(res[0], dict):
                docs.append(("structural damage %s at %s" % (kind, res[1]), res[0]))
    code = r'''
import sys, json, os, io, contextlib
sys.path.insert(0, %r); os.chdir(%r)
import warnings; warnings.simplefilter("ignore")
from validation.schema_validator import SchemaValidator
from visualization.dependency_graph import DependencyGraph
out = []
for name, doc in json.load(sys.stdin):
    try:
        valid = SchemaValidator().validate(json_string=json.dumps(doc)) == []
    except BaseException:
        valid = False
    try:
        with contextlib.redirect_stdout(io.StringIO()):
            DependencyGraph(schema_dict=doc, validate_schema=True)
        drawn = True
    except BaseException:
        drawn = False
    out.append([valid, drawn])
print(json.dumps(out))
''' % (ctx.repo_copy, ctx.repo_copy)
    r = subprocess.run([common.PY, "-W", "ignore", "-c", code], input=json.dumps(docs), capture_output=True, text=True, env=ctx.impl_env())
    if r.returncode != 0:
        ctx.notes.append("refuses_invalid runner failed: " + r.stderr[-300:])
        return 0, []
    res = json.loads(r.stdout)
    bad = [(docs[i][0], docs[i][1]) for i, (valid, drawn) in enumerate(res) if (not valid) and drawn]
    return len(res), bad


def run(ctx):
    ok, thms, log = kernel.proof_step(ctx)
    rng = random.Random(ctx.seed)
    n = 400 if ctx.tier == "quick" else 4000
    try:
        cases, results, discarded, rejected = G.prepare(rng, n, ctx.repo_copy)
    except (RuntimeError, subprocess.TimeoutExpired) as e:
        # the implementation could not be run to completion on the generated schemas (crash outside the recorded
        # calls, or no termination within the time limit): the property is no longer shown to hold
        ctx.violation({"what": "the graph / board implementation could not be run on the generated schemas", "detail": str(e)[-1500:]}, no_input=True)
        ctx.coverage.update({"evaluations": 0, "distinct_nontrivial": 0, "rule": "runner failed", "samples": [], "disagreements_checked": 1})
        return
    files = []
    for k in range(0, len(cases), G.MAX_CASES_PER_FILE):
        files.append(("graph_%03d" % (k // G.MAX_CASES_PER_FILE), G.coq_file(cases[k:k + G.MAX_CASES_PER_FILE], results[k:k + G.MAX_CASES_PER_FILE])))
    outs = ctx.coq_eval_many(files)
    failing, evaluated = [], True
    for k, (okc, out) in enumerate(outs):
        fl = common.parse_coq_nat_list(out) if okc else None
        if fl is None:
            evaluated = False
            ctx.notes.append("coq evaluation of graph chunk %d failed: %s" % (k, out[-400:]))
        else:
            failing += [k * G.MAX_CASES_PER_FILE + i for i in fl]
    spec_bad = []
    for i, (c, r) in enumerate(zip(cases, results)):
        msg = G.spec_check(c, r)
        if msg and msg.startswith(ctx.prop):
            spec_bad.append((i, msg))
    strip = lambda c: {k: v for k, v in c.items() if k not in ("job",)}
    for i, msg in spec_bad[:3]:
        ctx.violation({"what": "the implementation's output violates the property", "detail": msg, "case": strip(cases[i]),
                       "document": cases[i]["job"].get("doc"), "implementation": {k: v for k, v in results[i].items() if k != "runs"}})
    n_inv, drawn_invalid = (0, [])
    if ctx.prop == "C19":
        n_inv, drawn_invalid = refuses_invalid(ctx, rng, 40 if ctx.tier == "quick" else 400)
        for name, doc in drawn_invalid[:2]:
            ctx.violation({"what": "DependencyGraph(validate_schema=True) draws a schema the validator rejects", "fault": name, "document": doc})
    # the recorded known finding: gate alias equal to str(action id)
    kf = os.path.join(common.VERIF, "corpus", "C19", "alias_equals_action_id.json")
    if os.path.exists(kf):
        w = json.load(open(kf))
        doc = w.get("document", w)
        job = {"doc": doc, "valid_doc": doc, "validate": True, "scripts": [[1000 + i for i in range(200)]]}
        collided = False
        try:
            res = G.run_impl(ctx.repo_copy, [job])[0]
            n_nodes = len(doc["actions"]) + sum(1 for c in doc["checkpoints"] if len(c.get("dependencies", [])) > 1)
            collided = G.kf_alias_collision(doc) and (("raise" in res) or len(res.get("coords") or {}) < n_nodes)
            ctx.notes.append("known-finding witness: nodes expected %d, coordinates %d, raise=%s" % (n_nodes, len(res.get("coords") or {}), res.get("raise")))
        except BaseException as e:  # noqa
            ctx.notes.append("known-finding witness could not be replayed: %r" % (e,))
        if collided:
            ctx.known_finding("a multi-dependency checkpoint whose alias equals str(id) of an action shares that action's graph node (self loop, no coordinates); witness corpus/C19/alias_equals_action_id.json")
    if not spec_bad and not drawn_invalid:
        for i in failing[:3]:
            ctx.violation({"what": "correspondence T3 graph/board: model and implementation disagree; the property holds on the implementation's output for this input",
                           "case": strip(cases[i]), "document": cases[i]["job"].get("doc")}, no_input=True)
    ctx.coverage.update({
        "evaluations": len(cases) + n_inv, "distinct_nontrivial": len(set(json.dumps(strip(c), sort_keys=True, default=str) for c in cases)),
        "rule": "abstract schemas: random DAGs over 2-12 actions in every encoding (own/shared checkpoints, 1-4 dependencies, nested references to depth 3, one or two action operands, repeated dependency objects, parallel edges, parties with/without colour, actions without party, variable-only comparisons), rendered with random id/alias spelling and accepted by the real validator; 5 response scripts per case (all ok, error at 0, 1 and two random positions); distinct by abstract case",
        "samples": [strip(cases[0])], "disagreements_checked": len(failing) + len(spec_bad),
        "stats": G.case_stats(cases, results), "discarded_rejected_by_validator": discarded, "invalid_documents_tried_with_validation_on": n_inv,
        "trusted_base": ["corr/graph.py: generator, renderer to full JSON schemas, in-process stub of requests.post recording the Miro requests, abstraction of requests to (kind, endpoints, caption, integer position)",
                         "layout coordinates are taken from the implementation (layout itself is C17/C18)", "HTTP transport and the Miro service are outside the model (responses are a script)"]})
    if not evaluated and not ctx.violations:
        kernel.obligation_violation(ctx, thms, "; ".join(ctx.notes[-2:]), {"correspondence": "Coq evaluation of graph cases failed"})
    if not ok and not ctx.violations:
        kernel.obligation_violation(ctx, thms, log)
