"""C02: dependency cycles are always rejected; acyclic graphs are never flagged.
Proof: Properties/C02.v (the cycle search of the model is sound and complete w.r.t. the declarative dependency
relation Dep of Spec/DepRel.v; acceptance implies acyclicity).  Tie: whole validator vs model on every directed
graph over <= 3 actions (sampled over 4-5) in every encoding of the edges, on random scenarios and on cycle mutants."""
import random, itertools
import scen_check, engine, scenario as S

LEVEL = "proof"
ENCODINGS = ["flat", "nested", "shared", "thread", "threadvar"]


def graph_scenario(n, edges, enc, rng):
    """actions 0..n-1 (+ a root action 99 used as spawn source), edge (a, b): a depends on b"""
    t0 = {"id": 0, "name": 100, "attrs": [{"name": i, "kind": ("F", S.FIELD_TYPES[i])} for i in range(6)]}
    op = lambda: {"incl": ("include", [0]), "defaults": [], "edges": [], "appends": None}
    ids = list(range(n)) + [99]
    s = {"parties": [{"id": 0, "name": 200}], "otypes": [t0],
         "promises": [{"id": i, "name": 300 + i, "type": ("type", 0), "ctx": None} for i in ids],
         "actions": [{"id": i, "name": 400 + i, "party": ("party", 0), "promise": ("promise", i), "ctx": None, "dep": None,
                      "op": op(), "milestones": []} for i in ids],
         "checkpoints": [], "groups": []}
    tag = [0]

    def cmp_(b):
        tag[0] += 1
        return ("cmp", ("act", ("action", b), [1]), "EQUALS", ("lit", "SInt", tag[0]))
    cid = [0]

    def new_cp(deps, ctx=None):
        cid[0] += 1
        s["checkpoints"].append({"id": cid[0], "alias": 500 + cid[0], "gate": rng.choice(S.GATES) if len(deps) > 1 else None, "deps": deps, "ctx": ctx})
        return cid[0]
    if enc == "threadvar":
        # all actions live in one thread group; the edge a -> b is the comparison "$variable <op> action b" of a's
        # thread-bound checkpoint (thread variable on the LEFT, action on the right; half of them mirrored)
        gcp = new_cp([cmp_(99)])
        s["groups"].append({"id": 50, "name": 650, "ctx": None, "dep": ("checkpoint", gcp), "src": ("P", ("promise", 99), [4]), "var": 31})
        for a in range(n):
            s["actions"][a]["ctx"] = ("group", 50)
            s["promises"][a]["ctx"] = ("group", 50)
            bs = sorted(set(b for (x, b) in edges if x == a))
            if bs:
                deps = []
                for b in bs:
                    l, r = ("var", 50, []), ("act", ("action", b), [1])
                    deps.append(("cmp", l, "EQUALS", r) if rng.random() < 0.6 else ("cmp", r, "DOES_NOT_EQUAL", l))
                s["actions"][a]["dep"] = ("checkpoint", new_cp(deps, ("group", 50)))
        return s
    succ = {a: sorted(set(b for (x, b) in edges if x == a)) for a in range(n)}
    indeg = {a: sum(1 for (x, b) in edges if b == a) for a in range(n)}
    shared = {}
    for a in range(n):
        if not succ[a]:
            continue
        act = s["actions"][a]
        if enc == "thread" and indeg[a] == 0:
            gcp = new_cp([cmp_(99)] + [cmp_(b) for b in succ[a]])
            gid = 10 + a
            s["groups"].append({"id": gid, "name": 600 + gid, "ctx": None, "dep": ("checkpoint", gcp), "src": ("P", ("promise", 99), [4]), "var": 30 + a})
            act["ctx"] = ("group", gid)
            s["promises"][a]["ctx"] = ("group", gid)
        elif enc == "nested" and len(succ[a]) >= 2:
            inner = [new_cp([cmp_(b)]) for b in succ[a][1:]]
            # a single-dependency checkpoint must be referenced; nest them under one gate
            top = new_cp([cmp_(succ[a][0])] + [("ref", ("checkpoint", c)) for c in inner])
            act["dep"] = ("checkpoint", top)
        elif enc == "shared":
            key = tuple(succ[a])
            if key not in shared:
                shared[key] = new_cp([cmp_(b) for b in succ[a]])
            act["dep"] = ("checkpoint", shared[key])
        else:
            act["dep"] = ("checkpoint", new_cp([cmp_(b) for b in succ[a]]))
    return s


def extra(ctx, rng):
    items = []
    quick = ctx.tier == "quick"
    graphs = []
    for n in (1, 2, 3):
        pairs = [(a, b) for a in range(n) for b in range(n)]
        for mask in range(1 << len(pairs)):
            graphs.append((n, [pairs[k] for k in range(len(pairs)) if mask >> k & 1]))
    for n in (4, 5):
        pairs = [(a, b) for a in range(n) for b in range(n) if a != b]
        for _ in range(150 if quick else 3000):
            k = rng.randint(1, min(len(pairs), 2 * n))
            graphs.append((n, rng.sample(pairs, k)))
    if quick:
        # all graphs over <= 3 actions; a sample of the larger ones
        small = [g for g in graphs if g[0] <= 3]
        rest = [g for g in graphs if g[0] > 3]
        graphs = small + rng.sample(rest, 120)
    for gi, (n, edges) in enumerate(graphs):
        if not quick or n <= 2:
            encs = ENCODINGS
        else:
            # two encodings per graph: one by rotation (so that every encoding meets every graph over the seeds), one
            # at random; graphs in which two actions have the same dependencies always get the shared encoding too
            encs = {ENCODINGS[(gi + ctx.seed) % len(ENCODINGS)], rng.choice(ENCODINGS)}
            succs = [tuple(sorted(set(b for (x, b) in edges if x == a))) for a in range(n)]
            if any(k and succs.count(k) >= 2 for k in succs):
                encs.add("shared")
            encs = sorted(encs)
        for enc in encs:
            s = graph_scenario(n, edges, enc, rng)
            if S.has_duplicate_composite(s):
                continue
            r = {"spelling": "mixed", "shuffle": rng.random() < 0.5, "descriptive": False, "seed": rng.randrange(1 << 30)}
            doc = S.render(s, random.Random(r["seed"]), r["spelling"], r["shuffle"], False)
            items.append(engine.Item(s, doc, "graph", mutator="%s n=%d edges=%s" % (enc, n, edges), owner="C02",
                                     desc="digraph", render=r, group="%s|%d|%s" % (enc, n, sorted(edges))))
    return items


def renaming_histories(ctx, rng, n):
    """Two graph documents validated one after the other on ONE validator instance.  The second document reuses the
    names of the first for other ids (and another edge set), all references spelled by alias or mixed: whatever the
    validator remembers about the first document must not change which cycles it finds in the second."""
    import checks.c13 as c13        # registers history_one in the worker pool
    import impl
    payloads, meta = [], []
    for _ in range(n):
        k = rng.choice([2, 3, 3, 4])
        pairs = [(a, b) for a in range(k) for b in range(k)]
        docs = []
        perm = list(range(k))
        rng.shuffle(perm)
        info = []
        for which in (0, 1):
            edges = rng.sample(pairs, rng.randint(1, min(len(pairs), k + 2)))
            enc = rng.choice(ENCODINGS)
            s = graph_scenario(k, edges, enc, rng)
            if S.has_duplicate_composite(s):
                break
            if which == 1:
                for coll, off in (("actions", 400), ("promises", 300)):
                    for e in s[coll]:
                        if e["id"] < k:
                            e["name"] = off + perm[e["id"]]
            docs.append(S.render(s, random.Random(rng.randrange(1 << 30)), rng.choice(["alias", "mixed"]), rng.random() < 0.5, False))
            info.append("%s n=%d edges=%s" % (enc, k, sorted(edges)))
        if len(docs) < 2:
            continue
        payloads.append({"docs": docs, "calls": [(0, "json"), (1, rng.choice(["json", "dict"]))]})
        meta.append(info + ["names permuted by %s" % perm])
    pool = impl.Pool(ctx)
    res = pool.call_many("history_one", payloads)
    pool.close()
    bad = 0
    for pl, info, problems in zip(payloads, meta, res):
        if problems and bad < 3:
            bad += 1
            ctx.violation({"what": "the verdict on a dependency graph depends on the document the same validator instance validated before",
                           "first_then_second": info, "problems": problems, "documents": pl["docs"], "calls": pl["calls"]})
    ctx.coverage["renaming_histories"] = {"pairs": len(payloads), "with_problem": sum(1 for r in res if r)}


def run(ctx):
    import checks.c13  # noqa: registers history_one before any pool is created
    scen_check.scenario_check(
        ctx, owners=("C02",), n_valid=40, n_mut=160, extra=extra,
        rule="every directed graph (cyclic or not, self loops included) over 1-3 actions and sampled graphs over 4-5 actions, each edge set rendered in the encodings flat / nested checkpoint references / shared checkpoints / implicit through thread-group membership, random declaration order and spelling; plus conformant random scenarios and cycle mutants (back edge through a new checkpoint, a nested reference or an added dependency; self dependency); distinct by (encoding, graph) or abstract scenario",
        trusted=["the set of encodings is chosen by the harness (import connections are covered by C16)"])
    renaming_histories(ctx, random.Random(ctx.seed + 7), 150 if ctx.tier == "quick" else 1500)
    import imports_deep
    imports_deep.c02_nested_cycle_family(ctx)       # cycles closed through a connection of a nested import entry
