"""C14: the verdict does not depend on declaration order."""
import meta_check
LEVEL = "proof"


def run(ctx):
    meta_check.run_meta(
        ctx, meta_check.variants_c14, n_valid=40, n_mut=90,
        what="reordering order-free arrays changes the verdict",
        rule="conformant scenarios and single-fault mutants (all mutators), each rendered 4 times: declaration order as generated, and 3 random shuffles of every order-free array (top-level collections, attributes, dependencies, include/exclude lists, milestones, thread groups, key order); spelling fixed; a group is non-trivial when it has >= 2 reorderable arrays; distinct by abstract scenario",
        trusted=["Properties/C14.v: the model's verdict is invariant under permutation (proved about Model/Rules.v)"])
