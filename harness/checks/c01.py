"""C01: accepted schemas contain no dangling or wrong-kind references.
Proof: Properties/C01.v (acceptance by the model implies that every reference denotes exactly one entity of an
allowed kind and that attribute paths follow declared attributes).  Tie: whole validator vs model on conformant
scenarios and on single-reference faults; plus the property's second sentence checked directly on the
implementation: retargeting any single reference of a shipped valid schema must be rejected."""
import random, json, glob, os, copy, re, collections
import scen_check, impl, common

LEVEL = "proof"
KINDS = ["party", "object_type", "object_promise", "action", "checkpoint", "thread_group"]
REF = re.compile(r"^(schema:\{[^}]+\}\.)?(party|object_type|object_promise|action|checkpoint|thread_group):(\d+|\{[^}]+\})((\.[^.]+)*)$")
# positions whose reference may carry an attribute path
PATH_POSITIONS = {("compare", "left", "ref"), ("compare", "right", "ref"), ("spawn", "foreach"), ("operation", "appends_objects_to"),
                  ("traverse", "ref"), ("apply", "from"), ("left", "ref"), ("right", "ref"), ("ref",), ("from",), ("foreach",), ("appends_objects_to",)}


def strings(x, p=()):
    if isinstance(x, dict):
        for k, v in x.items():
            yield from strings(v, p + (k,))
    elif isinstance(x, list):
        for i, v in enumerate(x):
            yield from strings(v, p + (i,))
    elif isinstance(x, str):
        yield p, x


def setp(d, p, v):
    d = copy.deepcopy(d)
    cur = d
    for k in p[:-1]:
        cur = cur[k]
    cur[p[-1]] = v
    return d


def allows_path(p):
    keys = tuple(k for k in p if isinstance(k, str))
    return keys[-1:] in PATH_POSITIONS or keys[-2:] in PATH_POSITIONS or keys[-3:] in PATH_POSITIONS


def sweep(ctx, rng, limit):
    files = sorted(glob.glob(os.path.join(ctx.repo_copy, "schemas", "test", "*.json")))
    bases = []
    for f in files:
        try:
            bases.append((os.path.basename(f), json.load(open(f))))
        except Exception:
            pass
    pool = impl.Pool(ctx)
    ok = [b for b, r in zip(bases, pool.validate_many([b[1] for b in bases])) if r["outcome"] == "accept"]
    cases = []
    for name, base in ok:
        for p, sv in strings(base):
            m = REF.match(sv)
            if not m:
                continue
            pre, kind, rid, path = m.group(1) or "", m.group(2), m.group(3), m.group(4)
            muts = [("missing-id", pre + kind + ":99999" + path), ("missing-alias", pre + kind + ":{no such thing}" + path)]
            allowed = {"action", "checkpoint"} if p and p[-1] == "to_ref" else {kind}
            for k2 in KINDS:
                if k2 not in allowed:
                    muts.append(("kind-" + k2, pre + k2 + ":0" + path))
            muts.append(("extend-path", sv + ".zzz_undeclared"))
            if not pre:
                # qualified by a schema the document does not import (a file that does not exist / one that does)
                muts.append(("qualify-ghost", "schema:{nonexistent/not_a_schema}." + sv))
                imported = [i.get("file_name") for i in base.get("imports", []) if isinstance(i, dict)]
                if "test/small_example_schema" not in imported:
                    muts.append(("qualify-unimported", "schema:{test/small_example_schema}." + sv))
            for mname, nv in muts:
                cases.append((name, p, sv, mname, nv, setp(base, p, nv)))
    # ... the same path extension with the reference RESPELLED (id <-> name / alias), and a dangling or wrong-kind "ref"
    # added beside the "value" of every literal operand (an operand object is either a reference or a literal)
    coll_of = {"party": ("parties", "name"), "object_type": ("object_types", "name"), "object_promise": ("object_promises", "name"),
               "action": ("actions", "name"), "checkpoint": ("checkpoints", "alias"), "thread_group": ("thread_groups", "name")}
    extra = []
    for name, base in ok:
        for p, sv in strings(base):
            m = REF.match(sv)
            if not m or m.group(1):
                continue
            kind, rid, path = m.group(2), m.group(3), m.group(4)
            coll, af = coll_of[kind]
            ents = [e for e in (base.get(coll) or []) if isinstance(e, dict)]
            if rid.startswith("{"):
                e = next((x for x in ents if str(x.get(af)) == rid[1:-1]), None)
                other = None if e is None or "id" not in e else "%s:%s" % (kind, e["id"])
            else:
                e = next((x for x in ents if str(x.get("id")) == rid), None)
                other = None if e is None or af not in e else "%s:{%s}" % (kind, e[af])
            if other is not None and not allows_path(p):
                extra.append((name, p, sv, "extend-path-respelled", other + path + ".zzz_undeclared", setp(base, p, other + path + ".zzz_undeclared")))
            # the same object reached through an entity of ANOTHER kind, with the path that kind takes: an object promise
            # position given `action:A.object_promise<path>` (A acts on that promise), an action operand given
            # `object_promise:P<path>`: both resolve to the type the original did, and both are of the wrong kind
            if e is not None and p and p[-1] != "to_ref":
                def same(ref, kind_, ent):
                    mm = REF.match(ref) if isinstance(ref, str) else None
                    if not mm or mm.group(1) or mm.group(2) != kind_ or mm.group(4):
                        return False
                    return (mm.group(3)[1:-1] == str(ent.get(coll_of[kind_][1]))) if mm.group(3).startswith("{") else (mm.group(3) == str(ent.get("id")))
                if kind == "object_promise":
                    for a in [a for a in (base.get("actions") or []) if isinstance(a, dict) and same(a.get("object_promise"), "object_promise", e)][:2]:
                        for spelled in (["action:%s" % a["id"]] if "id" in a else []) + (["action:{%s}" % a["name"]] if "name" in a else []):
                            nv = spelled + ".object_promise" + path
                            extra.append((name, p, sv, "through-action", nv, setp(base, p, nv)))
                if kind == "action" and path.startswith(".object_promise"):
                    pr = next((x for x in (base.get("object_promises") or []) if isinstance(x, dict) and same(e.get("object_promise"), "object_promise", x)), None)
                    if pr is not None:
                        for spelled in (["object_promise:%s" % pr["id"]] if "id" in pr else []) + (["object_promise:{%s}" % pr["name"]] if "name" in pr else []):
                            nv = spelled + path[len(".object_promise"):]
                            extra.append((name, p, sv, "through-promise", nv, setp(base, p, nv)))

        def dicts(x, pp=()):
            if isinstance(x, dict):
                yield pp, x
                for k, v in x.items():
                    yield from dicts(v, pp + (k,))
            elif isinstance(x, list):
                for i, v in enumerate(x):
                    yield from dicts(v, pp + (i,))
        for pp, node in dicts(base):
            if "value" in node and "ref" not in node and pp and pp[-1] in ("left", "right") and "compare" in pp:
                for mname, nv in (("literal-with-missing-ref", "action:99999.object_promise.completed"), ("literal-with-wrong-kind-ref", "party:0"),
                                  ("literal-with-unloaded-ref", "schema:{nonexistent/not_a_schema}.action:0.object_promise")):
                    extra.append((name, pp + ("ref",), json.dumps(node), mname, nv, setp(base, pp + ("ref",), nv)))
    cases += extra
    if len(cases) > limit:
        resp = [c for c in extra if c[3] == "extend-path-respelled"]
        thru = [c for c in extra if c[3].startswith("through-")]
        lits = [c for c in extra if c[3] != "extend-path-respelled" and c not in thru]
        # one through-mutant per (file-independent) position first, then a sample
        first = {}
        for c in thru:
            first.setdefault((c[3], tuple(k for k in c[1] if isinstance(k, str))), c)
        rest = [c for c in thru if c not in first.values()]
        thru_keep = list(first.values()) + rng.sample(rest, min(len(rest), limit // 8))
        keep = rng.sample(resp, min(len(resp), limit // 3)) + rng.sample(lits, min(len(lits), limit // 8)) + thru_keep
        cases = rng.sample([c for c in cases if c not in extra], limit - len(keep)) + keep
    res = pool.validate_many([c[5] for c in cases])
    pool.close()
    return cases, res, len(ok)


def run(ctx):
    scen_check.scenario_check(
        ctx, owners=("C01",), n_valid=50, n_mut=260,
        rule="conformant scenarios and single-reference faults (dangling id / alias, wrong kind at every reference position, undeclared attribute inside or at the end of an operand path) + every single-reference retargeting of the shipped valid schemas (missing id, missing alias, each of the 5 other kinds, path extension), sampled in the quick tier; distinct by abstract scenario or by (file, position, mutation)",
        trusted=["the retargeting sweep uses the property's own second sentence as oracle (a retargeted reference must be rejected)"])
    rng = random.Random(ctx.seed + 1)
    cases, res, n_ok = sweep(ctx, rng, 1500 if ctx.tier == "quick" else 10 ** 9)
    accepted = [(c, r) for c, r in zip(cases, res) if r["outcome"] == "accept"]
    for c, r in zip(cases, res):
        if r["outcome"] == "raise":
            ctx.notes.append("retargeting raised (C12's domain): %s %s -> %s: %s" % (c[0], c[2], c[4], r["exc"]))
    bad = list(accepted)
    seen = set()
    for c, r in bad:
        key = (c[3], tuple(k for k in c[1] if isinstance(k, str)))
        if key in seen:
            continue
        seen.add(key)
        if len(seen) > 4:
            break
        ctx.violation({"what": "a retargeted reference is accepted", "file": c[0], "position": [str(x) for x in c[1]],
                       "from": c[2], "to": c[4], "mutation": c[3], "document": c[5]})
    cov = ctx.coverage
    cov["evaluations"] = cov.get("evaluations", 0) + len(cases)
    cov["distinct_nontrivial"] = cov.get("distinct_nontrivial", 0) + len(cases)
    cov["retarget_sweep"] = {"shipped_valid_schemas": n_ok, "mutants": len(cases), "accepted": len(accepted),
                             "by_mutation": dict(collections.Counter(c[3].split("-")[0] + "/" + r["outcome"] for c, r in zip(cases, res)))}
    cov["disagreements_checked"] = cov.get("disagreements_checked", 0) + len(bad)
    # references, attribute paths and connections across import files (schema-qualified references)
    import engine
    scale = 1 if ctx.tier == "quick" else 10
    engine.import_family(ctx, random.Random(ctx.seed + 3), 24 * scale, 24 * scale,
                         only=("connection_target_missing", "connection_target_native", "connection_target_in_other_import", "add_dependency_not_native_checkpoint", "add_dependency_names_a_generated_id"),
                         what="T3 correspondence: references across import files, whole validator vs Coq model (Model/Imports.v)")
    # references inside aggregation pipelines: filter operands at every clause position (also behind nested condition
    # groups), application and traversal sources
    import pipes
    prng = random.Random(ctx.seed + 7)
    pitems = (pipes.make_valid_items_p(prng, 6 * scale, variants=1, threads=False)
              + pipes.make_mutant_items_p(prng, 20 * scale, ("C01P",), threads=False)
              + pipes.make_mutant_items_p(prng, 10 * scale, ("C01P",), threads=True))
    engine.run_items(ctx, pitems, coq_file_fn=pipes.coq_cases_file_p)
    engine.report(ctx, pitems, "T3 correspondence: references inside aggregation pipelines, whole validator vs Coq model (Model/PipeRules.v)")
