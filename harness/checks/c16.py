"""C16: imports namespace cleanly and connections only add dependencies.
Proof: Properties/C16.v over Model/Imports.v (namespacing = injective shift of ids; stitching only adds the
connection's checkpoint to the target's dependencies; verdict = imported schemas valid in isolation, connections
well formed, combined schema conforms).  Tie: whole validator (reading generated import files from the snapshot)
vs the Coq model on importing scenarios and single faults."""
import random, json, collections
import common, kernel, engine, impl, imports as I, imports_deep as D, scenario as S

LEVEL = "proof"


def kf_witness(ctx):
    """known finding C16-imported-not-revalidated: a native checkpoint depends on an imported action that appends objects"""
    import os
    T = {"id": 0, "name": "T", "attributes": [{"name": "x", "type": "STRING"}, {"name": "kids", "type": "EDGE_COLLECTION", "object_type": "object_type:{T}"}]}
    act = lambda i, **kw: dict({"id": i, "name": "a%d" % i, "description": "d", "party": "party:0", "object_promise": "object_promise:%d" % i,
                                "operation": {"include": ["x"]}}, **kw)
    imported = {"standard": "s", "terms": [], "parties": [{"id": 0, "name": "P"}], "object_types": [T], "pipelines": [],
                "object_promises": [{"id": i, "name": "p%d" % i, "object_type": "object_type:{T}"} for i in range(2)],
                "actions": [act(0), act(1, depends_on="checkpoint:0", operation={"include": ["x"], "appends_objects_to": "object_promise:0.kids"})],
                "checkpoints": [{"id": 0, "alias": "c0", "description": "d", "dependencies": [
                    {"compare": {"left": {"ref": "action:0.object_promise.x"}, "operator": "EQUALS", "right": {"value": "go"}}}]}]}
    os.makedirs(os.path.join(ctx.repo_copy, "schemas", "gen"), exist_ok=True)
    json.dump(imported, open(os.path.join(ctx.repo_copy, "schemas", "gen", "kfappender.json"), "w"))
    native = {"standard": "s", "terms": [], "parties": [{"id": 0, "name": "P"}], "object_types": [T], "pipelines": [],
              "object_promises": [{"id": 0, "name": "p0", "object_type": "object_type:{T}"}],
              "imports": [{"file_name": "gen/kfappender"}],
              "actions": [act(0, depends_on="checkpoint:0")],
              "checkpoints": [{"id": 0, "alias": "c0", "description": "d", "dependencies": [
                  {"compare": {"left": {"ref": "schema:{gen/kfappender}.action:1.object_promise.x"}, "operator": "EQUALS", "right": {"value": "done"}}}]}]}
    return imported, native


@__import__("impl").register
def stitched_formulas(payload):
    """validate the importing document, then read the dependency formula of every connection target out of
    validator.schema: ["N", gate, [children]] for a checkpoint, ["L", [action ids]] for a comparison; action ids are
    abstract (import base + id)"""
    import json as js
    from validation.schema_validator import SchemaValidator
    from validation import utils
    doc, targets, bases = payload["doc"], payload["targets"], payload["bases"]
    v = SchemaValidator()
    try:
        errs = v.validate(json_string=js.dumps(doc))
    except BaseException as e:  # noqa
        return {"raise": repr(e)}
    if errs:
        return {"errors": errs[:3]}

    def abstract_action(ref):
        obj = v._resolve_global_ref(ref)
        if obj is None or "id" not in obj:
            return None
        sid = utils.parse_schema_id(ref)
        return (bases[sid] if sid is not None else 0) + obj["id"]

    def tree(cp, depth=0):
        if cp is None or depth > 30:
            return ["L", []]
        ch = []
        for d in cp.get("dependencies", []):
            if "compare" in d:
                acts = []
                for side in ("left", "right"):
                    a = utils.action_ref_from_dependency_ref(d, side)
                    if a is not None:
                        x = abstract_action(a)
                        if x is not None:
                            acts.append(x)
                ch.append(["L", acts])
            elif "checkpoint" in d:
                ch.append(tree(v._resolve_global_ref(d["checkpoint"]), depth + 1))
        return ["N", cp.get("gate_type"), ch]
    out = []
    for (fname, kind, local) in targets:
        ref = "schema:{%s}.%s:%d" % (fname, "action" if kind == "action" else "checkpoint", local)
        obj = v._resolve_global_ref(ref)
        if obj is None:
            out.append(None)
        elif kind == "action":
            out.append(tree(v._resolve_global_ref(obj["depends_on"])) if "depends_on" in obj else ["L", []])
        else:
            out.append(tree(obj))
    return {"trees": out}


FORMULA_DEFS = """
Inductive ftree := FL (l : list nat) | FN (g : option gate) (ch : list ftree).
Fixpoint formula (s : schema) (fuel : nat) (c : nat) : ftree :=
  match fuel with
  | 0 => FL []
  | S f => match find_checkpoint s c with
           | None => FL []
           | Some cp => FN (cp_gate cp) (map (fun d => match d with
                                                     | DCmp l _ r => FL (operand_action l ++ operand_action r)
                                                     | DRef r => formula s f (r_id r) end) (cp_deps cp))
           end
  end.
Fixpoint ftree_eqb (a b : ftree) : bool :=
  match a, b with
  | FL x, FL y => list_nat_eqb x y
  | FN g ch, FN g' ch' => gate_opt_eqb g g' &&
      (fix go (l l' : list ftree) : bool :=
         match l, l' with [] , [] => true | x :: r, y :: r' => ftree_eqb x y && go r r' | _, _ => false end) ch ch'
  | _, _ => false
  end.
(* the formula of a connection target in the combined schema: the target checkpoint itself, or the checkpoint the
   target action now depends on *)
Definition target_formula (s : schema) (is_action : bool) (t : nat) : ftree :=
  if is_action then match find_action s t with
                    | Some a => match a_dep a with Some r => formula s 40 (r_id r) | None => FL [] end
                    | None => FL [] end
  else formula s 40 t.
"""


FORMULA_HEADER = I.COQ_HEADER_I + FORMULA_DEFS
FORMULA_HEADER_DEEP = D.COQ_HEADER_D + FORMULA_DEFS


def cq_tree(t):
    if t[0] == "L":
        return "(FL %s)" % S.cq_nats(t[1])
    return "(FN %s %s)" % ("None" if t[1] is None else "(Some G_%s)" % t[1], S.cq_list(cq_tree(c) for c in t[2]))


def formula_check(ctx, valid_items, pool, deep=False):
    """For every connection of every conformant importing scenario: the dependency formula the implementation ends up
    with equals the model's (Model/Imports.v combine; deep=True: import trees, Model/ImportsDeep.v combine_deep, every
    connection at every depth)."""
    payloads, meta = [], []
    for it in valid_items:
        case = it.scenario
        targets, bases = [], {}
        if deep:
            name = it.render["file_of"]           # every rendering of a tree has its own set of files
            for fid, f in case["files"].items():
                bases[name[fid]] = f["abs"]
            for pf, e in D.all_entries(case):
                f = case["files"][e["fid"]]
                for c in e["conns"]:
                    if (name[e["fid"]], c["to"][0], c["to"][1], f["abs"]) not in targets:
                        targets.append((name[e["fid"]], c["to"][0], c["to"][1], f["abs"]))
        else:
            for imp in case["imports"]:
                bases[imp["file"]] = imp["base"]
                for c in imp["conns"]:
                    targets.append((imp["file"], c["to"][0], c["to"][1], imp["base"]))
        if not targets:
            continue
        payloads.append({"doc": it.doc, "targets": [(f, k, l) for (f, k, l, b) in targets], "bases": bases})
        meta.append((it, targets))
    if not payloads:
        return 0, []
    results = pool.call_many("stitched_formulas", payloads, chunk=4)
    per_item = []
    for (it, targets), res in zip(meta, results):
        if "trees" not in res:
            continue
        rows = [((f, k, l), b + l, t) for (f, k, l, b), t in zip(targets, res["trees"]) if t is not None]
        if rows:
            per_item.append((it, rows))
    files, index = [], []
    CH = 12
    for c0 in range(0, len(per_item), CH):
        part = per_item[c0:c0 + CH]
        lines = [FORMULA_HEADER_DEEP if deep else FORMULA_HEADER]
        checks = []
        for j, (it, rows) in enumerate(part):
            lines.append("Definition c%d := %s." % (j, D.to_coq_deep(it.scenario) if deep else I.to_coq_i(it.scenario)))
            lines.append("Definition s%d := %s (fst c%d) (snd c%d)." % (j, "combine_deep" if deep else "combine", j, j))
            for (tgt, aid, t) in rows:
                checks.append("ftree_eqb (target_formula s%d %s %d) %s" % (j, "true" if tgt[1] == "action" else "false", aid, cq_tree(t)))
                index.append((it, tgt, t))
        lines.append("Definition checks : list bool := [%s]." % ";\n  ".join(checks))
        lines.append("Fixpoint failing (i : nat) (l : list bool) : list nat := match l with [] => [] | b :: r => (if b then [] else [i]) ++ failing (S i) r end.")
        lines.append("Eval vm_compute in (failing 0 checks).")
        files.append(("%sformulas_%03d" % ("deep_" if deep else "", c0 // CH), "\n".join(lines) + "\n", len(checks)))
    outs = ctx.coq_eval_many([(n, b) for (n, b, _) in files])
    bad, off = [], 0
    for (n, b, cnt), (ok, out) in zip(files, outs):
        fl = common.parse_coq_nat_list(out) if ok else None
        if fl is None:
            ctx.notes.append("formula comparison could not be evaluated: " + out[-400:])
            return len(index), None
        bad += [index[off + i] for i in fl]
        off += cnt
    return len(index), bad


def extra_property_file(ctx, name):
    """build and check Properties/<name>.v as well; its theorems and Print Assumptions lines join the evidence"""
    saved_prop, saved_ass = ctx.prop, list(ctx.assumptions)
    lock = ctx.coq_lock()
    try:
        ctx.prop = name
        ok, thms, log = ctx.check_property_file()
    finally:
        ctx.prop = saved_prop
        lock.close()
    ctx.assumptions = saved_ass + (ctx.assumptions if ok else [])
    cov = ctx.coverage
    cov["obligations"] = cov.get("obligations", 0) + max(1, len(thms))
    if ok and cov.get("discharged", 0):
        cov["discharged"] += len(thms)
    else:
        cov["discharged"] = 0
    cov["obligation_names"] = cov.get("obligation_names", []) + ["OIS.Properties.%s.%s" % (name, t) for t in thms]
    cov["checker_cmd"] = cov.get("checker_cmd", "") + "; the same for theories/Properties/%s.v" % name
    return ok, thms, log


def deep_family(ctx, n_valid, n_mut):
    """Import trees of depth 2-3 (imports_deep.py): the whole validator, reading generated files that import generated
    files, vs Model/ImportsDeep.v; then the stitched formula of every connection target at every depth."""
    import impl
    rng = random.Random(ctx.seed * 1000003 + 16)
    items, tree_stats = [], collections.Counter()

    def render(case, r):
        for f in case["files"].values():
            f["file"] = None
        doc = D.render_deep(case, ctx.repo_copy, random.Random(r["seed"]), r["spelling"], r["shuffle"])
        r["file_of"] = {fid: f["file"] for fid, f in case["files"].items()}
        r["imported_files"] = {f["file"]: _read_gen(ctx, f["file"]) for f in case["files"].values()}     # (None: not readable)
        return doc
    for i in range(n_valid):
        case = D.gen_valid_deep(rng, threads=(i % 4 == 0))
        for k, v in D.stats(case).items():
            tree_stats[k] += v
        tree_stats["shape:" + case["shape"]] += 1
        for v in range(2):
            r = {"spelling": ["mixed", "alias", "id"][(i + v) % 3], "shuffle": v == 1, "seed": rng.randrange(1 << 30)}
            items.append(engine.Item(case, render(case, r), "deep_valid", render=r, group="dv%d" % i))
    for i in range(n_mut):
        case, name, desc = D.mutate_deep(rng)
        r = {"spelling": "mixed", "shuffle": i % 2 == 1, "seed": rng.randrange(1 << 30)}
        items.append(engine.Item(case, render(case, r), "deep_mutant", mutator=name, owner="C16", desc=desc, render=r, group="dm%d" % i))
    grouped = getattr(engine, "run_items_grouped", None)
    if grouped is not None:
        evaluated = grouped(ctx, items, coq_file_fn=D.coq_cases_file_deep, chunk=max(4, min(12, (n_valid + n_mut) // 16 + 1)))
    else:
        saved = engine.CHUNK
        engine.CHUNK = 12
        try:
            evaluated = engine.run_items(ctx, items, coq_file_fn=D.coq_cases_file_deep)
        finally:
            engine.CHUNK = saved
    for it in items:
        it.scenario = D.strip(it.scenario)
    engine.report(ctx, items, "T3 correspondence: whole validator on import trees of depth 2-3 (generated files that import generated files) vs Coq model (Model/ImportsDeep.v)")
    # what stitching leaves behind, at every depth
    pool = impl.Pool(ctx)
    seen, firsts = set(), []
    for it in items:
        if it.kind == "deep_valid" and it.res["outcome"] == "accept" and it.group not in seen:
            seen.add(it.group)
            firsts.append(it)
    n_formulas, bad = formula_check(ctx, firsts[:(60 if ctx.tier == "quick" else 10 ** 9)], pool, deep=True)
    pool.close()
    if bad is None:
        evaluated = False
        ctx.notes.append("deep stitched formulas could not be evaluated")
    else:
        for (it, tgt, tree) in bad[:3]:
            ctx.violation({"what": "import tree: after validation a connection's target does not depend on exactly (its previous dependencies AND the added checkpoint of the importing schema): the implementation's stitched dependency formula differs from the model's (Model/ImportsDeep.v combine_deep)",
                           "target": list(tgt), "implementation_formula": tree, "document": it.doc, "imports": it.doc.get("imports"),
                           "imported_files": it.render["imported_files"],
                           "scenario": it.scenario})
    tree_stats["stitched_formulas_compared"] = n_formulas
    ctx.coverage["deep_imports"] = dict(tree_stats)
    return evaluated, items


def _read_gen(ctx, fname):
    import os
    try:
        return json.load(open(os.path.join(ctx.repo_copy, "schemas", fname + ".json")))
    except Exception:
        return None


@impl.register
def reached_checkpoints(payload):
    """validate, then follow the validator's OWN record of what each action waits for (the map its ancestry and cycle
    rules consult): aliases of every checkpoint reachable from the action; None when the record is not there"""
    import json as js
    from validation.schema_validator import SchemaValidator
    v = SchemaValidator()
    try:
        errs = v.validate(json_string=js.dumps(payload["doc"]))
    except BaseException as e:  # noqa
        return {"raise": repr(e)}
    refs, cps = getattr(v, "_action_checkpoint_refs", None), getattr(v, "_checkpoints", None)
    if errs or not isinstance(refs, dict) or not isinstance(cps, dict):
        return {"errors": [str(x) for x in errs[:3]], "record": isinstance(refs, dict) and isinstance(cps, dict)}
    seen, aliases, todo = [], [], [refs.get(payload["action"])]
    while todo:
        ref = todo.pop()
        if ref is None or ref in seen or ref not in cps:
            continue
        seen.append(ref)
        aliases.append(cps[ref].get("alias"))
        for d in cps[ref].get("dependencies", []):
            if isinstance(d, dict) and "checkpoint" in d:
                try:
                    todo.append(v._normalize_ref(d["checkpoint"]))
                except BaseException:  # noqa
                    pass
    return {"aliases": sorted(str(a) for a in aliases)}


def threaded_target_family(ctx):
    """A connection onto an imported THREADED action that has a checkpoint of its own (an editor that reaches the
    creator of its promise only through that checkpoint), for every numbering of the native checkpoints from 0 to 24:
    the checkpoint that stitching generates takes the next free native id, which must never be confused with a
    checkpoint of the imported schema that happens to carry the same number (the thread group's checkpoint is 10, the
    action's own is 21).  Oracle: the document is conformant under every numbering (the numbering of native checkpoints
    is immaterial, Properties/C15.v) -- the import alone and the unconnected document are accepted."""
    import os, json, impl
    fn = "gen/threaded_target"
    cmp_ = lambda ref, v=True: {"compare": {"left": {"ref": ref}, "right": {"value": v}, "operator": "EQUALS"}}
    imported = {
        "standard": "threaded target", "terms": [], "pipelines": [], "parties": [{"id": 5, "name": "party 0"}],
        "object_types": [{"id": 0, "name": "holder", "attributes": [{"name": "edges", "type": "EDGE_COLLECTION", "object_type": "object_type:6"}, {"name": "done", "type": "BOOLEAN"}]},
                         {"id": 6, "name": "item", "attributes": [{"name": "done", "type": "BOOLEAN"}, {"name": "label", "type": "STRING"}]}],
        "object_promises": [{"id": 9, "name": "the holder", "object_type": "object_type:0"},
                            {"id": 17, "name": "per item", "object_type": "object_type:6", "context": "thread_group:2"}],
        "actions": [{"id": 11, "name": "make holder", "description": "d", "party": "party:5", "object_promise": "object_promise:9", "operation": {"include": ["done"]}},
                    {"id": 15, "name": "make item", "description": "d", "party": "party:5", "object_promise": "object_promise:17", "context": "thread_group:2", "operation": {"include": ["done"]}},
                    {"id": 20, "name": "edit item", "description": "d", "party": "party:5", "object_promise": "object_promise:17", "context": "thread_group:2",
                     "depends_on": "checkpoint:21", "operation": {"include": ["label"]}}],
        "checkpoints": [{"id": 10, "alias": "holder done", "description": "d", "dependencies": [cmp_("action:11.object_promise.done")]},
                        {"id": 21, "alias": "item done", "description": "d", "context": "thread_group:2", "dependencies": [cmp_("action:15.object_promise.done")]}],
        "thread_groups": [{"id": 2, "name": "items", "description": "d", "spawn": {"foreach": "object_promise:9.edges", "as": "$edge"}, "depends_on": "checkpoint:10"}]}
    path = os.path.join(ctx.repo_copy, "schemas", fn + ".json")
    os.makedirs(os.path.dirname(path), exist_ok=True)
    json.dump(imported, open(path, "w"))

    def native(top, connected=True, target="action:20"):
        d = {"standard": "c16 threaded target", "terms": [], "pipelines": [], "parties": [{"id": 0, "name": "Project"}],
             "imports": [{"file_name": fn, "connections": [{"to_ref": "schema:{%s}.%s" % (fn, target), "add_dependency": "checkpoint:%d" % top}] if connected else []}],
             "object_types": [{"id": 0, "name": "Placeholder", "attributes": [{"name": "completed", "type": "BOOLEAN"}]}],
             "object_promises": [{"id": 0, "name": "op0", "object_type": "object_type:0"}, {"id": 1, "name": "op1", "object_type": "object_type:0"}],
             "actions": [{"id": 0, "name": "a0", "description": "d", "party": "party:0", "object_promise": "object_promise:0", "operation": {"include": ["completed"]}},
                         {"id": 1, "name": "a1", "description": "d", "party": "party:0", "object_promise": "object_promise:1", "operation": {"include": ["completed"]},
                          "depends_on": "checkpoint:%d" % top}],
             "checkpoints": [{"id": top, "alias": "gate", "description": "d", "dependencies": [cmp_("action:0.object_promise.completed")]}]}
        return d
    docs = [("the imported schema alone", imported, True), ("not connected", native(3, connected=False), True)]
    for top in range(0, 25):
        docs.append(("connection onto the threaded editor, native checkpoint id %d (generated checkpoint gets %d)" % (top, top + 1), native(top), True))
    for top in (8, 9, 10, 20, 21):
        docs.append(("connection onto the threaded creator, native checkpoint id %d" % top, native(top, target="action:15"), True))
    pool = impl.Pool(ctx, 4)
    res = pool.validate_many([d for _, d, _ in docs])
    pool.close()
    if res[0]["outcome"] != "accept" or res[1]["outcome"] != "accept":
        ctx.notes.append("threaded_target_family: controls not accepted (%s, %s): family skipped" % (res[0]["outcome"], res[1]["outcome"]))
        ctx.coverage["threaded_target_family"] = {"documents": len(docs), "skipped": True}
        return
    bad = 0
    for (what, d, ok), r in zip(docs, res):
        if (r["outcome"] == "accept") != ok and bad < 2:
            bad += 1
            ctx.violation({"what": "a conformant importing document is not accepted: " + what, "document": d, "imported_files": {fn: imported},
                           "errors": r.get("errors"), "exc": r.get("exc")})
    # ... and what the validator itself records for the threaded editor afterwards: the added checkpoint AND what it
    # waited for before (its own checkpoint, its thread group's checkpoint)
    tops = list(range(0, 25))
    pool = impl.Pool(ctx, 4)
    rec = pool.call_many("reached_checkpoints", [{"doc": native(t), "action": "schema:{%s}.action:20" % fn} for t in tops], chunk=2)
    pool.close()
    lost = 0
    for t, r in zip(tops, rec):
        if isinstance(r, dict) and "aliases" in r:
            missing = [a for a in ("gate", "item done", "holder done") if a not in r["aliases"]]
            if missing and lost < 2:
                lost += 1
                ctx.violation({"what": "after validation the target of a connection (an imported threaded action) no longer waits for %s: the validator's own dependency record reaches only %s" % (missing, r["aliases"]),
                               "document": native(t), "imported_files": {fn: imported}, "native_checkpoint_id": t})
    ctx.coverage["threaded_target_family"] = {"documents": len(docs), "accepted": sum(1 for r in res if r["outcome"] == "accept"),
                                              "dependency_records_read": sum(1 for r in rec if isinstance(r, dict) and "aliases" in r), "records_incomplete": lost}


def same_file_histories(ctx, rng, n):
    """Several documents that import ONE file -- with its connections, without them, with them reversed onto other
    targets -- validated in sequences of three to five on one validator instance: every result must be the result a
    fresh instance gives (what stitching and namespacing did to an imported schema must not survive the call)."""
    import copy, impl
    import checks.c13 as c13mod          # registers history_one with the worker pool
    payloads, meta = [], []
    for k in range(n):
        case = None
        for _ in range(60):
            c = I.gen_valid_i(rng, threads=False)
            if any(imp["conns"] for imp in c["imports"]):
                case = c
                break
        if case is None:
            continue
        seed = rng.randrange(1 << 30)
        sp = ["id", "mixed", "alias"][k % 3]
        with_conns = I.render_i(case, ctx.repo_copy, random.Random(seed), sp, False, False)
        bare = copy.deepcopy(with_conns)
        for e in bare["imports"]:
            e.pop("connections", None)
        other = copy.deepcopy(with_conns)
        for e in other["imports"]:
            if len(e.get("connections") or []) >= 2:
                cs = e["connections"]
                adds = [c_["add_dependency"] for c_ in cs]
                for c_, a in zip(cs, adds[1:] + adds[:1]):
                    c_["add_dependency"] = a
        docs = [bare, with_conns, other]
        for calls in ([0, 1, 0], [0, 1, 1], [1, 0, 1, 0], [0, 2, 1, 0, 1], [1, 1, 0]):
            payloads.append({"docs": docs, "calls": [(i, "json" if j % 2 == 0 else "dict") for j, i in enumerate(calls)]})
            meta.append(calls)
    pool = impl.Pool(ctx)
    results = pool.call_many("history_one", payloads, chunk=2)
    pool.close()
    bad = 0
    for pl, calls, problems in zip(payloads, meta, results):
        if problems and bad < 2:
            bad += 1
            ctx.violation({"what": "documents importing one file, validated one after the other on one validator instance: a result differs from what a fresh instance gives",
                           "documents": pl["docs"], "calls (document index, entry point)": pl["calls"], "problems": problems[:3]})
    ctx.coverage["same_file_histories"] = {"histories": len(payloads), "with_problems": sum(1 for r in results if r)}
    ctx.coverage["evaluations"] = ctx.coverage.get("evaluations", 0) + sum(len(pl["calls"]) for pl in payloads)


def run(ctx):
    ok, thms, log = kernel.proof_step(ctx, regen=("tables",))
    ok_d, thms_d, log_d = extra_property_file(ctx, "C16_deep")
    if not ok_d:
        ok, log = False, log + log_d
    thms = thms + thms_d
    ok_c, thms_c, log_c = extra_property_file(ctx, "C16_closed")     # closed form of the dependencies of the combined schema
    if not ok_c:
        ok, log = False, log + log_c
    thms = thms + thms_c
    rng = random.Random(ctx.seed)
    scale = 1 if ctx.tier == "quick" else 10
    items = []
    for i in range(110 * scale):
        case = I.gen_valid_i(rng, threads=(i % 3 == 0))
        for v in range(2):
            r = {"spelling": ["mixed", "alias"][v], "shuffle": v == 1, "seed": rng.randrange(1 << 30)}
            doc = I.render_i(case, ctx.repo_copy, random.Random(r["seed"]), r["spelling"], r["shuffle"], False)
            items.append(engine.Item(case, doc, "valid", render=r, group="v%d" % i))
    for i in range(170 * scale):
        case, name, desc = I.mutate_i(rng)
        r = {"spelling": "mixed", "shuffle": i % 2 == 1, "seed": rng.randrange(1 << 30)}
        doc = I.render_i(case, ctx.repo_copy, random.Random(r["seed"]), r["spelling"], r["shuffle"], False)
        items.append(engine.Item(case, doc, "mutant", mutator=name, owner="C16", desc=desc, render=r, group="m%d" % i))
    # strip builders (not serialisable) before reporting
    evaluated = engine.run_items(ctx, items, coq_file_fn=I.coq_cases_file_i)
    for it in items:
        it.scenario = {"native": it.scenario["native"],
                       "imports": [{k: v for k, v in imp.items() if k != "builder"} for imp in it.scenario["imports"]]}
    engine.report(ctx, items, "T3 correspondence: whole validator with generated import files vs Coq model (Model/Imports.v)")
    # what stitching leaves behind: the dependency formula of every connection target
    import impl
    pool = impl.Pool(ctx)
    with_conns = [it for it in items if it.kind == "valid" and it.res["outcome"] == "accept" and any(imp["conns"] for imp in it.scenario["imports"])]
    n_formulas, bad_formulas = formula_check(ctx, with_conns[:(70 if ctx.tier == "quick" else 10 ** 9)], pool)
    if bad_formulas is None:
        kernel.obligation_violation(ctx, thms, "; ".join(ctx.notes[-2:]), {"correspondence": "Coq evaluation of stitched formulas failed"})
    else:
        for (it, tgt, tree) in bad_formulas[:3]:
            ctx.violation({"what": "after validation a connection's target does not depend on exactly (its previous dependencies AND the added checkpoint): the implementation's stitched dependency formula differs from the model's",
                           "target": list(tgt), "implementation_formula": tree, "document": it.doc, "imports": it.doc.get("imports"),
                           "scenario": {"native": it.scenario["native"], "imports": [{k: v for k, v in imp.items() if k != "builder"} for imp in it.scenario["imports"]]}})
    ctx.coverage["stitched_formulas_compared"] = n_formulas
    # known finding: replay its witness
    imported, native = kf_witness(ctx)
    r_imp, r_nat = pool.validate_many([imported, native])
    pool.close()
    if r_imp["outcome"] == "accept" and r_nat["outcome"] == "accept":
        ctx.known_finding("a native checkpoint may depend on an imported action that appends objects (the 'no checkpoint depends on an appending action' rule is only enforced inside the imported schema); witness: checks/c16.py kf_witness")
    ctx.notes.append("known-finding witness: imported alone %s, importing %s" % (r_imp["outcome"], r_nat["outcome"]))
    same_file_histories(ctx, random.Random(ctx.seed + 9), 12 * scale)
    threaded_target_family(ctx)
    deep_evaluated, deep_items = deep_family(ctx, 80 * scale, 120 * scale)
    evaluated = evaluated and deep_evaluated
    items = items + deep_items
    ctx.coverage.update({
        "rule": "import trees (family deep): 2-5 generated files in trees of depth 2-3 (chains, fans, diamonds: a file reached on two ways is loaded once and every entry's connections are stitched), entries spelled exactly alike in different importers, 0-2 connections per entry at every level onto actions with / without depends_on and onto checkpoints, native and intermediate schemas referring to directly and transitively imported actions, one schema per tree with thread groups; single faults at depth >= 2: invalid schema, unreadable file, connection target missing / in another file / in a transitively imported file / in the importer, add_dependency missing / of the imported schema / an action / a checkpoint of the importer's importer, duplicate target, cycle inside an imported schema's own imports, cycle that exists only in the root through a nested connection, the second of two identical entries closing a cycle, threaded checkpoint added by a nested connection; the stitched dependency formula of every connection target at every depth. "
                "importing scenarios: 1-2 generated importable schemas (some with thread groups), native actions depending on imported actions through schema-qualified references (both spellings), 0-2 connections per import onto imported actions with / without a checkpoint and onto imported checkpoints, each rendered twice; single faults: imported schema invalid (any mutator), file unreadable, connection target missing / native, added dependency missing / imported / not a checkpoint, cycle closed through a connection, checkpoint with threaded context added through a connection; distinct by scenario",
        "samples": [{"kind": it.kind, "mutator": it.mutator, "implementation": it.res["outcome"], "model_accepts": it.model_accepts,
                     "imports": it.doc.get("imports")} for it in items[:1] + [x for x in items if x.kind == "mutant"][:2]],
        "trusted_base": ["harness/imports.py: generator / renderer of importing scenarios; writes the imported JSON files into the snapshot's schemas/gen/",
                         "harness/imports_deep.py: generator / renderer of import trees (depth <= 3, <= 5 files); assigns one id range per file, importers before imported, and spells a tree out per entry for the model",
                         "namespacing is modelled as an id shift by a multiple of 1000 per file (relative to the importer in Model/ImportsDeep.v); cyclic imports are not generated",
                         "rules that concern imported entities are checked by the model on the combined schema; the implementation validates imported schemas in isolation (known finding C16-imported-not-revalidated is avoided by the generator)"]})
    if not evaluated and not ctx.violations:
        kernel.obligation_violation(ctx, thms, "; ".join(ctx.notes[-3:]), {"correspondence": "Coq evaluation of import cases failed"})
    if not ok and not ctx.violations:
        kernel.obligation_violation(ctx, thms, log)
