"""C16: imports namespace cleanly and connections only add dependencies.
Proof: Properties/C16.v over Model/Imports.v (namespacing = injective shift of ids; stitching only adds the
connection's checkpoint to the target's dependencies; verdict = imported schemas valid in isolation, connections
well formed, combined schema conforms).  Tie: whole validator (reading generated import files from the snapshot)
vs the Coq model on importing scenarios and single faults."""
import random, json, collections
import common, kernel, engine, imports as I

LEVEL = "proof"


def kf_witness(ctx):
    """known finding C16-imported-not-revalidated: a native checkpoint depends on an imported action that appends objects"""
    import os
    T = {"id": 0, "name": "T", "attributes": [{"name": "x", "type": "STRING"}, {"name": "kids", "type": "EDGE_COLLECTION", "object_type": "object_type:{T}"}]}
    act = lambda i, **kw: dict({"id": i, "name": "a%d" % i, "description": "d", "party": "party:0", "object_promise": "object_promise:%d" % i,
                                "operation": {"include": ["x"]}}, **kw)
    imported = {"standard": "s", "terms": [], "parties": [{"id": 0, "name": "P"}], "object_types": [T], "pipelines": [],
                "object_promises": [{"id": i, "name": "p%d" % i, "object_type": "object_type:{T}"} for i in range(2)],
                "actions": [act(0), act(1, depends_on="checkpoint:0", operation={"include": ["x"], "appends_objects_to": "object_promise:0.kids"})],
                "checkpoints": [{"id": 0, "alias": "c0", "description": "d", "dependencies": [
                    {"compare": {"left": {"ref": "action:0.object_promise.x"}, "operator": "EQUALS", "right": {"value": "go"}}}]}]}
    os.makedirs(os.path.join(ctx.repo_copy, "schemas", "gen"), exist_ok=True)
    json.dump(imported, open(os.path.join(ctx.repo_copy, "schemas", "gen", "kfappender.json"), "w"))
    native = {"standard": "s", "terms": [], "parties": [{"id": 0, "name": "P"}], "object_types": [T], "pipelines": [],
              "object_promises": [{"id": 0, "name": "p0", "object_type": "object_type:{T}"}],
              "imports": [{"file_name": "gen/kfappender"}],
              "actions": [act(0, depends_on="checkpoint:0")],
              "checkpoints": [{"id": 0, "alias": "c0", "description": "d", "dependencies": [
                  {"compare": {"left": {"ref": "schema:{gen/kfappender}.action:1.object_promise.x"}, "operator": "EQUALS", "right": {"value": "done"}}}]}]}
    return imported, native


def run(ctx):
    ok, thms, log = kernel.proof_step(ctx, regen=("tables",))
    rng = random.Random(ctx.seed)
    scale = 1 if ctx.tier == "quick" else 10
    items = []
    for i in range(110 * scale):
        case = I.gen_valid_i(rng, threads=(i % 3 == 0))
        for v in range(2):
            r = {"spelling": ["mixed", "alias"][v], "shuffle": v == 1, "seed": rng.randrange(1 << 30)}
            doc = I.render_i(case, ctx.repo_copy, random.Random(r["seed"]), r["spelling"], r["shuffle"], False)
            items.append(engine.Item(case, doc, "valid", render=r, group="v%d" % i))
    for i in range(170 * scale):
        case, name, desc = I.mutate_i(rng)
        r = {"spelling": "mixed", "shuffle": i % 2 == 1, "seed": rng.randrange(1 << 30)}
        doc = I.render_i(case, ctx.repo_copy, random.Random(r["seed"]), r["spelling"], r["shuffle"], False)
        items.append(engine.Item(case, doc, "mutant", mutator=name, owner="C16", desc=desc, render=r, group="m%d" % i))
    # strip builders (not serialisable) before reporting
    evaluated = engine.run_items(ctx, items, coq_file_fn=I.coq_cases_file_i)
    for it in items:
        it.scenario = {"native": it.scenario["native"],
                       "imports": [{k: v for k, v in imp.items() if k != "builder"} for imp in it.scenario["imports"]]}
    engine.report(ctx, items, "T3 correspondence: whole validator with generated import files vs Coq model (Model/Imports.v)")
    # known finding: replay its witness
    imported, native = kf_witness(ctx)
    import impl
    pool = impl.Pool(ctx, 2)
    r_imp, r_nat = pool.validate_many([imported, native])
    pool.close()
    if r_imp["outcome"] == "accept" and r_nat["outcome"] == "accept":
        ctx.known_finding("a native checkpoint may depend on an imported action that appends objects (the 'no checkpoint depends on an appending action' rule is only enforced inside the imported schema); witness: checks/c16.py kf_witness")
    ctx.notes.append("known-finding witness: imported alone %s, importing %s" % (r_imp["outcome"], r_nat["outcome"]))
    ctx.coverage.update({
        "rule": "importing scenarios: 1-2 generated importable schemas (some with thread groups), native actions depending on imported actions through schema-qualified references (both spellings), 0-2 connections per import onto imported actions with / without a checkpoint and onto imported checkpoints, each rendered twice; single faults: imported schema invalid (any mutator), file unreadable, connection target missing / native, added dependency missing / imported / not a checkpoint, cycle closed through a connection, checkpoint with threaded context added through a connection; distinct by scenario",
        "samples": [{"kind": it.kind, "mutator": it.mutator, "implementation": it.res["outcome"], "model_accepts": it.model_accepts,
                     "imports": it.doc.get("imports")} for it in items[:1] + [x for x in items if x.kind == "mutant"][:2]],
        "trusted_base": ["harness/imports.py: generator / renderer of importing scenarios; writes the imported JSON files into the snapshot's schemas/gen/",
                         "namespacing is modelled as an id shift by a multiple of 1000 per import; import depth 1 (recursive imports are exercised by the shipped fixtures only)",
                         "rules that concern imported entities are checked by the model on the combined schema; the implementation validates imported schemas in isolation (known finding C16-imported-not-revalidated is avoided by the generator)"]})
    if not evaluated and not ctx.violations:
        kernel.obligation_violation(ctx, thms, "; ".join(ctx.notes[-3:]), {"correspondence": "Coq evaluation of import cases failed"})
    if not ok and not ctx.violations:
        kernel.obligation_violation(ctx, thms, log)
