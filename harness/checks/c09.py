"""C09: pipeline variables obey their traversal / thread scopes; pipelines neither read the object they write nor write
what operations set or checkpoints compare.  Theorems: Properties/C09.v about Model/PipeRules.v; tie: whole validator vs
model on conformant scenarios with pipelines, on single-fault mutants owned by C09 and on all (declaration scope, use
scope, read/write) placements in a 12-sibling traversal tree."""
import pipes
LEVEL = "proof"
OWNERS = ("C09",)


def families(ctx, rng):
    keys = pipes.all_placements()
    if ctx.tier == "quick":
        keys = rng.sample(keys, 64)
    items = pipes.make_family_items(rng, "placement", keys, lambda k: pipes.placement_scenario(*k))
    # the "own object" and "settable / compared attribute" faults in every variant and in both reference spellings
    # (their detection goes through reference normalisation)
    import random, engine, scenario as S, mutators as M
    n = 36 if ctx.tier == "quick" else 360
    seen = {}
    for i in range(n):
        name = ("p_read_own_object", "p_filter_reads_own_object", "p_write_settable_attribute", "p_checkpoint_compares_written")[i % 4]
        if name == "p_read_own_object":
            pipes.OWN_KIND, pipes.OWN_LOCAL = ("app", "trav", "filter")[(i // 4) % 3], ((i // 12) % 3 == 2)
        try:
            s, nm, owner, desc = pipes.mutate_p(rng, only=(name,), threads=(i % 3 == 0))
        finally:
            pipes.OWN_KIND, pipes.OWN_LOCAL = None, None
        g = "own%d" % i
        for sp in ("id", "alias"):
            r = {"spelling": sp, "shuffle": False, "descriptive": False, "seed": rng.randrange(1 << 30)}
            items.append(engine.Item(s, S.render(s, random.Random(r["seed"]), sp, False, False), "mutant", mutator=nm, owner=owner, desc=desc, render=r, group=g))
    return items


def run(ctx):
    pipes.run_check(
        ctx, owners=OWNERS, n_valid=60, n_mut=170, families=families,
        rule="conformant scenarios with 0-2 aggregation pipelines (half with thread groups; traversal depth <= 3, up to 12 siblings so that indices >= 10 occur; names reused across invisible scopes), single-fault mutants owned by C09 (harness/pipes.py: read / write out of scope, undeclared, redeclared visible name incl. thread variables, assignment to loop / thread / traversed variable, own object read by application, traversal or filter operand, settable output attribute, checkpoint comparing a written attribute, index >= 10 regressions accepted and rejected, duplicate sibling source), and placements (declaration scope x use scope x read/write over scopes [], [0], [1], [1,0], [1,0,0], [10], [10,0], [11]); non-trivial = every item with a pipeline; distinct by abstract scenario",
        trusted=[])
