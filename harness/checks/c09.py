"""C09: pipeline variables obey their traversal / thread scopes; pipelines neither read the object they write nor write
what operations set or checkpoints compare.  Theorems: Properties/C09.v about Model/PipeRules.v; tie: whole validator vs
model on conformant scenarios with pipelines, on single-fault mutants owned by C09 and on all (declaration scope, use
scope, read/write) placements in a 12-sibling traversal tree."""
import pipes
LEVEL = "proof"
OWNERS = ("C09",)


def families(ctx, rng):
    keys = pipes.all_placements()
    if ctx.tier == "quick":
        keys = rng.sample(keys, 64)
    return pipes.make_family_items(rng, "placement", keys, lambda k: pipes.placement_scenario(*k))


def run(ctx):
    pipes.run_check(
        ctx, owners=OWNERS, n_valid=60, n_mut=170, families=families,
        rule="conformant scenarios with 0-2 aggregation pipelines (half with thread groups; traversal depth <= 3, up to 12 siblings so that indices >= 10 occur; names reused across invisible scopes), single-fault mutants owned by C09 (harness/pipes.py: read / write out of scope, undeclared, redeclared visible name incl. thread variables, assignment to loop / thread / traversed variable, own object read by application, traversal or filter operand, settable output attribute, checkpoint comparing a written attribute, index >= 10 regressions accepted and rejected, duplicate sibling source), and placements (declaration scope x use scope x read/write over scopes [], [0], [1], [1,0], [1,0,0], [10], [10,0], [11]); non-trivial = every item with a pipeline; distinct by abstract scenario",
        trusted=[])
