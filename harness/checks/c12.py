"""C12: validation of a well-shaped document always returns a verdict.
Proof (partial by nature): the model's searches are total and their fuel is adequate (Properties/C12.v);
Python exceptions are a runtime behaviour the abstract model cannot exhibit.  Tie / search: arbitrarily
rewired well-shaped scenarios and single-reference rewirings of shipped schemas must never raise, and the
implementation's verdict is compared with the model's (a raise is a disagreement by definition)."""
import random, json, glob, os, copy, collections
import common, kernel, engine, impl, scenario as S, rewire as R

LEVEL = "proof"


def shipped_rewirings(ctx, rng, n):
    """single-reference rewirings of the shipped schemas (JSON level)"""
    import re
    docs = []
    files = sorted(glob.glob(os.path.join(ctx.repo_copy, "schemas", "test", "*.json")))
    bases = []
    for f in files:
        try:
            bases.append((os.path.basename(f), json.load(open(f))))
        except Exception:
            pass
    # ... and a small document importing each shipped schema (so that every kind of imported entity, thread groups and
    # pipelines included, can be wired into native positions)
    from corr import interp as _interp
    for f in files:
        rel = os.path.relpath(f, os.path.join(ctx.repo_copy, "schemas"))[:-5]
        d0 = _interp.importing_doc(rel)
        d0["actions"][0]["context"] = "thread_group:0"          # positions that exist only when present
        d0["object_promises"][0]["context"] = "thread_group:0"
        d0["checkpoints"][0]["context"] = "thread_group:0"
        bases.append(("imports:" + rel, d0))
    kinds = {"party": ("parties", "name"), "object_type": ("object_types", "name"), "object_promise": ("object_promises", "name"),
             "action": ("actions", "name"), "checkpoint": ("checkpoints", "alias"), "thread_group": ("thread_groups", "name")}
    def strings(x, p=()):
        if isinstance(x, dict):
            for k, v in x.items():
                yield from strings(v, p + (k,))
        elif isinstance(x, list):
            for i, v in enumerate(x):
                yield from strings(v, p + (i,))
        elif isinstance(x, str):
            yield p, x
    refpat = re.compile(r"^(schema:\{[^}]+\}\.)?(party|object_type|object_promise|action|checkpoint|thread_group):(\d+|\{[^}]+\})((\.[^.]+)*)$")
    cands = []
    for name, base in bases:
        targets = []
        for kind, (coll, af) in kinds.items():
            items = base.get(coll) or []
            for it in items[-2:]:
                if isinstance(it, dict) and "id" in it:
                    targets.append("%s:%s" % (kind, it["id"]))
                    if af in it:
                        targets.append("%s:{%s}" % (kind, it[af]))
            targets.append("%s:98765" % kind)
            # qualified by a schema that is not loaded (no such file / a file nobody imports)
            targets.append("schema:{no_such_import}.%s:0" % kind)
            targets.append("schema:{test/small_example_schema}.%s:0" % kind)
        # entities of the files the document imports, under their schema qualifier (any kind at any position: e.g. an
        # action of the document whose context is a thread group of an imported schema)
        for imp in base.get("imports") or []:
            fn = imp.get("file_name") if isinstance(imp, dict) else None
            path = os.path.join(ctx.repo_copy, "schemas", "%s.json" % fn) if isinstance(fn, str) else None
            if not path or not os.path.exists(path):
                continue
            try:
                idoc = json.load(open(path))
            except Exception:
                continue
            for kind, (coll, af) in kinds.items():
                for it in (idoc.get(coll) or [])[-2:]:
                    if isinstance(it, dict) and "id" in it:
                        targets.append("schema:{%s}.%s:%s" % (fn, kind, it["id"]))
                        if af in it:
                            targets.append("schema:{%s}.%s:{%s}" % (fn, kind, it[af]))
        for p, sv in strings(base):
            m = refpat.match(sv)
            if m and not m.group(1):
                cands.append((name, base, p, sv, targets, m.group(4)))
    # systematically: every reference position of every importer document -> every imported entity of the kind the
    # position expects, plus two of other kinds
    systematic = []
    for name, base in bases:
        if not name.startswith("imports:"):
            continue
        fn = name[len("imports:"):]
        try:
            idoc = json.load(open(os.path.join(ctx.repo_copy, "schemas", fn + ".json")))
        except Exception:
            continue
        by_kind = {}
        for kind, (coll, af) in kinds.items():
            for it in (idoc.get(coll) or []):
                if isinstance(it, dict) and "id" in it:
                    by_kind.setdefault(kind, []).append("schema:{%s}.%s:%s" % (fn, kind, it["id"]))
                    if af in it and rng.random() < 0.5:
                        by_kind[kind].append("schema:{%s}.%s:{%s}" % (fn, kind, it[af]))
        allq = [t for ts in by_kind.values() for t in ts]
        for p, sv in strings(base):
            m = refpat.match(sv)
            if not m or m.group(1):
                continue
            same = by_kind.get(m.group(2), [])[:6]
            for t in same + (rng.sample(allq, min(2, len(allq))) if allq else []):
                d = copy.deepcopy(base)
                cur = d
                for k in p[:-1]:
                    cur = cur[k]
                cur[p[-1]] = t + m.group(4)
                systematic.append(({"file": name, "position": [str(x) for x in p], "from": sv, "to": t + m.group(4)}, d))
    rng.shuffle(cands)
    # documents with imports first (few shipped documents have any), then the rest
    cands.sort(key=lambda c: 0 if c[1].get("imports") else 1)
    head = [c for c in cands if c[1].get("imports")][:n // 3]
    rest = [c for c in cands if c not in head]
    rng.shuffle(rest)
    cands = head + rest
    for name, base, p, sv, targets, path in cands[:n]:
        t = rng.choice(targets)
        d = copy.deepcopy(base)
        cur = d
        for k in p[:-1]:
            cur = cur[k]
        cur[p[-1]] = t + path
        docs.append(({"file": name, "position": [str(x) for x in p], "from": sv, "to": t + path}, d))
    return docs + (systematic if len(systematic) <= 4000 else rng.sample(systematic, 4000))


def comparison_grid(ctx):
    """every comparison (left, operator, right) over literals of the 9 JSON shapes and the attribute routes of C04
    (direct / edge / collection x 8 types, bare promise, undeclared path), literal or route on either side; and every
    single reference of the shipped schemas qualified by a schema that is not loaded"""
    import checks.c04 as c04
    R = c04.routes()
    lits = [("lit:" + sh, None) for sh in c04.LIT_SHAPES]
    short = [r for r in R if r[0].startswith("direct:") or r[0] in ("bare", "undeclared")]
    cells = [(l, o, r) for l in lits for o in S.OPS for r in short + lits] + [(l, o, r) for l in short for o in S.OPS for r in lits]
    if ctx.tier != "quick":
        cells += [(l, o, r) for l in R for o in S.OPS for r in R]
    out = []
    for (l, o, r) in cells:
        s = c04.cell_scenario(l, o, r)
        out.append(({"comparison": "%s %s %s" % (l[0], o, r[0])}, S.render(s, random.Random(1), spelling="id")))
    return out


def kf_negative_id():
    """witness of known finding C12-negative-id-reached-by-alias"""
    act = lambda i, **kw: dict({"id": i, "name": "a%d" % i, "object_promise": "object_promise:%d" % i, "description": "d", "party": "party:{P}",
                                "operation": {"include": ["name"]}}, **kw)
    cmp_ = lambda ref, v: {"compare": {"left": {"ref": ref}, "operator": "EQUALS", "right": {"value": v}}}
    return {"standard": "x", "terms": [], "parties": [{"id": 0, "name": "P"}], "pipelines": [],
            "object_types": [{"id": 0, "name": "T", "attributes": [{"name": "name", "type": "STRING"}, {"name": "l", "type": "NUMERIC_LIST"}]}],
            "object_promises": [{"id": 0, "name": "op0", "object_type": "object_type:{T}"},
                                {"id": 1, "name": "op1", "object_type": "object_type:{T}", "context": "thread_group:{g}"}],
            "actions": [act(0), act(1, context="thread_group:{g}", depends_on="checkpoint:7")],
            "checkpoints": [{"id": 3, "alias": "c3", "description": "d", "dependencies": [cmp_("action:0.object_promise.name", "x")]},
                            {"id": 7, "alias": "c7", "description": "d", "context": "thread_group:{g}", "dependencies": [cmp_("$v", 1)]}],
            "thread_groups": [{"id": -1, "name": "g", "description": "d", "depends_on": "checkpoint:3", "spawn": {"foreach": "object_promise:0.l", "as": "$v"}}]}


def pipeline_rewirings(ctx, rng, n):
    """conformant scenarios WITH aggregation pipelines, scrambled by the same rewirings (attribute retyping and
    cross-kind retargeting change what the pipelines' sources, steps and outputs resolve to), plus rewirings of the
    pipelines' own references"""
    import pipes
    out = []
    for i in range(n):
        s, b = pipes.gen_valid_p(rng, threads=(i % 2 == 1), n_pipes=rng.choice([1, 2]))
        s2, how = R.rewire(rng, s, rng.choice([1, 2, 3, 5]))
        for pl in s2.get("pipelines", []):
            if rng.random() < 0.3:
                pl["promise"] = R.any_ref(rng, s2, None if rng.random() < 0.5 else ["promise"])
                how.append("retarget pipeline.object_promise")
        r = {"spelling": "mixed", "shuffle": i % 2 == 1, "seed": rng.randrange(1 << 30)}
        out.append(({"rewirings": "; ".join(how)[:160], "render": r, "pipelines": len(s2.get("pipelines", []))},
                    S.render(s2, random.Random(r["seed"]), r["spelling"], r["shuffle"], False)))
    return out


def many_siblings(ctx):
    """documents with more than ten pipelines, checkpoints, thread groups (positions are addressed by index paths such
    as root.pipelines[10]: two-digit indices)"""
    import pipes, copy
    cell = next(c for c in pipes.all_cells() if pipes.cell_expected(c) and c[0] == "NUMERIC" and c[4] is None)
    base = S.render(pipes.cell_scenario(cell), random.Random(1), "id", False, False)
    out = []
    for n in (9, 10, 11, 12, 13):
        d = copy.deepcopy(base)
        p1 = next(p for p in d["object_promises"] if p["id"] == 1)
        a1 = next(a for a in d["actions"] if a["object_promise"].endswith(":1") or a["object_promise"].endswith("{%s}" % p1["name"]))
        pl = d["pipelines"][0]
        for k in range(20, 20 + n - 1):
            d["object_promises"].append(dict(copy.deepcopy(p1), id=k, name="promise %d" % k))
            d["actions"].append(dict(copy.deepcopy(a1), id=k, name="action %d" % k, object_promise="object_promise:%d" % k))
            d["pipelines"].append(dict(copy.deepcopy(pl), id=k, name="pipeline %d" % k, object_promise="object_promise:%d" % k))
        out.append(({"pipelines": n}, d))
    return out


def run(ctx):
    ok, thms, log = kernel.proof_step(ctx, regen=("tables",))
    rng = random.Random(ctx.seed)
    quick = ctx.tier == "quick"
    items = []
    n = 500 if quick else 6000
    for i in range(n):
        base = S.gen_valid(rng, threads=(i % 3 != 0))
        s, how = R.rewire(rng, base, rng.choice([1, 1, 2, 3, 5, 8]))
        r = {"spelling": "mixed", "shuffle": i % 2 == 1, "descriptive": False, "seed": rng.randrange(1 << 30)}
        doc = S.render(s, random.Random(r["seed"]), r["spelling"], r["shuffle"], False)
        items.append(engine.Item(s, doc, "rewired", mutator="; ".join(how)[:120], owner="C12", desc="rewired", render=r, group=engine.scen_hash(s)))
    evaluated = engine.run_items(ctx, items)
    ship = shipped_rewirings(ctx, rng, 600 if quick else 6000)
    ship += comparison_grid(ctx)
    ship += pipeline_rewirings(ctx, rng, 400 if quick else 4000)
    ship += many_siblings(ctx)
    kf_doc = kf_negative_id()
    ship.append(({"known_finding": "C12-negative-id-reached-by-alias"}, kf_doc))
    pool = impl.Pool(ctx)
    ship_res = pool.validate_many([d for _, d in ship])
    pool.close()
    raised = [(it.res, {"rewirings": it.mutator, "render": it.render, "scenario": it.scenario}, it.doc) for it in items if it.res["outcome"] == "raise"]
    kf_hit = False
    for (meta, d), r in zip(ship, ship_res):
        if r["outcome"] != "raise":
            continue
        if meta.get("known_finding") and r["exc"]["type"] == "Exception" and "Invalid ref: thread_group:-" in r["exc"]["msg"]:
            kf_hit = True
            continue
        raised.append((r, meta, d))
    if kf_hit:
        ctx.known_finding("an entity with a negative id that is referenced by its name makes validation raise 'Invalid ref: thread_group:-1' (the id spelling the validator normalises to is outside the reference grammar); witness: checks/c12.py kf_negative_id")
    seen = set()
    for res, meta, doc in raised:
        key = (res["exc"]["type"], res["exc"]["where"])
        if key in seen:
            continue
        seen.add(key)
        if len(seen) > 5:
            break
        ctx.violation({"what": "validation of a well-shaped document raises instead of returning a verdict",
                       "exception": res["exc"], "how_obtained": meta, "document": doc})
    # verdict agreement with the model on rewired scenarios (diagnostic unless it is a raise)
    dis = [it for it in items if it.model_accepts is not None and it.res["outcome"] != "raise" and (it.res["outcome"] == "accept") != it.model_accepts]
    cov = ctx.coverage
    cov.update({
        "evaluations": len(items) + len(ship), "distinct_nontrivial": len(set(it.group for it in items)) + len(set(json.dumps(m, sort_keys=True) for m, _ in ship)),
        "rule": "conformant scenarios (two thirds with thread groups) scrambled by 1-8 rewirings: any reference retargeted to any existing or missing entity of any kind, id / name collisions, attribute retyping, gate / operator / literal / operand rewrites, arbitrary (also cyclic) checkpoint nesting, arbitrary (also cyclic) thread-group contexts and spawn sources, operations rewritten; plus single-reference rewirings of every shipped schema (JSON level, both spellings, missing targets, targets qualified by a schema that is not loaded) and the grid of all comparisons over 9 literal shapes and the attribute routes with literals on either side; every case keeps the JSON shapes the specification requires; distinct by scenario / by (file, position, target)",
        "samples": engine.sample_of(items[:2]) + [ship[0][0]] if ship else engine.sample_of(items[:2]),
        "disagreements_checked": len(raised),
        "outcomes": dict(collections.Counter(it.res["outcome"] for it in items)), "shipped_outcomes": dict(collections.Counter(r["outcome"] for r in ship_res)),
        "model_verdict_divergences_on_rewired_scenarios(diagnostic)": len(dis),
        "divergence_examples": [{"rewirings": it.mutator, "implementation": it.res["outcome"], "errors": it.res["errors"][:2], "model_accepts": it.model_accepts} for it in dis[:5]],
        "trusted_base": ["harness/rewire.py: scrambler that preserves structural shape", "Python exceptions and the interpreter's recursion limit are runtime behaviour outside the Gallina model; they are observed, not proved absent"]})
    if not evaluated:
        ctx.notes.append("some rewired scenarios could not be evaluated in Coq (diagnostic comparison only)")
    if not ok and not ctx.violations:
        kernel.obligation_violation(ctx, thms, log)
