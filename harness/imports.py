"""Imports (C16): importing scenarios = a native scenario whose references may point into imported scenarios
(ids shifted by the import's base, a multiple of 1000 — the model's image of `schema:{file}.kind:id`), the
imported scenarios themselves (written as JSON files under <snapshot>/schemas/gen/), and connections."""
import os, json, copy, random, hashlib
import scenario as S, mutators as M

OFF = 1000


class IRenderer(S.Renderer):
    """Renders the native part; references with id >= OFF are spelled schema:{file}.kind:id"""

    def __init__(self, s, imports, rng=None, spelling="mixed", shuffle=False, descriptive=False):
        super().__init__(s, rng, spelling, shuffle, descriptive)
        self.imports = imports          # base -> (file_name, imported scenario)
        self.inames = {}
        for base, (fname, isc) in imports.items():
            r = S.Renderer(isc)
            self.inames[base] = r.names

    def ref(self, r, force=None):
        kind, i = r
        if i >= OFF and (i // OFF) * OFF in self.imports:
            base = (i // OFF) * OFF
            fname, isc = self.imports[base]
            local = i - base
            mode = force or self.spelling
            if mode == "mixed":
                mode = "alias" if self.rng.random() < 0.5 else "id"
            if mode == "alias" and (kind, local) in self.inames[base]:
                return "schema:{%s}.%s:{%s}" % (fname, S.JSON_KIND[kind], self.inames[base][(kind, local)])
            return "schema:{%s}.%s:%d" % (fname, S.JSON_KIND[kind], local)
        return super().ref(r, force)


def file_name_for(isc, salt):
    h = hashlib.sha1((json.dumps(isc, sort_keys=True, default=str) + str(salt)).encode()).hexdigest()[:12]
    return "gen/imp%s" % h


def gen_valid_i(rng, threads=False):
    for _ in range(30):
        case = _gen_valid_i(rng, threads)
        if not S.has_duplicate_composite(case["native"]):
            return case
    raise RuntimeError("could not generate an importing scenario without duplicate checkpoints")


def _gen_valid_i(rng, threads=False):
    """-> dict(native=scenario, builder=native builder, imports=[dict(base, schema, builder, conns, file)])"""
    n_imp = rng.choice([1, 2, 2])
    imports = []
    for k in range(n_imp):
        isc, ib = S.gen_valid(rng, rng.choice([2, 3, 4]), threads=(threads and rng.random() < 0.4), builder=True)
        imports.append({"base": OFF * (k + 1), "schema": isc, "builder": ib, "conns": [], "file": None, "write": True})
    native, nb = S.gen_valid(rng, rng.choice([2, 3, 4, 5]), threads=threads, builder=True)
    tainted = set()    # native actions that (transitively) depend on imported entities
    next_id = lambda coll: max([e["id"] for e in native[coll]] + [0]) + 1
    # native actions depending on imported actions
    for imp in imports:
        if rng.random() < 0.7:
            ib, base = imp["builder"], imp["base"]
            # (an imported action that appends objects must not become a dependency: that rule is only
            #  enforced inside the imported schema -- recorded known finding C16-imported-not-revalidated)
            xs = [a for a in imp["schema"]["actions"] if a["ctx"] is None and a["op"]["appends"] is None]
            if not xs:
                continue
            x = rng.choice(xs)
            ikeys = set(S.composite_key(c) for c in imp["schema"]["checkpoints"])
            for _try in range(20):
                cmp_, _ = ib.make_cmp(x["id"])
                # uniqueness of checkpoints is per schema file; keep the combined model's stricter check quiet
                if S.composite_key({"gate": None, "deps": [cmp_]}) not in ikeys:
                    break
            else:
                continue
            sh = lambda o: ("act", ("action", base + o[1][1]), o[2]) if o[0] == "act" else o
            cmp_ = ("cmp", sh(cmp_[1]), cmp_[2], sh(cmp_[3]))
            aid, pid, cid = next_id("actions"), next_id("promises"), next_id("checkpoints")
            t = rng.choice(native["otypes"])
            tref = ("type", t["id"])
            pref = ("party", native["parties"][0]["id"])
            if rng.random() < 0.4:
                # the native promise is of an IMPORTED object type (ids of imported and native types overlap)
                t = rng.choice(imp["schema"]["otypes"])
                tref = ("type", base + t["id"])
            if rng.random() < 0.4:
                pref = ("party", base + rng.choice(imp["schema"]["parties"])["id"])     # ... acted on by an imported party
            xp = next((q for q in imp["schema"]["promises"] if q["id"] == x["promise"][1]), None)
            edits_imported = (rng.random() < 0.3 and xp is not None and xp["ctx"] is None and ib.creator.get(xp["id"]) == x["id"]
                              and not any(y["promise"] == x["promise"] and y is not x for y in imp["schema"]["actions"]))
            if edits_imported:
                # the native action EDITS the imported promise that x creates (x is its ancestor through the checkpoint);
                # native and imported promise ids overlap
                t = next(tt for tt in imp["schema"]["otypes"] if tt["id"] == xp["type"][1])
                prom_ref = ("promise", base + xp["id"])
            else:
                native["promises"].append({"id": pid, "name": 300 + pid, "type": tref, "ctx": None})
                prom_ref = ("promise", pid)
            native["checkpoints"].append({"id": cid, "alias": 500 + cid, "gate": None, "deps": [cmp_], "ctx": None})
            native["actions"].append({"id": aid, "name": 400 + aid, "party": pref, "promise": prom_ref,
                                      "ctx": None, "dep": ("checkpoint", cid),
                                      "op": {"incl": ("include", [t["attrs"][0]["name"]]), "defaults": [], "edges": [], "appends": None}, "milestones": []})
            nb.anc[aid] = set()
            if not edits_imported:
                nb.creator[pid] = aid
            tainted.add(aid)
            imp.setdefault("dependents", []).append((aid, x["id"]))
    # connections: each adds a fresh native checkpoint on an untainted native action
    for imp in imports:
        isc = imp["schema"]
        targets = [("action", a["id"]) for a in isc["actions"] if a["ctx"] is None] + [("checkpoint", c["id"]) for c in isc["checkpoints"] if c["ctx"] is None]
        rng.shuffle(targets)
        for tgt in targets[:rng.choice([0, 1, 1, 2, 2, 3, 4])]:
            clean = [a["id"] for a in native["actions"] if a["ctx"] is None and a["id"] not in tainted and not (nb.anc.get(a["id"], set()) & tainted)
                     and a["op"]["appends"] is None]
            if not clean:
                break
            a = rng.choice(clean)
            cid = next_id("checkpoints")
            native["checkpoints"].append({"id": cid, "alias": 500 + cid, "gate": None, "deps": [nb.make_cmp(a)[0]], "ctx": None})
            imp["conns"].append({"to": tgt, "add": ("checkpoint", cid), "render_native_target": None})
    return {"native": native, "builder": nb, "imports": imports}


def render_i(case, repo_copy, rng=None, spelling="mixed", shuffle=False, descriptive=False):
    """writes the imported files into the snapshot and returns the native document"""
    rng = rng or random.Random(0)
    imap = {}
    for imp in case["imports"]:
        fname = imp["file"] or file_name_for(imp["schema"], rng.random())
        imp["file"] = fname
        imap[imp["base"]] = (fname, imp["schema"])
        path = os.path.join(repo_copy, "schemas", fname + ".json")
        os.makedirs(os.path.dirname(path), exist_ok=True)
        if imp.get("write", True):
            idoc = S.render(imp["schema"], random.Random(rng.randrange(1 << 30)), spelling, False, False)
            with open(path, "w") as f:
                json.dump(idoc, f)
        elif os.path.exists(path):
            os.remove(path)
    r = IRenderer(case["native"], imap, rng, spelling, shuffle, descriptive)
    doc = r.render()
    doc["imports"] = []
    for imp in case["imports"]:
        conns = []
        for c in imp["conns"]:
            if c.get("render_native_target") is not None:
                to = r.ref(c["render_native_target"])
            else:
                to = r.ref((c["to"][0], imp["base"] + c["to"][1]))
                if c["to"][1] >= 900:       # a target that does not exist in the imported schema
                    to = "schema:{%s}.%s:%d" % (imp["file"], S.JSON_KIND[c["to"][0]], c["to"][1])
            conns.append({"to_ref": to, "add_dependency": r.ref(c["add"])})
        e = {"file_name": imp["file"]}
        if shuffle:
            rng.shuffle(conns)          # connections are order-free
        if conns or rng.random() < 0.5:
            e["connections"] = conns
        doc["imports"].append(e)
    if shuffle:
        rng.shuffle(doc["imports"])
    return doc


def to_coq_i(case):
    ims = []
    for imp in case["imports"]:
        conns = S.cq_list("(Build_conn %s %s)" % (S.cq_ref(c["to"]), S.cq_ref(c["add"])) for c in imp["conns"])
        ims.append("(Build_import %d %s %s %s)" % (imp["base"], "false" if imp.get("unreadable") else "true", S.to_coq(imp["schema"]), conns))
    return "(%s, %s)" % (S.to_coq(case["native"]), S.cq_list(ims))


COQ_HEADER_I = S.COQ_HEADER.replace("Model.Rules Gen.Tables", "Model.Rules Model.Imports Gen.Tables")


def coq_cases_file_i(cases, impl_accepts):
    lines = [COQ_HEADER_I, "Definition cases : list ((schema * list import) * bool) := ["]
    lines.append(";\n".join("  (%s, %s)" % (to_coq_i(c), "true" if a else "false") for c, a in zip(cases, impl_accepts)))
    lines.append("].")
    lines.append("Fixpoint failing (i : nat) (l : list ((schema * list import) * bool)) : list nat :=")
    lines.append("  match l with [] => [] | ((n, ims), b) :: r => (if Bool.eqb (if has_cycle (combine n ims) then false else conforms_i_kf default_value_table n ims) b then [] else [i]) ++ failing (S i) r end.")
    lines.append("Fixpoint kfhits (i : nat) (l : list ((schema * list import) * bool)) : list nat :=")
    lines.append("  match l with [] => [] | ((n, ims), b) :: r => (if has_cycle (combine n ims) then [] else if Bool.eqb (conforms_i_kf default_value_table n ims) (conforms_i default_value_table n ims) then [] else [i]) ++ kfhits (S i) r end.")
    lines.append("Eval vm_compute in (failing 0 cases).")
    lines.append("Eval vm_compute in (kfhits 0 cases).")
    return "\n".join(lines) + "\n"


def per_file_uniqueness_twins(rng, n):
    """[(case as generated, twin)]: in the twin a native checkpoint repeats gate type and dependencies of an IMPORTED
    checkpoint that a connection targets.  Uniqueness domains are per schema file, so the twin is as conformant as the
    original; stitching the connection generates a checkpoint carrying the imported checkpoint's dependencies, which is
    bookkeeping of the validator and no part of any document.  (The combined model of Model/Imports.v compares
    composites across files, so the twin is judged on the implementation alone, against its sibling.)"""
    import copy
    out, tries = [], 0
    while len(out) < n and tries < 200 * n:
        tries += 1
        case = gen_valid_i(rng, threads=False)
        nat, nb = case["native"], case["builder"]
        for imp in case["imports"]:
            base = imp["base"]
            targeted = {c["to"][1] for c in imp["conns"] if c["to"][0] == "checkpoint"}
            cands = [c for c in imp["schema"]["checkpoints"] if c["ctx"] is None and c["id"] in targeted and all(d[0] == "cmp" for d in c["deps"])]
            deps_ = [(aid, xid) for aid, xid in imp.get("dependents", [])
                     if any(a["id"] == aid and a["promise"][1] < OFF for a in nat["actions"])]
            if not cands or not deps_:
                continue
            c = rng.choice(cands)
            aid, _ = rng.choice(deps_)
            twin = {"native": copy.deepcopy(nat), "builder": nb, "imports": [dict(i, conns=copy.deepcopy(i["conns"])) for i in case["imports"]]}
            a = next(x for x in twin["native"]["actions"] if x["id"] == aid)
            cp = next(x for x in twin["native"]["checkpoints"] if x["id"] == a["dep"][1])
            sh = lambda o: ("act", ("action", base + o[1][1]), o[2]) if o[0] == "act" else o
            cp["deps"] = [("cmp", sh(d[1]), d[2], sh(d[3])) for d in c["deps"]]
            cp["gate"] = c["gate"]
            if S.has_duplicate_composite(twin["native"]):
                continue
            out.append((case, twin, {"import_base": base, "imported_checkpoint": c["id"], "native_checkpoint": cp["id"]}))
            break
    return out


# ----------------------------------------------------------------------------------------------- single faults (C16)
IMUT = {}


def imut(f):
    IMUT[f.__name__] = f
    return f


@imut
def imported_schema_invalid(rng, case):
    imp = rng.choice(case["imports"])
    # (faults that only show when references are spelled alike are left out: the imported file is rendered with mixed spelling)
    names = [n for n in sorted(M.MUTATORS) if n not in M.THREAD_ONLY and n not in M.FORCE_ID_SPELLING and not n.startswith("p_")]
    for _ in range(30):
        name = rng.choice(names)
        s2 = copy.deepcopy(imp["schema"])
        b2 = copy.copy(imp["builder"])
        b2.s = s2
        try:
            desc = M.MUTATORS[name][1](rng, s2, b2)
        except Exception:
            desc = None
        if desc:
            imp["schema"] = s2
            return "imported schema is itself invalid (%s)" % desc
    return None


@imut
def import_unreadable(rng, case):
    imp = rng.choice(case["imports"])
    imp["write"] = False
    imp["unreadable"] = True
    return "imported file cannot be read"


@imut
def connection_target_missing(rng, case):
    imp = rng.choice(case["imports"])
    add = _fresh_native_cp(rng, case)
    imp["conns"].append({"to": (rng.choice(["action", "checkpoint"]), 900 + rng.randrange(50)), "add": add, "render_native_target": None})
    return "connection target is not in the imported schema"


@imut
def connection_target_native(rng, case):
    imp = rng.choice(case["imports"])
    add = _fresh_native_cp(rng, case)
    a = rng.choice(case["native"]["actions"])
    imp["conns"].append({"to": ("action", 950), "add": add, "render_native_target": ("action", a["id"])})
    return "connection target is a native action"


@imut
def connection_target_in_other_import(rng, case):
    """a connection listed under one import whose to_ref points into ANOTHER loaded import"""
    if len(case["imports"]) < 2:
        return None
    imp, other = rng.sample(case["imports"], 2)
    tgt = _some_target(rng, other)
    if tgt is None:
        return None
    add = _fresh_native_cp(rng, case)
    # for the model: the target is not in this import's schema; for the renderer: spell it inside the other import
    imp["conns"].append({"to": (tgt[0], 950), "add": add, "render_native_target": (tgt[0], other["base"] + tgt[1])})
    return "connection target belongs to a different imported schema than the import entry it is listed under"


@imut
def duplicate_connection_target(rng, case):
    """two connections of one import entry target the same object (each spelled on its own: by id or by alias)"""
    cands = [imp for imp in case["imports"] if imp["conns"] and all(c.get("render_native_target") is None for c in imp["conns"])]
    if not cands:
        imp = rng.choice(case["imports"])
        tgt = _some_target(rng, imp)
        if tgt is None:
            return None
        imp["conns"].append({"to": tgt, "add": _fresh_native_cp(rng, case), "render_native_target": None})
    else:
        imp = rng.choice(cands)
    tgt = rng.choice(imp["conns"])["to"]
    imp["conns"].append({"to": tgt, "add": _fresh_native_cp(rng, case), "render_native_target": None})
    return "two connections of one import target the same object"


@imut
def add_dependency_not_native_checkpoint(rng, case):
    imp = rng.choice(case["imports"])
    tgt = _some_target(rng, imp)
    if tgt is None:
        return None
    choice = rng.random()
    if choice < 0.2:
        add = ("checkpoint", 900 + rng.randrange(50))
    elif choice < 0.4:
        # the next free checkpoint ids of the native schema: where stitched checkpoints land
        add = ("checkpoint", max([c["id"] for c in case["native"]["checkpoints"]] + [0]) + rng.choice([1, 1, 2, 3]))
    elif choice < 0.7 and imp["schema"]["checkpoints"]:
        add = ("checkpoint", imp["base"] + rng.choice(imp["schema"]["checkpoints"])["id"])
    else:
        add = ("action", rng.choice(case["native"]["actions"])["id"])
    imp["conns"].append({"to": tgt, "add": add, "render_native_target": None})
    return "added dependency is not a native checkpoint"


@imut
def cycle_through_connection(rng, case):
    """native action a depends on imported action x; the connection makes x depend on a checkpoint mentioning a"""
    cands = [(imp, a, x) for imp in case["imports"] for (a, x) in imp.get("dependents", [])]
    if not cands:
        return None
    imp, a, x = rng.choice(cands)
    if any(c["to"] == ("action", x) for c in imp["conns"]):
        return None
    native, nb = case["native"], case["builder"]
    cid = max(c["id"] for c in native["checkpoints"]) + 1
    ptype = {p["id"]: p["type"][1] for p in native["promises"]}
    act = next(y for y in native["actions"] if y["id"] == a)
    if ptype.get(act["promise"][1], OFF) < OFF:
        cmp_ = nb.make_cmp(a)[0]
    else:       # a native promise of an imported object type: the native builder has no path table for it
        cmp_ = ("cmp", ("act", ("action", a), []), rng.choice(["EQUALS", "DOES_NOT_EQUAL"]), ("lit", "SNull", nb.fresh()))
    native["checkpoints"].append({"id": cid, "alias": 500 + cid, "gate": None, "deps": [cmp_], "ctx": None})
    imp["conns"].append({"to": ("action", x), "add": ("checkpoint", cid), "render_native_target": None})
    return "dependency cycle closed through a connection"


@imut
def cycle_among_imported_actions_only(rng, case):
    """The added native checkpoint compares an imported action x, and the connection's target is x itself or an action
    x depends on: the cycle runs through imported actions and one native checkpoint only -- no native action is on it
    or downstream of it."""
    imp = rng.choice(case["imports"])
    ib, base, isc = imp["builder"], imp["base"], imp["schema"]
    xs = [a for a in isc["actions"] if a["ctx"] is None and a["op"]["appends"] is None]
    if not xs:
        return None
    x = rng.choice(xs)
    plain = set(a["id"] for a in isc["actions"] if a["ctx"] is None)
    ys = [x["id"]] + sorted(ib.anc.get(x["id"], set()) & plain)
    y = rng.choice(ys)
    if any(c["to"] == ("action", y) for c in imp["conns"]):
        return None
    native = case["native"]
    keys = set(S.composite_key(c) for c in isc["checkpoints"]) | set(S.composite_key(c) for c in native["checkpoints"])
    sh = lambda o: ("act", ("action", base + o[1][1]), o[2]) if o[0] == "act" else o
    for _ in range(20):
        cmp_, _two = ib.make_cmp(x["id"])
        if S.composite_key({"gate": None, "deps": [cmp_]}) in keys:
            continue
        cmp_ = ("cmp", sh(cmp_[1]), cmp_[2], sh(cmp_[3]))
        if S.composite_key({"gate": None, "deps": [cmp_]}) in keys:
            continue
        cid = max(c["id"] for c in native["checkpoints"] + [{"id": 0}]) + 1
        native["checkpoints"].append({"id": cid, "alias": 500 + cid, "gate": None, "deps": [cmp_], "ctx": None})
        imp["conns"].append({"to": ("action", y), "add": ("checkpoint", cid), "render_native_target": None})
        return "dependency cycle through a connection that involves imported actions only"
    return None


@imut
def add_dependency_names_a_generated_id(rng, case):
    """One connection makes stitching generate a checkpoint (target = an imported checkpoint, or an imported action
    that already has a dependency); ANOTHER connection's add_dependency names a checkpoint id that exists in no
    document -- the next free id, which the generated checkpoint receives."""
    native = case["native"]
    imp = rng.choice(case["imports"])
    isc = imp["schema"]
    used = set(c["to"] for c in imp["conns"])
    generating = [c for c in imp["conns"] if c.get("render_native_target") is None and
                  (c["to"][0] == "checkpoint" or next((a for a in isc["actions"] if a["id"] == c["to"][1]), {"dep": None})["dep"] is not None)]
    if not generating:
        gens = [("checkpoint", c["id"]) for c in isc["checkpoints"] if c["ctx"] is None] + \
               [("action", a["id"]) for a in isc["actions"] if a["ctx"] is None and a["dep"] is not None]
        gens = [t for t in gens if t not in used]
        if not gens:
            return None
        t = rng.choice(gens)
        imp["conns"].append({"to": t, "add": _fresh_native_cp(rng, case), "render_native_target": None})
        used.add(t)
        generating = [imp["conns"][-1]]
    tgt = _some_target(rng, imp)
    if tgt is None:
        return None
    n_gen = sum(1 for i2 in case["imports"] for c in i2["conns"] if c.get("render_native_target") is None and
                (c["to"][0] == "checkpoint" or next((a for a in i2["schema"]["actions"] if a["id"] == c["to"][1]), {"dep": None})["dep"] is not None))
    top = max(c["id"] for c in native["checkpoints"])
    imp["conns"].append({"to": tgt, "add": ("checkpoint", top + rng.randint(1, max(1, n_gen))), "render_native_target": None})
    return "add_dependency names the id that a checkpoint generated by stitching receives"


@imut
def native_checkpoint_compares_imported_threaded_action(rng, case):
    """A native checkpoint -- unbound, or bound to a native thread group that is given the SAME id as the imported
    action's thread group -- compares an action that is threaded inside an imported schema: out of scope in either
    case (thread groups of different schemas are different thread groups, whatever their ids)."""
    native, nb = case["native"], case["builder"]
    cands = [(imp, a) for imp in case["imports"] for a in imp["schema"]["actions"] if a["ctx"] is not None and a["op"]["appends"] is None]
    if not cands:
        return None
    imp, x = rng.choice(cands)
    ib, base = imp["builder"], imp["base"]
    for _ in range(20):
        cmp_, _two = ib.make_cmp(x["id"])
        if cmp_[1][0] == "act" and cmp_[3][0] == "lit" and cmp_[1][2]:
            break
    else:
        return None
    cmp_ = ("cmp", ("act", ("action", base + x["id"]), cmp_[1][2]), rng.choice(["CONTAINS", "DOES_NOT_CONTAIN"]) if False else cmp_[2], cmp_[3])
    cid = max(c["id"] for c in native["checkpoints"] + [{"id": 0}]) + 1
    gid_imported = x["ctx"][1]
    groups = [g for g in native["groups"]]
    holder = None
    ctx = None
    if groups and rng.random() < 0.7:
        G = rng.choice(groups)
        if G["id"] != gid_imported and not any(h["id"] == gid_imported for h in groups):
            # give the native group the imported group's id, consistently
            old = G["id"]

            def walk(v):
                if isinstance(v, (tuple, list)):
                    if len(v) == 2 and v[0] == "group" and v[1] == old:
                        return type(v)(("group", gid_imported))
                    return type(v)(walk(y) for y in v)
                if isinstance(v, dict):
                    return {k: walk(w) for k, w in v.items()}
                return v
            for key in list(native):
                native[key] = walk(native[key])
            for g in native["groups"]:
                if g["id"] == old:
                    g["id"] = gid_imported
                if g["src"][0] == "V" and g["src"][1] == old:
                    g["src"] = ("V", gid_imported, g["src"][2])
            for c in native["checkpoints"]:
                c["deps"] = [tuple(("var", gid_imported, o[2]) if (isinstance(o, (tuple, list)) and len(o) == 3 and o[0] == "var" and o[1] == old) else o for o in d) if d[0] == "cmp" else d
                             for d in c["deps"]]
            G = next(g for g in native["groups"] if g["id"] == gid_imported)
        ctx = ("group", G["id"])
        holders = [a for a in native["actions"] if a["ctx"] == ctx and a["dep"] is None and not a["op"]["edges"] and a["op"]["appends"] is None]
        holder = rng.choice(holders) if holders else None
        if holder is None:
            ctx = None
    if holder is None:
        holders = [a for a in native["actions"] if a["ctx"] is None and a["dep"] is None and a["op"]["appends"] is None and not a["op"]["edges"]]
        if not holders:
            return None
        holder = rng.choice(holders)
    native["checkpoints"].append({"id": cid, "alias": 500 + cid, "gate": None, "deps": [cmp_], "ctx": ctx})
    holder["dep"] = ("checkpoint", cid)
    return "native checkpoint (%s) compares an action threaded inside an imported schema" % ("bound to a native thread group with the imported group's id" if ctx else "unbound")


@imut
def scope_violation_through_connection(rng, case):
    """the added dependency is a checkpoint bound to a native thread group: the imported target is outside it"""
    native = case["native"]
    cps = [c for c in native["checkpoints"] if c["ctx"] is not None]
    if not cps:
        return None
    imp = rng.choice(case["imports"])
    tgt = _some_target(rng, imp)
    if tgt is None:
        return None
    imp["conns"].append({"to": tgt, "add": ("checkpoint", rng.choice(cps)["id"]), "render_native_target": None})
    return "connection adds a checkpoint bound to a thread group to an imported entity outside that group"


def _some_target(rng, imp):
    isc = imp["schema"]
    used = set(c["to"] for c in imp["conns"])
    targets = [t for t in [("action", a["id"]) for a in isc["actions"] if a["ctx"] is None] + [("checkpoint", c["id"]) for c in isc["checkpoints"] if c["ctx"] is None] if t not in used]
    return rng.choice(targets) if targets else None


def _fresh_native_cp(rng, case):
    native, nb = case["native"], case["builder"]
    ptype = {p["id"]: p["type"][1] for p in native["promises"]}
    plain = lambda x: ptype.get(x["promise"][1], OFF) < OFF        # the native builder knows only native object types
    a = rng.choice([x for x in native["actions"] if x["ctx"] is None and x["op"]["appends"] is None and plain(x)] or [x for x in native["actions"] if x["ctx"] is None and plain(x)])
    cid = max(c["id"] for c in native["checkpoints"] + [{"id": 0}]) + 1
    native["checkpoints"].append({"id": cid, "alias": 500 + cid, "gate": None, "deps": [nb.make_cmp(a["id"])[0]], "ctx": None})
    return ("checkpoint", cid)


def mutate_i(rng, only=None):
    names = sorted(IMUT) if not only else [n for n in sorted(IMUT) if n in only]
    for _ in range(30):
        name = rng.choice(names)
        for _ in range(30):
            case = gen_valid_i(rng, threads=(name in ("scope_violation_through_connection", "native_checkpoint_compares_imported_threaded_action") or rng.random() < 0.3))
            desc = IMUT[name](rng, case)
            if desc:
                return case, name, desc
    raise RuntimeError("no applicable import mutator")
